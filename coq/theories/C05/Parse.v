(* C05 — the factory's ElementTree queries read back exactly what to_tree wrote, for every
   rendering whose r_perm permutes: parse_* (to_tree d) = the definition, as p_* structures. *)
From Coq Require Import List Bool NArith ZArith Lia Permutation.
From AUC Require Import Prelude.PyStr C08.TypesDef C08.Model C05.Xml C05.Names C05.Model C05.Def C05.Spec C05.Lemmas.
Import ListNotations.

Fixpoint assoc {A} (n : pystr) (l : list (pystr * A)) : option A :=
  match l with [] => None | (k, v) :: r => if str_eqb k n then Some v else assoc n r end.

Lemma assoc_None_notin {A} n (l : list (pystr * A)) : assoc n l = None -> ~ In n (map fst l).
Proof.
  induction l as [|[k v] l IH]; cbn; [tauto|].
  destruct (str_eqb_spec k n); [discriminate|]. intros H [E|Hin]; [congruence | now apply IH].
Qed.
Lemma assoc_Some_in {A} n (l : list (pystr * A)) v : assoc n l = Some v -> In n (map fst l).
Proof.
  induction l as [|[k w] l IH]; cbn; [discriminate|].
  destruct (str_eqb_spec k n); [now left | intros H; right; now apply IH].
Qed.

(* ------------------------------------------------------------------ what the definition says, as read *)
Section POf.
  Variable r : rendering.

  Definition psv_of (v : sv_def) : p_sv :=
    {| pv_attr := if sd_attr v then Some (yes_no (sd_evented v)) else None;
       pv_child := if sd_attr v then None else Some (yes_no (sd_evented v));
       pv_dataType := Some (sd_type v);
       pv_default := sd_default v;
       pv_range := sd_range v;
       pv_allowed := option_map (flat_map (fun t => match t with [] => [] | _ => [t] end)) (sd_allowed v);
       pv_name := Some (pad_name r (sd_name v)) |}.
  Definition parg_of (a : arg_def) : pystr * pystr * pystr :=
    (ag_name a, if ag_in a then s_in else s_out, ag_rsv a).
  Definition paction_of (a : action_def) : p_action :=
    {| pa_name := Some (ad_name a); pa_args := map parg_of (ad_args a) |}.
  Definition pscpd_of (s : service_def) : fetched :=
    match s_corrupt s with
    | CNone => FDoc {| pd_root_ok := true; pd_table := Some (map psv_of (s_vars s));
                       pd_actions := map paction_of (s_actions s) |}
    | CUnparseable => FParseError
    | CForeignTag | CForeignRootNs =>
        FDoc {| pd_root_ok := false; pd_table := Some (map psv_of (s_vars s));
                pd_actions := map paction_of (s_actions s) |}
    | CForeignNs => FDoc {| pd_root_ok := false; pd_table := None; pd_actions := [] |}
    | CNoTable => FDoc {| pd_root_ok := true; pd_table := None; pd_actions := map paction_of (s_actions s) |}
    end.
  Definition pservice_of (s : service_def) : p_service :=
    {| ps_serviceType := Some (s_type s); ps_serviceId := Some (s_id s); ps_SCPDURL := Some (s_scpd s);
       ps_controlURL := Some (s_control s); ps_eventSubURL := Some (s_event s) |}.
  Definition picon_of (i : icon_def) : p_icon :=
    {| pi_mimetype := Some (ic_mime i); pi_width := Some (str_of_int (ic_w i));
       pi_height := Some (str_of_int (ic_h i)); pi_depth := Some (str_of_int (ic_d i)); pi_url := Some (ic_url i) |}.
  Definition phdr_of (h : dev_hdr) : p_hdr :=
    {| ph_deviceType := Some (h_type h); ph_friendlyName := Some (h_friendly h);
       ph_manufacturer := Some (h_manufacturer h); ph_manufacturerURL := h_manufacturer_url h;
       ph_modelDescription := h_model_desc h; ph_modelName := Some (h_model_name h);
       ph_modelNumber := h_model_number h; ph_modelURL := h_model_url h; ph_serialNumber := h_serial h;
       ph_UDN := Some (h_udn h); ph_UPC := h_upc h; ph_presentationURL := h_presentation h |}.
  Fixpoint pdev_of (d : device_def) : p_device :=
    match d with
    | DeviceDef h icons svcs subs =>
        PDev (phdr_of h) (map picon_of icons) (map pservice_of svcs) (map pdev_of subs)
    end.
End POf.

(* an induction principle that reaches the embedded devices *)
Fixpoint device_def_ind' (P : device_def -> Prop)
         (H : forall h i s subs, Forall P subs -> P (DeviceDef h i s subs)) (d : device_def) : P d :=
  match d with
  | DeviceDef h i s subs =>
      H h i s subs ((fix go (l : list device_def) : Forall P l :=
                       match l with
                       | [] => Forall_nil P
                       | x :: l' => Forall_cons x (device_def_ind' P H x) (go l')
                       end) subs)
  end.

Section Parse.
  Variable r : rendering.
  Hypothesis Hperm : forall l, Permutation (r_perm r l) l.

  (* ---------------------------------------------------------------- records *)
  Lemma tag_is_leaf ns n k t : tag_is ns n (leaf ns k t) = str_eqb k n.
  Proof. unfold tag_is, leaf. cbn. now rewrite str_eqb_refl. Qed.
  Lemma tag_is_cont ns n k a cs : tag_is ns n (cont r ns k a cs) = str_eqb k n.
  Proof. unfold tag_is, cont. cbn. now rewrite str_eqb_refl. Qed.
  Lemma text_leaf ns k t : text_or_empty (leaf ns k t) = t.
  Proof. unfold text_or_empty, leaf. cbn. now destruct t. Qed.

  Lemma render_fields_cons ns k o fs :
    render_fields ns ((k, o) :: fs) = match o with Some t => [leaf ns k t] | None => [] end ++ render_fields ns fs.
  Proof. reflexivity. Qed.
  Lemma render_subs_cons ns k o ss :
    render_subs r ns ((k, o) :: ss) = match o with Some cs => [cont r ns k [] cs] | None => [] end ++ render_subs r ns ss.
  Proof. reflexivity. Qed.

  Lemma filter_fields_notin ns n fs :
    ~ In n (map fst fs) -> filter (tag_is ns n) (render_fields ns fs) = [].
  Proof.
    induction fs as [|[k o] fs IH]; intros H; [reflexivity|]. cbn [map fst In] in H.
    rewrite render_fields_cons, filter_app, IH by tauto. rewrite app_nil_r.
    destruct o; cbn [filter]; [|reflexivity]. rewrite tag_is_leaf, str_eqb_neq; [reflexivity | tauto].
  Qed.
  Lemma filter_subs_notin ns n ss :
    ~ In n (map fst ss) -> filter (tag_is ns n) (render_subs r ns ss) = [].
  Proof.
    induction ss as [|[k o] ss IH]; intros H; [reflexivity|]. cbn [map fst In] in H.
    rewrite render_subs_cons, filter_app, IH by tauto. rewrite app_nil_r.
    destruct o; cbn [filter]; [|reflexivity]. rewrite tag_is_cont, str_eqb_neq; [reflexivity | tauto].
  Qed.
  Lemma filter_fields ns n fs :
    NoDup (map fst fs) ->
    filter (tag_is ns n) (render_fields ns fs) =
      match assoc n fs with Some (Some t) => [leaf ns n t] | _ => [] end.
  Proof.
    induction fs as [|[k o] fs IH]; intros H; [reflexivity|]. cbn [map fst] in H. inversion H; subst.
    rewrite render_fields_cons, filter_app. cbn [assoc]. destruct (str_eqb_spec k n) as [->|Hne].
    - rewrite filter_fields_notin by assumption. rewrite app_nil_r.
      destruct o; cbn [filter]; [|reflexivity]. now rewrite tag_is_leaf, str_eqb_refl.
    - rewrite IH by assumption.
      destruct o; cbn [filter app]; [|reflexivity]. now rewrite tag_is_leaf, (str_eqb_neq _ _ Hne).
  Qed.
  Lemma filter_subs ns n ss :
    NoDup (map fst ss) ->
    filter (tag_is ns n) (render_subs r ns ss) =
      match assoc n ss with Some (Some cs) => [cont r ns n [] cs] | _ => [] end.
  Proof.
    induction ss as [|[k o] ss IH]; intros H; [reflexivity|]. cbn [map fst] in H. inversion H; subst.
    rewrite render_subs_cons, filter_app. cbn [assoc]. destruct (str_eqb_spec k n) as [->|Hne].
    - rewrite filter_subs_notin by assumption. rewrite app_nil_r.
      destruct o; cbn [filter]; [|reflexivity]. now rewrite tag_is_cont, str_eqb_refl.
    - rewrite IH by assumption.
      destruct o; cbn [filter app]; [|reflexivity]. now rewrite tag_is_cont, (str_eqb_neq _ _ Hne).
  Qed.

  Definition rchildren ns fs ss := r_perm r (render_fields ns fs ++ render_subs r ns ss).

  Lemma children_record ns l a fs ss : x_children (record r ns l a fs ss) = rchildren ns fs ss.
  Proof. reflexivity. Qed.
  Lemma attrs_record ns l a fs ss : x_attrs (record r ns l a fs ss) = a.
  Proof. reflexivity. Qed.

  Lemma filter_record ns n fs ss :
    NoDup (map fst fs ++ map fst ss) ->
    filter (tag_is ns n) (rchildren ns fs ss) =
      match assoc n fs with
      | Some (Some t) => [leaf ns n t]
      | Some None => []
      | None => match assoc n ss with Some (Some cs) => [cont r ns n [] cs] | _ => [] end
      end.
  Proof.
    intros ND. destruct (NoDup_app_inv _ _ ND) as [ND1 [ND2 ND3]].
    assert (E : filter (tag_is ns n) (render_fields ns fs ++ render_subs r ns ss) =
                match assoc n fs with
                | Some (Some t) => [leaf ns n t]
                | Some None => []
                | None => match assoc n ss with Some (Some cs) => [cont r ns n [] cs] | _ => [] end
                end).
    { rewrite filter_app, filter_fields, filter_subs by assumption.
      destruct (assoc n fs) as [o|] eqn:E1.
      - assert (assoc n ss = None) as ->.
        { destruct (assoc n ss) eqn:E2; [|reflexivity]. exfalso.
          apply assoc_Some_in in E1. apply assoc_Some_in in E2. now apply (ND3 n). }
        destruct o; now rewrite ?app_nil_r.
      - reflexivity. }
    unfold rchildren. rewrite <- E. apply filter_perm_le1; [apply Hperm|].
    rewrite E. destruct (assoc n fs) as [[?|]|]; cbn; try lia. destruct (assoc n ss) as [[?|]|]; cbn; lia.
  Qed.

  Lemma findtext_field ns n fs ss o :
    NoDup (map fst fs ++ map fst ss) -> assoc n fs = Some o -> findtext ns n (rchildren ns fs ss) = o.
  Proof.
    intros ND E. unfold findtext, find1. rewrite find_hd_filter, filter_record, E by assumption.
    destruct o; cbn; [now rewrite text_leaf | reflexivity].
  Qed.
  Lemma find1_sub ns n fs ss o :
    NoDup (map fst fs ++ map fst ss) -> assoc n fs = None -> assoc n ss = Some o ->
    find1 ns n (rchildren ns fs ss) = option_map (cont r ns n []) o.
  Proof.
    intros ND E1 E2. unfold find1. rewrite find_hd_filter, filter_record, E1, E2 by assumption. now destruct o.
  Qed.
  Lemma findall1_sub ns n fs ss o :
    NoDup (map fst fs ++ map fst ss) -> assoc n fs = None -> assoc n ss = Some o ->
    findall1 ns n (rchildren ns fs ss) = match o with Some cs => [cont r ns n [] cs] | None => [] end.
  Proof. intros ND E1 E2. unfold findall1. now rewrite filter_record, E1, E2 by assumption. Qed.

  (* a list-valued child, read back with "./a/b" *)
  Lemma findall2_list {A} ns a b fs ss (f : A -> xml) (l : list A) :
    NoDup (map fst fs ++ map fst ss) -> assoc a fs = None -> assoc a ss = Some (list_sub r f l) ->
    (forall x, In x l -> tag_is ns b (f x) = true) ->
    findall2 ns a b (rchildren ns fs ss) = map f l.
  Proof.
    intros ND E1 E2 Hall. unfold findall2. rewrite (findall1_sub ns a fs ss _ ND E1 E2).
    unfold list_sub. destruct l as [|x l].
    - destruct (r_empty r); reflexivity.
    - cbn [flat_map]. rewrite app_nil_r. unfold cont. cbn [x_children]. unfold findall1. apply filter_all.
      intros y Hy. apply in_map_iff in Hy as [z [<- Hz]]. now apply Hall.
  Qed.

  Ltac nodup := apply nodupb_NoDup; reflexivity.
  Ltac rw_fields ND :=
    repeat match goal with
           | |- context [findtext ?ns ?n (rchildren ?ns ?fs ?ss)] =>
               rewrite (findtext_field ns n fs ss _ ND eq_refl)
           end.
  Ltac rw_subs ND :=
    repeat match goal with
           | |- context [find1 ?ns ?n (rchildren ?ns ?fs ?ss)] =>
               rewrite (find1_sub ns n fs ss _ ND eq_refl eq_refl)
           end.

  (* ---------------------------------------------------------------- service descriptions *)
  Lemma tag_is_record ns n k a fs ss : tag_is ns n (record r ns k a fs ss) = str_eqb k n.
  Proof. apply tag_is_cont. Qed.

  Lemma parse_sv_tree v : parse_sv (sv_tree r ns_service v) = psv_of r v.
  Proof.
    unfold parse_sv, sv_tree. cbv zeta. rewrite !children_record, attrs_record.
    assert (ND : NoDup (map fst (sv_fields r v) ++ map fst (sv_subs r ns_service v))) by nodup.
    rw_fields ND. rw_subs ND.
    unfold psv_of. f_equal.
    - cbn. destruct (sd_attr v); reflexivity.
    - destruct (sd_range v) as [[[mn mx] st]|]; cbn [option_map]; [|reflexivity].
      unfold cont. cbn [x_children]. unfold range_tree.
      assert (ND2 : NoDup (map fst [(n_minimum, mn); (n_maximum, mx); (n_step, st)] ++
                           map fst (@nil (pystr * option (list xml))))) by nodup.
      fold (rchildren ns_service [(n_minimum, mn); (n_maximum, mx); (n_step, st)] []).
      rw_fields ND2. reflexivity.
    - destruct (sd_allowed v) as [l|]; cbn [option_map]; [|reflexivity].
      unfold cont. cbn [x_children]. f_equal. unfold findall1.
      rewrite filter_all by (intros y Hy; apply in_map_iff in Hy as [z [<- _]]; now rewrite tag_is_leaf).
      induction l as [|t l IH]; cbn; [reflexivity|]. rewrite IH. now destruct t.
  Qed.

  Lemma parse_argument_tree a : parse_argument (arg_tree r ns_service a) = [parg_of a].
  Proof.
    unfold parse_argument, arg_tree. cbv zeta. rewrite !children_record.
    assert (ND : NoDup (map fst (arg_fields a) ++ map fst (@nil (pystr * option (list xml))))) by nodup.
    rw_fields ND. reflexivity.
  Qed.

  Lemma parse_action_tree a : parse_action (action_tree r ns_service a) = paction_of a.
  Proof.
    unfold parse_action, action_tree. cbv zeta. rewrite !children_record.
    set (fs := [(n_name, Some (ad_name a))]).
    set (ss := [(n_argumentList, list_sub r (arg_tree r ns_service) (ad_args a))]).
    assert (ND : NoDup (map fst fs ++ map fst ss)) by nodup.
    rw_fields ND.
    rewrite (findall2_list ns_service n_argumentList n_argument fs ss (arg_tree r ns_service) (ad_args a) ND eq_refl eq_refl)
      by (intros; apply tag_is_record).
    unfold paction_of. f_equal.
    induction (ad_args a) as [|g l IH]; cbn; [reflexivity|]. now rewrite parse_argument_tree, IH.
  Qed.

  Lemma parse_scpd_body rns root with_table s :
    parse_scpd (cont r rns root [] (x_children (record r ns_service root [] [] (scpd_subs r ns_service with_table s)))) =
      {| pd_root_ok := str_eqb rns ns_service && str_eqb root n_scpd;
         pd_table := if with_table then Some (map (psv_of r) (s_vars s)) else None;
         pd_actions := map paction_of (s_actions s) |}.
  Proof.
    unfold parse_scpd. cbv zeta. cbn [x_children cont]. rewrite !children_record.
    change (tag_is ns_service n_scpd (Elem rns root [] (r_ctext r) (rchildren ns_service [] (scpd_subs r ns_service with_table s))))
      with (str_eqb rns ns_service && str_eqb root n_scpd).
    set (ss := scpd_subs r ns_service with_table s).
    assert (ND : NoDup (map fst (@nil (pystr * option pystr)) ++ map fst ss)) by nodup.
    rewrite (find1_sub ns_service n_serviceStateTable [] ss _ ND eq_refl eq_refl).
    rewrite (find1_sub ns_service n_actionList [] ss _ ND eq_refl eq_refl).
    f_equal.
    - destruct with_table; cbn [option_map]; [|reflexivity].
      unfold cont. cbn [x_children]. f_equal. unfold findall1.
      rewrite filter_all by (intros y Hy; apply in_map_iff in Hy as [z [<- _]]; apply tag_is_record).
      rewrite map_map. apply map_ext. intros; apply parse_sv_tree.
    - unfold list_sub. destruct (s_actions s) as [|a l] eqn:E.
      + destruct (r_empty r); reflexivity.
      + cbn [option_map]. unfold cont. cbn [x_children]. unfold findall1.
        rewrite filter_all by (intros y Hy; apply in_map_iff in Hy as [z [<- _]]; apply tag_is_record).
        rewrite map_map. apply map_ext. intros; apply parse_action_tree.
  Qed.

  (* a document in a foreign namespace: nothing of the service namespace is found in it *)
  Lemma parse_scpd_foreign s :
    parse_scpd (record r ns_foreign n_scpd [] [] (scpd_subs r ns_foreign true s)) =
      {| pd_root_ok := false; pd_table := None; pd_actions := [] |}.
  Proof.
    unfold parse_scpd. cbv zeta. rewrite !children_record.
    assert (Hnone : forall n, find1 ns_service n (rchildren ns_foreign [] (scpd_subs r ns_foreign true s)) = None).
    { intros n. unfold find1. rewrite find_hd_filter. rewrite filter_none; [reflexivity|].
      intros x Hx. unfold rchildren in Hx. apply (Permutation_in _ (Hperm _)) in Hx. cbn [render_fields flat_map app] in Hx.
      unfold render_subs in Hx. apply in_flat_map in Hx as [[k o] [_ Hx]]. cbn in Hx.
      destruct o; [|destruct Hx]. destruct Hx as [<-|[]]. reflexivity. }
    now rewrite !Hnone.
  Qed.

  Lemma serve_pscpd s : serve r s = pscpd_of r s.
  Proof.
    assert (E : forall root wt, record r ns_service root [] [] (scpd_subs r ns_service wt s) =
                           cont r ns_service root [] (x_children (record r ns_service root [] [] (scpd_subs r ns_service wt s))))
      by reflexivity.
    unfold serve, scpd_tree, pscpd_of. destruct (s_corrupt s); try reflexivity.
    - now rewrite E, parse_scpd_body.
    - now rewrite E, parse_scpd_body.
    - now rewrite parse_scpd_body.
    - now rewrite parse_scpd_foreign.
    - now rewrite E, parse_scpd_body.
  Qed.

  (* ---------------------------------------------------------------- device description *)
  Lemma parse_service_tree s : parse_service (service_tree r s) = pservice_of s.
  Proof.
    unfold parse_service, service_tree. cbv zeta. rewrite !children_record.
    assert (ND : NoDup (map fst (service_fields s) ++ map fst (@nil (pystr * option (list xml))))) by nodup.
    rw_fields ND. reflexivity.
  Qed.
  Lemma parse_icon_tree i : parse_icon (icon_tree r i) = picon_of i.
  Proof.
    unfold parse_icon, icon_tree. cbv zeta. rewrite !children_record.
    assert (ND : NoDup (map fst (icon_fields i) ++ map fst (@nil (pystr * option (list xml))))) by nodup.
    rw_fields ND. reflexivity.
  Qed.

  (* the two structural loops of parse_device are "./device:deviceList/device:device" *)
  Definition devs_of (f : xml -> p_device) :=
    fix devs (l2 : list xml) : list p_device :=
      match l2 with
      | [] => []
      | d :: r2 => if tag_is ns_device n_device d then f d :: devs r2 else devs r2
      end.
  Definition lists_of (f : xml -> p_device) :=
    fix lists (l : list xml) : list p_device :=
      match l with
      | [] => []
      | c :: r0 => if tag_is ns_device n_deviceList c
                   then match c with Elem _ _ _ _ ds => devs_of f ds ++ lists r0 end
                   else lists r0
      end.
  Lemma devs_of_eq f ds : devs_of f ds = map f (filter (tag_is ns_device n_device) ds).
  Proof.
    induction ds as [|d ds IH]; [reflexivity|]. cbn [devs_of filter]. fold (devs_of f ds).
    destruct (tag_is ns_device n_device d); cbn [map]; now rewrite IH.
  Qed.
  Lemma lists_of_eq f cs : lists_of f cs = map f (findall2 ns_device n_deviceList n_device cs).
  Proof.
    unfold findall2, findall1.
    induction cs as [|c cs IH]; [reflexivity|]. cbn [lists_of filter]. fold (lists_of f cs).
    destruct (tag_is ns_device n_deviceList c).
    - cbn [flat_map]. rewrite map_app, <- IH. destruct c as [ns' l' a' t' ds]. cbn [x_children].
      now rewrite devs_of_eq.
    - exact IH.
  Qed.
  Lemma parse_device_eq x :
    parse_device x =
      PDev (parse_hdr (x_children x))
           (map parse_icon (findall2 ns_device n_iconList n_icon (x_children x)))
           (map parse_service (findall2 ns_device n_serviceList n_service (x_children x)))
           (map parse_device (findall2 ns_device n_deviceList n_device (x_children x))).
  Proof.
    destruct x as [ns l a t cs]. cbn [x_children]. rewrite <- lists_of_eq. reflexivity.
  Qed.

  Lemma dev_tree_children d :
    x_children (dev_tree r d) =
      rchildren ns_device (hdr_fields (dd_hdr d))
                [ (n_iconList, list_sub r (icon_tree r) (dd_icons d));
                  (n_serviceList, list_sub r (service_tree r) (dd_svcs d));
                  (n_deviceList, list_sub r (dev_tree r) (dd_subs d)) ].
  Proof. destruct d; reflexivity. Qed.

  Lemma tag_is_dev_tree d : tag_is ns_device n_device (dev_tree r d) = true.
  Proof. destruct d; reflexivity. Qed.

  Lemma parse_dev_tree d : parse_device (dev_tree r d) = pdev_of d.
  Proof.
    induction d as [h icons svcs subs IH] using device_def_ind'.
    rewrite parse_device_eq, dev_tree_children. cbn [dd_hdr dd_icons dd_svcs dd_subs].
    set (fs := hdr_fields h).
    set (ss := [ (n_iconList, list_sub r (icon_tree r) icons); (n_serviceList, list_sub r (service_tree r) svcs);
                 (n_deviceList, list_sub r (dev_tree r) subs) ]).
    assert (ND : NoDup (map fst fs ++ map fst ss)) by nodup.
    rewrite (findall2_list ns_device n_iconList n_icon fs ss (icon_tree r) icons ND eq_refl eq_refl)
      by (intros; apply tag_is_record).
    rewrite (findall2_list ns_device n_serviceList n_service fs ss (service_tree r) svcs ND eq_refl eq_refl)
      by (intros; apply tag_is_record).
    rewrite (findall2_list ns_device n_deviceList n_device fs ss (dev_tree r) subs ND eq_refl eq_refl)
      by (intros; apply tag_is_dev_tree).
    cbn [pdev_of]. f_equal.
    - unfold parse_hdr, phdr_of. rw_fields ND. reflexivity.
    - rewrite map_map. apply map_ext. intros; apply parse_icon_tree.
    - rewrite map_map. apply map_ext. intros; apply parse_service_tree.
    - rewrite map_map. induction IH as [|x l Hx _ IHl]; cbn; [reflexivity|]. now rewrite Hx, IHl.
  Qed.

  Lemma parse_root_tree d : parse_root (root_tree r d) = Some (pdev_of d).
  Proof.
    unfold parse_root, root_tree. rewrite !children_record.
    set (ss := [ (n_specVersion, spec_sub r ns_device); (n_device, Some (x_children (dev_tree r d))) ]).
    assert (ND : NoDup (map fst (@nil (pystr * option pystr)) ++ map fst ss)) by nodup.
    rewrite (find1_sub ns_device n_device [] ss _ ND eq_refl eq_refl). cbn [option_map].
    assert (E : cont r ns_device n_device [] (x_children (dev_tree r d)) = dev_tree r d) by (destruct d; reflexivity).
    now rewrite E, parse_dev_tree.
  Qed.
End Parse.
