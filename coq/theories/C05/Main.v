(* C05 — the theorems: the factory model run on the documents of a well-formed definition, for every
   rendering, every oracle answer, both modes, any subset of corrupted service documents. *)
From Coq Require Import List Bool NArith ZArith Lia Permutation.
From AUC Require Import Prelude.PyStr C08.TypesDef C08.Model Gen.Types
  C05.Xml C05.Names C05.Model C05.Def C05.Spec C05.Lemmas C05.Parse C05.Expected.
Import ListNotations.

Lemma find_nodup_key {A} (key : A -> pystr) (l : list A) x :
  NoDup (map key l) -> In x l -> find (fun y => str_eqb (key y) (key x)) l = Some x.
Proof.
  induction l as [|y l IH]; cbn; [tauto|]. intros ND Hin. inversion ND; subst.
  destruct (str_eqb_spec (key y) (key x)) as [E|Hne].
  - destruct Hin as [->|Hin]; [reflexivity|]. exfalso. apply H1. rewrite E. now apply in_map.
  - destruct Hin as [->|Hin]; [congruence | now apply IH].
Qed.

(* the renderings the harness can name are permutations *)
Lemma rotl_perm {A} n (l : list A) : Permutation (rotl n l) l.
Proof.
  revert l. induction n as [|n IH]; intros l; cbn; [apply Permutation_refl|].
  destruct l as [|x r]; [constructor|].
  eapply Permutation_trans; [apply IH|]. apply Permutation_sym, Permutation_cons_append.
Qed.
Lemma perm_of_perm {A} k (l : list A) : Permutation (perm_of k l) l.
Proof.
  unfold perm_of. destruct k as [|p]; [apply Permutation_refl|].
  destruct p; try (destruct l; [constructor | apply rotl_perm]).
  apply Permutation_sym, Permutation_rev.
Qed.

Section Main.
  Variable urljoin : pystr -> pystr -> pystr.
  Variable float_of_str : pystr -> option fl.
  Variable lower_ext : N -> N.
  Variable r : rendering.
  Hypothesis Hperm : forall l, Permutation (r_perm r l) l.
  Variable strict : bool.
  Variable probes : list pyval.
  Variable base : pystr.

  Notation run := (run_def urljoin float_of_str lower_ext r strict probes base).
  Notation wf_dev := (wf_dev urljoin float_of_str lower_ext base).
  Notation wf_desc := (wf_desc urljoin float_of_str lower_ext base).
  Notation mirror_dev := (mirror_dev urljoin float_of_str lower_ext strict probes base).

  Lemma wf_desc_parts d :
    wf_desc d = true ->
    wf_tree urljoin float_of_str lower_ext base d = true /\ shared_ok urljoin base (all_services d) = true.
  Proof.
    unfold Spec.wf_desc, wf_world. intros H. apply andb_true_iff in H as [H1 H2].
    apply andb_true_iff in H2 as [H2 _]. split; assumption.
  Qed.

  (* the strict sub-domain (every service has its own SCPD URL) *)
  Lemma wf_dev_desc d : wf_dev d = true -> wf_desc d = true.
  Proof. unfold Spec.wf_dev. intros H. now apply andb_true_iff in H as [H _]. Qed.
  Lemma wf_dev_parts d :
    wf_dev d = true ->
    wf_tree urljoin float_of_str lower_ext base d = true /\
    NoDup (map (scpd_url urljoin base) (all_services d)).
  Proof.
    intros H. split; [now apply wf_desc_parts, wf_dev_desc|].
    unfold Spec.wf_dev in H. apply andb_true_iff in H as [_ H]. now apply nodupb_NoDup.
  Qed.

  (* the document served at a shared SCPD URL is the document of every service that names the URL *)
  Lemma pscpd_of_same a b : same_scpd a b = true -> pscpd_of r a = pscpd_of r b.
  Proof. intros H. apply same_scpd_eq in H as (Hv & Ha & Hc). unfold pscpd_of. now rewrite Hv, Ha, Hc. Qed.

  Lemma find_shared l x :
    shared_ok urljoin base l = true -> In x l ->
    exists y, find (fun y => str_eqb (scpd_url urljoin base y) (scpd_url urljoin base x)) l = Some y /\
              same_scpd y x = true.
  Proof.
    induction l as [|z l IH]; cbn [shared_ok find In]; [tauto|]. intros H Hin.
    apply andb_true_iff in H as [Hz Hl].
    destruct (str_eqb (scpd_url urljoin base z) (scpd_url urljoin base x)) eqn:E.
    - exists z. split; [reflexivity|]. destruct Hin as [->|Hin]; [apply same_scpd_refl|].
      rewrite forallb_forall in Hz. specialize (Hz x Hin). now rewrite E in Hz.
    - destruct Hin as [->|Hin]; [now rewrite str_eqb_refl in E | now apply IH].
  Qed.

  (* the server answers each service's SCPD URL with that service's document *)
  Lemma world_fetch_ok d :
    wf_desc d = true -> fetch_ok urljoin (world urljoin r base d) base r d.
  Proof.
    intros Hwf s Hs. destruct (wf_desc_parts d Hwf) as [_ Hsh].
    unfold world. destruct (find_shared _ s Hsh Hs) as (y & -> & Hy).
    rewrite serve_pscpd by assumption. now apply pscpd_of_same.
  Qed.

  Lemma run_build d :
    run d = build_device urljoin float_of_str lower_ext (world urljoin r base d) strict probes base (pdev_of d).
  Proof. unfold run_def, create_device. now rewrite parse_root_tree. Qed.

  Theorem run_ok d :
    wf_desc d = true -> strict && any_corrupt d = false ->
    run d = FOk (devo_of urljoin float_of_str lower_ext strict probes base d).
  Proof.
    intros Hwf Hsc. rewrite run_build. destruct (wf_desc_parts d Hwf) as [Ht _].
    apply (build_device_ok urljoin float_of_str lower_ext _ strict probes base r); [assumption | now apply world_fetch_ok | assumption].
  Qed.

  Theorem mirrors_partial d :
    wf_desc d = true -> strict && any_corrupt d = false ->
    kf_dup_device_types d = false -> kf_dup_service_types d = false ->
    exists o, run d = FOk o /\ mirror_dev d o = true.
  Proof.
    intros Hwf Hsc K1 K2. eexists. split; [now apply run_ok|].
    destruct (wf_desc_parts d Hwf) as [Ht _]. now apply mirror_dev_ok.
  Qed.

  Theorem strict_refuses d :
    wf_desc d = true -> strict = true -> any_corrupt d = true ->
    exists e, run d = FRaise e /\ lib_error e = true.
  Proof.
    intros Hwf Hs Hc. rewrite run_build. destruct (wf_desc_parts d Hwf) as [Ht _].
    apply (build_device_refused urljoin float_of_str lower_ext _ strict probes base r); [assumption | now apply world_fetch_ok | assumption | assumption].
  Qed.

  (* the two clauses, as the correspondence check evaluates them *)
  Theorem c_mirrors_partial d :
    wf_desc d = true -> kf_dup_device_types d = false -> kf_dup_service_types d = false ->
    c_mirrors urljoin float_of_str lower_ext strict probes base d (run d) = true.
  Proof.
    intros Hwf K1 K2. unfold c_mirrors. destruct (strict && any_corrupt d) eqn:E; [reflexivity|].
    destruct (mirrors_partial d Hwf E K1 K2) as [o [-> Hm]]. exact Hm.
  Qed.

  Theorem c_strict_refuses_holds d :
    wf_desc d = true -> c_strict_refuses strict d (run d) = true.
  Proof.
    intros Hwf. unfold c_strict_refuses. destruct (strict && any_corrupt d) eqn:E; [|reflexivity].
    apply andb_true_iff in E as [E1 E2]. destruct (strict_refuses d Hwf E1 E2) as [e [-> He]]. exact He.
  Qed.
End Main.

(* ------------------------------------------------------------------ the statement's three sentences *)
Lemma faithful_partial :
  forall (urljoin : pystr -> pystr -> pystr) (float_of_str : pystr -> option fl) (lower_ext : N -> N)
         (r : rendering), (forall l, Permutation (r_perm r l) l) ->
  forall (strict : bool) (probes : list pyval) (base : pystr) (d : device_def),
    wf_desc urljoin float_of_str lower_ext base d = true -> any_corrupt d = false ->
    kf_dup_device_types d = false -> kf_dup_service_types d = false ->
    exists o, run_def urljoin float_of_str lower_ext r strict probes base d = FOk o /\
              mirror_dev urljoin float_of_str lower_ext strict probes base d o = true.
Proof.
  intros uj fs le r Hp strict probes base d Hwf Hc K1 K2.
  apply mirrors_partial; try assumption. rewrite Hc. apply andb_false_r.
Qed.

Lemma nonstrict_degrades_partial :
  forall (urljoin : pystr -> pystr -> pystr) (float_of_str : pystr -> option fl) (lower_ext : N -> N)
         (r : rendering), (forall l, Permutation (r_perm r l) l) ->
  forall (probes : list pyval) (base : pystr) (d : device_def),
    wf_desc urljoin float_of_str lower_ext base d = true ->
    kf_dup_device_types d = false -> kf_dup_service_types d = false ->
    exists o, run_def urljoin float_of_str lower_ext r false probes base d = FOk o /\
              mirror_dev urljoin float_of_str lower_ext false probes base d o = true.
Proof. intros uj fs le r Hp probes base d Hwf K1 K2. now apply mirrors_partial. Qed.

Lemma harness_renderings k ct pad spec empty : forall l, Permutation (r_perm (rendering_of k ct pad spec empty) l) l.
Proof. intros l. apply perm_of_perm. Qed.

(* the widened domain contains the old one: descriptions in which every service has its own SCPD URL *)
Lemma distinct_urls_wf_world urljoin base d :
  nodupb (map (scpd_url urljoin base) (all_services d)) = true ->
  wf_world urljoin base d = negb (existsb (str_eqb base) (map (scpd_url urljoin base) (all_services d))).
Proof.
  unfold wf_world. intros H.
  assert (E : shared_ok urljoin base (all_services d) = true); [|now rewrite E].
  induction (all_services d) as [|x l IH]; cbn [shared_ok map nodupb] in *; [reflexivity|].
  apply andb_true_iff in H as [H1 H2]. rewrite IH by assumption. rewrite andb_true_r.
  apply forallb_forall. intros y Hy. apply negb_true_iff in H1.
  destruct (str_eqb (scpd_url urljoin base x) (scpd_url urljoin base y)) eqn:E; [|reflexivity].
  exfalso. assert (existsb (str_eqb (scpd_url urljoin base x)) (map (scpd_url urljoin base) l) = true); [|congruence].
  apply existsb_exists. exists (scpd_url urljoin base y). split; [now apply in_map | assumption].
Qed.
