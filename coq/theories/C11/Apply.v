(* C11 — what one NOTIFY does to the variables of the service it is routed to, in closed form. *)
From Coq Require Import List Bool NArith ZArith Arith Lia.
From AUC Require Import Prelude.PyDict Prelude.PyStr C11.Model C11.Spec.
Import ListNotations.

Notation sget := (dget str_eqb).
Definition sspec := str_eqb_spec.

Lemma str_eqb_refl s : str_eqb s s = true.
Proof. destruct (sspec s s); congruence. Qed.
Lemma str_eqb_eq a b : str_eqb a b = true -> a = b.
Proof. destruct (sspec a b); congruence. Qed.
Lemma str_neq_eqb a b : a <> b -> str_eqb a b = false.
Proof. destruct (sspec a b); congruence. Qed.

Lemma mem_true_iff n l : mem n l = true <-> In n l.
Proof.
  unfold mem. rewrite existsb_exists. split.
  - intros [x [Hin Hx]]. apply str_eqb_eq in Hx. now subst.
  - intros H. exists n. split; [exact H | apply str_eqb_refl].
Qed.

Lemma resolve_in names tag n : resolve names tag = Some n -> In n names.
Proof.
  unfold resolve. destruct (mem tag names) eqn:E.
  - intros [= <-]. now apply mem_true_iff.
  - destruct (after_char c_rbrace tag) as [rest|]; [|discriminate].
    destruct (mem (until_char c_rbrace rest) names) eqn:E2; [|discriminate].
    intros [= <-]. now apply mem_true_iff.
Qed.

Lemma resolves_of_resolve names tag n k :
  resolve names tag = Some n -> resolves names tag k = str_eqb n k.
Proof. unfold resolves. now intros ->. Qed.
Lemma resolves_of_none names tag k : resolve names tag = None -> resolves names tag k = false.
Proof. unfold resolves. now intros ->. Qed.
Lemma resolves_true names tag n : resolves names tag n = true <-> resolve names tag = Some n.
Proof.
  unfold resolves. destruct (resolve names tag) as [k|]; split; try discriminate.
  - intros H. apply str_eqb_eq in H. now subst.
  - intros [= ->]. apply str_eqb_refl.
Qed.

(* ---- generic dict facts ---- *)
Lemma dset_as_map {V : Type} (d : dict str V) k v :
  NoDup (dkeys d) -> In k (dkeys d) ->
  dset str_eqb d k v = map (fun nb => if str_eqb (fst nb) k then (fst nb, v) else nb) d.
Proof.
  induction d as [|[a w] r IH]; cbn; intros Hnd Hin; [contradiction|].
  inversion Hnd as [|? ? Hn Hnd']; subst.
  destruct (sspec a k) as [->|Hne].
  - f_equal. rewrite <- (map_id r) at 1. apply map_ext_in. intros [n b] Hin'. cbn.
    destruct (sspec n k) as [->|]; [|reflexivity]. exfalso. apply Hn. apply in_map_iff. now exists (k, b).
  - f_equal. apply IH; [exact Hnd'|]. destruct Hin as [H|H]; [congruence | exact H].
Qed.

Lemma dkeys_dset_present {V : Type} (d : dict str V) k v :
  In k (dkeys d) -> dkeys (dset str_eqb d k v) = dkeys d.
Proof.
  intros H. rewrite (dkeys_dset str_eqb sspec). unfold dhas.
  apply (In_dkeys_dget str_eqb sspec) in H. destruct (sget d k); [reflexivity | congruence].
Qed.

Lemma dkeys_map_vals {A B : Type} (h : str -> A -> B) (l : dict str A) :
  dkeys (map (fun nb => (fst nb, h (fst nb) (snd nb))) l) = dkeys l.
Proof. unfold dkeys. rewrite map_map. reflexivity. Qed.

Section Apply.
  Variable conv : nat -> str -> str -> outcome.
  Hypothesis conv_total : forall v n x c, conv v n x <> ORaise c.

  (* variable n after the entries of a changes dict have been walked *)
  Definition fold_eff (v : nat) (names : list str) (n : str) (l : list (str * str)) (b : vstate) : vstate :=
    fold_left (fun cur tx => if resolves names (fst tx) n then vstate_after (conv v n (snd tx)) cur else cur) l b.

  Lemma apply_pointwise v l : forall vals,
    NoDup (dkeys vals) ->
    apply_changes conv v vals l =
    (map (fun nb => (fst nb, fold_eff v (dkeys vals) (fst nb) l (snd nb))) vals, None).
  Proof.
    induction l as [|[tag x] r IH]; intros vals Hnd.
    - cbn. f_equal. rewrite <- (map_id vals) at 1. apply map_ext. now intros [n b].
    - cbn [apply_changes]. destruct (resolve (dkeys vals) tag) as [n|] eqn:R.
      + assert (Hin : In n (dkeys vals)) by (eapply resolve_in; eauto).
        assert (Hstep : forall x0 : vstate,
                  (forall b, vstate_after (conv v n x) b = x0) ->
                  apply_changes conv v (dset str_eqb vals n x0) r =
                  (map (fun nb => (fst nb, fold_eff v (dkeys vals) (fst nb) ((tag, x) :: r) (snd nb))) vals, None)).
        { intros x0 Hx0. rewrite IH by (now apply (NoDup_dset str_eqb sspec)).
          rewrite dkeys_dset_present by exact Hin. f_equal.
          rewrite dset_as_map by assumption. rewrite map_map. apply map_ext. intros [k b]. cbn [fst snd].
          unfold fold_eff at 2. cbn [fold_left fst snd]. rewrite (resolves_of_resolve _ _ _ k R).
          destruct (sspec k n) as [->|Hne]; cbn [fst snd].
          - rewrite str_eqb_refl. rewrite Hx0. reflexivity.
          - rewrite (str_neq_eqb n k) by congruence. reflexivity. }
        destruct (conv v n x) as [rp| | |c] eqn:Cv.
        * apply Hstep. reflexivity.
        * apply Hstep. reflexivity.
        * rewrite IH by exact Hnd. f_equal. apply map_ext. intros [k b]. cbn [fst snd].
          unfold fold_eff at 2. cbn [fold_left fst snd]. rewrite (resolves_of_resolve _ _ _ k R).
          destruct (str_eqb n k) eqn:E; [|reflexivity]. apply str_eqb_eq in E. subst k. now rewrite Cv.
        * exfalso. eapply conv_total; eauto.
      + rewrite IH by exact Hnd. f_equal. apply map_ext. intros [k b]. cbn [fst snd].
        unfold fold_eff at 2. cbn [fold_left fst snd]. now rewrite (resolves_of_none _ _ k R).
  Qed.

  (* ---- from the changes dict back to the document ---- *)
  (* at most one key of l names n *)
  Definition one_key (names : list str) (n : str) (keys : list str) : Prop :=
    forall t1 t2, In t1 keys -> In t2 keys -> resolves names t1 n = true -> resolves names t2 n = true -> t1 = t2.

  Lemma fold_eff_none v names n l b :
    (forall t, In t (map fst l) -> resolves names t n = false) -> fold_eff v names n l b = b.
  Proof.
    revert b. induction l as [|[t x] r IH]; intros b H; [reflexivity|].
    unfold fold_eff. cbn [fold_left fst snd]. rewrite (H t) by now left.
    apply IH. intros t' Ht'. apply H. now right.
  Qed.

  Lemma fold_eff_one v names n (l : dict str str) b :
    NoDup (dkeys l) -> one_key names n (dkeys l) ->
    fold_eff v names n l b =
    match find (fun tx => resolves names (fst tx) n) l with
    | Some tx => vstate_after (conv v n (snd tx)) b
    | None => b
    end.
  Proof.
    revert b. induction l as [|[t x] r IH]; intros b Hnd Hone; [reflexivity|].
    cbn [dkeys map fst] in Hnd. inversion Hnd as [|? ? Hn Hnd']; subst.
    unfold fold_eff. cbn [fold_left find fst snd]. destruct (resolves names t n) eqn:E.
    - apply (fold_eff_none v). intros t' Ht'. destruct (resolves names t' n) eqn:E'; [|reflexivity].
      exfalso. apply Hn. replace t with t'; [exact Ht'|]. apply Hone; cbn; auto.
    - apply IH; [exact Hnd'|]. intros t1 t2 H1 H2. apply Hone; now right.
  Qed.

  Lemma said_none names n kids :
    (forall t, In t (map fst kids) -> resolves names t n = false) -> said names n kids = None.
  Proof.
    induction kids as [|[t x] r IH]; intros H; [reflexivity|]. cbn [said].
    rewrite IH by (intros t' Ht'; apply H; now right). now rewrite (H t) by now left.
  Qed.

  Lemma said_dlast names n kids t :
    (forall t', In t' (map fst kids) -> resolves names t' n = true -> t' = t) ->
    resolves names t n = true ->
    said names n kids = dlast str_eqb kids t.
  Proof.
    intros Hone Ht. induction kids as [|[t' x] r IH]; [reflexivity|]. cbn [said dlast].
    rewrite IH by (intros t'' H1 H2; apply Hone; [now right | exact H2]).
    destruct (dlast str_eqb r t); [reflexivity|].
    destruct (sspec t' t) as [->|Hne]; [now rewrite Ht|].
    destruct (resolves names t' n) eqn:E; [|reflexivity].
    exfalso. apply Hne. apply Hone; [now left | exact E].
  Qed.

  (* the Reading "one spelling per variable", as a Prop *)
  Lemma one_spelling_one_key names (kids : list (str * str)) n :
    one_spelling names kids = true -> one_key names n (map fst kids).
  Proof.
    unfold one_spelling. rewrite forallb_forall. intros H t1 t2 H1 H2 R1 R2.
    apply in_map_iff in H1. destruct H1 as [[t1' x1] [E1 H1]]. cbn in E1. subst t1'.
    apply in_map_iff in H2. destruct H2 as [[t2' x2] [E2 H2]]. cbn in E2. subst t2'.
    specialize (H _ H1). rewrite forallb_forall in H. specialize (H _ H2). cbn [fst] in H.
    apply resolves_true in R1. apply resolves_true in R2. rewrite R1, R2, str_eqb_refl in H.
    now apply str_eqb_eq.
  Qed.

  Lemma changes_keys (kids : list (str * str)) t : In t (dkeys (dmerge str_eqb [] kids)) <-> In t (map fst kids).
  Proof. rewrite (In_dkeys_dmerge str_eqb sspec). cbn. tauto. Qed.

  (* walking the changes dict of a document = assigning, per variable, the text the document says *)
  Lemma fold_eff_changes v names n kids b :
    one_key names n (map fst kids) ->
    fold_eff v names n (dmerge str_eqb [] kids) b =
    match said names n kids with
    | Some x => vstate_after (conv v n x) b
    | None => b
    end.
  Proof.
    intros Hone. set (ch := dmerge str_eqb [] kids).
    assert (Hnd : NoDup (dkeys ch)) by (apply (NoDup_dmerge str_eqb sspec); constructor).
    rewrite fold_eff_one; [|exact Hnd|].
    2:{ intros t1 t2 H1 H2. apply Hone; now apply changes_keys. }
    destruct (find (fun tx => resolves names (fst tx) n) ch) as [[t x]|] eqn:F.
    - apply find_some in F. destruct F as [Hin Ht]. cbn [fst snd] in *.
      assert (Hget : sget ch t = Some x) by (apply (In_dget str_eqb sspec); assumption).
      unfold ch in Hget. rewrite (dget_dmerge str_eqb sspec) in Hget. cbn [dget] in Hget.
      rewrite (said_dlast names n kids t).
      + destruct (dlast str_eqb kids t); [now inversion Hget | discriminate].
      + intros t' H1 H2. apply Hone; try assumption.
        apply changes_keys. apply in_map_iff. exists (t, x). split; [reflexivity | exact Hin].
      + exact Ht.
    - rewrite said_none; [reflexivity|]. intros t Ht.
      destruct (resolves names t n) eqn:E; [|reflexivity]. exfalso.
      apply changes_keys in Ht. apply in_map_iff in Ht. destruct Ht as [[t' x] [E1 Hin]]. cbn in E1. subst t'.
      eapply find_none in F; [|exact Hin]. cbn in F. congruence.
  Qed.
End Apply.
