(* C11 — early NOTIFYs for a SID that is never granted affect nothing: deleting them from the schedule changes
   no other observation.  Holds for every schedule, every body (well-formed or not) and every conversion. *)
From Coq Require Import List Bool NArith ZArith Arith Lia.
From AUC Require Import Prelude.PyDict Prelude.PyStr C11.Model C11.Spec C11.Apply C11.Inv.
Import ListNotations.

(* the steps that are deleted: the event NOTIFYs carrying the SID *)
Definition erased (sid : str) (s : step) : bool :=
  match s with Notify m => is_event_for sid m | _ => false end.
Definition erase (sid : str) (steps : list step) : list step := filter (fun s => negb (erased sid s)) steps.
(* ... and the observations that remain *)
Fixpoint erase_obs (sid : str) (steps : list step) (obs : list step_obs) : list step_obs :=
  match steps, obs with
  | s :: r, o :: ro => if erased sid s then erase_obs sid r ro else o :: erase_obs sid r ro
  | _, _ => []
  end.

Section Erase.
  Variable conv : nat -> str -> str -> outcome.
  Variable sid : str.

  (* two handlers that differ only in what is stored for sid, which is routed nowhere *)
  Record sim (a b : state) : Prop := {
    sim_subs : st_subs a = st_subs b;
    sim_unrouted : sget (st_subs a) sid = None;
    sim_vals : st_vals a = st_vals b;
    sim_backlog : forall k, k <> sid -> sget (st_backlog a) k = sget (st_backlog b) k;
    sim_nd_a : NoDup (dkeys (st_backlog a));
    sim_nd_b : NoDup (dkeys (st_backlog b))
  }.

  Lemma sim_set_vals a b x : sim a b -> sim (set_vals a x) (set_vals b x).
  Proof. intros [H1 H2 H3 H4 H5 H6]. constructor; cbn; auto. Qed.

  Lemma hn_sim a b m :
    sim a b ->
    snd (handle_notify conv a m) = snd (handle_notify conv b m) /\
    sim (fst (handle_notify conv a m)) (fst (handle_notify conv b m)).
  Proof.
    intros S. pose proof S as [H1 H2 H3 H4 H5 H6]. unfold handle_notify.
    destruct (m_nt m); [|now split]. destruct (m_nts m); [|now split].
    destruct (_ || _); [now split|]. destruct (m_sid m) as [k|]; [|now split].
    rewrite <- H1. destruct (sspec k sid) as [->|Hne].
    - rewrite H2. cbn [fst snd]. split; [reflexivity|].
      constructor; cbn [st_subs st_vals st_backlog set_backlog]; auto.
      + intros k Hk. rewrite !(dget_dset str_eqb sspec). rewrite (str_neq_eqb sid k) by congruence. now apply H4.
      + now apply (NoDup_dset str_eqb sspec).
      + now apply (NoDup_dset str_eqb sspec).
    - destruct (sget (st_subs a) k) as [v|] eqn:E.
      + unfold svc_vals. rewrite <- H3. destruct (m_body m) as [props|c]; [|now split].
        destruct (apply_changes conv v (nth v (st_vals a) []) (changes_of props)) as [vals' [c|]];
          cbn [fst snd]; (split; [reflexivity | now apply sim_set_vals]).
      + cbn [fst snd]. split; [reflexivity|].
        assert (Hb : backlog_of a k = backlog_of b k) by (unfold backlog_of; now rewrite (H4 k Hne)).
        constructor; cbn [st_subs st_vals st_backlog set_backlog]; auto.
        * intros k' Hk'. rewrite !(dget_dset str_eqb sspec), Hb. destruct (str_eqb k k'); [reflexivity | now apply H4].
        * now apply (NoDup_dset str_eqb sspec).
        * now apply (NoDup_dset str_eqb sspec).
  Qed.

  Lemma replay_sim items : forall a b,
    sim a b ->
    snd (replay_backlog conv a items) = snd (replay_backlog conv b items) /\
    sim (fst (replay_backlog conv a items)) (fst (replay_backlog conv b items)).
  Proof.
    induction items as [|m r IH]; intros a b S; [now split|]. cbn [replay_backlog].
    destruct (hn_sim a b m S) as [E S'].
    destruct (handle_notify conv a m) as [a' x], (handle_notify conv b m) as [b' y]. cbn [fst snd] in *. subst y.
    destruct x as [c|c]; [now apply IH | now split].
  Qed.

  Lemma cs_sim a b v r :
    sim a b -> grant r <> Some sid ->
    snd (complete_subscribe conv a v r) = snd (complete_subscribe conv b v r) /\
    sim (fst (complete_subscribe conv a v r)) (fst (complete_subscribe conv b v r)).
  Proof.
    intros S Hg. destruct r as [status [g|] rtmo|c]; cbn [complete_subscribe]; try (now split).
    - cbn [grant] in Hg. destruct (status =? 200)%N; cbn [negb andb] in *; [|now split].
      destruct (parse_timeout rtmo) as [t|c]; [|now split].
      assert (Hne : g <> sid) by congruence.
      set (a1 := set_subs a (dset str_eqb (st_subs a) g v)). set (b1 := set_subs b (dset str_eqb (st_subs b) g v)).
      assert (S1 : sim a1 b1).
      { pose proof S as [H1 H2 H3 H4 H5 H6]. constructor; cbn [st_subs st_vals st_backlog set_subs a1 b1]; auto.
        - now rewrite H1.
        - rewrite (dget_dset str_eqb sspec). now rewrite (str_neq_eqb g sid) by exact Hne. }
      change (st_backlog a1) with (st_backlog a). change (st_backlog b1) with (st_backlog b).
      rewrite <- (sim_backlog a b S g Hne).
      destruct (sget (st_backlog a) g) as [items|]; [|now split].
      destruct (replay_sim items a1 b1 S1) as [E S2].
      destruct (replay_backlog conv a1 items) as [a2 x], (replay_backlog conv b1 items) as [b2 y].
      cbn [fst snd] in *. subst y. destruct x as [c|]; [now split|].
      cbn [fst snd]. split; [reflexivity|].
      pose proof S2 as [H1 H2 H3 H4 H5 H6]. constructor; cbn [st_subs st_vals st_backlog set_backlog]; auto.
      + intros k Hk. rewrite !(dget_ddel str_eqb sspec) by assumption. destruct (str_eqb g k); [reflexivity | now apply H4].
      + now apply (NoDup_ddel str_eqb).
      + now apply (NoDup_ddel str_eqb).
    - destruct (status =? 200)%N; now split.
  Qed.

  (* the deleted step, taken on one side only *)
  Lemma erased_sim a b m :
    sim a b -> event_sid m = Some sid -> sim (fst (handle_notify conv a m)) b.
  Proof.
    intros S Hev. pose proof S as [H1 H2 H3 H4 H5 H6].
    rewrite (hn_event conv a m sid Hev), H2. cbn [fst].
    constructor; cbn [st_subs st_vals st_backlog set_backlog]; auto.
    - intros k Hk. rewrite (dget_dset str_eqb sspec). rewrite (str_neq_eqb sid k) by congruence. now apply H4.
    - now apply (NoDup_dset str_eqb sspec).
  Qed.

  Lemma routed_none_cons s r : routed (s :: r) sid = None ->
    routed r sid = None /\ match s with SubResp _ x => grant x <> Some sid | _ => True end.
  Proof.
    destruct s as [m|v|v x]; cbn [routed]; try (now split).
    destruct (grant x) as [g|]; [|intros H; split; [exact H | discriminate]].
    destruct (sspec g sid) as [->|Hne]; [discriminate|]. intros H. split; [exact H | congruence].
  Qed.

  Theorem erase_run : forall steps a b,
    sim a b -> routed steps sid = None ->
    run_from conv b (erase sid steps) = erase_obs sid steps (run_from conv a steps).
  Proof.
    induction steps as [|s r IH]; intros a b S Hr; [reflexivity|].
    apply routed_none_cons in Hr. destruct Hr as [Hr Hs].
    rewrite run_from_cons. cbn [erase filter erase_obs].
    destruct (erased sid s) eqn:E; cbn [negb].
    - destruct s as [m|v|v x]; try discriminate. cbn [erased] in E. apply is_event_for_iff in E.
      cbn [do_step]. fold (erase sid r).
      pose proof (erased_sim a b m S E) as S'.
      destruct (handle_notify conv a m) as [a' y]. cbn [fst] in *. now apply IH.
    - fold (erase sid r). rewrite run_from_cons.
      assert (Hstep : snd (do_step conv a s) = snd (do_step conv b s) /\
                      sim (fst (do_step conv a s)) (fst (do_step conv b s))).
      { destruct s as [m|v|v x]; cbn [do_step].
        - destruct (hn_sim a b m S) as [E1 E2].
          destruct (handle_notify conv a m), (handle_notify conv b m). cbn [fst snd] in *. split; [now f_equal | exact E2].
        - now split.
        - destruct (cs_sim a b v x S Hs) as [E1 E2].
          destruct (complete_subscribe conv a v x), (complete_subscribe conv b v x). cbn [fst snd] in *.
          split; [now f_equal | exact E2]. }
      destruct Hstep as [E1 S']. rewrite E1. f_equal.
      + f_equal. unfold vals_obs. now rewrite (sim_vals _ _ S').
      + now apply IH.
  Qed.

  Lemma sim_refl0 vars : sim (state0 vars) (state0 vars).
  Proof. constructor; cbn; auto; constructor. Qed.

  (* NEVER GRANTED = INERT *)
  Theorem ungranted_inert vars steps :
    routed steps sid = None ->
    run_from conv (state0 vars) (erase sid steps) = erase_obs sid steps (run_from conv (state0 vars) steps).
  Proof. intros H. apply erase_run; [apply sim_refl0 | exact H]. Qed.
End Erase.
