(* C11 — the invariant that ties the handler's state to the history of steps, and what every step does. *)
From Coq Require Import List Bool NArith ZArith Arith Lia.
From AUC Require Import Prelude.PyDict Prelude.PyStr C11.Model C11.Spec C11.Apply.
Import ListNotations.

(* ---- lists ---- *)
Lemma upd_nth_same {A : Type} (d : A) v (l : list A) : upd_nth v (nth v l d) l = l.
Proof. revert v. induction l as [|a l IH]; intros [|v]; cbn; try reflexivity. now rewrite IH. Qed.
Lemma upd_nth_twice {A : Type} v (x y : A) l : upd_nth v y (upd_nth v x l) = upd_nth v y l.
Proof. revert v. induction l as [|a l IH]; intros [|v]; cbn; try reflexivity. now rewrite IH. Qed.
Lemma nth_upd_nth {A : Type} (d : A) v x (l : list A) : v < length l -> nth v (upd_nth v x l) d = x.
Proof. revert v. induction l as [|a l IH]; intros [|v]; cbn; intros H; try lia; [reflexivity|]. apply IH. lia. Qed.
Lemma length_upd_nth {A : Type} v (x : A) l : length (upd_nth v x l) = length l.
Proof. revert v. induction l as [|a l IH]; intros [|v]; cbn; try reflexivity. now rewrite IH. Qed.
Lemma map_upd_nth {A B : Type} (f : A -> B) v x l : map f (upd_nth v x l) = upd_nth v (f x) (map f l).
Proof. revert v. induction l as [|a l IH]; intros [|v]; cbn; try reflexivity. now rewrite IH. Qed.
Lemma upd_nth_id_on {A B : Type} (f : A -> B) (d : A) v x l :
  f x = f (nth v l d) -> map f (upd_nth v x l) = map f l.
Proof. intros H. rewrite map_upd_nth, H. rewrite <- (map_nth f). apply upd_nth_same. Qed.
Lemma combine_fst_snd {A B : Type} (l : list (A * B)) : combine (map fst l) (map snd l) = l.
Proof. induction l as [|[a b] l IH]; cbn; [reflexivity | now rewrite IH]. Qed.

(* ---- comparison booleans ---- *)
Lemma vstate_eqb_refl x : vstate_eqb x x = true.
Proof. destruct x; cbn; try reflexivity. apply str_eqb_refl. Qed.
Lemma list_eqb_refl {A : Type} (eqb : A -> A -> bool) :
  (forall x, eqb x x = true) -> forall l, list_eqb eqb l l = true.
Proof. intros H. induction l as [|x l IH]; cbn; [reflexivity|]. now rewrite H, IH. Qed.
Lemma vals_eqb_refl l : vals_eqb l l = true.
Proof. apply list_eqb_refl. apply list_eqb_refl. apply vstate_eqb_refl. Qed.
Lemma others_eqb_upd v x l : others_eqb v l (upd_nth v x l) = true.
Proof.
  revert v. induction l as [|a l IH]; intros [|v]; cbn; try reflexivity.
  - apply vals_eqb_refl.
  - rewrite IH. rewrite (list_eqb_refl vstate_eqb vstate_eqb_refl). reflexivity.
Qed.
Lemma others_eqb_refl v l : others_eqb v l l = true.
Proof. rewrite <- (upd_nth_same [] v l) at 2. apply others_eqb_upd. Qed.

Lemma vstate_eqb_eq a b : vstate_eqb a b = true -> a = b.
Proof. destruct a, b; cbn; try discriminate; try reflexivity. intros H. f_equal. now apply str_eqb_eq. Qed.
Lemma list_eqb_eq {A : Type} (eqb : A -> A -> bool) :
  (forall x y, eqb x y = true -> x = y) -> forall a b, list_eqb eqb a b = true -> a = b.
Proof.
  intros H. induction a as [|x a IH]; intros [|y b]; cbn; try discriminate; [reflexivity|].
  rewrite andb_true_iff. intros [H1 H2]. f_equal; [now apply H | now apply IH].
Qed.

Lemma nodupb_NoDup l : nodupb l = true -> NoDup l.
Proof.
  induction l as [|x l IH]; cbn; [constructor|]. rewrite andb_true_iff, negb_true_iff.
  intros [H1 H2]. constructor; [|auto]. intros Hin. apply mem_true_iff in Hin. congruence.
Qed.

(* ---- the history functions ---- *)
Lemma grant_inv r sid :
  grant r = Some sid ->
  exists status rtmo t, r = RResp status (Some sid) rtmo /\ (status =? 200)%N = true /\ parse_timeout rtmo = inl t.
Proof.
  destruct r as [status [s|] rtmo|c]; cbn; try discriminate.
  destruct (status =? 200)%N eqn:E; cbn; [|discriminate].
  destruct (parse_timeout rtmo) as [t|c] eqn:P; [|discriminate].
  intros [= ->]. now exists status, rtmo, t.
Qed.

Lemma routed_cons_grant v r sid rh sid' :
  grant r = Some sid ->
  routed (SubResp v r :: rh) sid' = if str_eqb sid sid' then Some v else routed rh sid'.
Proof. intros H. cbn. now rewrite H. Qed.
Lemma routed_cons_nogrant v r rh sid' : grant r = None -> routed (SubResp v r :: rh) sid' = routed rh sid'.
Proof. intros H. cbn. now rewrite H. Qed.

Lemma is_event_for_iff sid m : is_event_for sid m = true <-> event_sid m = Some sid.
Proof.
  unfold is_event_for. destruct (event_sid m) as [s|]; split; try discriminate.
  - intros H. apply str_eqb_eq in H. now subst.
  - intros [= ->]. apply str_eqb_refl.
Qed.

Section Inv.
  Variable conv : nat -> str -> str -> outcome.
  Hypothesis conv_total : forall v n x c, conv v n x <> ORaise c.
  Variable vars : list (list str).
  Hypothesis vars_nd : forallb nodupb vars = true.

  Lemma names_nodup v : NoDup (names_of vars v).
  Proof.
    unfold names_of. destruct (Nat.lt_ge_cases v (length vars)) as [H|H].
    - apply nodupb_NoDup. rewrite forallb_forall in vars_nd. apply vars_nd. now apply nth_In.
    - rewrite nth_overflow by exact H. constructor.
  Qed.

  (* every step before now was inside the domain *)
  Definition hist_ok (rh : list step) : Prop := forallb (step_ok vars) rh = true.

  Lemma routed_lt rh sid v : hist_ok rh -> routed rh sid = Some v -> v < length vars.
  Proof.
    unfold hist_ok. induction rh as [|s rh IH]; cbn [routed forallb]; [discriminate|].
    rewrite andb_true_iff. intros [Hs Hr].
    destruct s as [m|w|w r]; try (now apply IH).
    destruct (grant r) as [s|]; [|now apply IH].
    destruct (str_eqb s sid); [|now apply IH].
    intros [= <-]. cbn in Hs. now apply Nat.ltb_lt.
  Qed.

  Lemma early_props rh sid m :
    hist_ok rh -> In m (early rh sid) -> event_sid m = Some sid /\ msg_ok vars m = true.
  Proof.
    unfold hist_ok. induction rh as [|s rh IH]; cbn [early forallb]; [contradiction|].
    rewrite andb_true_iff. intros [Hs Hr].
    destruct s as [m'|w|w r]; try (now apply IH).
    destruct (is_event_for sid m') eqn:E; [|now apply IH].
    rewrite in_app_iff. intros [H|[<-|[]]]; [now apply IH|].
    split; [now apply is_event_for_iff | exact Hs].
  Qed.

  (* ---- handle_notify by cases ---- *)
  Lemma hn_not_event st m :
    event_sid m = None -> exists c, handle_notify conv st m = (st, NStatus c).
  Proof.
    unfold event_sid, handle_notify. destruct (m_nt m) as [nt|]; [|now eexists].
    destruct (m_nts m) as [nts|]; [|now eexists].
    destruct (str_eqb nt s_upnp_event), (str_eqb nts s_propchange); cbn; try (now eexists).
    intros ->. now eexists.
  Qed.

  Lemma hn_event st m sid :
    event_sid m = Some sid ->
    handle_notify conv st m =
    match sget (st_subs st) sid with
    | None => (set_backlog st (dset str_eqb (st_backlog st) sid (backlog_of st sid ++ [m])), NStatus 200)
    | Some v =>
        match m_body m with
        | BBad c => (st, NRaise c)
        | BProps props =>
            match apply_changes conv v (svc_vals st v) (changes_of props) with
            | (vals', None) => (set_vals st (upd_nth v vals' (st_vals st)), NStatus 200)
            | (vals', Some c) => (set_vals st (upd_nth v vals' (st_vals st)), NRaise c)
            end
        end
    end.
  Proof.
    unfold event_sid, handle_notify. destruct (m_nt m) as [nt|]; [|discriminate].
    destruct (m_nts m) as [nts|]; [|discriminate].
    destruct (str_eqb nt s_upnp_event), (str_eqb nts s_propchange); cbn; try discriminate.
    now intros ->.
  Qed.

  (* the variables of service v after NOTIFY m was applied to them *)
  Definition apply_msg (v : nat) (m : msg) (vals : dict str vstate) : dict str vstate :=
    map (fun nb => (fst nb, effect_on conv vars v (fst nb) m (snd nb))) vals.
  Definition apply_msgs (v : nat) (ms : list msg) (vals : dict str vstate) : dict str vstate :=
    map (fun nb => (fst nb, latest conv vars v (fst nb) ms (snd nb))) vals.

  Definition shape (st : state) : Prop := map (@dkeys str vstate) (st_vals st) = vars.

  Lemma shape_names st v : shape st -> dkeys (svc_vals st v) = names_of vars v.
  Proof.
    intros H. unfold svc_vals, names_of. rewrite <- H.
    exact (eq_sym (map_nth (@dkeys str vstate) (st_vals st) [] v)).
  Qed.
  Lemma shape_length st : shape st -> length (st_vals st) = length vars.
  Proof. intros H. rewrite <- H. now rewrite map_length. Qed.

  Lemma msg_ok_spelling m props v :
    msg_ok vars m = true -> m_body m = BProps props -> v < length vars ->
    one_spelling (names_of vars v) (kids_of props) = true.
  Proof.
    intros H B Hv. unfold msg_ok in H. rewrite B in H. rewrite forallb_forall in H. apply H.
    unfold names_of. now apply nth_In.
  Qed.

  Lemma hn_routed st m sid v :
    shape st -> event_sid m = Some sid -> sget (st_subs st) sid = Some v -> v < length vars ->
    msg_ok vars m = true ->
    handle_notify conv st m =
    (set_vals st (upd_nth v (apply_msg v m (svc_vals st v)) (st_vals st)), NStatus 200).
  Proof.
    intros Hsh Hev Hsub Hv Hok. rewrite (hn_event st m sid Hev), Hsub.
    destruct (m_body m) as [props|c] eqn:B; [|unfold msg_ok in Hok; rewrite B in Hok; discriminate].
    assert (Hnames := shape_names st v Hsh).
    rewrite (apply_pointwise conv conv_total) by (rewrite Hnames; apply names_nodup).
    f_equal. f_equal. f_equal. unfold apply_msg. apply map_ext. intros [n b]. cbn [fst snd]. f_equal.
    unfold changes_of. rewrite Hnames. rewrite fold_eff_changes.
    - unfold effect_on, says. now rewrite B.
    - apply one_spelling_one_key. eapply msg_ok_spelling; eauto.
  Qed.

  Lemma apply_msg_keys v m vals : dkeys (apply_msg v m vals) = dkeys vals.
  Proof. unfold apply_msg. apply (dkeys_map_vals (fun n b => effect_on conv vars v n m b)). Qed.

  Lemma shape_upd st v x : shape st -> dkeys x = dkeys (svc_vals st v) -> shape (set_vals st (upd_nth v x (st_vals st))).
  Proof. unfold shape, svc_vals. cbn. intros H Hx. rewrite <- H. now apply (upd_nth_id_on _ []). Qed.

  Lemma set_vals_same st : set_vals st (st_vals st) = st.
  Proof. now destruct st. Qed.

  (* ---- the replay_backlog ---- *)
  Lemma replay_routed sid v : forall items st,
    shape st -> sget (st_subs st) sid = Some v -> v < length vars ->
    (forall m, In m items -> event_sid m = Some sid /\ msg_ok vars m = true) ->
    replay_backlog conv st items =
    (set_vals st (upd_nth v (apply_msgs v items (svc_vals st v)) (st_vals st)), None).
  Proof.
    induction items as [|m r IH]; intros st Hsh Hsub Hv Hall.
    - cbn [replay_backlog]. f_equal. unfold apply_msgs, latest. cbn [fold_left].
      replace (map _ (svc_vals st v)) with (svc_vals st v).
      + unfold svc_vals. now rewrite upd_nth_same, set_vals_same.
      + rewrite <- (map_id (svc_vals st v)) at 1. apply map_ext. now intros [n b].
    - cbn [replay_backlog]. destruct (Hall m (or_introl eq_refl)) as [Hev Hok].
      rewrite (hn_routed st m sid v Hsh Hev Hsub Hv Hok).
      set (st1 := set_vals st (upd_nth v (apply_msg v m (svc_vals st v)) (st_vals st))).
      assert (Hsh1 : shape st1) by (apply shape_upd; [exact Hsh | apply apply_msg_keys]).
      rewrite (IH st1 Hsh1 Hsub Hv) by (intros m' Hm'; apply Hall; now right).
      f_equal. unfold st1, set_vals, svc_vals. cbn [st_subs st_backlog st_vals]. f_equal.
      rewrite upd_nth_twice. f_equal.
      rewrite nth_upd_nth by (rewrite (shape_length st Hsh); exact Hv).
      unfold apply_msgs, apply_msg. rewrite map_map. apply map_ext. now intros [n b].
  Qed.

  (* ---- the invariant ---- *)
  Record Inv (rh : list step) (st : state) : Prop := {
    inv_subs : forall sid, sget (st_subs st) sid = routed rh sid;
    inv_backlog : forall sid, sget (st_backlog st) sid =
                              match routed rh sid with
                              | Some _ => None
                              | None => match early rh sid with [] => None | l => Some l end
                              end;
    inv_nd : NoDup (dkeys (st_backlog st));
    inv_shape : shape st;
    inv_hist : hist_ok rh
  }.
  Arguments inv_subs {rh st} _ _.
  Arguments inv_backlog {rh st} _ _.
  Arguments inv_nd {rh st} _.
  Arguments inv_shape {rh st} _.
  Arguments inv_hist {rh st} _.

  Lemma vals_obs_upd st v x :
    vals_obs (set_vals st (upd_nth v x (st_vals st))) = upd_nth v (map snd x) (vals_obs st).
  Proof. unfold vals_obs. cbn. apply map_upd_nth. Qed.

  Lemma inv_init : Inv [] (state0 vars).
  Proof.
    constructor; cbn; try reflexivity; [constructor|].
    unfold shape, state0. cbn. rewrite map_map. rewrite <- (map_id vars) at 2. apply map_ext.
    intros l. unfold dkeys. rewrite map_map. cbn. apply map_id.
  Qed.
  Lemma vals_obs_init : vals_obs (state0 vars) = vals0 vars.
  Proof. unfold vals_obs, state0, vals0. cbn. rewrite map_map. apply map_ext. intros l. now rewrite map_map. Qed.

  Lemma backlog_of_early rh st sid : Inv rh st -> routed rh sid = None -> backlog_of st sid = early rh sid.
  Proof.
    intros I Hr. unfold backlog_of. rewrite (inv_backlog I), Hr. now destruct (early rh sid).
  Qed.

  Lemma complete_no_grant st v r : grant r = None -> exists c, complete_subscribe conv st v r = (st, SErr c).
  Proof.
    destruct r as [status [s|] rtmo|c]; cbn; try (now eexists).
    - destruct (status =? 200)%N; cbn; [|now eexists].
      destruct (parse_timeout rtmo); [discriminate | now eexists].
    - destruct (status =? 200)%N; cbn; now eexists.
  Qed.

  (* what a granted subscribe call does *)
  Lemma complete_grant rh st v r sid :
    Inv rh st -> grant r = Some sid -> v < length vars ->
    exists st' t,
      complete_subscribe conv st v r = (st', SOk sid t) /\
      Inv (SubResp v r :: rh) st' /\
      st_vals st' = match routed rh sid with
                    | None => upd_nth v (apply_msgs v (early rh sid) (svc_vals st v)) (st_vals st)
                    | Some _ => st_vals st
                    end.
  Proof.
    intros I Hg Hv. destruct (grant_inv r sid Hg) as [status [rtmo [t [-> [Hst Hpt]]]]].
    unfold complete_subscribe. rewrite Hst, Hpt. cbn [negb].
    set (st1 := set_subs st (dset str_eqb (st_subs st) sid v)).
    assert (Hsub1 : forall sid', sget (st_subs st1) sid' = routed (SubResp v (RResp status (Some sid) rtmo) :: rh) sid').
    { intros sid'. rewrite (routed_cons_grant v _ sid rh sid' Hg). unfold st1. cbn [st_subs set_subs].
      rewrite (dget_dset str_eqb sspec). now rewrite (inv_subs I). }
    assert (Hh : hist_ok (SubResp v (RResp status (Some sid) rtmo) :: rh)).
    { unfold hist_ok. cbn [forallb step_ok]. rewrite (inv_hist I), andb_true_r. now apply Nat.ltb_lt. }
    change (st_backlog st1) with (st_backlog st). rewrite (inv_backlog I).
    destruct (routed rh sid) as [w|] eqn:Hr.
    - (* granted before: nothing is waiting *)
      exists st1, t. split; [reflexivity|]. split; [|reflexivity].
      constructor; try assumption.
      + intros sid'. rewrite (routed_cons_grant v _ sid rh sid' Hg). change (st_backlog st1) with (st_backlog st).
        rewrite (inv_backlog I). destruct (sspec sid sid') as [<-|Hne]; [now rewrite Hr | reflexivity].
      + exact (inv_nd I).
      + exact (inv_shape I).
    - destruct (early rh sid) as [|m0 ms] eqn:He.
      + (* nothing arrived early *)
        exists st1, t. split; [reflexivity|]. split.
        * constructor; try assumption.
          -- intros sid'. rewrite (routed_cons_grant v _ sid rh sid' Hg). change (st_backlog st1) with (st_backlog st).
             rewrite (inv_backlog I). destruct (sspec sid sid') as [<-|Hne]; [now rewrite Hr, He | reflexivity].
          -- exact (inv_nd I).
          -- exact (inv_shape I).
        * cbn. unfold apply_msgs, latest. cbn [fold_left].
          replace (map _ (svc_vals st v)) with (svc_vals st v).
          -- unfold svc_vals. now rewrite upd_nth_same.
          -- rewrite <- (map_id (svc_vals st v)) at 1. apply map_ext. now intros [n b].
      + (* the early NOTIFYs are replayed in arrival order *)
        rewrite <- He.
        assert (Hsh1 : shape st1) by exact (inv_shape I).
        assert (Hs1 : sget (st_subs st1) sid = Some v).
        { unfold st1. cbn [st_subs set_subs]. rewrite (dget_dset str_eqb sspec). now rewrite str_eqb_refl. }
        rewrite (replay_routed sid v (early rh sid) st1 Hsh1 Hs1 Hv)
          by (intros m Hm; eapply early_props; [exact (inv_hist I) | exact Hm]).
        eexists. exists t. split; [reflexivity|]. split; [|reflexivity].
        constructor; try assumption.
        * intros sid'. rewrite (routed_cons_grant v _ sid rh sid' Hg). cbn [st_backlog set_backlog set_vals].
          rewrite (dget_ddel str_eqb sspec) by exact (inv_nd I).
          destruct (str_eqb sid sid'); [reflexivity|]. now rewrite (inv_backlog I).
        * cbn [st_backlog set_backlog set_vals]. apply (NoDup_ddel str_eqb). exact (inv_nd I).
        * unfold shape. cbn [st_vals set_backlog set_vals]. apply (shape_upd st1 v); [exact Hsh1|].
          unfold apply_msgs. apply (dkeys_map_vals (fun n b => latest conv vars v n (early rh sid) b)).
  Qed.

  (* ---- one step: the invariant is kept and no clause fails ---- *)
  Lemma step_ok_inv rh st s :
    Inv rh st -> step_ok vars s = true ->
    Inv (s :: rh) (fst (do_step conv st s)) /\
    step_failures conv vars rh (vals_obs st) s
                  (mkObs (snd (do_step conv st s)) (vals_obs (fst (do_step conv st s)))) = [].
  Proof.
    intros I Hs.
    assert (Hh : hist_ok (s :: rh)).
    { unfold hist_ok. cbn [forallb]. now rewrite Hs, (inv_hist I). }
    destruct s as [m|v|v r].
    - (* Notify *)
      cbn [do_step step_failures o_what o_vals].
      destruct (event_sid m) as [sid|] eqn:Hev.
      + rewrite (hn_event st m sid Hev). rewrite (inv_subs I).
        destruct (routed rh sid) as [v|] eqn:Hr.
        * (* routed: applied directly *)
          assert (Hv := routed_lt rh sid v (inv_hist I) Hr).
          assert (Hsub : sget (st_subs st) sid = Some v) by now rewrite (inv_subs I).
          pose proof (hn_routed st m sid v (inv_shape I) Hev Hsub Hv Hs) as Hn.
          rewrite (hn_event st m sid Hev), Hsub in Hn. rewrite Hn. cbn [fst snd].
          split; [|reflexivity].
          constructor; try assumption.
          -- intros sid'. cbn [st_subs set_vals routed]. apply (inv_subs I).
          -- intros sid'. cbn [st_backlog set_vals routed early]. rewrite (inv_backlog I).
             destruct (routed rh sid') eqn:Hr'; [reflexivity|].
             destruct (is_event_for sid' m) eqn:E; [|reflexivity].
             apply is_event_for_iff in E. congruence.
          -- exact (inv_nd I).
          -- apply shape_upd; [exact (inv_shape I) | apply apply_msg_keys].
        * (* early: stored, answered 200, nothing changes *)
          cbn [fst snd is_200]. rewrite N.eqb_refl. cbn [app].
          change (vals_obs (set_backlog st _)) with (vals_obs st). rewrite vals_eqb_refl.
          split; [|reflexivity].
          constructor; try assumption.
          -- intros sid'. cbn [st_subs set_backlog routed]. apply (inv_subs I).
          -- intros sid'. cbn [st_backlog set_backlog routed early]. rewrite (dget_dset str_eqb sspec).
             rewrite (backlog_of_early rh st sid I Hr).
             destruct (sspec sid sid') as [<-|Hne].
             ++ rewrite Hr. rewrite (proj2 (is_event_for_iff sid m) Hev).
                destruct (early rh sid); reflexivity.
             ++ rewrite (inv_backlog I). destruct (is_event_for sid' m) eqn:E; [|reflexivity].
                apply is_event_for_iff in E. congruence.
          -- cbn [st_backlog set_backlog]. apply (NoDup_dset str_eqb sspec). exact (inv_nd I).
          -- exact (inv_shape I).
      + destruct (hn_not_event st m Hev) as [c Hc]. rewrite Hc. cbn [fst snd]. split; [|reflexivity].
        constructor; try assumption.
        * intros sid'. cbn [routed]. apply (inv_subs I).
        * intros sid'. cbn [routed early]. rewrite (inv_backlog I).
          replace (is_event_for sid' m) with false; [reflexivity|].
          unfold is_event_for. now rewrite Hev.
        * exact (inv_nd I).
        * exact (inv_shape I).
    - (* SubStart *)
      cbn [do_step step_failures o_what o_vals fst snd]. rewrite vals_eqb_refl. split; [|reflexivity].
      constructor; try assumption; [exact (inv_subs I) | exact (inv_backlog I) | exact (inv_nd I) | exact (inv_shape I)].
    - (* SubResp *)
      cbn [do_step step_failures].
      assert (Hv : v < length vars) by (cbn in Hs; now apply Nat.ltb_lt).
      destruct (grant r) as [sid|] eqn:Hg.
      + destruct (complete_grant rh st v r sid I Hg Hv) as [st' [t [Hc [I' Hvals]]]].
        rewrite Hc. cbn [fst snd o_what o_vals]. split; [exact I'|].
        destruct (routed rh sid) as [w|] eqn:Hr; [reflexivity|].
        unfold returned. rewrite str_eqb_refl. cbn [andb].
        assert (Hobs : vals_obs st' = upd_nth v (map snd (apply_msgs v (early rh sid) (svc_vals st v))) (vals_obs st)).
        { unfold vals_obs. rewrite Hvals. apply map_upd_nth. }
        rewrite Hobs. rewrite others_eqb_upd.
        rewrite nth_upd_nth.
        2:{ eapply Nat.lt_le_trans; [exact Hv|]. rewrite <- (shape_length st (inv_shape I)).
            unfold vals_obs. rewrite map_length. apply le_n. }
        replace (expected_after conv vars v (early rh sid) (nth v (vals_obs st) []))
          with (map snd (apply_msgs v (early rh sid) (svc_vals st v))).
        * rewrite (list_eqb_refl vstate_eqb vstate_eqb_refl). reflexivity.
        * unfold expected_after, apply_msgs. rewrite map_map. cbn [snd].
          unfold vals_obs. change (@nil vstate) with (map (@snd str vstate) []). rewrite map_nth.
          fold (svc_vals st v). rewrite <- (shape_names st v (inv_shape I)). unfold dkeys.
          now rewrite combine_fst_snd.
      + destruct (complete_no_grant st v r Hg) as [c Hc]. rewrite Hc. cbn [fst snd o_what o_vals].
        rewrite vals_eqb_refl. split; [|reflexivity].
        constructor; try assumption.
        * intros sid'. rewrite (routed_cons_nogrant v r rh sid' Hg). apply (inv_subs I).
        * intros sid'. rewrite (routed_cons_nogrant v r rh sid' Hg). cbn [early]. apply (inv_backlog I).
        * exact (inv_nd I).
        * exact (inv_shape I).
  Qed.

  (* ---- all schedules: induction over the list of steps ---- *)
  Lemma run_from_cons st s r :
    run_from conv st (s :: r) =
    mkObs (snd (do_step conv st s)) (vals_obs (fst (do_step conv st s))) :: run_from conv (fst (do_step conv st s)) r.
  Proof. cbn [run_from]. now destruct (do_step conv st s). Qed.

  Lemma check_run : forall steps rh st idx,
    Inv rh st -> forallb (step_ok vars) steps = true ->
    check_from conv vars rh (vals_obs st) idx steps (run_from conv st steps) = [].
  Proof.
    induction steps as [|s r IH]; intros rh st idx I Hd; [reflexivity|].
    cbn [forallb] in Hd. apply andb_true_iff in Hd. destruct Hd as [Hs Hr].
    rewrite run_from_cons. cbn [check_from o_vals].
    destruct (step_ok_inv rh st s I Hs) as [I' Hf]. rewrite Hf. cbn [map app].
    now apply IH.
  Qed.

  (* the state after a prefix, with its invariant *)
  Fixpoint state_after (st : state) (steps : list step) : state :=
    match steps with [] => st | s :: r => state_after (fst (do_step conv st s)) r end.

  Lemma inv_after : forall pre rh st,
    Inv rh st -> forallb (step_ok vars) pre = true -> Inv (rev pre ++ rh) (state_after st pre).
  Proof.
    induction pre as [|s r IH]; intros rh st I Hd; [exact I|].
    cbn [forallb] in Hd. apply andb_true_iff in Hd. destruct Hd as [Hs Hr].
    cbn [rev state_after]. rewrite <- app_assoc. cbn [app]. apply IH; [|exact Hr].
    exact (proj1 (step_ok_inv rh st s I Hs)).
  Qed.

  Lemma run_from_app : forall pre st post,
    run_from conv st (pre ++ post) = run_from conv st pre ++ run_from conv (state_after st pre) post.
  Proof.
    induction pre as [|s r IH]; intros st post; [reflexivity|].
    cbn [app]. rewrite !run_from_cons. cbn [app state_after]. now rewrite IH.
  Qed.
  Lemma run_from_length : forall steps st, length (run_from conv st steps) = length steps.
  Proof. induction steps as [|s r IH]; intros st; [reflexivity|]. rewrite run_from_cons. cbn. now rewrite IH. Qed.
End Inv.
Arguments inv_subs vars {rh st} _ _.
Arguments inv_backlog vars {rh st} _ _.
Arguments inv_nd vars {rh st} _.
Arguments inv_shape vars {rh st} _.
Arguments inv_hist vars {rh st} _.
