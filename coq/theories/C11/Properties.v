(* C11 — Events that race the SUBSCRIBE response are not lost.  Property theorems only; every statement is
   closed (the conversion oracle, the services and the schedule are quantified here).

   Schedules are lists of the atomic steps Notify m / SubStart v / SubResp v r (Model.v); "all interleavings"
   = all such lists, of any length, over any number of services, NOTIFYs, SIDs and subscribe calls - not only
   the k <= 3 of the quantifier, which bounds what the correspondence enumerates exhaustively.  The model is
   the code as repaired by proposed/C11/D18.diff. *)
From Coq Require Import List Bool NArith ZArith Arith.
From AUC Require Import Prelude.PyDict Prelude.PyStr C11.Model C11.Spec C11.Apply C11.Inv C11.Main C11.Erase C11.Run.
Import ListNotations.

(* EARLY NOTIFYs ARE ANSWERED 200.  In every schedule, an event NOTIFY (NT/NTS/SID headers right) that arrives
   while its SID has not been granted by any SUBSCRIBE response so far is answered 200 and leaves every variable
   of every service as it was - whatever its body is (well-formed or not), whatever the conversions do, whatever
   happened before and happens after.  No domain restriction. *)
Theorem C11_early_answered_200 :
  forall (conv : nat -> str -> str -> outcome) (vars : list (list str))
         (pre : list step) (m : msg) (post : list step) (sid : str),
    event_sid m = Some sid -> routed (rev pre) sid = None ->
    nth_error (run_from conv (state0 vars) (pre ++ Notify m :: post)) (length pre)
    = Some (mkObs (ONotify (NStatus 200)) (vals_obs (state_after conv (state0 vars) pre))).
Proof. exact early_answered_200. Qed.
Print Assumptions C11_early_answered_200.

(* EARLY EVENTS ARE APPLIED.  In every schedule of the domain (distinct variable names per service, well-formed
   bodies naming a variable by one spelling, existing services), when a SUBSCRIBE response grants service v a SID
   that was not granted before, the call returns that SID and, at that moment, the variables of v hold
   `expected_after`: each one the value `latest` computes from the event NOTIFYs received for that SID so far, in
   arrival order, starting from what it held; every other service holds what it held.  Premise about code that is
   not C11's: the conversions raise nothing but ValueError / UpnpValueError (C08). *)
Theorem C11_early_events_applied :
  forall (conv : nat -> str -> str -> outcome),
    (forall v n x c, conv v n x <> ORaise c) ->
    forall (vars : list (list str)) (pre : list step) (v : nat) (r : reaction) (post : list step) (sid : str),
      in_domain vars (pre ++ [SubResp v r]) = true ->
      grant r = Some sid -> routed (rev pre) sid = None ->
      exists t vals',
        nth_error (run_from conv (state0 vars) (pre ++ SubResp v r :: post)) (length pre)
        = Some (mkObs (OSub (SOk sid t)) vals') /\
        nth v vals' [] = expected_after conv vars v (early (rev pre) sid)
                                        (nth v (vals_obs (state_after conv (state0 vars) pre)) []) /\
        forall w, w <> v -> nth w vals' [] = nth w (vals_obs (state_after conv (state0 vars) pre)) [].
Proof. exact early_events_applied. Qed.
Print Assumptions C11_early_events_applied.

(* ... where `latest` is "the value from the latest NOTIFY that carried it": if NOTIFY m says x about variable n
   and no later one says anything about n, the variable holds the outcome of assigning x (stored; UPNP_VALUE_ERROR
   if the type cannot read x; if validation rejects x, what the earlier NOTIFYs left) ... *)
Theorem C11_latest_wins :
  forall (conv : nat -> str -> str -> outcome) (vars : list (list str)) (v : nat) (n : str)
         (ms1 : list msg) (m : msg) (ms2 : list msg) (x : str) (b : vstate),
    says (names_of vars v) n m = Some x ->
    (forall m', In m' ms2 -> says (names_of vars v) n m' = None) ->
    latest conv vars v n (ms1 ++ m :: ms2) b = vstate_after (conv v n x) (latest conv vars v n ms1 b).
Proof. exact latest_wins. Qed.
Print Assumptions C11_latest_wins.

(* ... and a variable no NOTIFY says anything about keeps its value. *)
Theorem C11_latest_not_carried :
  forall (conv : nat -> str -> str -> outcome) (vars : list (list str)) (v : nat) (n : str)
         (ms : list msg) (b : vstate),
    (forall m, In m ms -> says (names_of vars v) n m = None) -> latest conv vars v n ms b = b.
Proof. exact latest_not_carried. Qed.
Print Assumptions C11_latest_not_carried.

(* THE STATEMENT, LITERALLY.  Any schedule; service v is granted sid for the first time by the step after `pre`;
   among the event NOTIFYs received for sid before that, m is the latest that carries variable n (the j-th variable of
   v) and carries the text x, which the variable's type accepts and stores as rp: once the subscribe call has
   returned, the variable holds rp.  (What follows the response, `post`, is arbitrary.) *)
Theorem C11_early_value_is_latest :
  forall (conv : nat -> str -> str -> outcome),
    (forall v n x c, conv v n x <> ORaise c) ->
    forall (vars : list (list str)) (pre : list step) (v : nat) (r : reaction) (post : list step) (sid : str)
           (ms1 : list msg) (m : msg) (ms2 : list msg) (n x rp : str) (j : nat),
      in_domain vars (pre ++ [SubResp v r]) = true ->
      grant r = Some sid -> routed (rev pre) sid = None ->
      early (rev pre) sid = ms1 ++ m :: ms2 ->
      says (names_of vars v) n m = Some x ->
      (forall m', In m' ms2 -> says (names_of vars v) n m' = None) ->
      conv v n x = OSet rp ->
      nth_error (names_of vars v) j = Some n ->
      exists t vals',
        nth_error (run_from conv (state0 vars) (pre ++ SubResp v r :: post)) (length pre)
        = Some (mkObs (OSub (SOk sid t)) vals') /\
        nth_error (nth v vals' []) j = Some (VVal rp).
Proof. exact early_value_is_latest. Qed.
Print Assumptions C11_early_value_is_latest.

(* NEVER GRANTED = INERT.  For every schedule in which no SUBSCRIBE response ever grants a SID, deleting all event
   NOTIFYs for that SID from the schedule changes no other observation: not the status of any other NOTIFY, not
   the result of any subscribe call, not the value of any variable of any service after any remaining step.
   (Each deleted NOTIFY itself was answered 200 and changed nothing: C11_early_answered_200.)
   Every body, every conversion; no domain restriction. *)
Theorem C11_ungranted_inert :
  forall (conv : nat -> str -> str -> outcome) (sid : str) (vars : list (list str)) (steps : list step),
    routed steps sid = None ->
    run_from conv (state0 vars) (erase sid steps) = erase_obs sid steps (run_from conv (state0 vars) steps).
Proof. exact ungranted_inert. Qed.
Print Assumptions C11_ungranted_inert.

(* THE CLAUSES THE CHECK EVALUATES.  For every schedule of the domain no clause of Spec.step_failures
   (1 early_answered_200, 2 early_events_applied, 3 ungranted_inert: nothing else changes anything) fails on
   the model's observations ... *)
Theorem C11_clauses_hold :
  forall (conv : nat -> str -> str -> outcome),
    (forall v n x c, conv v n x <> ORaise c) ->
    forall (vars : list (list str)) (steps : list step),
      in_domain vars steps = true ->
      spec_failures conv vars steps (run_from conv (state0 vars) steps) = [].
Proof. exact clauses_hold. Qed.
Print Assumptions C11_clauses_hold.

(* ... in the very terms `Run.report` uses (input with the conversion oracle as a finite table). *)
Theorem C11_model_satisfies_spec :
  forall i : input, dom i = true -> oracle_ok i = true -> failures i (model_run i) = [].
Proof. exact model_satisfies_spec. Qed.
Print Assumptions C11_model_satisfies_spec.

(* Non-vacuity: the D18 schedule (NOTIFY{V=10}, NOTIFY{M=1} while the SUBSCRIBE is outstanding) is inside the
   domain; in the model both are answered 200 and after the response BOTH variables hold their values
   (the unrepaired code leaves V at None). *)
Example C11_d18_schedule :
  let V := [86]%N in let M := [77]%N in let sid := [117; 49]%N in
  let ev := Some s_upnp_event in let pc := Some s_propchange in
  let i := mkInput [[V; M]]
                   [((0, (V, [49; 48]%N)), OSet [49; 48]%N); ((0, (M, [49]%N)), OSet [84]%N)]
                   [SubStart 0;
                    Notify (mkMsg ev pc (Some sid) (BProps [[(V, Some [49; 48]%N)]]));
                    Notify (mkMsg ev pc (Some sid) (BProps [[(M, Some [49]%N)]]));
                    SubResp 0 (RResp 200 (Some sid) None)] in
  dom i = true /\ oracle_ok i = true /\
  model_run i = [mkObs OStarted [[VNone; VNone]];
                 mkObs (ONotify (NStatus 200)) [[VNone; VNone]];
                 mkObs (ONotify (NStatus 200)) [[VNone; VNone]];
                 mkObs (OSub (SOk sid 1800)) [[VVal [49; 48]%N; VVal [84]%N]]].
Proof. vm_compute. repeat split; reflexivity. Qed.

(* the clauses are not vacuous either: they reject the observation of the unrepaired code on that schedule *)
Example C11_clauses_reject_d18 :
  let V := [86]%N in let M := [77]%N in let sid := [117; 49]%N in
  let ev := Some s_upnp_event in let pc := Some s_propchange in
  let i := mkInput [[V; M]]
                   [((0, (V, [49; 48]%N)), OSet [49; 48]%N); ((0, (M, [49]%N)), OSet [84]%N)]
                   [SubStart 0;
                    Notify (mkMsg ev pc (Some sid) (BProps [[(V, Some [49; 48]%N)]]));
                    Notify (mkMsg ev pc (Some sid) (BProps [[(M, Some [49]%N)]]));
                    SubResp 0 (RResp 200 (Some sid) None)] in
  failures i [mkObs OStarted [[VNone; VNone]];
              mkObs (ONotify (NStatus 200)) [[VNone; VNone]];
              mkObs (ONotify (NStatus 200)) [[VNone; VNone]];
              mkObs (OSub (SOk sid 1800)) [[VNone; VVal [84]%N]]] = [(2%N, 3%N)].
Proof. vm_compute. reflexivity. Qed.
