(* C11 — the theorems about all schedules, in the form Properties.v states them. *)
From Coq Require Import List Bool NArith ZArith Arith Lia.
From AUC Require Import Prelude.PyDict Prelude.PyStr C11.Model C11.Spec C11.Apply C11.Inv C11.Run.
Import ListNotations.

(* ------------------------------------------------------------------------------------------ *)
(* The routing table follows the grants, whatever the messages and the conversions do. *)
Section Routing.
  Variable conv : nat -> str -> str -> outcome.

  Lemma hn_subs st m : st_subs (fst (handle_notify conv st m)) = st_subs st.
  Proof.
    unfold handle_notify. destruct (m_nt m); [|reflexivity]. destruct (m_nts m); [|reflexivity].
    destruct (_ || _); [reflexivity|]. destruct (m_sid m) as [sid|]; [|reflexivity].
    destruct (sget (st_subs st) sid) as [v|]; [|reflexivity].
    destruct (m_body m) as [props|c]; [|reflexivity].
    destruct (apply_changes conv v (svc_vals st v) (changes_of props)) as [vals' [c|]]; reflexivity.
  Qed.

  Lemma replay_subs items : forall st, st_subs (fst (replay_backlog conv st items)) = st_subs st.
  Proof.
    induction items as [|m r IH]; intros st; [reflexivity|]. cbn [replay_backlog].
    pose proof (hn_subs st m) as H. destruct (handle_notify conv st m) as [st' [c|c]]; cbn [fst] in *.
    - now rewrite IH.
    - exact H.
  Qed.

  Lemma cs_subs st v r :
    st_subs (fst (complete_subscribe conv st v r)) =
    match grant r with Some sid => dset str_eqb (st_subs st) sid v | None => st_subs st end.
  Proof.
    destruct r as [status [sid|] rtmo|c]; cbn [complete_subscribe grant]; try reflexivity.
    - destruct (status =? 200)%N; cbn [negb andb]; [|reflexivity].
      destruct (parse_timeout rtmo) as [t|c]; [|reflexivity].
      set (st1 := set_subs st (dset str_eqb (st_subs st) sid v)).
      destruct (sget (st_backlog st1) sid) as [items|]; [|reflexivity].
      pose proof (replay_subs items st1) as H.
      destruct (replay_backlog conv st1 items) as [st2 [c|]]; cbn [fst] in *; exact H.
    - destruct (status =? 200)%N; reflexivity.
  Qed.

  Lemma subs_step rh st s :
    (forall sid, sget (st_subs st) sid = routed rh sid) ->
    forall sid, sget (st_subs (fst (do_step conv st s))) sid = routed (s :: rh) sid.
  Proof.
    intros H sid. destruct s as [m|v|v r]; cbn [do_step routed].
    - pose proof (hn_subs st m) as E. destruct (handle_notify conv st m). cbn [fst] in *. rewrite E. apply H.
    - apply H.
    - pose proof (cs_subs st v r) as E. destruct (complete_subscribe conv st v r). cbn [fst] in *. rewrite E.
      destruct (grant r) as [g|]; [|apply H]. rewrite (dget_dset str_eqb sspec). now rewrite H.
  Qed.

  Lemma subs_after : forall pre rh st,
    (forall sid, sget (st_subs st) sid = routed rh sid) ->
    forall sid, sget (st_subs (state_after conv st pre)) sid = routed (rev pre ++ rh) sid.
  Proof.
    induction pre as [|s r IH]; intros rh st H sid; [apply H|].
    cbn [rev state_after]. rewrite <- app_assoc. cbn [app]. apply IH. now apply subs_step.
  Qed.

  (* EARLY NOTIFYs ARE ANSWERED 200 - every schedule, every body, every conversion *)
  Theorem early_answered_200 (vars : list (list str)) pre m post sid :
    event_sid m = Some sid -> routed (rev pre) sid = None ->
    let st := state_after conv (state0 vars) pre in
    nth_error (run_from conv (state0 vars) (pre ++ Notify m :: post)) (length pre)
    = Some (mkObs (ONotify (NStatus 200)) (vals_obs st)).
  Proof.
    intros Hev Hr st. rewrite run_from_app.
    rewrite nth_error_app2 by (rewrite run_from_length; apply le_n).
    rewrite run_from_length, Nat.sub_diag. rewrite run_from_cons. cbn [nth_error do_step].
    fold st. rewrite (hn_event conv st m sid Hev).
    assert (Hs : sget (st_subs st) sid = None).
    { unfold st. rewrite (subs_after pre [] (state0 vars)) by reflexivity. now rewrite app_nil_r. }
    rewrite Hs. reflexivity.
  Qed.
End Routing.

(* ------------------------------------------------------------------------------------------ *)
(* What `latest` means: the latest NOTIFY that carries the variable decides. *)
Section Latest.
  Variable conv : nat -> str -> str -> outcome.
  Variable vars : list (list str).

  Lemma latest_app v n ms1 ms2 b :
    latest conv vars v n (ms1 ++ ms2) b = latest conv vars v n ms2 (latest conv vars v n ms1 b).
  Proof. unfold latest. apply fold_left_app. Qed.

  Theorem latest_not_carried v n ms b :
    (forall m, In m ms -> says (names_of vars v) n m = None) -> latest conv vars v n ms b = b.
  Proof.
    revert b. induction ms as [|m r IH]; intros b H; [reflexivity|].
    unfold latest. cbn [fold_left]. unfold effect_on at 2. rewrite (H m) by now left.
    apply IH. intros m' Hm'. apply H. now right.
  Qed.

  Theorem latest_wins v n ms1 m ms2 x b :
    says (names_of vars v) n m = Some x ->
    (forall m', In m' ms2 -> says (names_of vars v) n m' = None) ->
    latest conv vars v n (ms1 ++ m :: ms2) b = vstate_after (conv v n x) (latest conv vars v n ms1 b).
  Proof.
    intros Hm H2. rewrite latest_app. change (m :: ms2) with ([m] ++ ms2). rewrite latest_app.
    rewrite (latest_not_carried v n ms2) by exact H2.
    unfold latest at 1. cbn [fold_left]. unfold effect_on. now rewrite Hm.
  Qed.
End Latest.

(* ------------------------------------------------------------------------------------------ *)
Section Main.
  Variable conv : nat -> str -> str -> outcome.
  Hypothesis conv_total : forall v n x c, conv v n x <> ORaise c.
  Variable vars : list (list str).

  Lemma in_domain_split steps :
    in_domain vars steps = true -> forallb nodupb vars = true /\ forallb (step_ok vars) steps = true.
  Proof. unfold in_domain. now rewrite andb_true_iff. Qed.

  (* NO CLAUSE FAILS ON THE MODEL - all schedules of the domain *)
  Theorem clauses_hold steps :
    in_domain vars steps = true ->
    spec_failures conv vars steps (run_from conv (state0 vars) steps) = [].
  Proof.
    intros H. apply in_domain_split in H. destruct H as [Hnd Hd].
    unfold spec_failures. rewrite <- (vals_obs_init vars).
    apply (check_run conv conv_total vars Hnd); [apply inv_init | exact Hd].
  Qed.

  (* EARLY EVENTS ARE APPLIED, statement form *)
  Lemma inv_prefix pre :
    forallb nodupb vars = true -> forallb (step_ok vars) pre = true ->
    Inv vars (rev pre) (state_after conv (state0 vars) pre).
  Proof.
    intros Hnd Hpre. rewrite <- (app_nil_r (rev pre)).
    apply (inv_after conv conv_total vars Hnd); [apply inv_init | exact Hpre].
  Qed.

  Theorem early_events_applied pre v r post sid :
    in_domain vars (pre ++ [SubResp v r]) = true ->
    grant r = Some sid -> routed (rev pre) sid = None ->
    let st := state_after conv (state0 vars) pre in
    exists t vals',
      nth_error (run_from conv (state0 vars) (pre ++ SubResp v r :: post)) (length pre)
      = Some (mkObs (OSub (SOk sid t)) vals') /\
      nth v vals' [] = expected_after conv vars v (early (rev pre) sid) (nth v (vals_obs st) []) /\
      forall w, w <> v -> nth w vals' [] = nth w (vals_obs st) [].
  Proof.
    intros H Hg Hr st. apply in_domain_split in H. destruct H as [Hnd Hd].
    rewrite forallb_app in Hd. apply andb_true_iff in Hd. destruct Hd as [Hpre Hrest].
    cbn [forallb] in Hrest. apply andb_true_iff in Hrest. destruct Hrest as [Hs _].
    assert (Hv : v < length vars) by (cbn in Hs; now apply Nat.ltb_lt).
    assert (I : Inv vars (rev pre) st) by (apply inv_prefix; assumption).
    destruct (complete_grant conv conv_total vars Hnd (rev pre) st v r sid I Hg Hv) as [st' [t [Hc [I' Hvals]]]].
    rewrite Hr in Hvals.
    exists t, (vals_obs st'). split; [|split].
    - rewrite run_from_app. rewrite nth_error_app2 by (rewrite run_from_length; apply le_n).
      rewrite run_from_length, Nat.sub_diag. rewrite run_from_cons. cbn [nth_error do_step].
      fold st. now rewrite Hc.
    - unfold vals_obs at 1. rewrite Hvals, map_upd_nth.
      rewrite nth_upd_nth.
      2:{ eapply Nat.lt_le_trans; [exact Hv|]. rewrite <- (shape_length vars st (inv_shape vars I)).
          rewrite map_length. apply le_n. }
      unfold expected_after, apply_msgs. rewrite map_map. cbn [snd].
      unfold vals_obs. change (@nil vstate) with (map (@snd str vstate) []). rewrite map_nth.
      fold (svc_vals st v). rewrite <- (shape_names vars st v (inv_shape vars I)). unfold dkeys.
      now rewrite combine_fst_snd.
    - intros w Hw. unfold vals_obs at 1. rewrite Hvals, map_upd_nth. fold (vals_obs st).
      generalize (map snd (apply_msgs conv vars v (early (rev pre) sid) (svc_vals st v))) as x. intros x.
      clear -Hw. revert w v Hw. generalize (vals_obs st) as l.
      induction l as [|a l IH]; intros w v Hw.
      + now destruct v.
      + destruct w, v; cbn; try reflexivity; try congruence. apply IH. congruence.
  Qed.
  Lemma expected_after_nth v ms : forall names before j n,
    nth_error names j = Some n -> length before = length names ->
    nth_error (map (fun nb => latest conv vars v (fst nb) ms (snd nb)) (combine names before)) j
    = Some (latest conv vars v n ms (nth j before VNone)).
  Proof.
    induction names as [|a names IH]; intros [|b before] [|j] n Hn Hl; cbn in *; try discriminate.
    - now inversion Hn.
    - apply IH; [exact Hn | lia].
  Qed.

  (* THE STATEMENT, literally: the j-th variable n of service v, carried by early NOTIFY m with text x that the type
     accepts (stored as rp), not carried by any later early NOTIFY, holds rp once the subscribe call has returned *)
  Theorem early_value_is_latest pre v r post sid ms1 m ms2 n x rp j :
    in_domain vars (pre ++ [SubResp v r]) = true ->
    grant r = Some sid -> routed (rev pre) sid = None ->
    early (rev pre) sid = ms1 ++ m :: ms2 ->
    says (names_of vars v) n m = Some x ->
    (forall m', In m' ms2 -> says (names_of vars v) n m' = None) ->
    conv v n x = OSet rp ->
    nth_error (names_of vars v) j = Some n ->
    exists t vals',
      nth_error (run_from conv (state0 vars) (pre ++ SubResp v r :: post)) (length pre)
      = Some (mkObs (OSub (SOk sid t)) vals') /\
      nth_error (nth v vals' []) j = Some (VVal rp).
  Proof.
    intros Hd Hg Hr He Hsays Hlater Hconv Hj.
    destruct (early_events_applied pre v r post sid Hd Hg Hr) as [t [vals' [Hrun [Hv _]]]].
    exists t, vals'. split; [exact Hrun|].
    rewrite Hv. unfold expected_after. rewrite (expected_after_nth v _ _ _ j n Hj).
    - rewrite He, (latest_wins conv vars v n ms1 m ms2 x _ Hsays Hlater), Hconv. reflexivity.
    - apply in_domain_split in Hd. destruct Hd as [Hnd Hd].
      rewrite forallb_app in Hd. apply andb_true_iff in Hd. destruct Hd as [Hpre _].
      pose proof (inv_prefix pre Hnd Hpre) as I.
      set (st := state_after conv (state0 vars) pre) in *.
      rewrite <- (shape_names vars st v (inv_shape vars I)).
      unfold vals_obs. change (@nil vstate) with (map (@snd str vstate) []). rewrite map_nth.
      fold (svc_vals st v). unfold dkeys. now rewrite !map_length.
  Qed.
End Main.

(* ------------------------------------------------------------------------------------------ *)
(* The table-level statement: the definitions the correspondence check evaluates. *)
Lemma dget_some_in (K V : Type) (keqb : K -> K -> bool) (d : dict K V) k o :
  dget keqb d k = Some o -> exists k', In (k', o) d.
Proof.
  induction d as [|[a w] r IH]; cbn; [discriminate|].
  destruct (keqb a k).
  - intros [= <-]. exists a. now left.
  - intros H. destruct (IH H) as [k' Hk']. exists k'. now right.
Qed.

Lemma conv_of_total tbl :
  forallb (fun kv => outcome_total (snd kv)) tbl = true ->
  forall v n x c, conv_of tbl v n x <> ORaise c.
Proof.
  intros H v n x c. unfold conv_of. destruct (dget key_eqb tbl (v, (n, x))) as [o|] eqn:E; [|discriminate].
  apply dget_some_in in E. destruct E as [k' Hin]. rewrite forallb_forall in H.
  specialize (H _ Hin). cbn in H. intros ->. discriminate.
Qed.

Theorem model_satisfies_spec (i : input) :
  dom i = true -> oracle_ok i = true -> failures i (model_run i) = [].
Proof.
  intros Hd Ho. unfold failures, model_run. apply clauses_hold; [|exact Hd].
  now apply conv_of_total.
Qed.
