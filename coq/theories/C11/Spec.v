(* C11 — the property restated over the schedule itself, with every interpretive decision ("Reading") as a
   named definition.  The clauses are executable booleans over (input, observation): the same definitions are
   evaluated on the implementation's observations by Run.report and are what the theorems of Properties.v
   are about.  Nothing here mentions the backlog or the routing table: what is "early", what is "granted" and
   what a variable must hold are functions of the steps that happened. *)
From Coq Require Import List Bool NArith ZArith Arith.
From AUC Require Import Prelude.PyDict Prelude.PyStr C11.Model.
Import ListNotations.

(* ------------------------------------------------------------------------------------------ *)
(* Reading: a NOTIFY message of the statement is a GENA event message: NT: upnp:event, NTS: upnp:propchange
   and a SID header.  (Requests failing these checks are answered 400/412 and are C10's subject.) *)
Definition event_sid (m : msg) : option str :=
  match m_nt m, m_nts m with
  | Some nt, Some nts => if str_eqb nt s_upnp_event && str_eqb nts s_propchange then m_sid m else None
  | _, _ => None
  end.
Definition is_event_for (sid : str) (m : msg) : bool :=
  match event_sid m with Some s => str_eqb s sid | None => false end.

(* Reading: a SUBSCRIBE is granted (and the call returns) when the response has status 200, carries a SID and
   its TIMEOUT header, if any, is acceptable (C09's subject); every other reaction makes the call raise. *)
Definition grant (r : reaction) : option str :=
  match r with
  | RResp status (Some sid) rtmo =>
      if (status =? 200)%N && (if parse_timeout rtmo then true else false) then Some sid else None
  | _ => None
  end.

(* The steps that happened so far, most recent first. *)
(* the service a SID is routed to: the one of the latest grant *)
Fixpoint routed (rh : list step) (sid : str) : option nat :=
  match rh with
  | [] => None
  | SubResp v r :: t =>
      match grant r with
      | Some s => if str_eqb s sid then Some v else routed t sid
      | None => routed t sid
      end
  | _ :: t => routed t sid
  end.
(* the event messages received for a SID, in arrival order: all of them are EARLY as long as the SID was not granted *)
Fixpoint early (rh : list step) (sid : str) : list msg :=
  match rh with
  | [] => []
  | Notify m :: t => if is_event_for sid m then early t sid ++ [m] else early t sid
  | _ :: t => early t sid
  end.
Definition never_granted (steps : list step) (sid : str) : bool :=
  match routed steps sid with None => true | Some _ => false end.

(* ------------------------------------------------------------------------------------------ *)
(* What a NOTIFY says about a variable. *)
(* the element tag names variable n of a service whose variables are [names] (exactly, or inside "{...}n") *)
Definition resolves (names : list str) (tag n : str) : bool :=
  match resolve names tag with Some k => str_eqb k n | None => false end.
(* the text a NOTIFY carries for n: that of the LAST child element, in document order, whose tag names n *)
Fixpoint said (names : list str) (n : str) (kids : list (str * str)) : option str :=
  match kids with
  | [] => None
  | (t, x) :: r =>
      match said names n r with
      | Some y => Some y
      | None => if resolves names t n then Some x else None
      end
  end.
Definition says (names : list str) (n : str) (m : msg) : option str :=
  match m_body m with BProps props => said names n (kids_of props) | BBad _ => None end.

Section Spec.
  Variable conv : nat -> str -> str -> outcome.
  Variable vars : list (list str).        (* the names of the state variables of every service *)

  Definition names_of (v : nat) : list str := nth v vars [].

  (* what variable n of service v holds after NOTIFY m, if it held b: the outcome of assigning the carried
     text through the normal event path (stored / UPNP_VALUE_ERROR / rejected by validation and left alone) *)
  Definition effect_on (v : nat) (n : str) (m : msg) (b : vstate) : vstate :=
    match says (names_of v) n m with
    | Some x => vstate_after (conv v n x) b
    | None => b
    end.
  (* ... and after a sequence of NOTIFYs in arrival order: the value from the latest that carried it *)
  Definition latest (v : nat) (n : str) (ms : list msg) (before : vstate) : vstate :=
    fold_left (fun cur m => effect_on v n m cur) ms before.
  Definition expected_after (v : nat) (ms : list msg) (before : list vstate) : list vstate :=
    map (fun nb => latest v (fst nb) ms (snd nb)) (combine (names_of v) before).

  (* ---- comparison ---- *)
  Definition vstate_eqb (a b : vstate) : bool :=
    match a, b with
    | VNone, VNone => true
    | VError, VError => true
    | VVal x, VVal y => str_eqb x y
    | _, _ => false
    end.
  Fixpoint list_eqb {A : Type} (eqb : A -> A -> bool) (a b : list A) : bool :=
    match a, b with
    | [], [] => true
    | x :: a', y :: b' => eqb x y && list_eqb eqb a' b'
    | _, _ => false
    end.
  Definition vals_eqb (a b : list (list vstate)) : bool := list_eqb (list_eqb vstate_eqb) a b.
  (* every service other than v holds what it held *)
  Fixpoint others_eqb (v : nat) (a b : list (list vstate)) : bool :=
    match a, b with
    | [], [] => true
    | x :: a', y :: b' =>
        match v with
        | O => vals_eqb a' b'
        | S k => list_eqb vstate_eqb x y && others_eqb k a' b'
        end
    | _, _ => false
    end.
  Definition returned (x : sres) (sid : str) : bool :=
    match x with SOk s _ => str_eqb s sid | SErr _ => false end.
  Definition is_200 (r : nres) : bool :=
    match r with NStatus c => (c =? 200)%N | NRaise _ => false end.

  (* ---- the clauses, for one step ----
     rh = the steps before it (most recent first), prev = the values observed before it.
       1 early_answered_200   an event NOTIFY whose SID is not granted yet is answered 200
       2 early_events_applied the subscribe call that is granted a SID for the first time returns it, and then
                              every variable of its service holds `latest` over the early NOTIFYs of that SID
       3 ungranted_inert      nothing else changes anything: an early NOTIFY changes no variable when it
                              arrives, a subscribe call changes no other service, a subscribe call that is
                              not granted (or only started) changes nothing *)
  Definition step_failures (rh : list step) (prev : list (list vstate)) (s : step) (o : step_obs) : list N :=
    match s with
    | Notify m =>
        match o_what o with
        | ONotify r =>
            match event_sid m with
            | Some sid =>
                match routed rh sid with
                | None => (if is_200 r then [] else [1%N]) ++ (if vals_eqb prev (o_vals o) then [] else [3%N])
                | Some _ => []                 (* not early: C10's subject *)
                end
            | None => []
            end
        | _ => [1%N]
        end
    | SubStart _ =>
        match o_what o with
        | OStarted => if vals_eqb prev (o_vals o) then [] else [3%N]
        | _ => [3%N]
        end
    | SubResp v r =>
        match o_what o with
        | OSub x =>
            match grant r with
            | Some sid =>
                match routed rh sid with
                | None =>
                    (if returned x sid
                        && list_eqb vstate_eqb (nth v (o_vals o) []) (expected_after v (early rh sid) (nth v prev []))
                     then [] else [2%N])
                    ++ (if others_eqb v prev (o_vals o) then [] else [3%N])
                | Some _ => []                 (* granted again: nothing early is left *)
                end
            | None => if vals_eqb prev (o_vals o) then [] else [3%N]
            end
        | _ => [2%N]
        end
    end.

  (* (clause, step index) of every failure along a schedule *)
  Fixpoint check_from (rh : list step) (prev : list (list vstate)) (idx : N)
           (steps : list step) (obs : list step_obs) : list (N * N) :=
    match steps, obs with
    | [], [] => []
    | s :: r, o :: ro =>
        map (fun c => (c, idx)) (step_failures rh prev s o)
        ++ check_from (s :: rh) (o_vals o) (N.succ idx) r ro
    | _, _ => [(1%N, idx)]                     (* not one observation per step *)
    end.
  Definition vals0 : list (list vstate) := map (map (fun _ => VNone)) vars.
  Definition spec_failures (steps : list step) (obs : list step_obs) : list (N * N) :=
    check_from [] vals0 0%N steps obs.
  Definition clause_ok (c : N) (steps : list step) (obs : list step_obs) : bool :=
    negb (existsb (fun f => (fst f =? c)%N) (spec_failures steps obs)).

  (* ---- the statement's domain ---- *)
  Fixpoint nodupb (l : list str) : bool :=
    match l with [] => true | x :: r => negb (mem x r) && nodupb r end.
  (* Reading: inside one NOTIFY a variable is named by one spelling of its tag (which may repeat: the last
     occurrence counts).  With two spellings ("Volume" and "{ns}Volume") "the value the NOTIFY carries" is
     not defined by the statement; the code then lets the spelling that occurred first ... last. *)
  Definition one_spelling (names : list str) (kids : list (str * str)) : bool :=
    forallb (fun t1 => forallb (fun t2 =>
      match resolve names (fst t1), resolve names (fst t2) with
      | Some a, Some b => if str_eqb a b then str_eqb (fst t1) (fst t2) else true
      | _, _ => true
      end) kids) kids.
  (* Reading: the NOTIFY bodies are well-formed XML (a body the parser refuses carries no variable; what the
     code does with one is modelled and compared, but is not what the statement speaks about). *)
  Definition msg_ok (m : msg) : bool :=
    match m_body m with
    | BProps props => forallb (fun names => one_spelling names (kids_of props)) vars
    | BBad _ => false
    end.
  Definition step_ok (s : step) : bool :=
    match s with
    | Notify m => msg_ok m
    | SubStart v => Nat.ltb v (length vars)
    | SubResp v _ => Nat.ltb v (length vars)
    end.
  (* a service description has distinct variable names *)
  Definition in_domain (steps : list step) : bool := forallb nodupb vars && forallb step_ok steps.
End Spec.
