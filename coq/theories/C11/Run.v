(* C11 — instantiation used by the correspondence check (the definitions input / model_run / dom / oracle_ok /
   failures are the ones the table-level theorem of Properties.v speaks about).  Imports no proof file. *)
From Coq Require Import List Bool NArith ZArith Arith.
From AUC Require Export Prelude.PyDict Prelude.PyStr C11.Model C11.Spec.
Import ListNotations.

(* One case: the variable names of every service, the conversion oracle as a finite table (computed by the
   harness with the real coercers and schemas on fresh variables, independently of the run that is observed),
   and the schedule. *)
Record input := mkInput {
  in_vars : list (list str);
  in_conv : list ((nat * (str * str)) * outcome);
  in_steps : list step
}.

Definition key_eqb (a b : nat * (str * str)) : bool :=
  Nat.eqb (fst a) (fst b) && str_eqb (fst (snd a)) (fst (snd b)) && str_eqb (snd (snd a)) (snd (snd b)).
Definition conv_of (tbl : list ((nat * (str * str)) * outcome)) (v : nat) (n x : str) : outcome :=
  match dget key_eqb tbl (v, (n, x)) with Some o => o | None => OInvalid end.

Definition observation := list step_obs.
Definition model_run (i : input) : observation :=
  run_from (conv_of (in_conv i)) (state0 (in_vars i)) (in_steps i).

Definition dom (i : input) : bool := in_domain (in_vars i) (in_steps i).
(* premise about code that is not C11's: the coercers raise ValueError only (C08) *)
Definition outcome_total (o : outcome) : bool := match o with ORaise _ => false | _ => true end.
Definition oracle_ok (i : input) : bool := forallb (fun kv => outcome_total (snd kv)) (in_conv i).

Definition failures (i : input) (o : observation) : list (N * N) :=
  spec_failures (conv_of (in_conv i)) (in_vars i) (in_steps i) o.

(* ---- comparison of observations ---- *)
Definition nres_eqb (a b : nres) : bool :=
  match a, b with
  | NStatus x, NStatus y => (x =? y)%N
  | NRaise x, NRaise y => str_eqb x y
  | _, _ => false
  end.
Definition sres_eqb (a b : sres) : bool :=
  match a, b with
  | SOk s t, SOk s' t' => str_eqb s s' && (t =? t')%Z
  | SErr x, SErr y => str_eqb x y
  | _, _ => false
  end.
Definition what_eqb (a b : what) : bool :=
  match a, b with
  | ONotify x, ONotify y => nres_eqb x y
  | OStarted, OStarted => true
  | OSub x, OSub y => sres_eqb x y
  | OSuspended, OSuspended => true
  | _, _ => false
  end.
Definition step_obs_eqb (a b : step_obs) : bool :=
  what_eqb (o_what a) (o_what b) && vals_eqb (o_vals a) (o_vals b).
Fixpoint first_diff (n : N) (a b : observation) : option N :=
  match a, b with
  | [], [] => None
  | x :: a', y :: b' => if step_obs_eqb x y then first_diff (N.succ n) a' b' else Some n
  | _, _ => Some n
  end.

(* (case, kind, detail): kind 0 = the model's observation differs from the implementation's (detail: first
   differing step); kind c in 1..3 = clause c fails on the IMPLEMENTATION's observation (detail: step),
   reported for inputs in the statement's domain whose oracle table satisfies the premise. *)
Fixpoint report (base : N) (cases : list (input * observation)) : list (N * N * N) :=
  match cases with
  | [] => []
  | (i, o) :: r =>
      (match first_diff 0%N (model_run i) o with Some p => [(base, 0%N, p)] | None => [] end) ++
      (if dom i && oracle_ok i then map (fun ck => (base, fst ck, snd ck)) (failures i o) else []) ++
      report (N.succ base) r
  end.

Definition replay (c : input * observation) :=
  (model_run (fst c), failures (fst c) (snd c), failures (fst c) (model_run (fst c)), dom (fst c), oracle_ok (fst c)).
