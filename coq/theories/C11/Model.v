(* C11 — events that race the SUBSCRIBE response: executable model of the anchored code.  Definitions only.

   async_upnp_client/event_handler.py   UpnpEventHandler.handle_notify, async_subscribe, _subscriptions, _backlog
   async_upnp_client/client.py          UpnpService.notify_changed_state_variables, has_state_variable /
                                        state_variable, UpnpStateVariable.upnp_value (through the oracle conv)

   The model describes the code as REPAIRED by proposed/C11/D18.diff: the backlog keeps EVERY early NOTIFY of
   a SID (a list per SID, in arrival order) and async_subscribe replays the whole list in that order before it
   deletes the entry.  (The unrepaired code keeps one (headers, body) pair per SID, so an earlier early NOTIFY
   is overwritten by a later one.)

   Schedules.  handle_notify contains no suspension point, and async_subscribe has exactly one: the SUBSCRIBE
   request.  Before it the handler's state is not touched; after it the code runs to completion (the replay
   awaits handle_notify only).  The interleavings of any number of NOTIFY deliveries with any number of
   subscribe calls are therefore exactly the lists of the atomic steps

       Notify m        the notify server hands one NOTIFY request to handle_notify
       SubStart v      service v calls async_subscribe: the request is sent, the call is suspended
       SubResp v r     the oldest outstanding call of service v gets the publisher's reaction r and runs to its
                       end (if none is outstanding the call is started first)

   (the harness checks the atomicity of the two sections on the real event loop at every step).

   Oracles (Section variable / part of the input, never an axiom):
     conv : service -> variable name -> text -> what `state_var.upnp_value = text` does (the type's coercer
            followed by the voluptuous schema; C08's subject);
     the XML parser: a NOTIFY body is given as what defusedxml/ElementTree delivers for it - the children of
            the event:property elements of the root as (tag, text) pairs, or the class of the exception. *)
From Coq Require Import List Bool NArith ZArith Arith.
From AUC Require Import Prelude.PyDict Prelude.PyStr.
Import ListNotations.

Definition str := pystr.

(* ------------------------------------------------------------------------------------------ *)
(* strings *)
Definition s_upnp_event : str := [117;112;110;112;58;101;118;101;110;116]%N.                         (* "upnp:event" *)
Definition s_propchange : str := [117;112;110;112;58;112;114;111;112;99;104;97;110;103;101]%N.      (* "upnp:propchange" *)
Definition s_second : str := [83;101;99;111;110;100;45]%N.                                           (* "Second-" *)
Definition s_second_infinite : str := s_second ++ [105;110;102;105;110;105;116;101]%N.               (* "Second-infinite" *)
Definition s_UpnpResponseError : str :=
  [85;112;110;112;82;101;115;112;111;110;115;101;69;114;114;111;114]%N.
Definition s_UpnpSIDError : str := [85;112;110;112;83;73;68;69;114;114;111;114]%N.
Definition s_ValueError : str := [86;97;108;117;101;69;114;114;111;114]%N.
Definition s_OverflowError : str := [79;118;101;114;102;108;111;119;69;114;114;111;114]%N.
Definition c_rbrace : N := 125%N.

(* ------------------------------------------------------------------------------------------ *)
(* A NOTIFY request as handle_notify sees it. *)
Inductive body :=
| BProps (props : list (list (str * option str)))   (* per event:property element of the root: its children (tag, text) *)
| BBad (cls : str).                                 (* DET.fromstring raises cls *)
Record msg := mkMsg { m_nt : option str; m_nts : option str; m_sid : option str; m_body : body }.

(* what the publisher (or the transport) does with the SUBSCRIBE request *)
Inductive reaction :=
| RResp (status : N) (rsid : option str) (rtmo : option str)   (* HTTP response; sid / timeout headers *)
| RFail (cls : str).                                            (* the requester raises cls *)

Inductive step :=
| Notify (m : msg)
| SubStart (v : nat)
| SubResp (v : nat) (r : reaction).

(* ------------------------------------------------------------------------------------------ *)
(* State variables. *)
Inductive outcome :=
| OSet (repr : str)      (* coerced and accepted by the schema: stored (repr() of the python value) *)
| OValueError            (* the coercer raised ValueError: UPNP_VALUE_ERROR stored *)
| OInvalid               (* UpnpValueError from validation: logged, the variable is left alone *)
| ORaise (cls : str).    (* anything else propagates *)

Inductive vstate := VNone | VError | VVal (repr : str).     (* UpnpStateVariable.value_unchecked *)

(* name.split("}")[1] when "}" in name *)
Fixpoint after_char (c : N) (s : str) : option str :=
  match s with
  | [] => None
  | x :: r => if N.eqb x c then Some r else after_char c r
  end.
Fixpoint until_char (c : N) (s : str) : str :=
  match s with
  | [] => []
  | x :: r => if N.eqb x c then [] else x :: until_char c r
  end.
Definition mem (n : str) (l : list str) : bool := existsb (str_eqb n) l.

(* has_state_variable / state_variable: the exact name, else ("possibly messed up namespaces") the part
   between the first and the second "}" *)
Definition resolve (names : list str) (tag : str) : option str :=
  if mem tag names then Some tag
  else match after_char c_rbrace tag with
       | Some rest => let seg := until_char c_rbrace rest in
                      if mem seg names then Some seg else None
       | None => None
       end.

(* changes[name] = el_state_var.text or "" over every child of every event:property, in document order *)
Definition text_or_empty (t : option str) : str := match t with Some s => s | None => [] end.
Definition kids_of (props : list (list (str * option str))) : list (str * str) :=
  map (fun c => (fst c, text_or_empty (snd c))) (concat props).
Definition changes_of (props : list (list (str * option str))) : dict str str :=
  dmerge str_eqb [] (kids_of props).

Definition vstate_after (o : outcome) (b : vstate) : vstate :=
  match o with
  | OSet r => VVal r
  | OValueError => VError
  | OInvalid | ORaise _ => b
  end.

(* ------------------------------------------------------------------------------------------ *)
(* The TIMEOUT header of the response (as in C09's model; C11 observes only whether it lets the call through). *)
Definition is_digit (c : N) : bool := ((48 <=? c) && (c <=? 57))%N.
Fixpoint str_contains (needle s : str) : bool :=
  starts_with needle s || match s with [] => false | _ :: t => str_contains needle t end.
Definition is_space (c : N) : bool := (((9 <=? c) && (c <=? 13)) || ((28 <=? c) && (c <=? 32)))%N.
Fixpoint lstrip (s : str) : str :=
  match s with
  | c :: t => if is_space c then lstrip t else s
  | [] => []
  end.
Definition strip (s : str) : str := rev (lstrip (rev (lstrip s))).
Fixpoint digits_us (s : str) (acc : N) (prev_digit : bool) : option N :=
  match s with
  | [] => if prev_digit then Some acc else None
  | c :: t => if is_digit c then digits_us t (acc * 10 + (c - 48))%N true
              else if (c =? 95)%N && prev_digit then digits_us t acc false
              else None
  end.
(* int(s) for ASCII text (non-ASCII digits/spaces are not modelled: None = ValueError) *)
Definition py_int (s : str) : option Z :=
  match strip s with
  | [] => None
  | c :: t =>
      if (c =? 43)%N then option_map Z.of_N (digits_us t 0%N false)
      else if (c =? 45)%N then option_map (fun n => (- Z.of_N n)%Z) (digits_us t 0%N false)
      else option_map Z.of_N (digits_us (c :: t) 0%N false)
  end.
Definition td_in_range (v : Z) : bool := ((-86399999913600 <=? v) && (v <=? 86399999999999))%Z.
Definition default_timeout : Z := 1800%Z.

(* inl seconds | inr exception class *)
Definition parse_timeout (hdr : option str) : Z + str :=
  match hdr with
  | None => inl default_timeout
  | Some h =>
      if negb (str_eqb h s_second_infinite) && str_contains s_second h then
        match py_int (skipn 7 h) with
        | None => inr s_ValueError
        | Some v => if td_in_range v then inl v else inr s_OverflowError
        end
      else inl default_timeout
  end.

(* ------------------------------------------------------------------------------------------ *)
(* The event handler and its services. *)
Record state := mkState {
  st_subs : dict str nat;              (* _subscriptions : SID -> service (index) *)
  st_backlog : dict str (list msg);    (* _backlog : SID -> early NOTIFYs in arrival order (repaired) *)
  st_vals : list (dict str vstate)     (* per service: its state variables in definition order *)
}.
Definition set_subs (st : state) (s : dict str nat) := mkState s (st_backlog st) (st_vals st).
Definition set_backlog (st : state) (b : dict str (list msg)) := mkState (st_subs st) b (st_vals st).
Definition set_vals (st : state) (v : list (dict str vstate)) := mkState (st_subs st) (st_backlog st) v.

Definition svc_vals (st : state) (v : nat) : dict str vstate := nth v (st_vals st) [].
Fixpoint upd_nth {A : Type} (n : nat) (x : A) (l : list A) : list A :=
  match l, n with
  | [], _ => []
  | _ :: r, O => x :: r
  | a :: r, S k => a :: upd_nth k x r
  end.

Inductive nres := NStatus (code : N) | NRaise (cls : str).
Inductive sres := SOk (sid : str) (tmo : Z) | SErr (cls : str).

(* what is observed after one step *)
Inductive what :=
| ONotify (r : nres)     (* the status handle_notify returned, or the class it raised *)
| OStarted               (* the subscribe call is suspended on its request *)
| OSub (r : sres)        (* what the subscribe call returned / raised *)
| OSuspended.            (* never produced by the model: a section that should be atomic suspended *)
Record step_obs := mkObs {
  o_what : what;
  o_vals : list (list vstate)     (* value_unchecked of every variable of every service, in definition order *)
}.

Section Model.
  Variable conv : nat -> str -> str -> outcome.

  (* UpnpService.notify_changed_state_variables of service v (on_event is not part of this property) *)
  Fixpoint apply_changes (v : nat) (vals : dict str vstate) (changes : list (str * str))
    : dict str vstate * option str :=
    match changes with
    | [] => (vals, None)
    | (tag, x) :: r =>
        match resolve (dkeys vals) tag with
        | None => apply_changes v vals r                                   (* "does not exist, ignoring" *)
        | Some n =>
            match conv v n x with
            | OSet rp => apply_changes v (dset str_eqb vals n (VVal rp)) r
            | OValueError => apply_changes v (dset str_eqb vals n VError) r
            | OInvalid => apply_changes v vals r
            | ORaise c => (vals, Some c)
            end
        end
    end.

  Definition backlog_of (st : state) (sid : str) : list msg :=
    match dget str_eqb (st_backlog st) sid with Some l => l | None => [] end.

  Definition handle_notify (st : state) (m : msg) : state * nres :=
    match m_nt m, m_nts m with
    | Some nt, Some nts =>
        if negb (str_eqb nt s_upnp_event) || negb (str_eqb nts s_propchange) then (st, NStatus 412)
        else
          match m_sid m with
          | None => (st, NStatus 412)
          | Some sid =>
              match dget str_eqb (st_subs st) sid with
              | None =>
                  (* "SID not known yet? store it in the backlog" *)
                  (set_backlog st (dset str_eqb (st_backlog st) sid (backlog_of st sid ++ [m])), NStatus 200)
              | Some v =>
                  match m_body m with
                  | BBad c => (st, NRaise c)
                  | BProps props =>
                      match apply_changes v (svc_vals st v) (changes_of props) with
                      | (vals', None) => (set_vals st (upd_nth v vals' (st_vals st)), NStatus 200)
                      | (vals', Some c) => (set_vals st (upd_nth v vals' (st_vals st)), NRaise c)
                      end
                  end
              end
          end
    | _, _ => (st, NStatus 400)
    end.

  (* for item in self._backlog[sid]: await self.handle_notify(item[0], item[1]) *)
  Fixpoint replay_backlog (st : state) (items : list msg) : state * option str :=
    match items with
    | [] => (st, None)
    | m :: r =>
        match handle_notify st m with
        | (st', NRaise c) => (st', Some c)
        | (st', NStatus _) => replay_backlog st' r
        end
    end.

  (* async_subscribe of service v from the point where the request's await returns *)
  Definition complete_subscribe (st : state) (v : nat) (r : reaction) : state * sres :=
    match r with
    | RFail c => (st, SErr c)
    | RResp status rsid rtmo =>
        if negb (status =? 200)%N then (st, SErr s_UpnpResponseError)
        else
          match rsid with
          | None => (st, SErr s_UpnpSIDError)
          | Some sid =>
              match parse_timeout rtmo with
              | inr c => (st, SErr c)
              | inl t =>
                  let st1 := set_subs st (dset str_eqb (st_subs st) sid v) in
                  match dget str_eqb (st_backlog st1) sid with
                  | None => (st1, SOk sid t)
                  | Some items =>
                      match replay_backlog st1 items with
                      | (st2, Some c) => (st2, SErr c)          (* the entry is left behind *)
                      | (st2, None) => (set_backlog st2 (ddel str_eqb (st_backlog st2) sid), SOk sid t)
                      end
                  end
              end
          end
    end.

  (* ---- one step and what is observed after it ---- *)
  Definition do_step (st : state) (s : step) : state * what :=
    match s with
    | Notify m => let (st', r) := handle_notify st m in (st', ONotify r)
    | SubStart _ => (st, OStarted)
    | SubResp v r => let (st', x) := complete_subscribe st v r in (st', OSub x)
    end.
  Definition vals_obs (st : state) : list (list vstate) := map (map snd) (st_vals st).

  Fixpoint run_from (st : state) (steps : list step) : list step_obs :=
    match steps with
    | [] => []
    | s :: r => let (st', w) := do_step st s in mkObs w (vals_obs st') :: run_from st' r
    end.
End Model.

(* a fresh handler and freshly created services: every variable None *)
Definition state0 (vars : list (list str)) : state :=
  mkState [] [] (map (map (fun n => (n, VNone))) vars).
