(* C18 - what a finished download turns into: description_cache.py:_async_fetch_description,
   async_get_description_xml, the try/except/else of async_get_description_dict, _description_xml_to_dict and
   utils.py:etree_to_dict, at the level of the element tree that defusedxml/expat hands back (the text -> tree
   step is the trusted oracle; the harness ships the tree the real parser produced).  Definitions only. *)
From Coq Require Import List Bool NArith Arith.
From AUC Require Import Prelude.PyStr Prelude.PyDict C18.Model.
Import ListNotations.
Local Open Scope N_scope.

(* ElementTree element: tag ("{ns}local" or "local"), attrib, text, children (tails are never read) *)
Inductive xml := Elem (tag : pystr) (attrs : list (pystr * pystr)) (text : option pystr) (children : list xml).

(* the values etree_to_dict builds *)
Inductive dval := DNone | DStr (s : pystr) | DDict (items : list (pystr * dval)) | DList (l : list dval)
| DAlien.   (* anything else an implementation might hand back (an asyncio.Event, ...): never built by the model *)

(* str.isspace() per code point, hence str.strip() *)
Definition is_space (c : N) : bool :=
  ((9 <=? c) && (c <=? 13)) || ((28 <=? c) && (c <=? 32)) || (c =? 133) || (c =? 160) || (c =? 5760)
  || ((8192 <=? c) && (c <=? 8202)) || (c =? 8232) || (c =? 8233) || (c =? 8239) || (c =? 8287) || (c =? 12288).
Fixpoint lstrip (s : pystr) : pystr :=
  match s with c :: r => if is_space c then lstrip r else s | [] => [] end.
Definition strip (s : pystr) : pystr := rev (lstrip (rev (lstrip s))).

(* tree.tag[tree.tag.find("}") + 1:] *)
Fixpoint after_brace (s : pystr) : option pystr :=
  match s with
  | [] => None
  | c :: r => if c =? 125 then Some r else after_brace r
  end.
Definition strip_ns (tag : pystr) : pystr := match after_brace tag with Some r => r | None => tag end.

(* child_dict = defaultdict(list); child_dict[k].append(val) *)
Definition group_add (acc : list (pystr * list dval)) (kv : pystr * dval) : list (pystr * list dval) :=
  match dget str_eqb acc (fst kv) with
  | Some l => dset str_eqb acc (fst kv) (l ++ [snd kv])
  | None => dset str_eqb acc (fst kv) [snd kv]
  end.
Definition collapse (l : list dval) : dval := match l with [x] => x | _ => DList l end.

Definition s_text : pystr := [35; 116; 101; 120; 116].      (* "#text" *)
Definition s_root : pystr := [114; 111; 111; 116].          (* "root" *)
Definition s_device : pystr := [100; 101; 118; 105; 99; 101]. (* "device" *)
Definition is_nil {A} (l : list A) : bool := match l with [] => true | _ => false end.

Definition add_attrs (d : list (pystr * dval)) (attrs : list (pystr * pystr)) : list (pystr * dval) :=
  fold_left (fun d kv => dset str_eqb d (64 :: fst kv) (DStr (snd kv))) attrs d.   (* "@" + k *)

(* etree_to_dict: the single item (tag_name, value) of the dict it returns *)
Fixpoint e2d (t : xml) : pystr * dval :=
  match t with
  | Elem tag attrs text children =>
      let name := strip_ns tag in
      let kids := map e2d children in
      let has_attr := negb (is_nil attrs) in
      let base : option (list (pystr * dval)) :=       (* dict_meta: None or a dict *)
        match kids with
        | [] => if has_attr then Some [] else None
        | _ => Some (map (fun g => (fst g, collapse (snd g))) (fold_left group_add kids []))
        end in
      let meta := match base with
                  | Some d => Some (if has_attr then add_attrs d attrs else d)
                  | None => None
                  end in
      let plain := match meta with Some d => DDict d | None => DNone end in
      match text with
      | None => (name, plain)
      | Some tx =>
          if is_nil tx then (name, plain)
          else
            let st := strip tx in
            if negb (is_nil kids) || has_attr then
              (name, if is_nil st then plain
                     else match meta with Some d => DDict (dset str_eqb d s_text (DStr st)) | None => plain end)
            else (name, DStr st)
      end
  end.

(* exception classes the harness can observe escaping async_get_description_dict's owner; since the repair D37
   (defusedxml refusals and a root element without child elements count as "no description") the conversion
   itself raises none of them *)
Inductive xcls :=
| XAttr       (* AttributeError: 'str' object has no attribute 'get' (before D37: root element with text only) *)
| XHostile    (* defusedxml refusals (before D37: EntitiesForbidden, ...: ValueError subclasses, not ParseError) *)
| XKey        (* KeyError *)
| XOther.     (* anything else (never produced by the model) *)

(* _description_xml_to_dict on a parsed tree *)
Definition desc_of (t : xml) : result dval xcls :=
  let (name, v) := e2d t in
  if str_eqb name s_root then
    match v with
    | DNone => RVal DNone
    | DDict d => RVal (match dget str_eqb d s_device with Some x => x | None => DNone end)
    | DStr _ | DList _ | DAlien => RVal DNone      (* `not isinstance(root, Mapping)` *)
    end
  else RVal DNone.      (* etree_to_dict(tree).get("root") is None *)

Inductive body :=
| BEmpty              (* "" *)
| BBad                (* not well-formed: DET.ParseError *)
| BHostile            (* well-formed, refused by defusedxml (entity declaration) *)
| BDoc (t : xml).     (* parsed by the real parser into t *)
Inductive rexn :=
| RxClient            (* aiohttp.ClientError family, incl. the library's UpnpCommunicationError/UpnpResponseError *)
| RxTimeout           (* asyncio.TimeoutError *)
| RxOther.            (* any other Exception: caught by the broad except of async_get_description_xml *)
Inductive outcome :=
| OResp (status : N) (b : body)     (* the requester returned (status, headers, body) *)
| ORaise (k : rexn).                (* the requester raised *)

(* status != 200 -> UpnpResponseError (an aiohttp.ClientError) -> caught -> None; every Exception -> None;
   `if description_xml:` -> parse, else None *)
Definition convert (o : outcome) : result dval xcls :=
  match o with
  | ORaise _ => RVal DNone
  | OResp st b =>
      if st =? 200 then
        match b with
        | BEmpty | BBad => RVal DNone
        | BHostile => RVal DNone                  (* except (ParseError, DefusedXmlException) *)
        | BDoc t => desc_of t
        end
      else RVal DNone
  end.

(* "a failed download": HTTP error, transport error, malformed (unparsable or refused) XML, empty document *)
Definition is_failure (o : outcome) : bool :=
  match o with
  | ORaise _ => true
  | OResp st b => negb (st =? 200) || match b with BEmpty | BBad | BHostile => true | _ => false end
  end.

(* decidable equality on values / exception classes, used by the spec clauses *)
Fixpoint dval_eqb (a b : dval) : bool :=
  match a, b with
  | DNone, DNone | DAlien, DAlien => true
  | DStr x, DStr y => str_eqb x y
  | DDict x, DDict y =>
      (fix go (x y : list (pystr * dval)) : bool :=
         match x, y with
         | [], [] => true
         | (k, v) :: x', (k', v') :: y' => str_eqb k k' && dval_eqb v v' && go x' y'
         | _, _ => false
         end) x y
  | DList x, DList y =>
      (fix go (x y : list dval) : bool :=
         match x, y with
         | [], [] => true
         | v :: x', v' :: y' => dval_eqb v v' && go x' y'
         | _, _ => false
         end) x y
  | _, _ => false
  end.
Definition xcls_eqb (a b : xcls) : bool :=
  match a, b with
  | XAttr, XAttr | XHostile, XHostile | XKey, XKey | XOther, XOther => true
  | _, _ => false
  end.
