(* C18 - The description cache fetches once, shares the result, and cannot deadlock.  Property theorems only.

   The model (Model.v) is the repaired async_get_description_dict (/verif/proposed/C18/D21.diff) on a small asyncio
   kernel; a schedule is any list of external actions (start a lookup of a location with a suspending or an
   immediately answering requester, complete a request with any outcome, cancel any lookup, uncache a location, run
   one loop iteration).  Every theorem below quantifies over ALL schedules (no length, task or location bound), all
   outcome / value / exception types and all conversion functions; Doc.convert is the concrete instance. *)
From Coq Require Import List Bool NArith Arith.
From AUC Require Import Prelude.PyStr C18.Model C18.Spec C18.Doc C18.DocFacts C18.Main.
Import ListNotations.

(* Clause 1.  A request for a location is issued only if every earlier request for it since the location was last
   uncached belonged to a lookup that has been cancelled or has failed: concurrent lookups cause ONE download. *)
Theorem C18_single_flight :
  forall (O V X : Type) (convert : O -> result V X) (veqb : V -> V -> bool) (xeqb : X -> X -> bool),
    (forall v, veqb v v = true) -> (forall x, xeqb x x = true) ->
    forall i : input O, in_domain i = true -> clause_ok convert veqb xeqb 1 i (model_run convert i) = true.
Proof. exact (fun O V X convert veqb xeqb => clause_holds_all convert veqb xeqb 1). Qed.
Print Assumptions C18_single_flight.

(* Clause 2.  The lookup that issued the request returns the conversion of that request's outcome; every other
   lookup returns the value the cache showed before the iteration, or the value returned in the same iteration by
   a lookup of the same location that issued a request: the outcome is shared. *)
Theorem C18_shared_outcome :
  forall (O V X : Type) (convert : O -> result V X) (veqb : V -> V -> bool) (xeqb : X -> X -> bool),
    (forall v, veqb v v = true) -> (forall x, xeqb x x = true) ->
    forall i : input O, in_domain i = true -> clause_ok convert veqb xeqb 2 i (model_run convert i) = true.
Proof. exact (fun O V X convert veqb xeqb => clause_holds_all convert veqb xeqb 2). Qed.
Print Assumptions C18_shared_outcome.

(* Clause 3.  A cached value (absence included) stays until the location is uncached - it can only be replaced by
   the value just returned by a lookup that issued a request for it - and no request is issued for a location
   while the cache shows a value: results, failures included, are remembered rather than retried. *)
Theorem C18_cached_until_uncached :
  forall (O V X : Type) (convert : O -> result V X) (veqb : V -> V -> bool) (xeqb : X -> X -> bool),
    (forall v, veqb v v = true) -> (forall x, xeqb x x = true) ->
    forall i : input O, in_domain i = true -> clause_ok convert veqb xeqb 3 i (model_run convert i) = true.
Proof. exact (fun O V X convert veqb xeqb => clause_holds_all convert veqb xeqb 3). Qed.
Print Assumptions C18_cached_until_uncached.

(* ... and a failed download (HTTP status other than 200, any exception of the requester, an empty or unparsable
   document) converts to the value "absence", which by clauses 2 and 3 is what is returned and remembered. *)
Theorem C18_failure_cached : forall o : outcome, is_failure o = true -> convert o = RVal DNone.
Proof. exact failure_is_absence. Qed.
Print Assumptions C18_failure_cached.

(* Clause 4.  After every action: if the ready queue is empty and no request is outstanding then no lookup is
   pending; and completing the outstanding requests (with any outcome) and iterating, at most 2n+2 times for n
   lookups, leaves no lookup pending: cancelling lookups at any point never makes a later lookup wait forever. *)
Theorem C18_deadlock_free :
  forall (O V X : Type) (convert : O -> result V X) (veqb : V -> V -> bool) (xeqb : X -> X -> bool),
    (forall v, veqb v v = true) -> (forall x, xeqb x x = true) ->
    forall i : input O, in_domain i = true -> clause_ok convert veqb xeqb 4 i (model_run convert i) = true.
Proof. exact (fun O V X convert veqb xeqb => clause_holds_all convert veqb xeqb 4). Qed.
Print Assumptions C18_deadlock_free.

(* Clause 5.  Lookups end only by returning, with CancelledError after cancel() was called on them, or - the lookup
   that issued the request only - with the exception the conversion assigns to its outcome (never KeyError);
   finished lookups stay finished, the request log only grows, and no section of the coroutine spins. *)
Theorem C18_clean :
  forall (O V X : Type) (convert : O -> result V X) (veqb : V -> V -> bool) (xeqb : X -> X -> bool),
    (forall v, veqb v v = true) -> (forall x, xeqb x x = true) ->
    forall i : input O, in_domain i = true -> clause_ok convert veqb xeqb 5 i (model_run convert i) = true.
Proof. exact (fun O V X convert veqb xeqb => clause_holds_all convert veqb xeqb 5). Qed.
Print Assumptions C18_clean.

(* The invariant behind clause 4, stated on the state: in every reachable state a marker in the cache is an unset
   event whose owner is a live lookup that still awaits its download or is scheduled to run ... *)
Theorem C18_no_orphan_marker :
  forall (O V X : Type) (convert : O -> result V X) (sched : list (action O)) (l : loc) (e : eid),
    cache (run convert sched) l = CMarker e ->
    e_set (events (run convert sched) e) = false /\
    exists t r, t < ntasks (run convert sched) /\ t_pc (tasks (run convert sched) t) = PFetch r e
                /\ (r_state (reqs (run convert sched) r) = RPending \/ In t (ready (run convert sched))).
Proof. exact no_orphan_marker. Qed.
Print Assumptions C18_no_orphan_marker.

(* ... every lookup that sits in Event.wait with a pending future waits for an event that has such an owner ... *)
Theorem C18_waiter_has_owner :
  forall (O V X : Type) (convert : O -> result V X) (sched : list (action O)) (t : tid) (e : eid),
    t_pc (tasks (run convert sched) t) = PWait e WPending ->
    exists t' r', t_pc (tasks (run convert sched) t') = PFetch r' e.
Proof. exact waiter_has_owner. Qed.
Print Assumptions C18_waiter_has_owner.

(* ... so a state with nothing to run and nothing outstanding has no pending lookup. *)
Theorem C18_quiescent_all_done :
  forall (O V X : Type) (convert : O -> result V X) (sched : list (action O)) (t : tid),
    ready (run convert sched) = [] -> outstanding (run convert sched) = [] -> t < ntasks (run convert sched) ->
    exists st, t_pc (tasks (run convert sched) t) = PDone st /\ st <> SPending.
Proof. exact quiescent_all_done. Qed.
Print Assumptions C18_quiescent_all_done.

(* The `while` loop of the repaired lookup never spins: it never finds a set event in the cache. *)
Theorem C18_never_spins :
  forall (O V X : Type) (convert : O -> result V X) (sched : list (action O)), diverged (run convert sched) = false.
Proof. exact never_diverges. Qed.
Print Assumptions C18_never_spins.

(* The concrete instance evaluated by the correspondence check: all five clauses, for the description documents,
   values and exception classes of Doc.v. *)
Theorem C18_all_clauses_concrete :
  forall (cl : nat) (i : input outcome),
    in_domain i = true -> clause_ok convert dval_eqb xcls_eqb cl i (model_run convert i) = true.
Proof. exact (fun cl => clause_holds_all convert dval_eqb xcls_eqb cl dval_eqb_refl xcls_eqb_refl). Qed.
Print Assumptions C18_all_clauses_concrete.

(* No download outcome makes the owning lookup raise: HTTP errors, transport errors, unparsable documents,
   documents defusedxml refuses and documents whose root has no child elements all convert to "absence"
   (the last two since the repair D37; before it they escaped as DefusedXmlException / AttributeError, were not
   remembered, and every waiting lookup downloaded again). *)
Theorem C18_escaping_exceptions : forall (o : outcome) (x : xcls), convert o <> RExc x.
Proof. exact convert_never_raises. Qed.
Print Assumptions C18_escaping_exceptions.

(* ---- non-vacuity: concrete schedules ------------------------------------------------------------------- *)
Definition ex_doc : body :=
  BDoc (Elem [114; 111; 111; 116]%N [] None
          [Elem [100; 101; 118; 105; 99; 101]%N [] None [Elem [85]%N [] (Some [120]%N) []]]).
Definition ex_val : dval := DDict [([85]%N, DStr [120]%N)].
Definition ex_ok : outcome := OResp 200 ex_doc.

(* two overlapping lookups: one request, both return the parsed dictionary, a later lookup too *)
Example C18_ex_shared :
  let i := mkInput [AStart 0 MSuspend; AStart 0 MSuspend; AIter; AComplete 0 ex_ok; AIter; AIter;
                    AStart 0 MSuspend; AIter] ex_ok in
  in_domain i = true /\
  ob_final (model_run convert i) = [SRet ex_val; SRet ex_val; SRet ex_val] /\
  length (log (run convert (i_sched i))) = 1.
Proof. vm_compute. repeat split; reflexivity. Qed.

(* D21: the owner is cancelled; the next lookup downloads again and returns *)
Example C18_ex_cancel_owner :
  let i := mkInput [AStart 0 MSuspend; AIter; ACancel 0; AIter; AStart 0 MSuspend; AIter] ex_ok in
  ob_final (model_run convert i) = [SCancelled; SRet ex_val] /\
  cache (run convert (i_sched i)) 0 = CMarker 1.
Proof. vm_compute. split; reflexivity. Qed.

(* D22: uncache between the owner's set() and the waiter's wake-up: the waiter downloads again, no KeyError *)
Example C18_ex_uncache_before_wakeup :
  let i := mkInput [AStart 0 MSuspend; AStart 0 MSuspend; AIter; AComplete 0 ex_ok; AIter; AUncache 0; AIter] ex_ok in
  ob_final (model_run convert i) = [SRet ex_val; SRet ex_val] /\
  log (run convert (i_sched i)) = [(0, 0); (0, 1)].
Proof. vm_compute. split; reflexivity. Qed.

(* a failed download is remembered as absence: the second lookup issues no request *)
Example C18_ex_failure_cached :
  let i := mkInput [AStart 0 MSuspend; AIter; AComplete 0 (OResp 404 ex_doc); AIter; AStart 0 MSuspend; AIter] ex_ok in
  ob_final (model_run convert i) = [SRet DNone; SRet DNone] /\
  length (log (run convert (i_sched i))) = 1.
Proof. vm_compute. split; reflexivity. Qed.
