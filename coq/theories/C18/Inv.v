(* C18 - the invariant of the description-cache model, relative to the monitor of Spec.v (which only reads
   the schedule) and to the handles [hs] of the current loop iteration that have not run yet. *)
From Coq Require Import List Bool Arith Lia.
From AUC Require Import C18.Model C18.Base C18.Spec.
Import ListNotations.
Set Implicit Arguments.

Section Inv.
  Variables O V X : Type.
  Variable convert : O -> result V X.
  Notation state := (state O V X).
  Notation mon := (mon O).
  Notation pcof s t := (t_pc (tasks s t)).
  Notation stat s t := (status_of (tasks s t)).

  Definition rdy (hs : list tid) (s : state) (t : tid) : Prop := In t (hs ++ ready s).

  (* cancel() has been called on t and its effect is still to come, or has come *)
  Definition cancel_marked (s : state) (t : tid) : Prop :=
    t_must (tasks s t) = true \/
    match pcof s t with
    | PWait _ WCancelled => True
    | PFetch r _ => r_state (reqs s r) = RCancelled
    | PDone SCancelled => True
    | _ => False
    end.

  Definition task_ok (hs : list tid) (s : state) (t : tid) : Prop :=
    match pcof s t with
    | PStart => rdy hs s t
    | PFetch r e =>
        r < nreqs s /\ r_task (reqs s r) = t /\ e < nevents s /\ e_set (events s e) = false
        /\ (r_state (reqs s r) = RPending \/ rdy hs s t)
    | PWait e w =>
        e < nevents s /\ In t (e_waiters (events s e))
        /\ match w with
           | WPending => e_set (events s e) = false /\ exists t' r', pcof s t' = PFetch r' e
           | _ => rdy hs s t
           end
    | PDone _ => True
    end.

  Definition req_ok (s : state) (r : rid) : Prop :=
    r_task (reqs s r) < ntasks s
    /\ r_loc (reqs s r) = t_loc (tasks s (r_task (reqs s r)))
    /\ ((exists st, pcof s (r_task (reqs s r)) = PDone st) \/ exists e, pcof s (r_task (reqs s r)) = PFetch r e)
    /\ (r_state (reqs s r) = RPending ->
        (exists e, pcof s (r_task (reqs s r)) = PFetch r e) /\ t_mode (tasks s (r_task (reqs s r))) = MSuspend).

  (* every request for l of the current epoch, except [but], belongs to a lookup that was cancelled or failed *)
  Definition others_aborted (m : mon) (s : state) (l : loc) (but : option rid) : Prop :=
    forall k, k < nreqs s -> epoch_start m l <= k -> r_loc (reqs s k) = l -> but <> Some k ->
              aborted (stat s (r_task (reqs s k))) = true.

  (* [skip]: the task whose handle is running (its own entry is re-established at the end of the handle) *)
  Record Inv (m : mon) (hs : list tid) (skip : option tid) (s : state) : Prop := mkInv {
    inv_div : diverged s = false;
    inv_dummy : forall t, ntasks s <= t -> pcof s t = PDone SCancelled;
    inv_len : length (m_modes m) = ntasks s /\ length (m_locs m) = ntasks s;
    inv_mode : forall t, t < ntasks s ->
                 nth t (m_modes m) MSuspend = t_mode (tasks s t) /\ nth t (m_locs m) 0 = t_loc (tasks s t);
    inv_req : forall r, r < nreqs s -> req_ok s r;
    inv_req1 : forall r r', r < nreqs s -> r' < nreqs s -> r_task (reqs s r) = r_task (reqs s r') -> r = r';
    inv_out1 : forall r o, assoc r (m_out m) = Some o -> r < nreqs s /\ r_state (reqs s r) = RDone o;
    inv_out2 : forall r o, r < nreqs s -> r_state (reqs s r) = RDone o ->
                 outcome_of m (r_task (reqs s r)) r = Some o;
    inv_canc : forall t, t < ntasks s -> cancel_marked s t -> In t (m_cancel m);
    inv_exc : forall t x, pcof s t = PDone (SExc x) ->
                exists r o, r < nreqs s /\ r_task (reqs s r) = t /\ r_state (reqs s r) = RDone o /\ convert o = RExc x;
    inv_ret : forall t v r, pcof s t = PDone (SRet v) -> r < nreqs s -> r_task (reqs s r) = t ->
                exists o, r_state (reqs s r) = RDone o /\ convert o = RVal v;
    inv_task : forall t, skip <> Some t -> task_ok hs s t;
    inv_epoch : forall l, epoch_start m l <= nreqs s;
    inv_own1 : forall t1 t2 r1 r2 e, pcof s t1 = PFetch r1 e -> pcof s t2 = PFetch r2 e -> t1 = t2;
    inv_marker : forall l e, cache s l = CMarker e ->
                   exists t r, pcof s t = PFetch r e /\ t_loc (tasks s t) = l /\ epoch_start m l <= r
                               /\ others_aborted m s l (Some r);
    inv_absent : forall l, cache s l = CAbsent -> others_aborted m s l None;
    inv_nopend : forall t, pcof s t <> PDone SPending
  }.
End Inv.
