(* C18 - the clauses hold on the model's observation of every schedule. *)
From Coq Require Import List Bool Arith Lia.
From AUC Require Import C18.Model C18.Base C18.Spec C18.Inv C18.Steps C18.Handles C18.Ext C18.Clauses C18.Live.
Import ListNotations.
Set Implicit Arguments.

Section Main.
  Variables O V X : Type.
  Variable convert : O -> result V X.
  Variable veqb : V -> V -> bool.
  Variable xeqb : X -> X -> bool.
  Hypothesis veqb_refl : forall v, veqb v v = true.
  Hypothesis xeqb_refl : forall x, xeqb x x = true.
  Notation state := (state O V X).
  Notation pcof s t := (t_pc (tasks s t)).

  (* every reachable state satisfies the invariant, for the monitor that read the same schedule *)
  Lemma inv_run_from : forall sched (s : state) m, Inv convert m [] None s ->
    exists m', Inv convert m' [] None (run_from convert s sched).
  Proof.
    induction sched as [|a sched IH]; intros s m H; cbn; [eauto|].
    apply IH with (m := mon_update m a (observe 0 s)). now apply inv_step.
  Qed.
  Theorem inv_reachable sched : exists m, Inv convert m [] None (run convert sched).
  Proof. apply inv_run_from with (m := mon0 O). apply inv_init. Qed.

  Theorem clauses_hold cl (i : input O) : clause_ok convert veqb xeqb cl i (model_run convert i) = true.
  Proof.
    unfold clause_ok, clause_fails, model_run. cbn [ob_trace ob_final].
    rewrite (trace_ok convert veqb xeqb veqb_refl xeqb_refl cl (i_sched i)). cbn [app].
    destruct (Nat.eqb cl 4); [|reflexivity].
    destruct (inv_reachable (i_sched i)) as [m H].
    now rewrite (drained_ok (i_drain i) H).
  Qed.

  (* the shape of the cache in every reachable state: a marker is never orphaned *)
  Theorem no_orphan_marker sched l e :
    cache (run convert sched) l = CMarker e ->
    e_set (events (run convert sched) e) = false /\
    exists t r, t < ntasks (run convert sched) /\ pcof (run convert sched) t = PFetch r e
                /\ (r_state (reqs (run convert sched) r) = RPending \/ In t (ready (run convert sched))).
  Proof.
    intros Hc. destruct (inv_reachable sched) as [m H]. set (s := run convert sched) in *.
    destruct (inv_marker H _ Hc) as (t & r & Hp & _).
    assert (T : task_ok [] s t) by (apply (inv_task H); discriminate). unfold task_ok in T. rewrite Hp in T.
    destruct T as (A & B & C & D & E). split; [assumption|]. exists t, r.
    split; [eapply lt_ntasks; [exact H|intros st E'; congruence]|]. split; [assumption|]. exact E.
  Qed.

  (* a lookup that waits for a marker's event waits for a live owner *)
  Theorem waiter_has_owner sched t e :
    pcof (run convert sched) t = PWait e WPending ->
    exists t' r', pcof (run convert sched) t' = PFetch r' e.
  Proof.
    intros Hp. destruct (inv_reachable sched) as [m H]. set (s := run convert sched) in *.
    assert (T : task_ok [] s t) by (apply (inv_task H); discriminate). unfold task_ok in T. rewrite Hp in T.
    now destruct T as (_ & _ & _ & T).
  Qed.

  (* no section of the coroutine ever spins *)
  Theorem never_diverges sched : diverged (run convert sched) = false.
  Proof. destruct (inv_reachable sched) as [m H]. apply (inv_div H). Qed.

  (* nothing runnable and nothing outstanding => every lookup has finished *)
  Theorem quiescent_all_done sched t :
    ready (run convert sched) = [] -> outstanding (run convert sched) = [] -> t < ntasks (run convert sched) ->
    exists st, pcof (run convert sched) t = PDone st /\ st <> SPending.
  Proof.
    intros Hr Ho Ht. destruct (inv_reachable sched) as [m H]. set (s := run convert sched) in *.
    assert (Q : quiescent s = true) by (unfold quiescent; now rewrite Hr, Ho).
    pose proof (quiescent_done H Q t) as D. apply (is_done_iff t H) in D. destruct D as [st D].
    exists st. split; [assumption|]. intros ->. now apply (inv_nopend H t).
  Qed.

End Main.

(* ---- the statements of Properties.v ------------------------------------------------------------------- *)
Section Statements.
  Variables O V X : Type.
  Variable convert : O -> result V X.
  Variable veqb : V -> V -> bool.
  Variable xeqb : X -> X -> bool.

  Definition clause_holds (cl : nat) : Prop :=
    (forall v, veqb v v = true) -> (forall x, xeqb x x = true) ->
    forall i : input O, in_domain i = true -> clause_ok convert veqb xeqb cl i (model_run convert i) = true.

  Lemma clause_holds_all cl : clause_holds cl.
  Proof. intros Hv Hx i _. now apply clauses_hold. Qed.
End Statements.
