(* C18 - from the invariant and the iteration summary to the executable clauses of Spec.v. *)
From Coq Require Import List Bool Arith Lia.
From AUC Require Import C18.Model C18.Base C18.Spec C18.Inv C18.Steps C18.Handles C18.Ext.
Import ListNotations.
Set Implicit Arguments.

Section Clauses.
  Variables O V X : Type.
  Variable convert : O -> result V X.
  Variable veqb : V -> V -> bool.
  Variable xeqb : X -> X -> bool.
  Hypothesis veqb_refl : forall v, veqb v v = true.
  Hypothesis xeqb_refl : forall x, xeqb x x = true.
  Notation state := (state O V X).
  Notation mon := (mon O).
  Notation pcof s t := (t_pc (tasks s t)).
  Notation stat s t := (status_of (tasks s t)).
  Notation Inv := (Inv convert).

  (* ---- reading an observation -------------------------------------------------------------------- *)
  Lemma obs_status_len nl (s : state) : length (o_status (observe nl s)) = ntasks s.
  Proof. cbn. unfold statuses. now rewrite map_length, seq_length. Qed.
  Lemma obs_log_len nl (s : state) : length (o_log (observe nl s)) = nreqs s.
  Proof. cbn. unfold log. now rewrite map_length, seq_length. Qed.
  Lemma obs_peek_len nl (s : state) : length (o_peek (observe nl s)) = nl.
  Proof. cbn. now rewrite map_length, seq_length. Qed.

  Lemma obs_st nl (s : state) t : st (observe nl s) t = if t <? ntasks s then stat s t else SPending.
  Proof.
    unfold st. change (o_status (observe nl s)) with (statuses s). unfold statuses.
    destruct (Nat.ltb_spec t (ntasks s)).
    - now rewrite nth_map_seq.
    - now rewrite nth_map_seq_over.
  Qed.
  Lemma obs_log_at nl (s : state) k : k < nreqs s -> log_at (observe nl s) k = (r_loc (reqs s k), r_task (reqs s k)).
  Proof. intros H. unfold log_at. cbn. unfold log. now rewrite nth_map_seq. Qed.
  Lemma obs_peek_at nl (s : state) l : l < nl -> peek_at (observe nl s) l = peek s l.
  Proof. intros H. unfold peek_at. cbn. now rewrite nth_map_seq. Qed.

  Lemma find_req_spec t lg : forall k r,
    find_req t k lg = Some r -> k <= r /\ r - k < length lg /\ snd (nth (r - k) lg (0, 0)) = t.
  Proof.
    induction lg as [|[l t'] lg IH]; intros k r; cbn [find_req]; [discriminate|].
    destruct (Nat.eqb_spec t t') as [<-|Hne].
    - intros [= <-]. rewrite Nat.sub_diag. cbn. repeat split; lia.
    - intros H. apply IH in H. destruct H as (A & B & C).
      replace (r - k) with (S (r - S k)) by lia. cbn. repeat split; try lia; assumption.
  Qed.
  Lemma find_req_none t lg : forall k, find_req t k lg = None -> forall i, i < length lg -> snd (nth i lg (0, 0)) <> t.
  Proof.
    induction lg as [|[l t'] lg IH]; intros k; cbn [find_req]; [intros _ i Hi; cbn in Hi; lia|].
    destruct (Nat.eqb_spec t t') as [<-|Hne]; [discriminate|].
    intros H [|i] Hi; cbn; [congruence|]. apply (IH _ H). cbn in Hi. lia.
  Qed.

  Lemma obs_owner_some nl (s : state) t r :
    owner_req (observe nl s) t = Some r -> r < nreqs s /\ r_task (reqs s r) = t.
  Proof.
    unfold owner_req. intros H. apply find_req_spec in H. destruct H as (_ & B & C).
    rewrite Nat.sub_0_r in *. rewrite obs_log_len in B. split; [assumption|].
    change (nth r (o_log (observe nl s)) (0, 0)) with (log_at (observe nl s) r) in C.
    now rewrite obs_log_at in C.
  Qed.
  Lemma obs_owner_none nl (s : state) t :
    owner_req (observe nl s) t = None -> forall r, r < nreqs s -> r_task (reqs s r) <> t.
  Proof.
    unfold owner_req. intros H r Hr. pose proof (@find_req_none _ _ _ H r) as N.
    rewrite obs_log_len in N. specialize (N Hr).
    change (nth r (o_log (observe nl s)) (0, 0)) with (log_at (observe nl s) r) in N.
    now rewrite obs_log_at in N.
  Qed.
  Lemma obs_owner_is m nl (s : state) t r :
    Inv m [] None s -> r < nreqs s -> r_task (reqs s r) = t -> owner_req (observe nl s) t = Some r.
  Proof.
    intros H Hr Ht. destruct (owner_req (observe nl s) t) as [r'|] eqn:E.
    - apply obs_owner_some in E. destruct E as [A B]. f_equal. apply (inv_req1 H); auto. congruence.
    - exfalso. now apply (@obs_owner_none _ _ _ E r Hr).
  Qed.

  (* ---- what one action changes, as far as the clauses care ------------------------------------------ *)
  Record Two (m : mon) (a : action O) (s s' : state) : Prop := mkTwo {
    w_nt : ntasks s <= ntasks s';
    w_loc : forall t, t < ntasks s -> t_loc (tasks s' t) = t_loc (tasks s t);
    w_done : forall t st, pcof s t = PDone st -> t < ntasks s -> pcof s' t = PDone st;
    w_fresh : forall t, ntasks s <= t -> t < ntasks s' -> pending s' t;
    w_nr : nreqs s <= nreqs s';
    w_old : forall r, r < nreqs s -> r_loc (reqs s' r) = r_loc (reqs s r) /\ r_task (reqs s' r) = r_task (reqs s r);
    w_val : forall l v, cache s' l = CValue v -> cache s l = CValue v \/ owner_ret s s' l v;
    w_keep : forall l v, is_uncache a l = false -> cache s l = CValue v -> exists v', cache s' l = CValue v';
    w_unc : forall l, is_uncache a l = true -> cache s' l = CAbsent;
    w_new : forall r, nreqs s <= r -> r < nreqs s' -> forall v, cache s (r_loc (reqs s' r)) <> CValue v;
    w_sf : forall k, nreqs s <= k -> k < nreqs s' -> forall k', k' < k ->
             epoch_start m (r_loc (reqs s' k)) <= k' -> r_loc (reqs s' k') = r_loc (reqs s' k) ->
             aborted (stat s' (r_task (reqs s' k'))) = true;
    w_ret : forall t v, t < ntasks s -> pending s t -> pcof s' t = PDone (SRet v) ->
              (forall r, r < nreqs s' -> r_task (reqs s' r) <> t) ->
              cache s (t_loc (tasks s t)) = CValue v \/ owner_ret s s' (t_loc (tasks s t)) v;
    w_quiet : is_iter a = false ->
              nreqs s' = nreqs s /\ forall t, t < ntasks s -> pending s t -> pending s' t
  }.

  Lemma two_of_ext m (s s' : state) : Ext m s s' -> Two m AIter s s'.
  Proof.
    intros E. destruct E. constructor; auto; try lia.
    - intros l v _. apply x_keep.
    - intros l. discriminate.
    - discriminate.
  Qed.

  (* an action that finishes no lookup and issues no request *)
  Lemma two_quiet m a (s s' : state) :
    ntasks s <= ntasks s' ->
    (forall t, t < ntasks s -> t_loc (tasks s' t) = t_loc (tasks s t)
                               /\ forall st, pcof s' t = PDone st <-> pcof s t = PDone st) ->
    (forall t, ntasks s <= t -> t < ntasks s' -> pending s' t) ->
    nreqs s' = nreqs s ->
    (forall r, r_loc (reqs s' r) = r_loc (reqs s r) /\ r_task (reqs s' r) = r_task (reqs s r)) ->
    (forall l, cache s' l = if is_uncache a l then CAbsent else cache s l) ->
    Two m a s s'.
  Proof.
    intros Hnt Ht Hf Hnr Hr Hc.
    constructor; auto; try lia.
    - intros t Hlt. now apply Ht.
    - intros t st E Hlt. now apply Ht.
    - intros l v. rewrite Hc. destruct (is_uncache a l); [discriminate|auto].
    - intros l v Hu. rewrite Hc, Hu. eauto.
    - intros l Hu. now rewrite Hc, Hu.
    - intros t v Hlt Hp E. exfalso. apply (Hp (SRet v)). now apply Ht.
    - intros _. split; [assumption|]. intros t Hlt Hp st E. apply (Hp st). now apply Ht.
  Qed.

  Lemma two_start m (s : state) l md : Two m (AStart l md) s (start s l md).
  Proof.
    apply two_quiet; cbn; auto.
    - intros t Hlt. unfold fupd. destruct (Nat.eqb_spec (ntasks s) t); [lia|]. split; tauto.
    - intros t H1 H2 st. cbn. unfold fupd. destruct (Nat.eqb_spec (ntasks s) t); [discriminate|lia].
  Qed.

  Lemma two_complete m (s : state) r o : Two m (AComplete r o) s (complete s r o).
  Proof.
    unfold complete. destruct (r <? nreqs s); [|apply two_quiet; cbn; auto; try tauto; intros; lia].
    destruct (r_state (reqs s r)); try (apply two_quiet; cbn; auto; try tauto; intros; lia).
    apply two_quiet; cbn; auto; try tauto; try (intros; lia).
    intros r0. unfold fupd. destruct (Nat.eqb_spec r r0) as [->|]; auto.
  Qed.

  Lemma two_cancel m (s : state) t : Two m (ACancel t) s (cancel s t).
  Proof.
    assert (Q : Two m (ACancel t) s s) by (apply two_quiet; cbn; auto; try tauto; intros; lia).
    unfold cancel. destruct (t <? ntasks s); [|exact Q].
    destruct (pcof s t) as [|r e|e w|st] eqn:Hp; try exact Q.
    - apply two_quiet; cbn; auto; try (intros; lia).
      intros t0 _. unfold fupd. destruct (Nat.eqb_spec t t0) as [<-|]; cbn; [rewrite Hp|]; tauto.
    - destruct (r_state (reqs s r)).
      + apply two_quiet; cbn; auto; try tauto; try (intros; lia).
        intros r0. unfold fupd. destruct (Nat.eqb_spec r r0) as [->|]; auto.
      + apply two_quiet; cbn; auto; try (intros; lia).
        intros t0 _. unfold fupd. destruct (Nat.eqb_spec t t0) as [<-|]; cbn; [rewrite Hp|]; tauto.
      + apply two_quiet; cbn; auto; try (intros; lia).
        intros t0 _. unfold fupd. destruct (Nat.eqb_spec t t0) as [<-|]; cbn; [rewrite Hp|]; tauto.
    - destruct w.
      + apply two_quiet; cbn; auto; try (intros; lia).
        intros t0 _. unfold fupd. destruct (Nat.eqb_spec t t0) as [<-|]; cbn; [rewrite Hp|]; split; auto; split; congruence.
      + apply two_quiet; cbn; auto; try (intros; lia).
        intros t0 _. unfold fupd. destruct (Nat.eqb_spec t t0) as [<-|]; cbn; [rewrite Hp|]; tauto.
      + apply two_quiet; cbn; auto; try (intros; lia).
        intros t0 _. unfold fupd. destruct (Nat.eqb_spec t t0) as [<-|]; cbn; [rewrite Hp|]; tauto.
  Qed.

  Lemma two_uncache m (s : state) l : Two m (AUncache l) s (set_cache s l CAbsent).
  Proof.
    apply two_quiet; cbn; auto; try tauto; try (intros; lia).
    intros l0. unfold fupd. rewrite Nat.eqb_sym. now destruct (Nat.eqb l l0).
  Qed.

  Theorem two_step m (s : state) nl a :
    Inv m [] None s -> Two (mon_update m a (observe nl s)) a s (step convert s a).
  Proof.
    intros H. destruct a as [l md|r o|t|l|]; cbn [step].
    - apply two_start.
    - apply two_complete.
    - apply two_cancel.
    - apply two_uncache.
    - cbn [mon_update]. apply two_of_ext. now apply ext_iterate.
  Qed.

  (* ---- the clauses, for one step -------------------------------------------------------------------- *)
  Lemma status_eqb_refl (x : status V X) : status_eqb veqb xeqb x x = true.
  Proof. destruct x; cbn; auto. Qed.
  Lemma memb_of_In t l : In t l -> Spec.memb t l = true.
  Proof. intros H. unfold Spec.memb. apply existsb_exists. exists t. split; [assumption|apply Nat.eqb_refl]. Qed.

  Definition locs_ok (nl : nat) (s : state) : Prop := forall t, t < ntasks s -> t_loc (tasks s t) < nl.

  Section OneStep.
    Variables (m0 m' : mon) (a : action O) (s s' : state) (nl : nat).
    Hypothesis H0 : Inv m0 [] None s.
    Hypothesis H : Inv m' [] None s'.
    Hypothesis W : Two m' a s s'.
    Hypothesis L : locs_ok nl s'.
    Let p := observe nl s.
    Let c := observe nl s'.

    Lemma pending_lt t : pending s t -> t < ntasks s.
    Proof.
      intros Hp. destruct (Nat.lt_ge_cases t (ntasks s)); [assumption|].
      exfalso. apply (Hp SCancelled). now apply (inv_dummy H0).
    Qed.
    Lemma done_lt' t st : pcof s' t = PDone st -> st <> SCancelled -> t < ntasks s'.
    Proof.
      intros E N. destruct (Nat.lt_ge_cases t (ntasks s')); [assumption|].
      rewrite (inv_dummy H) in E by assumption. congruence.
    Qed.
    Lemma st_c t : t < ntasks s' -> st c t = stat s' t.
    Proof. intros Ht. unfold c. rewrite obs_st. apply Nat.ltb_lt in Ht. now rewrite Ht. Qed.
    Lemma st_p t : t < ntasks s -> st p t = stat s t.
    Proof. intros Ht. unfold p. rewrite obs_st. apply Nat.ltb_lt in Ht. now rewrite Ht. Qed.
    Lemma st_p_over t : ntasks s <= t -> st p t = SPending.
    Proof. intros Ht. unfold p. rewrite obs_st. apply Nat.ltb_ge in Ht. now rewrite Ht. Qed.
    Lemma stat_pending t : pending s t -> stat s t = SPending.
    Proof. intros Hp. unfold status_of. destruct (pcof s t) eqn:E; auto. exfalso. now apply (Hp st). Qed.
    Lemma stat_pending' t : pending s' t -> stat s' t = SPending.
    Proof. intros Hp. unfold status_of. destruct (pcof s' t) eqn:E; auto. exfalso. now apply (Hp st). Qed.
    Lemma stat_done' t x : stat s' t = x -> x <> SPending -> pcof s' t = PDone x.
    Proof. unfold status_of. destruct (pcof s' t); intros <- N; congruence. Qed.

    (* a lookup that finished during this step was pending before it *)
    Lemma newly_was_pending t :
      newly p c t = true -> t < ntasks s' -> t < ntasks s /\ pending s t.
    Proof.
      unfold newly. intros E Ht. apply andb_true_iff in E as [E1 E2]. rewrite st_c in E2 by assumption.
      assert (Hlt : t < ntasks s).
      { destruct (Nat.lt_ge_cases t (ntasks s)); [assumption|].
        rewrite (stat_pending' (w_fresh W H1 Ht)) in E2. discriminate. }
      split; [assumption|]. intros st0 E0. rewrite st_p in E1 by assumption.
      pose proof (w_done W E0 Hlt) as E0'. unfold status_of in E1, E2. rewrite E0 in E1. rewrite E0' in E2.
      rewrite E1 in E2. discriminate.
    Qed.
    Lemma pending_newly t x : pending s t -> stat s' t = x -> x <> SPending -> newly p c t = true.
    Proof.
      intros Hp E N. assert (Hlt := pending_lt Hp). unfold newly.
      rewrite st_p, (stat_pending Hp) by assumption. cbn [is_pending andb].
      rewrite st_c by (pose proof (w_nt W); lia). rewrite E. destruct x; auto; congruence.
    Qed.

    Lemma c_log_at k : k < nreqs s' -> log_at c k = (r_loc (reqs s' k), r_task (reqs s' k)).
    Proof. apply obs_log_at. Qed.
    Lemma c_owner_is t r : r < nreqs s' -> r_task (reqs s' r) = t -> owner_req c t = Some r.
    Proof. intros. unfold c. eapply obs_owner_is; eauto. Qed.
    Lemma in_new_reqs k : In k (new_reqs p c) -> nreqs s <= k /\ k < nreqs s'.
    Proof.
      unfold new_reqs, p, c. rewrite !obs_log_len. intros Hin. apply in_seq in Hin.
      pose proof (w_nr W). lia.
    Qed.
    Lemma in_tids t : In t (tids c) -> t < ntasks s'.
    Proof. unfold tids, c. rewrite obs_status_len. intros Hin. apply in_seq in Hin. lia. Qed.
    Lemma loc_of_task t : t < ntasks s' -> loc_of m' t = t_loc (tasks s' t).
    Proof. intros Ht. unfold loc_of. now destruct (inv_mode H Ht). Qed.

    Lemma owner_returned_of l v : owner_ret s s' l v -> owner_returned veqb m' p c l v = true.
    Proof.
      intros (t' & r & A & B & C & D & E). unfold owner_returned. apply existsb_exists. exists t'.
      assert (Ht : t' < ntasks s') by (eapply done_lt'; [exact B|discriminate]).
      split; [unfold tids, c; rewrite obs_status_len; apply in_seq; lia|].
      assert (Es : stat s' t' = SRet v) by (unfold status_of; now rewrite B).
      cbv beta. rewrite (pending_newly A Es) by discriminate. rewrite st_c, Es, veqb_refl by assumption.
      rewrite (c_owner_is C D), c_log_at by assumption. cbn. now rewrite E, Nat.eqb_refl.
    Qed.

    Theorem clause1_ok : single_flight_step m' p c = true.
    Proof.
      unfold single_flight_step. apply forallb_forall. intros k Hk. apply in_new_reqs in Hk as [K1 K2].
      rewrite c_log_at by assumption. cbn [fst]. apply forallb_forall. intros k' Hk'. apply in_seq in Hk'.
      assert (K3 : k' < nreqs s') by lia. rewrite c_log_at by assumption. cbn [fst snd].
      destruct (Nat.eqb_spec (r_loc (reqs s' k')) (r_loc (reqs s' k))) as [E|E]; [|reflexivity]. cbn [negb orb andb].
      destruct (inv_req H K3) as (T & _). rewrite st_c by assumption.
      apply (w_sf W) with (k := k); auto; lia.
    Qed.

    Theorem clause2_ok : shared_step convert veqb m' p c = true.
    Proof.
      unfold shared_step. apply forallb_forall. intros t Ht. apply in_tids in Ht.
      destruct (newly p c t) eqn:En; [|reflexivity]. cbn [negb orb andb].
      destruct (newly_was_pending En Ht) as [Hlt Hp]. rewrite st_c by assumption.
      destruct (stat s' t) as [|v|x|] eqn:Es; auto.
      assert (Hd : pcof s' t = PDone (SRet v)) by (apply stat_done'; [assumption|discriminate]).
      destruct (owner_req c t) as [r|] eqn:Eo.
      - apply obs_owner_some in Eo. destruct Eo as [R1 R2].
        destruct (inv_ret H Hd R1 R2) as (o & O1 & O2).
        pose proof (inv_out2 H R1 O1) as O3. rewrite R2 in O3. now rewrite O3, O2, veqb_refl.
      - pose proof (obs_owner_none _ _ Eo) as Hno.
        rewrite loc_of_task, (w_loc W Hlt) by assumption.
        destruct (w_ret W Hlt Hp Hd Hno) as [Hc|Hor].
        + assert (Hl : t_loc (tasks s t) < nl) by (rewrite <- (w_loc W Hlt); now apply L).
          unfold p. rewrite obs_peek_at by assumption. unfold peek. now rewrite Hc, veqb_refl.
        + rewrite (owner_returned_of Hor). apply orb_true_r.
    Qed.

    Theorem clause3_ok : cached_step veqb m' a p c = true.
    Proof.
      unfold cached_step. apply andb_true_iff. split.
      - apply forallb_forall. intros l Hl. apply in_seq in Hl. unfold c in Hl. rewrite obs_peek_len in Hl.
        assert (Hl' : l < nl) by lia. unfold p, c. rewrite !obs_peek_at by assumption. unfold peek.
        destruct (is_uncache a l) eqn:Eu.
        + now rewrite (w_unc W _ Eu).
        + destruct (cache s' l) as [|e|w] eqn:Ec'.
          * destruct (cache s l) as [|e|v] eqn:Ec; auto. destruct (w_keep W _ Eu Ec) as [v' E]. congruence.
          * destruct (cache s l) as [|e0|v] eqn:Ec; auto. destruct (w_keep W _ Eu Ec) as [v' E]. congruence.
          * destruct (w_val W _ Ec') as [E|E].
            -- rewrite E. now rewrite veqb_refl.
            -- fold p c. rewrite (owner_returned_of E). destruct (cache s l); auto. apply orb_true_r.
      - apply forallb_forall. intros k Hk. apply in_new_reqs in Hk as [K1 K2].
        rewrite c_log_at by assumption. cbn [fst]. unfold peek_at, p.
        destruct (Nat.lt_ge_cases (r_loc (reqs s' k)) nl) as [Hl|Hl].
        + fold (peek_at (observe nl s) (r_loc (reqs s' k))). rewrite obs_peek_at by assumption. unfold peek.
          destruct (cache s (r_loc (reqs s' k))) as [|e|v] eqn:Ec; auto. exfalso. now apply (w_new W K1 K2 Ec).
        + rewrite nth_overflow; [reflexivity|]. now rewrite obs_peek_len.
    Qed.

    Theorem clause4_ok : no_deadlock_step c = true.
    Proof.
      unfold no_deadlock_step. destruct (o_idle c && is_nil_rid (o_out c)) eqn:E; [|reflexivity]. cbn [negb orb andb].
      apply andb_true_iff in E as [E1 E2].
      assert (Hr : ready s' = []) by (unfold c in E1; cbn in E1; destruct (ready s'); [reflexivity|discriminate]).
      assert (Ho : outstanding s' = []) by (unfold c in E2; cbn in E2; destruct (outstanding s'); [reflexivity|discriminate]).
      assert (Hnf : forall t r e, pcof s' t <> PFetch r e).
      { intros t r e Hp. assert (T : task_ok [] s' t) by (apply (inv_task H); discriminate).
        unfold task_ok in T. rewrite Hp in T. destruct T as (A & _ & _ & _ & [B|B]).
        - assert (In r (outstanding s')); [|rewrite Ho in *; contradiction].
          unfold outstanding. apply filter_In. split; [apply in_seq; lia|now rewrite B].
        - unfold rdy in B. rewrite Hr in B. contradiction. }
      apply forallb_forall. intros x Hx. unfold c in Hx. cbn in Hx. unfold statuses in Hx.
      apply in_map_iff in Hx as (t & <- & Hin). apply in_seq in Hin.
      assert (T : task_ok [] s' t) by (apply (inv_task H); discriminate). unfold task_ok, rdy in T. rewrite Hr in T.
      unfold status_of. destruct (pcof s' t) as [|r e|e w|st] eqn:Hp.
      - contradiction.
      - exfalso. now apply (Hnf t r e).
      - destruct T as (_ & _ & T). destruct w; try contradiction.
        destruct T as (_ & t' & r' & T). exfalso. now apply (Hnf t' r' e).
      - destruct st; auto. exfalso. now apply (inv_nopend H t).
    Qed.

    Lemma prefixb_map (f g : nat -> loc * tid) (l : list nat) rest :
      (forall x, In x l -> f x = g x) -> prefixb (map f l) (map g l ++ rest) = true.
    Proof.
      induction l as [|x l IH]; intros Hfg; cbn; [reflexivity|].
      rewrite <- (Hfg x) by (now left). destruct (f x) as [a1 b1]. rewrite !Nat.eqb_refl. cbn.
      apply IH. intros y Hy. apply Hfg. now right.
    Qed.

    Theorem clause5_ok : clean_step convert veqb xeqb m' a p c = true.
    Proof.
      unfold clean_step. repeat (apply andb_true_iff; split).
      - unfold c. cbn. now rewrite (inv_div H).
      - unfold c. rewrite obs_status_len. destruct (inv_len H) as [-> _]. apply Nat.eqb_refl.
      - apply forallb_forall. intros t Ht. apply in_tids in Ht.
        destruct (Nat.lt_ge_cases t (ntasks s)) as [Hlt|Hge].
        + rewrite st_p, st_c by assumption. unfold status_of.
          destruct (pcof s t) as [| | |st0] eqn:Hp; auto. rewrite (w_done W Hp Hlt).
          rewrite status_eqb_refl. apply orb_true_r.
        + now rewrite st_p_over.
      - unfold p, c. cbn. unfold log. pose proof (w_nr W) as Hnr.
        replace (nreqs s') with (nreqs s + (nreqs s' - nreqs s)) by lia.
        rewrite seq_app, map_app. apply prefixb_map. intros x Hx. apply in_seq in Hx.
        destruct (w_old W (r := x)) as [-> ->]; [lia|reflexivity].
      - apply forallb_forall. intros k Hk. apply in_new_reqs in Hk as [K1 K2].
        rewrite c_log_at by assumption. cbn [fst snd]. destruct (inv_req H K2) as (T & Q & _).
        unfold c. rewrite obs_status_len. apply Nat.ltb_lt in T as T'. rewrite T'. cbn [andb].
        rewrite loc_of_task by assumption. rewrite Q. apply Nat.eqb_refl.
      - destruct (is_iter a) eqn:Ei; [reflexivity|]. cbn [orb].
        destruct (w_quiet W Ei) as [Q1 Q2]. apply andb_true_iff. split.
        + apply forallb_forall. intros t Ht. apply in_tids in Ht.
          destruct (newly p c t) eqn:En; [|reflexivity]. exfalso.
          destruct (newly_was_pending En Ht) as [Hlt Hp]. specialize (Q2 t Hlt Hp).
          unfold newly in En. apply andb_true_iff in En as [_ En]. rewrite st_c, (stat_pending' Q2) in En by assumption.
          discriminate.
        + unfold p, c. rewrite !obs_log_len. rewrite Q1. apply Nat.eqb_refl.
      - apply forallb_forall. intros t Ht. apply in_tids in Ht.
        destruct (newly p c t); [|reflexivity]. cbn [negb orb]. rewrite st_c by assumption.
        destruct (stat s' t) as [|v|x|] eqn:Es; auto.
        + assert (Hd : pcof s' t = PDone (SExc x)) by (apply stat_done'; [assumption|discriminate]).
          destruct (inv_exc H _ Hd) as (r & o & R1 & R2 & R3 & R4).
          rewrite (c_owner_is R1 R2). pose proof (inv_out2 H R1 R3) as O3. rewrite R2 in O3.
          now rewrite O3, R4, xeqb_refl.
        + assert (Hd : pcof s' t = PDone SCancelled) by (apply stat_done'; [assumption|discriminate]).
          apply memb_of_In. apply (inv_canc H Ht). right. now rewrite Hd.
    Qed.
  End OneStep.

  (* ---- all steps of a schedule ---------------------------------------------------------------------- *)
  Lemma ntasks_step (s : state) m a :
    Inv m [] None s -> (forall l md, a <> AStart l md) -> ntasks (step convert s a) = ntasks s.
  Proof.
    intros H Ha. destruct a as [l md|r o|t|l|]; cbn [step].
    - exfalso. now apply (Ha l md).
    - unfold complete. destruct (r <? nreqs s); [|reflexivity]. now destruct (r_state (reqs s r)).
    - unfold cancel. destruct (t <? ntasks s); [|reflexivity].
      destruct (pcof s t) as [|r e|e w|st]; try reflexivity.
      + now destruct (r_state (reqs s r)).
      + now destruct w.
    - reflexivity.
    - apply (x_nt (ext_iterate H)).
  Qed.

  Lemma locs_step nl (s : state) m a :
    Inv m [] None s -> locs_ok nl s -> action_loc a <= nl -> locs_ok nl (step convert s a).
  Proof.
    intros H L Ha t Ht.
    pose proof (two_step nl a H) as W.
    destruct a as [l md|r o|t0|l|] eqn:Ea.
    - cbn in *. unfold fupd. destruct (Nat.eqb_spec (ntasks s) t) as [E|E]; cbn; [lia|]. apply L. lia.
    - rewrite (ntasks_step H) in Ht by discriminate. rewrite (w_loc W Ht). now apply L.
    - rewrite (ntasks_step H) in Ht by discriminate. rewrite (w_loc W Ht). now apply L.
    - rewrite (ntasks_step H) in Ht by discriminate. rewrite (w_loc W Ht). now apply L.
    - rewrite (ntasks_step H) in Ht by discriminate. rewrite (w_loc W Ht). now apply L.
  Qed.

  Theorem steps_ok cl nl : forall sched (s : state) m j,
    Inv m [] None s -> locs_ok nl s -> (forall a, In a sched -> action_loc a <= nl) ->
    failing_steps convert veqb xeqb cl j m (observe nl s) sched (trace_from convert nl s sched) = [].
  Proof.
    induction sched as [|a sched IH]; intros s m j H L Hs; cbn [failing_steps trace_from]; [reflexivity|].
    set (m' := mon_update m a (observe nl s)). set (s' := step convert s a).
    assert (H' : Inv m' [] None s') by (now apply inv_step).
    assert (W : Two m' a s s') by (now apply two_step).
    assert (L' : locs_ok nl s') by (apply locs_step with (m := m); auto; apply Hs; now left).
    rewrite IH; auto; [|intros a0 Ha0; apply Hs; now right]. rewrite app_nil_r.
    assert (C : clause_step convert veqb xeqb cl m' a (observe nl s) (observe nl s') = true).
    { unfold clause_step. destruct cl as [|[|[|[|[|cl]]]]].
      - eapply clause5_ok; eauto.
      - eapply clause1_ok; eauto.
      - eapply clause2_ok; eauto.
      - eapply clause3_ok; eauto.
      - eapply clause4_ok; eauto.
      - eapply clause5_ok; eauto. }
    now rewrite C.
  Qed.

  Lemma nlocs_ge (sched : list (action O)) a : In a sched -> action_loc a <= nlocs sched.
  Proof.
    unfold nlocs. induction sched as [|b sched IH]; cbn; [contradiction|]. intros [->|Hin]; [lia|].
    specialize (IH Hin). lia.
  Qed.

  Theorem trace_ok cl (sched : list (action O)) :
    failing_steps convert veqb xeqb cl 0 (mon0 O) (obs0 O V X (nlocs sched)) sched
                  (trace_from convert (nlocs sched) (init O V X) sched) = [].
  Proof.
    apply steps_ok.
    - apply inv_init.
    - unfold locs_ok. cbn. intros t Ht. lia.
    - intros a. apply nlocs_ge.
  Qed.
End Clauses.
