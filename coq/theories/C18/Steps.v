(* C18 - the invariant is preserved by every external action and by every handle of an iteration. *)
From Coq Require Import List Bool Arith Lia.
From AUC Require Import C18.Model C18.Base C18.Spec C18.Inv.
Import ListNotations.
Set Implicit Arguments.

Ltac feq :=
  repeat match goal with
         | |- context [Nat.eqb ?a ?b] => destruct (Nat.eqb_spec a b); subst
         | H : context [Nat.eqb ?a ?b] |- _ => destruct (Nat.eqb_spec a b); subst
         end.

Ltac splits := repeat (split; [first [assumption | reflexivity | lia]|]).

Section Steps.
  Variables O V X : Type.
  Variable convert : O -> result V X.
  Notation state := (state O V X).
  Notation mon := (mon O).
  Notation pcof s t := (t_pc (tasks s t)).
  Notation stat s t := (status_of (tasks s t)).
  Notation Inv := (Inv convert).

  Lemma rdy_app hs (s : state) t : rdy hs s t <-> In t hs \/ In t (ready s).
  Proof. unfold rdy. now rewrite in_app_iff. Qed.

  Lemma nth_app_new A (l : list A) x d t n : length l = n -> 
    nth t (l ++ [x]) d = if Nat.eqb t n then x else nth t l d.
  Proof.
    intros <-. destruct (Nat.eqb_spec t (length l)) as [->|Hne].
    - rewrite app_nth2, Nat.sub_diag by lia. reflexivity.
    - destruct (Nat.lt_ge_cases t (length l)).
      + now rewrite app_nth1.
      + rewrite !nth_overflow; auto; try lia. rewrite app_length. cbn. lia.
  Qed.

  Lemma inv_init : Inv (mon0 O) [] None (init O V X).
  Proof.
    constructor; cbn; try (intros; lia); try discriminate; auto.
    intros l _ k Hk. cbn in Hk. lia.
  Qed.

  Lemma inv_start m (s : state) (p : sobs V X) l md :
    Inv m [] None s -> Inv (mon_update m (AStart l md) p) [] None (start s l md).
  Proof.
    intros H. destruct H. unfold start.
    constructor; cbn.
    - assumption.
    - intros t Ht. unfold fupd. feq; [lia|]. apply inv_dummy. lia.
    - rewrite !app_length. cbn. lia.
    - intros t Ht. destruct inv_len as [L1 L2].
      rewrite (nth_app_new _ _ _ _ L1), (nth_app_new _ _ _ _ L2). unfold fupd. feq; cbn; auto; try congruence.
      apply inv_mode. lia.
    - intros r Hr. destruct (inv_req r Hr) as (A & B & C & D). unfold req_ok. cbn. unfold fupd.
      feq; try lia. auto.
    - assumption.
    - assumption.
    - intros r o Hr Hs. unfold outcome_of. cbn. destruct inv_len as [L1 L2].
      rewrite (nth_app_new _ _ _ _ L1). destruct (inv_req r Hr) as (A & _).
      feq; [lia|]. now apply inv_out2.
    - intros t Ht [Hm|Hm]; cbn in *; unfold fupd in *; feq; cbn in *; try discriminate; try contradiction.
      + apply inv_canc; [lia|]. now left.
      + apply inv_canc; [lia|]. now right.
    - intros t x. unfold fupd. feq; [discriminate|]. apply inv_exc.
    - intros t v r. unfold fupd. feq; [discriminate|]. apply inv_ret.
    - intros t _. unfold task_ok. cbn. unfold fupd. feq; cbn.
      + unfold rdy. cbn. rewrite in_app_iff. cbn. auto.
      + assert (inv_task' : task_ok [] s t) by (apply inv_task; discriminate). clear inv_task.
        rename inv_task' into inv_task. unfold task_ok in inv_task.
        destruct (pcof s t) as [|r e|e w|st]; auto.
        * unfold rdy in *. cbn in *. rewrite in_app_iff. auto.
        * destruct inv_task as (A & B & C & D & E). repeat (split; [assumption|]).
          destruct E; auto. right. unfold rdy in *. cbn in *. rewrite in_app_iff. auto.
        * destruct inv_task as (A & B & C). repeat (split; [assumption|]).
          destruct w; unfold rdy in *; cbn in *; try (rewrite in_app_iff; auto).
          destruct C as (C1 & t' & r' & C2). split; auto. exists t', r'.
          destruct (Nat.eqb_spec (ntasks s) t'); subst; auto.
          rewrite inv_dummy in C2 by lia. discriminate.
    - assumption.
    - intros t1 t2 r1 r2 e. unfold fupd. feq; try discriminate. apply inv_own1.
    - intros l0 e Hc. destruct (inv_marker _ _ Hc) as (t & r & A & B & C & D).
      exists t, r. unfold fupd.
      destruct (Nat.eqb_spec (ntasks s) t) as [E|E].
      { rewrite inv_dummy in A by lia. discriminate. }
      repeat (split; [assumption|]).
      intros k Hk He Hl Hne. specialize (D k Hk He Hl Hne). cbn in *.
      destruct (inv_req k Hk) as (A1 & _). unfold fupd. feq; [lia|]. assumption.
    - intros l0 Hc k Hk He Hl Hne. specialize (inv_absent _ Hc k Hk He Hl Hne). cbn in *.
      destruct (inv_req k Hk) as (A1 & _). unfold fupd. feq; [lia|]. assumption.
    - intros t. unfold fupd. feq; [discriminate|apply inv_nopend].
  Qed.

  (* ---- complete ------------------------------------------------------------------------------- *)
  Lemma memb_filter_seq (f : nat -> bool) n r :
    Spec.memb r (filter f (seq 0 n)) = (r <? n) && f r.
  Proof.
    unfold Spec.memb. destruct ((r <? n) && f r) eqn:E.
    - apply andb_true_iff in E as [E1 E2]. apply Nat.ltb_lt in E1.
      apply existsb_exists. exists r. split; [|apply Nat.eqb_refl].
      apply filter_In. split; [apply in_seq; lia|assumption].
    - destruct (existsb (Nat.eqb r) (filter f (seq 0 n))) eqn:E'; [|reflexivity].
      apply existsb_exists in E' as (x & Hin & Hx). apply Nat.eqb_eq in Hx. subst x.
      apply filter_In in Hin as [Hin Hf]. apply in_seq in Hin.
      assert (r <? n = true) by (apply Nat.ltb_lt; lia). rewrite H, Hf in E. discriminate.
  Qed.

  Lemma assoc_app A k (l : list (nat * A)) k' v :
    assoc k (l ++ [(k', v)]) = match assoc k l with Some x => Some x | None => if Nat.eqb k k' then Some v else None end.
  Proof.
    induction l as [|[a b] l IH]; cbn; [reflexivity|]. destruct (Nat.eqb k a); auto.
  Qed.

  Lemma observe_out nl (s : state) : o_out (observe nl s) = outstanding s.
  Proof. reflexivity. Qed.

  Lemma inv_complete m (s : state) nl r o :
    Inv m [] None s -> Inv (mon_update m (AComplete r o) (observe nl s)) [] None (complete s r o).
  Proof.
    intros H. unfold complete, mon_update. rewrite observe_out. unfold outstanding.
    rewrite memb_filter_seq. destruct (r <? nreqs s) eqn:Hr; cbn [andb]; [|assumption].
    apply Nat.ltb_lt in Hr. destruct (r_state (reqs s r)) eqn:Hst; cbn [is_rpending]; try assumption.
    destruct H. destruct (inv_req r Hr) as (Q1 & Q2 & Q3 & Q4). destruct (Q4 Hst) as ((e0 & Q5) & Q6).
    assert (Hnone : assoc r (m_out m) = None).
    { destruct (assoc r (m_out m)) eqn:E; [|reflexivity]. apply inv_out1 in E. destruct E. congruence. }
    constructor; cbn; try assumption.
    - intros r0 Hr0. destruct (inv_req r0 Hr0) as (A & B & C & D). unfold req_ok. cbn. unfold fupd.
      feq; cbn; [repeat split; auto; discriminate|].
      split; [assumption|]. split; [assumption|]. split; [assumption|]. exact D.
    - intros r0 r' H1 H2. unfold fupd. feq; cbn; auto.
    - intros r0 o0. rewrite assoc_app. destruct (assoc r0 (m_out m)) eqn:E.
      + intros [= <-]. apply inv_out1 in E. destruct E as [E1 E2]. split; [assumption|].
        unfold fupd. feq; cbn; [congruence|assumption].
      + feq; [|discriminate]. intros [= <-]. split; [assumption|]. unfold fupd. now rewrite Nat.eqb_refl.
    - intros r0 o0 Hr0. unfold fupd, outcome_of. cbn.
      destruct (Nat.eqb_spec r r0) as [<-|Hne]; cbn.
      + intros [= <-]. destruct (inv_mode _ Q1) as [M1 M2]. rewrite M1, Q6.
        rewrite assoc_app, Hnone, Nat.eqb_refl. reflexivity.
      + intros Hs. pose proof (inv_out2 _ _ Hr0 Hs) as Ho. unfold outcome_of in Ho.
        destruct (nth (r_task (reqs s r0)) (m_modes m) MSuspend); [|assumption].
        rewrite assoc_app, Ho. reflexivity.
    - intros t Ht Hm. apply inv_canc; auto. unfold cancel_marked in *. cbn in Hm.
      destruct Hm as [Hm|Hm]; [now left|right].
      destruct (pcof s t) as [|r0 e|e w|st]; auto. unfold fupd in Hm. feq; cbn in Hm; [discriminate|assumption].
    - intros t x Hp. destruct (inv_exc _ _ Hp) as (r0 & o0 & A & B & C & D). exists r0, o0.
      unfold fupd. feq; cbn; auto. congruence.
    - intros t v r0 Hp Hr0. unfold fupd. feq; cbn.
      + intros <-. congruence.
      + now apply inv_ret.
    - intros t _. assert (T : task_ok [] s t) by (apply inv_task; discriminate). unfold task_ok in *.
      unfold rdy in *. cbn in *.
      destruct (pcof s t) as [|r0 e|e w|st] eqn:Hp; auto.
      + rewrite in_app_iff. auto.
      + destruct T as (A & B & C & D & E). unfold fupd. feq; cbn.
        * splits. right. rewrite in_app_iff. cbn. auto.
        * splits. destruct E; auto. right. rewrite in_app_iff. auto.
      + destruct T as (A & B & C). splits. destruct w; auto; rewrite in_app_iff; auto.
    - intros l e Hc. destruct (inv_marker _ _ Hc) as (t & r0 & A & B & C & D). exists t, r0.
      splits. intros k Hk He Hl Hne. cbn in *. unfold fupd in *.
      specialize (D k Hk He). feq; cbn in *; auto.
    - intros l Hc k Hk He Hl Hne. cbn in *. unfold fupd in *.
      specialize (inv_absent _ Hc k Hk He). feq; cbn in *; auto.
  Qed.

  (* ---- cancel --------------------------------------------------------------------------------- *)
  Lemma inv_mon_cancel m hs sk (s : state) t :
    Inv m hs sk s -> Inv (mkMon (t :: m_cancel m) (m_out m) (m_modes m) (m_locs m) (m_epoch m)) hs sk s.
  Proof.
    intros H. destruct H. constructor; try assumption.
    intros t0 Ht0 Hm. cbn. right. now apply inv_canc.
  Qed.

  Lemma inv_set_must m hs sk (s : state) t :
    Inv m hs sk s -> In t (m_cancel m) -> Inv m hs sk (set_must s t).
  Proof.
    intros H Hin. destruct H.
    assert (Epc : forall t0, pcof (set_must s t) t0 = pcof s t0) by (intros; cbn; unfold fupd; now feq).
    assert (Eloc : forall t0, t_loc (tasks (set_must s t) t0) = t_loc (tasks s t0)) by (intros; cbn; unfold fupd; now feq).
    assert (Emode : forall t0, t_mode (tasks (set_must s t) t0) = t_mode (tasks s t0)) by (intros; cbn; unfold fupd; now feq).
    assert (Est : forall t0, stat (set_must s t) t0 = stat s t0) by (intros; unfold status_of; now rewrite Epc).
    constructor; try assumption.
    - intros t0. rewrite Epc. apply inv_dummy.
    - intros t0. rewrite Emode, Eloc. apply inv_mode.
    - intros r Hr. unfold req_ok. rewrite !Epc, Eloc, Emode. apply (inv_req r Hr).
    - intros t0 Ht0 Hm. destruct (Nat.eqb_spec t t0) as [<-|Hne]; [assumption|].
      apply inv_canc; [assumption|]. unfold cancel_marked in *. rewrite Epc in Hm.
      cbn in Hm. unfold fupd in Hm. destruct (Nat.eqb_spec t t0); [congruence|]. assumption.
    - intros t0 x. rewrite Epc. apply inv_exc.
    - intros t0 v r. rewrite Epc. apply inv_ret.
    - intros t0 Hsk. specialize (inv_task t0 Hsk). unfold task_ok in *. rewrite Epc.
      destruct (pcof s t0) as [|r e|e w|st]; auto.
      destruct inv_task as (A & B & C). splits. destruct w; auto.
      destruct C as (C1 & t' & r' & C2). split; auto. exists t', r'. now rewrite Epc.
    - intros t1 t2 r1 r2 e. rewrite !Epc. apply inv_own1.
    - intros l e Hc. destruct (inv_marker l e Hc) as (t0 & r & A & B & C & D). exists t0, r.
      rewrite Epc, Eloc. splits. intros k Hk He Hl Hne. rewrite Est. now apply D.
    - intros l Hc k Hk He Hl Hne. rewrite Est. now apply (inv_absent l Hc).
    - intros t0. rewrite Epc. apply inv_nopend.
  Qed.

  Lemma rdy_enqueue hs (s : state) t t0 : rdy hs s t0 -> rdy hs (enqueue s t) t0.
  Proof. unfold rdy. cbn. rewrite !in_app_iff. tauto. Qed.
  Lemma rdy_enqueue_self hs (s : state) t : rdy hs (enqueue s t) t.
  Proof. unfold rdy. cbn. rewrite !in_app_iff. cbn. tauto. Qed.

  Lemma inv_cancel_fetch m hs (s : state) t r e :
    Inv m hs None s -> In t (m_cancel m) -> pcof s t = PFetch r e -> r_state (reqs s r) = RPending ->
    r < nreqs s -> r_task (reqs s r) = t ->
    Inv m hs None (enqueue (set_rstate s r RCancelled) t).
  Proof.
    intros H Hin Hp Hst Hr Hrt. destruct H.
    constructor; cbn; try assumption.
    - intros r0 Hr0. destruct (inv_req r0 Hr0) as (A & B & C & D). unfold req_ok. cbn. unfold fupd.
      feq; cbn; [repeat split; auto; discriminate|].
      split; [assumption|]. split; [assumption|]. split; [assumption|]. exact D.
    - intros r0 r' H1 H2. unfold fupd. feq; cbn; auto.
    - intros r0 o0 Ha. apply inv_out1 in Ha. destruct Ha as [A B]. split; [assumption|].
      unfold fupd. feq; cbn; [congruence|assumption].
    - intros r0 o0 Hr0. unfold fupd. feq; cbn; [discriminate|]. apply inv_out2; assumption.
    - intros t0 Ht0 Hm. unfold cancel_marked in Hm. cbn in Hm.
      destruct (Nat.eqb_spec t t0) as [<-|Hne]; [assumption|].
      apply inv_canc; [assumption|]. destruct Hm as [Hm|Hm]; [now left|right].
      destruct (pcof s t0) as [|r0 e0|e0 w|st] eqn:Hp0; auto. unfold fupd in Hm. feq; cbn in Hm; [|assumption].
      assert (T : task_ok hs s t0) by (apply inv_task; discriminate). unfold task_ok in T. rewrite Hp0 in T.
      destruct T as (_ & T & _). congruence.
    - intros t0 x Hp0. destruct (inv_exc _ _ Hp0) as (r0 & o0 & A & B & C & D). exists r0, o0.
      unfold fupd. feq; cbn; auto. congruence.
    - intros t0 v r0 Hp0 Hr0. unfold fupd. feq; cbn.
      + intros <-. congruence.
      + now apply inv_ret.
    - intros t0 Hsk. specialize (inv_task t0 Hsk). unfold task_ok in *. cbn.
      destruct (pcof s t0) as [|r0 e0|e0 w|st] eqn:Hp0; auto.
      + now apply rdy_enqueue.
      + destruct inv_task as (A & B & C & D & E). unfold fupd. feq; cbn.
        * splits. right. apply rdy_enqueue_self.
        * splits. destruct E; auto. right. now apply rdy_enqueue.
      + destruct inv_task as (A & B & C). splits. destruct w; auto; now apply rdy_enqueue.
    - intros l e0 Hc. destruct (inv_marker _ _ Hc) as (t0 & r0 & A & B & C & D). exists t0, r0.
      splits. intros k Hk He Hl Hne. cbn in *. unfold fupd in *.
      specialize (D k Hk He). feq; cbn in *; auto.
    - intros l Hc k Hk He Hl Hne. cbn in *. unfold fupd in *.
      specialize (inv_absent _ Hc k Hk He). feq; cbn in *; auto.
  Qed.

  Lemma inv_cancel_wait m hs (s : state) t e :
    Inv m hs None s -> In t (m_cancel m) -> pcof s t = PWait e WPending ->
    Inv m hs None (enqueue (set_pc s t (PWait e WCancelled)) t).
  Proof.
    intros H Hin Hp. destruct H.
    set (s' := enqueue (set_pc s t (PWait e WCancelled)) t).
    assert (Epc : forall t0, pcof s' t0 = if Nat.eqb t t0 then PWait e WCancelled else pcof s t0)
      by (intros; cbn; unfold fupd; now feq).
    assert (Eloc : forall t0, t_loc (tasks s' t0) = t_loc (tasks s t0)) by (intros; cbn; unfold fupd; now feq).
    assert (Emode : forall t0, t_mode (tasks s' t0) = t_mode (tasks s t0)) by (intros; cbn; unfold fupd; now feq).
    assert (Emust : forall t0, t_must (tasks s' t0) = t_must (tasks s t0)) by (intros; cbn; unfold fupd; now feq).
    assert (Est : forall t0, stat s' t0 = stat s t0).
    { intros. unfold status_of. rewrite Epc. feq; [now rewrite Hp|reflexivity]. }
    assert (Hlt : t < ntasks s).
    { destruct (Nat.lt_ge_cases t (ntasks s)); [assumption|]. rewrite inv_dummy in Hp by assumption. discriminate. }
    constructor; try assumption.
    - intros t0 Ht0. change (ntasks s') with (ntasks s) in Ht0. rewrite Epc. feq; [lia|]. now apply inv_dummy.
    - intros t0. rewrite Emode, Eloc. apply inv_mode.
    - intros r Hr. destruct (inv_req r Hr) as (A & B & C & D). unfold req_ok. rewrite !Epc, Eloc, Emode.
      change (reqs s') with (reqs s). change (ntasks s') with (ntasks s).
      destruct (Nat.eqb_spec t (r_task (reqs s r))) as [E|E].
      + rewrite <- E in C. rewrite Hp in C. destruct C as [[st C]|[e0 C]]; discriminate.
      + auto.
    - intros t0 Ht0 Hm. destruct (Nat.eqb_spec t t0) as [<-|Hne]; [assumption|].
      apply inv_canc; [assumption|]. unfold cancel_marked in *. rewrite Epc, Emust in Hm.
      destruct (Nat.eqb_spec t t0); [congruence|]. assumption.
    - intros t0 x. rewrite Epc. feq; [discriminate|]. apply inv_exc.
    - intros t0 v r. rewrite Epc. feq; [discriminate|]. apply inv_ret.
    - intros t0 Hsk. assert (T := inv_task t0 Hsk). unfold task_ok in *. rewrite Epc.
      change (events s') with (events s). change (nevents s') with (nevents s).
      change (reqs s') with (reqs s). change (nreqs s') with (nreqs s).
      destruct (Nat.eqb_spec t t0) as [<-|Hne].
      + rewrite Hp in T. destruct T as (A & B & C). splits. apply rdy_enqueue_self.
      + destruct (pcof s t0) as [|r0 e0|e0 w|st] eqn:Hp0; auto.
        * now apply rdy_enqueue.
        * destruct T as (A & B & C & D & E). splits. destruct E; auto. right. now apply rdy_enqueue.
        * destruct T as (A & B & C). splits. destruct w; auto; try now apply rdy_enqueue.
          destruct C as (C1 & t' & r' & C2). split; auto. exists t', r'. rewrite Epc.
          feq; [congruence|assumption].
    - intros t1 t2 r1 r2 e0. rewrite !Epc. feq; try discriminate. apply inv_own1.
    - intros l e0 Hc. destruct (inv_marker l e0 Hc) as (t0 & r & A & B & C & D). exists t0, r.
      rewrite Epc, Eloc. feq; [congruence|]. splits. intros k Hk He Hl Hne. rewrite Est. now apply D.
    - intros l Hc k Hk He Hl Hne. rewrite Est. now apply (inv_absent l Hc).
    - intros t0. rewrite Epc. feq; [discriminate|apply inv_nopend].
  Qed.

  Lemma inv_cancel m (s : state) (p : sobs V X) t :
    Inv m [] None s -> Inv (mon_update m (ACancel t) p) [] None (cancel s t).
  Proof.
    intros H. cbn [mon_update]. apply inv_mon_cancel with (t := t) in H.
    set (m' := mkMon (t :: m_cancel m) (m_out m) (m_modes m) (m_locs m) (m_epoch m)) in *.
    assert (Hin : In t (m_cancel m')) by (cbn; auto).
    unfold cancel. destruct (t <? ntasks s); [|assumption].
    destruct (pcof s t) as [|r e|e w|st] eqn:Hp; try assumption.
    - now apply inv_set_must.
    - assert (T : task_ok [] s t) by (apply (inv_task H); discriminate). unfold task_ok in T. rewrite Hp in T.
      destruct T as (A & B & _).
      destruct (r_state (reqs s r)) eqn:Hst; try now apply inv_set_must.
      now apply inv_cancel_fetch with (e := e).
    - destruct w; try now apply inv_set_must. now apply inv_cancel_wait.
  Qed.

  (* ---- uncache -------------------------------------------------------------------------------- *)
  Lemma observe_log_length nl (s : state) : length (o_log (observe nl s)) = nreqs s.
  Proof. cbn. unfold log. now rewrite map_length, seq_length. Qed.

  Lemma inv_uncache m (s : state) nl l :
    Inv m [] None s -> Inv (mon_update m (AUncache l) (observe nl s)) [] None (set_cache s l CAbsent).
  Proof.
    intros H. cbn [mon_update]. rewrite observe_log_length. destruct H.
    set (m' := mkMon _ _ _ _ _).
    assert (Ee : forall l0, epoch_start m' l0 = if Nat.eqb l0 l then nreqs s else epoch_start m l0).
    { intros. unfold epoch_start. cbn. now destruct (Nat.eqb l0 l). }
    constructor; try assumption.
    - intros l0. rewrite Ee. cbn. feq; auto.
    - intros l0 e. cbn. unfold fupd. feq; [discriminate|]. intros Hc.
      destruct (inv_marker l0 e Hc) as (t0 & r & A & B & C & D). exists t0, r. cbn. rewrite Ee.
      destruct (Nat.eqb_spec l0 l); [congruence|]. splits.
      intros k Hk He. rewrite Ee in He. destruct (Nat.eqb_spec l0 l); [congruence|]. now apply D.
    - intros l0. cbn. unfold fupd. intros Hc k Hk He. cbn in *. rewrite Ee in He.
      destruct (Nat.eqb_spec l0 l) as [->|Hne].
      + lia.
      + destruct (Nat.eqb_spec l l0); [congruence|]. now apply (inv_absent l0 Hc).
  Qed.
End Steps.
