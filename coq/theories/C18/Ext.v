(* C18 - what one handle, and hence one loop iteration, can change: finished lookups stay finished, the request
   log only grows, a cached value only ever gives way to the value just returned by a lookup that issued a
   request for that location, and no request is issued for a location that shows a value. *)
From Coq Require Import List Bool Arith Lia.
From AUC Require Import C18.Model C18.Base C18.Spec C18.Inv C18.Steps C18.Handles.
Import ListNotations.
Set Implicit Arguments.

Section Ext.
  Variables O V X : Type.
  Variable convert : O -> result V X.
  Notation state := (state O V X).
  Notation mon := (mon O).
  Notation pcof s t := (t_pc (tasks s t)).
  Notation stat s t := (status_of (tasks s t)).
  Notation Inv := (Inv convert).

  Definition pending (s : state) (t : tid) : Prop := forall st, pcof s t <> PDone st.

  (* summary of the handle of task t *)
  Record Sum (s s' : state) (t : tid) : Prop := mkSum {
    sm_nt : ntasks s' = ntasks s;
    sm_loc : forall t0, t_loc (tasks s' t0) = t_loc (tasks s t0);
    sm_done : forall t0 st, t0 <> t -> (pcof s' t0 = PDone st <-> pcof s t0 = PDone st);
    sm_self : forall st, pcof s t = PDone st -> pcof s' t = PDone st;
    sm_nr : nreqs s <= nreqs s';
    sm_old : forall r, r < nreqs s -> r_loc (reqs s' r) = r_loc (reqs s r) /\ r_task (reqs s' r) = r_task (reqs s r);
    sm_new : forall r, nreqs s <= r -> r < nreqs s' ->
               r = nreqs s /\ r_task (reqs s' r) = t /\ r_loc (reqs s' r) = t_loc (tasks s t)
               /\ cache s (t_loc (tasks s t)) = CAbsent;
    sm_cache : forall l0,
        match cache s' l0 with
        | CValue v => cache s l0 = CValue v
                      \/ (l0 = t_loc (tasks s t) /\ pending s t /\ pcof s' t = PDone (SRet v)
                          /\ exists r, r < nreqs s' /\ r_task (reqs s' r) = t /\ r_loc (reqs s' r) = l0)
        | _ => forall v, cache s l0 <> CValue v
        end;
    sm_ret : forall v, pending s t -> pcof s' t = PDone (SRet v) ->
                       (forall r, r < nreqs s' -> r_task (reqs s' r) <> t) -> cache s (t_loc (tasks s t)) = CValue v
  }.

  Lemma sum_refl (s : state) t : Sum s s t.
  Proof.
    constructor; auto; try tauto; try lia.
    - intros l0. destruct (cache s l0); auto; intros; congruence.
    - intros v Hp E. exfalso. now apply (Hp (SRet v)).
  Qed.

  Lemma release_sum (s : state) l e :
    let s2 := release s l e in
    ntasks s2 = ntasks s /\ reqs s2 = reqs s /\ nreqs s2 = nreqs s
    /\ (forall t0, t_loc (tasks s2 t0) = t_loc (tasks s t0))
    /\ (forall t0 st, pcof s2 t0 = PDone st <-> pcof s t0 = PDone st)
    /\ (forall l0, cache s2 l0 = cache s l0 \/ (l0 = l /\ cache s2 l0 = CAbsent /\ cache s l0 = CMarker e)).
  Proof.
    unfold release.
    set (s1 := match cache s l with
               | CMarker e' => if Nat.eqb e' e then set_cache s l CAbsent else s
               | _ => s end).
    assert (F : tasks s1 = tasks s /\ ntasks s1 = ntasks s /\ reqs s1 = reqs s /\ nreqs s1 = nreqs s).
    { unfold s1. destruct (cache s l) as [|e'|v]; try (repeat split; reflexivity).
      destruct (Nat.eqb e' e); repeat split; reflexivity. }
    destruct F as (F1 & F2 & F3 & F4).
    assert (Fc : forall l0, cache s1 l0 = cache s l0 \/ (l0 = l /\ cache s1 l0 = CAbsent /\ cache s l0 = CMarker e)).
    { intros l0. unfold s1. destruct (cache s l) as [|e'|v] eqn:Hc; auto.
      destruct (Nat.eqb_spec e' e) as [->|Hne]; auto.
      cbn. unfold fupd. destruct (Nat.eqb_spec l l0) as [<-|]; auto. }
    pose proof (event_set_spec s1 e) as S. cbv zeta in S.
    destruct S as (S1 & S2 & S3 & S4 & S5 & S6 & S7 & S8 & S9). cbv zeta.
    rewrite S1, S2, S3, S5, F2, F3, F4. splits. split; [|split].
    - intros t0. destruct (S8 t0) as (-> & _). now rewrite F1.
    - intros t0 st. destruct (S8 t0) as (_ & _ & _ & ->). rewrite F1.
      unfold woken, wakes. rewrite F1. destruct (pcof s t0) as [|r0 e0|e0 [| |]|st0];
        rewrite ?andb_false_r; try tauto.
      destruct (negb (e_set (events s1 e)) && inb t0 (e_waiters (events s1 e)) && Nat.eqb e0 e); split; discriminate.
    - exact Fc.
  Qed.

  Definition same_core (sA s : state) : Prop :=
    tasks sA = tasks s /\ ntasks sA = ntasks s /\ reqs sA = reqs s /\ nreqs sA = nreqs s /\ cache sA = cache s.
  Lemma same_core_refl (s : state) : same_core s s.
  Proof. repeat split. Qed.
  Lemma same_core_remove_waiter (s : state) e t : same_core (remove_waiter s e t) s.
  Proof. repeat split. Qed.

  Lemma cache_nonvalue (s : state) l0 : (forall v, cache s l0 <> CValue v) <-> match cache s l0 with CValue _ => False | _ => True end.
  Proof. destruct (cache s l0); split; auto; try discriminate. intros H. now apply (H v). Qed.

  Lemma sum_finish (sA s : state) t st :
    same_core sA s -> pending s t -> (forall v, st = SRet v -> cache s (t_loc (tasks s t)) = CValue v) ->
    Sum s (finish sA t st) t.
  Proof.
    intros (C1 & C2 & C3 & C4 & C5) Hp Hv.
    constructor; cbn; rewrite ?C1, ?C2, ?C3, ?C4, ?C5; auto; try lia.
    - intros t0. unfold fupd. now feq.
    - intros t0 st0 Hne. unfold fupd. destruct (Nat.eqb_spec t t0); [congruence|tauto].
    - intros st0 E. exfalso. now apply (Hp st0).
    - intros l0. destruct (cache s l0); auto; intros; congruence.
    - intros v _. unfold fupd. rewrite Nat.eqb_refl. cbn. intros [= ->] _. now apply Hv.
  Qed.

  Lemma sum_add_waiter (sA s : state) t e :
    same_core sA s -> pending s t -> Sum s (set_pc (add_waiter sA e t) t (PWait e WPending)) t.
  Proof.
    intros (C1 & C2 & C3 & C4 & C5) Hp.
    constructor; cbn; rewrite ?C1, ?C2, ?C3, ?C4, ?C5; auto; try lia.
    - intros t0. unfold fupd. now feq.
    - intros t0 st0 Hne. unfold fupd. destruct (Nat.eqb_spec t t0); [congruence|tauto].
    - intros st0 E. exfalso. now apply (Hp st0).
    - intros l0. destruct (cache s l0); auto; intros; congruence.
    - intros v _. unfold fupd. rewrite Nat.eqb_refl. cbn. discriminate.
  Qed.

  Lemma sum_issue (sA s : state) t x :
    same_core sA s -> pending s t -> cache s (t_loc (tasks s t)) = CAbsent -> Sum s (issue sA t x) t.
  Proof.
    intros (C1 & C2 & C3 & C4 & C5) Hp Hc.
    constructor; cbn; rewrite ?C1, ?C2, ?C3, ?C4, ?C5; auto; try lia.
    - intros t0. unfold fupd. now feq.
    - intros t0 st0 Hne. unfold fupd. destruct (Nat.eqb_spec t t0); [congruence|tauto].
    - intros st0 E. exfalso. now apply (Hp st0).
    - intros r Hr. unfold fupd. feq; [lia|auto].
    - intros r H1 H2. assert (r = nreqs s) by lia. subst r. unfold fupd. rewrite Nat.eqb_refl. cbn. auto.
    - intros l0. unfold fupd. destruct (Nat.eqb_spec (t_loc (tasks s t)) l0) as [<-|Hne].
      + intros v. congruence.
      + destruct (cache s l0); auto; intros; congruence.
    - intros v _. unfold fupd. rewrite Nat.eqb_refl. cbn. discriminate.
  Qed.

  (* the owner ends after [s -> sB] (nothing, or its own request issued on the spot) *)
  Lemma sum_end (s sB : state) t r e st (setv : option V) :
    Sum s sB t -> pending sB t -> r < nreqs sB -> r_task (reqs sB r) = t -> r_loc (reqs sB r) = t_loc (tasks sB t) ->
    match setv with Some v => st = SRet v | None => forall v, st <> SRet v end ->
    let l := t_loc (tasks sB t) in
    let sBv := match setv with Some v => set_cache sB l (CValue v) | None => sB end in
    Sum s (finish (release sBv l e) t st) t.
  Proof.
    intros S Hp Hr Hrt Hrl Hst l sBv.
    assert (Hps : pending s t).
    { intros st0 E. apply (Hp st0). now apply (sm_self S). }
    pose proof (release_sum sBv l e) as R. cbv zeta in R.
    destruct R as (R1 & R2 & R3 & R4 & R5 & R6).
    assert (B1 : ntasks sBv = ntasks sB /\ reqs sBv = reqs sB /\ nreqs sBv = nreqs sB /\ tasks sBv = tasks sB).
    { unfold sBv. destruct setv; repeat split. }
    destruct B1 as (B1 & B2 & B3 & B4).
    assert (Bc : forall l0, cache sBv l0 = match setv with Some v => if Nat.eqb l l0 then CValue v else cache sB l0
                                                    | None => cache sB l0 end).
    { intros l0. unfold sBv. destruct setv; [|reflexivity]. cbn. unfold fupd. reflexivity. }
    assert (El : l = t_loc (tasks s t)) by (unfold l; apply (sm_loc S)).
    destruct S.
    constructor; cbn; rewrite ?R1, ?R2, ?R3, ?B1, ?B2, ?B3; auto.
    - intros t0. unfold fupd. destruct (Nat.eqb_spec t t0) as [E|E]; cbn; rewrite R4, B4; [subst t0|]; apply sm_loc0.
    - intros t0 st0 Hne. unfold fupd. destruct (Nat.eqb_spec t t0); [congruence|].
      rewrite R5, B4. now apply sm_done0.
    - intros st0 E. exfalso. now apply (Hps st0).
    - intros l0. unfold fupd. rewrite Nat.eqb_refl. cbn.
      destruct (R6 l0) as [Rc|(-> & Rc & Rc')]; rewrite Rc.
      + rewrite Bc. destruct setv as [v|].
        * destruct (Nat.eqb_spec l l0) as [<-|Hne].
          -- right. splits. split; [now rewrite Hst|].
             exists r. splits. unfold l. congruence.
          -- specialize (sm_cache0 l0). destruct (cache sB l0) as [|e0|v0]; auto.
             destruct sm_cache0 as [A|(_ & _ & A & _)]; [now left|]. exfalso. now apply (Hp (SRet v0)).
        * specialize (sm_cache0 l0). destruct (cache sB l0) as [|e0|v0]; auto.
          destruct sm_cache0 as [A|(_ & _ & A & _)]; [now left|]. exfalso. now apply (Hp (SRet v0)).
      + rewrite Bc in Rc'. specialize (sm_cache0 l). destruct setv as [v|].
        * rewrite Nat.eqb_refl in Rc'. discriminate.
        * rewrite Rc' in sm_cache0. exact sm_cache0.
    - intros v _ _ Hno. exfalso. apply (Hno r); auto.
  Qed.

  Lemma sum_same (sA s : state) t : same_core sA s -> Sum s sA t.
  Proof.
    intros (C1 & C2 & C3 & C4 & C5).
    constructor; rewrite ?C1, ?C2, ?C3, ?C4, ?C5; auto; try tauto; try lia.
    - intros l0. destruct (cache s l0); auto; intros; congruence.
    - intros v Hp E. exfalso. now apply (Hp (SRet v)).
  Qed.

  Lemma sum_owner_finish (s sB : state) t r e o :
    Sum s sB t -> pcof sB t = PFetch r e -> r < nreqs sB -> r_task (reqs sB r) = t ->
    r_loc (reqs sB r) = t_loc (tasks sB t) ->
    Sum s (owner_finish convert sB t e o) t.
  Proof.
    intros S Hp Hr Hrt Hrl. unfold owner_finish.
    assert (Hpe : pending sB t) by (intros st E; congruence).
    destruct (convert o) as [v|x].
    - apply (@sum_end s sB t r e (SRet v) (Some v)); auto.
    - apply (@sum_end s sB t r e (SExc x) None); auto. intros; discriminate.
  Qed.

  Lemma sum_lookup (sA s : state) t :
    same_core sA s -> pending s t -> Sum s (lookup convert sA t) t.
  Proof.
    intros C Hp. pose proof C as (C1 & C2 & C3 & C4 & C5). unfold lookup. rewrite C1, C5.
    destruct (cache s (t_loc (tasks s t))) as [|e|v] eqn:Hc.
    - destruct (t_mode (tasks s t)) as [|o].
      + now apply sum_issue.
      + apply sum_owner_finish with (r := nreqs sA).
        * now apply sum_issue.
        * cbn. unfold fupd. now rewrite Nat.eqb_refl.
        * cbn. lia.
        * cbn. unfold fupd. now rewrite Nat.eqb_refl.
        * cbn. unfold fupd. now rewrite !Nat.eqb_refl.
    - destruct (e_set (events sA e)).
      + apply sum_same. repeat split; assumption.
      + now apply sum_add_waiter.
    - apply sum_finish; auto. intros v0 [= ->]. assumption.
  Qed.

  Theorem handle_summary m rest (s : state) t :
    Inv m (t :: rest) None s -> Sum s (run_handle convert s t) t.
  Proof.
    intros H. assert (T : task_ok (t :: rest) s t) by (apply (inv_task H); discriminate).
    unfold run_handle, task_ok in *.
    destruct (pcof s t) as [|r e|e w|st] eqn:Hp.
    - assert (Hpe : pending s t) by (intros st E; congruence).
      destruct (t_must (tasks s t)).
      + unfold throw_cancel. rewrite Hp. apply sum_finish; auto using same_core_refl. intros; discriminate.
      + apply sum_lookup; auto using same_core_refl.
    - destruct T as (A & B & C & D & E).
      assert (Hpe : pending s t) by (intros st E'; congruence).
      destruct (inv_req H A) as (_ & Q & _). rewrite B in Q.
      destruct (r_state (reqs s r)) as [|o|].
      + apply sum_refl.
      + destruct (t_must (tasks s t)).
        * unfold throw_cancel. rewrite Hp.
          apply (@sum_end s s t r e SCancelled None); auto using sum_refl. intros; discriminate.
        * apply sum_owner_finish with (r := r); auto using sum_refl.
      + unfold throw_cancel. rewrite Hp.
        apply (@sum_end s s t r e SCancelled None); auto using sum_refl. intros; discriminate.
    - assert (Hpe : pending s t) by (intros st E'; congruence).
      destruct w.
      + apply sum_refl.
      + destruct (t_must (tasks s t)).
        * unfold throw_cancel. rewrite Hp. apply sum_finish; auto using same_core_remove_waiter. intros; discriminate.
        * apply sum_lookup; auto using same_core_remove_waiter.
      + unfold throw_cancel. rewrite Hp. apply sum_finish; auto using same_core_remove_waiter. intros; discriminate.
    - apply sum_refl.
  Qed.

  (* ---- a whole iteration: [s0] = its start -------------------------------------------------------- *)
  (* a lookup of l that issued a request finished during the iteration, returning v *)
  Definition owner_ret (s0 s : state) (l : loc) (v : V) : Prop :=
    exists t' r, pending s0 t' /\ pcof s t' = PDone (SRet v) /\ r < nreqs s /\ r_task (reqs s r) = t'
                 /\ r_loc (reqs s r) = l.

  Record Ext (m : mon) (s0 s : state) : Prop := mkExt {
    x_nt : ntasks s = ntasks s0;
    x_loc : forall t, t_loc (tasks s t) = t_loc (tasks s0 t);
    x_done : forall t st, pcof s0 t = PDone st -> pcof s t = PDone st;
    x_nr : nreqs s0 <= nreqs s;
    x_old : forall r, r < nreqs s0 -> r_loc (reqs s r) = r_loc (reqs s0 r) /\ r_task (reqs s r) = r_task (reqs s0 r);
    x_val : forall l v, cache s l = CValue v -> cache s0 l = CValue v \/ owner_ret s0 s l v;
    x_keep : forall l v, cache s0 l = CValue v -> exists v', cache s l = CValue v';
    x_new : forall r, nreqs s0 <= r -> r < nreqs s -> forall v, cache s0 (r_loc (reqs s r)) <> CValue v;
    x_sf : forall k, nreqs s0 <= k -> k < nreqs s -> forall k', k' < k ->
             epoch_start m (r_loc (reqs s k)) <= k' -> r_loc (reqs s k') = r_loc (reqs s k) ->
             aborted (stat s (r_task (reqs s k'))) = true;
    x_ret : forall t v, pending s0 t -> pcof s t = PDone (SRet v) ->
              (forall r, r < nreqs s -> r_task (reqs s r) <> t) ->
              cache s0 (t_loc (tasks s0 t)) = CValue v \/ owner_ret s0 s (t_loc (tasks s0 t)) v
  }.

  Lemma ext_begin m (s : state) q : Ext m s (with_ready s q).
  Proof.
    constructor; cbn; auto; try lia.
    - eauto.
    - intros t v Hp E. exfalso. now apply (Hp (SRet v)).
  Qed.

  Lemma aborted_done (s : state) t0 : aborted (stat s t0) = true -> exists st, pcof s t0 = PDone st.
  Proof. unfold status_of. destruct (pcof s t0); cbn; try discriminate. eauto. Qed.

  Lemma sum_done_keep (s s' : state) t t0 st : Sum s s' t -> pcof s t0 = PDone st -> pcof s' t0 = PDone st.
  Proof.
    intros S E. destruct (Nat.eq_dec t0 t) as [->|Hne]; [now apply (sm_self S)|]. now apply (sm_done S).
  Qed.

  Lemma owner_ret_mono (s0 s s' : state) t l v : Sum s s' t -> owner_ret s0 s l v -> owner_ret s0 s' l v.
  Proof.
    intros S (t' & r & A & B & C & D & E). exists t', r. destruct (sm_old S C) as [F G].
    split; [assumption|]. split; [eapply sum_done_keep; eauto|]. pose proof (sm_nr S).
    split; [lia|]. split; congruence.
  Qed.

  Theorem ext_step m rest (s0 s : state) t :
    Ext m s0 s -> Inv m (t :: rest) None s -> Ext m s0 (run_handle convert s t).
  Proof.
    intros E H. pose proof (handle_summary H) as S. set (s' := run_handle convert s t) in *. clearbody s'.
    assert (Hps : pending s t -> pending s0 t).
    { intros Hp st E0. apply (Hp st). now apply (x_done E). }
    destruct E.
    constructor.
    - rewrite (sm_nt S). assumption.
    - intros t0. rewrite (sm_loc S). apply x_loc0.
    - intros t0 st E0. eapply sum_done_keep; eauto.
    - pose proof (sm_nr S). lia.
    - intros r Hr. assert (Hr' : r < nreqs s) by lia. destruct (sm_old S Hr') as [-> ->]. now apply x_old0.
    - intros l v Hc. pose proof (sm_cache S l) as C. rewrite Hc in C.
      destruct C as [C|(-> & Hp & Hd & r & R1 & R2 & R3)].
      + destruct (x_val0 l v C) as [A|A]; [now left|right]. eapply owner_ret_mono; eauto.
      + right. exists t, r. auto.
    - intros l v Hc. destruct (x_keep0 l v Hc) as [v' Hc']. pose proof (sm_cache S l) as C.
      destruct (cache s' l) as [|e|v'']; [exfalso; now apply (C v')|exfalso; now apply (C v')|eauto].
    - intros r H1 H2 v. destruct (Nat.lt_ge_cases r (nreqs s)) as [Hr|Hr].
      + destruct (sm_old S Hr) as [-> _]. now apply x_new0.
      + destruct (sm_new S Hr H2) as (_ & _ & -> & Hc). intros Hc0.
        destruct (x_keep0 _ _ Hc0) as [v' Hc']. congruence.
    - intros k H1 H2 k' Hk' He Hl.
      assert (Hst : forall t0, aborted (stat s t0) = true -> aborted (stat s' t0) = true).
      { intros t0 Ha. destruct (aborted_done _ _ Ha) as [st Hd]. unfold status_of in *.
        rewrite (@sum_done_keep _ _ _ _ _ S Hd). now rewrite Hd in Ha. }
      destruct (Nat.lt_ge_cases k (nreqs s)) as [Hk|Hk].
      + assert (Hk'' : k' < nreqs s) by lia.
        destruct (sm_old S Hk) as [L1 _]. destruct (sm_old S Hk'') as [L2 T2].
        rewrite T2. apply Hst. apply x_sf0 with (k := k); auto; congruence.
      + destruct (sm_new S Hk H2) as (-> & _ & L & Hc).
        destruct (sm_old S Hk') as [L2 T2]. rewrite T2. apply Hst.
        apply (inv_absent H Hc); auto; try congruence; discriminate.
    - intros t0 v Hp Hd Hno.
      destruct (pcof s t0) as [|r e|e w|st] eqn:Hp0.
      1-3: assert (t0 = t) by (destruct (Nat.eq_dec t0 t); [assumption|]; apply (sm_done S) in Hd; [congruence|assumption]).
      1-3: subst t0; assert (Hpt : pending s t) by (intros st E0; congruence);
           pose proof (sm_ret S Hpt Hd Hno) as Hc; rewrite x_loc0 in Hc;
           destruct (x_val0 _ _ Hc) as [A|A]; [now left|right; eapply owner_ret_mono; eauto].
      assert (Hd' := @sum_done_keep _ _ _ _ _ S Hp0). rewrite Hd in Hd'. injection Hd' as <-.
      assert (Hno' : forall r, r < nreqs s -> r_task (reqs s r) <> t0).
      { intros r Hr. destruct (sm_old S Hr) as [_ <-]. apply Hno. pose proof (sm_nr S). lia. }
      destruct (x_ret0 t0 v Hp Hp0 Hno') as [A|A]; [now left|right]. eapply owner_ret_mono; eauto.
  Qed.

  Lemma ext_handles m hs : forall (s0 s : state), Ext m s0 s -> Inv m hs None s ->
    Ext m s0 (fold_left (run_handle convert) hs s).
  Proof.
    induction hs as [|t hs IH]; intros s0 s E H; cbn [fold_left]; [assumption|].
    apply IH; [now apply ext_step with (rest := hs)|now apply inv_run_handle].
  Qed.

  Theorem ext_iterate m (s : state) : Inv m [] None s -> Ext m s (iterate convert s).
  Proof.
    intros H. unfold iterate. apply ext_handles; [apply ext_begin|now apply inv_begin_iter].
  Qed.
End Ext.
