(* C18 - instantiation used by the correspondence check (never by a theorem). *)
From Coq Require Import List Bool NArith Arith.
From AUC Require Export Prelude.PyStr Prelude.PyDict C18.Model C18.Doc C18.Spec.
Import ListNotations.

Definition input := Model.input outcome.
Definition observation := Model.observation dval xcls.
Definition act := action outcome.
Definition ob := sobs dval xcls.
Definition stat := status dval xcls.

Definition model_run (i : input) : observation := Model.model_run convert i.
Definition dom (i : input) : bool := in_domain i.
Definition clause_fails (cl : nat) (i : input) (o : observation) : list nat :=
  Spec.clause_fails convert dval_eqb xcls_eqb cl i o.

Fixpoint list_eqb {A} (f : A -> A -> bool) (a b : list A) : bool :=
  match a, b with
  | [], [] => true
  | x :: a', y :: b' => f x y && list_eqb f a' b'
  | _, _ => false
  end.
Definition opt_eqb {A} (f : A -> A -> bool) (a b : option A) : bool :=
  match a, b with Some x, Some y => f x y | None, None => true | _, _ => false end.
Definition pair_eqb (a b : nat * nat) : bool := Nat.eqb (fst a) (fst b) && Nat.eqb (snd a) (snd b).
Definition stat_eqb : stat -> stat -> bool := status_eqb dval_eqb xcls_eqb.
Definition sobs_eqb (a b : ob) : bool :=
  list_eqb stat_eqb (o_status a) (o_status b) && list_eqb pair_eqb (o_log a) (o_log b)
  && list_eqb Nat.eqb (o_out a) (o_out b) && list_eqb (opt_eqb dval_eqb) (o_peek a) (o_peek b)
  && Bool.eqb (o_idle a) (o_idle b) && Bool.eqb (o_div a) (o_div b).

Fixpoint first_diff (n : nat) (a b : list ob) : option nat :=
  match a, b with
  | [], [] => None
  | x :: a', y :: b' => if sobs_eqb x y then first_diff (S n) a' b' else Some n
  | _, _ => Some n
  end.
Definition obs_diff (a b : observation) : option nat :=
  match first_diff 0 (ob_trace a) (ob_trace b) with
  | Some n => Some n
  | None => if list_eqb stat_eqb (ob_final a) (ob_final b) then None else Some (length (ob_trace a))
  end.

Definition clause_ids : list nat := [1; 2; 3; 4; 5].

(* (case index, kind, step): kind 0 = the model's observation differs from the implementation's (first step
   at which it does); kind c in 1..5 = clause c FAILS on the IMPLEMENTATION's observation (first such step) *)
Fixpoint report (base : N) (cases : list (input * observation)) : list (N * N * N) :=
  match cases with
  | [] => []
  | (i, o) :: r =>
      (match obs_diff (model_run i) o with Some p => [(base, 0%N, N.of_nat p)] | None => [] end)
      ++ (if dom i then
            flat_map (fun cl => match clause_fails cl i o with
                                | p :: _ => [(base, N.of_nat cl, N.of_nat p)]
                                | [] => []
                                end) clause_ids
          else [])
      ++ report (N.succ base) r
  end.

Definition replay (c : input * observation) :=
  (model_run (fst c), map (fun cl => (cl, clause_fails cl (fst c) (snd c))) clause_ids,
   map (fun cl => (cl, clause_fails cl (fst c) (model_run (fst c)))) clause_ids, dom (fst c)).

(* shorthands for the harness's printer *)
Definition str := pystr.
Definition mk_in (s : list act) (d : outcome) : input := mkInput s d.
Definition mk_ob (t : list ob) (f : list stat) : observation := mkObservation t f.
Definition so (a : list stat) (b : list (nat * nat)) (c : list nat) (d : list (option dval)) (e f : bool) : ob :=
  mkObs a b c d e f.
