(* C18 - the invariant is preserved by every handle of a loop iteration (Task.__step / __wakeup). *)
From Coq Require Import List Bool Arith Lia.
From AUC Require Import C18.Model C18.Base C18.Spec C18.Inv C18.Steps.
Import ListNotations.
Set Implicit Arguments.

Section Handles.
  Variables O V X : Type.
  Variable convert : O -> result V X.
  Notation state := (state O V X).
  Notation mon := (mon O).
  Notation pcof s t := (t_pc (tasks s t)).
  Notation stat s t := (status_of (tasks s t)).
  Notation Inv := (Inv convert).

  Lemma rdy_cons hs (s : state) t t0 : t0 <> t -> rdy (t :: hs) s t0 -> rdy hs s t0.
  Proof. unfold rdy. cbn. intuition congruence. Qed.

  Lemma lt_ntasks m hs sk (s : state) t : Inv m hs sk s -> (forall st, pcof s t <> PDone st) -> t < ntasks s.
  Proof.
    intros H Hp. destruct (Nat.lt_ge_cases t (ntasks s)); [assumption|].
    exfalso. apply (Hp SCancelled). now apply (inv_dummy H).
  Qed.

  (* the handle of t is taken off the queue; t's own entry is put aside *)
  Lemma inv_take m rest (s : state) t : Inv m (t :: rest) None s -> Inv m rest (Some t) s.
  Proof.
    intros H. destruct H. constructor; try assumption.
    intros t0 Hsk. assert (T : task_ok (t :: rest) s t0) by (apply inv_task; discriminate).
    assert (Hne : t0 <> t) by congruence.
    unfold task_ok in *. destruct (pcof s t0) as [|r e|e w|st]; auto.
    - now apply rdy_cons with (t := t).
    - destruct T as (A & B & C & D & E). splits. destruct E; auto. right. now apply rdy_cons with (t := t).
    - destruct T as (A & B & C). splits. destruct w; auto; now apply rdy_cons with (t := t).
  Qed.

  (* ... and put back when the handle had nothing to do *)
  Lemma inv_untake m hs (s : state) t : Inv m hs (Some t) s -> task_ok hs s t -> Inv m hs None s.
  Proof.
    intros H T. destruct H. constructor; try assumption.
    intros t0 _. destruct (Nat.eq_dec t0 t) as [->|Hne]; [assumption|]. apply inv_task. congruence.
  Qed.

  Definition nonowner (s : state) (t : tid) : Prop :=
    pcof s t = PStart \/ exists e w, pcof s t = PWait e w.

  Lemma nonowner_no_req m hs sk (s : state) t r :
    Inv m hs sk s -> nonowner s t -> r < nreqs s -> r_task (reqs s r) <> t.
  Proof.
    intros H Hn Hr E. destruct (inv_req H Hr) as (_ & _ & C & _). rewrite E in C.
    destruct Hn as [Hn|(e & w & Hn)]; rewrite Hn in C; destruct C as [[st C]|[e0 C]]; discriminate.
  Qed.

  (* a lookup that holds no request ends: cancelled, or returning a value *)
  Lemma inv_finish_nonowner m hs (s : state) t st :
    Inv m hs (Some t) s -> nonowner s t ->
    match st with SCancelled => In t (m_cancel m) | SRet _ => True | _ => False end ->
    Inv m hs None (finish s t st).
  Proof.
    intros H Hn Hst.
    assert (Hlt : t < ntasks s).
    { eapply lt_ntasks; [exact H|]. intros st0 E. destruct Hn as [Hn|(e & w & Hn)]; congruence. }
    assert (Hnr : forall r, r < nreqs s -> r_task (reqs s r) <> t) by (intros; eapply nonowner_no_req; eauto).
    destruct H.
    set (s' := finish s t st).
    assert (Epc : forall t0, pcof s' t0 = if Nat.eqb t t0 then PDone st else pcof s t0)
      by (intros; cbn; unfold fupd; now feq).
    assert (Eloc : forall t0, t_loc (tasks s' t0) = t_loc (tasks s t0)) by (intros; cbn; unfold fupd; now feq).
    assert (Emode : forall t0, t_mode (tasks s' t0) = t_mode (tasks s t0)) by (intros; cbn; unfold fupd; now feq).
    assert (Est : forall t0, t0 <> t -> stat s' t0 = stat s t0).
    { intros. unfold status_of. rewrite Epc. now feq. }
    constructor; try assumption.
    - intros t0 Ht0. change (ntasks s') with (ntasks s) in Ht0. rewrite Epc. feq; [lia|]. now apply inv_dummy.
    - intros t0. rewrite Emode, Eloc. apply inv_mode.
    - intros r Hr. destruct (inv_req r Hr) as (A & B & C & D). unfold req_ok. rewrite !Epc, Eloc, Emode.
      change (reqs s') with (reqs s). change (ntasks s') with (ntasks s).
      destruct (Nat.eqb_spec t (r_task (reqs s r))) as [E|E]; [|auto].
      exfalso. now apply (Hnr r Hr).
    - intros t0 Ht0 Hm. unfold cancel_marked in Hm. rewrite Epc in Hm. cbn in Hm. unfold fupd in Hm.
      destruct (Nat.eqb_spec t t0) as [<-|Hne]; cbn in Hm.
      + destruct Hm as [Hm|Hm]; [discriminate|]. destruct st; try contradiction. assumption.
      + apply inv_canc; assumption.
    - intros t0 x. rewrite Epc. feq.
      + intros [= ->]. contradiction.
      + apply inv_exc.
    - intros t0 v r. rewrite Epc. feq.
      + intros _ Hr E. exfalso. now apply (Hnr r Hr).
      + apply inv_ret.
    - intros t0 _. unfold task_ok. rewrite Epc.
      change (events s') with (events s). change (nevents s') with (nevents s).
      change (reqs s') with (reqs s). change (nreqs s') with (nreqs s).
      destruct (Nat.eqb_spec t t0) as [<-|Hne]; [exact I|].
      assert (T : task_ok hs s t0) by (apply inv_task; congruence). unfold task_ok in T.
      destruct (pcof s t0) as [|r0 e0|e0 w|st0] eqn:Hp0; auto.
      destruct T as (A & B & C). splits. destruct w; auto.
      destruct C as (C1 & t' & r' & C2). split; auto. exists t', r'. rewrite Epc.
      feq; [|assumption]. destruct Hn as [Hn|(e & w & Hn)]; congruence.
    - intros t1 t2 r1 r2 e0. rewrite !Epc. feq; try discriminate. apply inv_own1.
    - intros l e0 Hc. destruct (inv_marker l e0 Hc) as (t0 & r & A & B & C & D). exists t0, r.
      rewrite Epc, Eloc. feq; [destruct Hn as [Hn|(e & w & Hn)]; congruence|]. splits.
      intros k Hk He Hl Hne. rewrite Est; [now apply D|]. now apply Hnr.
    - intros l Hc k Hk He Hl Hne. rewrite Est; [now apply (inv_absent l Hc)|]. now apply Hnr.
    - intros t0. rewrite Epc. feq; [|apply inv_nopend]. intros [= ->]. contradiction.
  Qed.

  Lemma In_remove1_neq t t0 l : t0 <> t -> In t0 l -> In t0 (remove1 t l).
  Proof.
    intros Hne. induction l as [|x l IH]; cbn; [auto|].
    destruct (Nat.eqb_spec t x) as [->|Hx]; cbn; intuition congruence.
  Qed.

  (* Event.wait's finally: the waiter future leaves the deque *)
  Lemma inv_remove_waiter m hs (s : state) t e :
    Inv m hs (Some t) s -> Inv m hs (Some t) (remove_waiter s e t).
  Proof.
    intros H. destruct H. constructor; try assumption.
    intros t0 Hsk. assert (T := inv_task t0 Hsk). assert (Hne : t0 <> t) by congruence.
    unfold task_ok in *. cbn.
    destruct (pcof s t0) as [|r0 e0|e0 w|st0]; auto.
    - destruct T as (A & B & C & D & E). splits. unfold fupd. feq; auto.
    - destruct T as (A & B & C). unfold fupd. feq; cbn.
      + splits. split; [now apply In_remove1_neq|]. assumption.
      + splits. assumption.
  Qed.

  (* the lookup finds another lookup's marker and sits down in Event.wait *)
  Lemma inv_add_waiter m hs (s : state) t l e :
    Inv m hs (Some t) s -> nonowner s t -> cache s l = CMarker e ->
    Inv m hs None (set_pc (add_waiter s e t) t (PWait e WPending)).
  Proof.
    intros H Hn Hc.
    assert (Hlt : t < ntasks s).
    { eapply lt_ntasks; [exact H|]. intros st0 E. destruct Hn as [Hn|(e' & w & Hn)]; congruence. }
    assert (Hnr : forall r, r < nreqs s -> r_task (reqs s r) <> t) by (intros; eapply nonowner_no_req; eauto).
    destruct H.
    destruct (inv_marker l e Hc) as (to & ro & Ho & _).
    assert (Hto : to <> t) by (intros ->; destruct Hn as [Hn|(e' & w & Hn)]; congruence).
    assert (To : task_ok hs s to) by (apply inv_task; congruence). unfold task_ok in To. rewrite Ho in To.
    destruct To as (_ & _ & He & Hunset & _).
    set (s' := set_pc (add_waiter s e t) t (PWait e WPending)).
    assert (Epc : forall t0, pcof s' t0 = if Nat.eqb t t0 then PWait e WPending else pcof s t0)
      by (intros; cbn; unfold fupd; now feq).
    assert (Eloc : forall t0, t_loc (tasks s' t0) = t_loc (tasks s t0)) by (intros; cbn; unfold fupd; now feq).
    assert (Emode : forall t0, t_mode (tasks s' t0) = t_mode (tasks s t0)) by (intros; cbn; unfold fupd; now feq).
    assert (Emust : forall t0, t_must (tasks s' t0) = t_must (tasks s t0)) by (intros; cbn; unfold fupd; now feq).
    assert (Est : forall t0, stat s' t0 = stat s t0).
    { intros. unfold status_of. rewrite Epc. feq; [|reflexivity].
      destruct Hn as [Hn|(e' & w & Hn)]; now rewrite Hn. }
    assert (Eset : forall e0, e_set (events s' e0) = e_set (events s e0)) by (intros; cbn; unfold fupd; now feq).
    assert (Ews : forall e0 x, In x (e_waiters (events s e0)) -> In x (e_waiters (events s' e0))).
    { intros e0 x. cbn. unfold fupd. feq; cbn; [rewrite in_app_iff|]; auto. }
    constructor; try assumption.
    - intros t0 Ht0. change (ntasks s') with (ntasks s) in Ht0. rewrite Epc. feq; [lia|]. now apply inv_dummy.
    - intros t0. rewrite Emode, Eloc. apply inv_mode.
    - intros r Hr. destruct (inv_req r Hr) as (A & B & C & D). unfold req_ok. rewrite !Epc, Eloc, Emode.
      change (reqs s') with (reqs s). change (ntasks s') with (ntasks s).
      destruct (Nat.eqb_spec t (r_task (reqs s r))) as [E|E]; [|auto].
      exfalso. now apply (Hnr r Hr).
    - intros t0 Ht0 Hm. apply inv_canc; [assumption|]. unfold cancel_marked in *. rewrite Epc, Emust in Hm.
      destruct (Nat.eqb_spec t t0) as [<-|Hne]; [|assumption].
      destruct Hm as [Hm|Hm]; [now left|contradiction].
    - intros t0 x. rewrite Epc. feq; [discriminate|]. apply inv_exc.
    - intros t0 v r. rewrite Epc. feq; [discriminate|]. apply inv_ret.
    - intros t0 _. unfold task_ok. rewrite Epc.
      change (nevents s') with (nevents s). change (reqs s') with (reqs s). change (nreqs s') with (nreqs s).
      destruct (Nat.eqb_spec t t0) as [<-|Hne].
      + splits. split.
        * cbn. unfold fupd. rewrite Nat.eqb_refl. cbn. rewrite in_app_iff. cbn. auto.
        * rewrite Eset. split; [assumption|]. exists to, ro. rewrite Epc. feq; [congruence|assumption].
      + assert (T : task_ok hs s t0) by (apply inv_task; congruence). unfold task_ok in T.
        destruct (pcof s t0) as [|r0 e0|e0 w|st0] eqn:Hp0; auto.
        * rewrite Eset. exact T.
        * destruct T as (A & B & C). rewrite Eset. splits. split; [now apply Ews|]. destruct w; auto.
          destruct C as (C1 & t' & r' & C2). split; auto. exists t', r'. rewrite Epc.
          feq; [|assumption]. destruct Hn as [Hn|(e' & w & Hn)]; congruence.
    - intros t1 t2 r1 r2 e0. rewrite !Epc. feq; try discriminate. apply inv_own1.
    - intros l0 e0 Hc0. destruct (inv_marker l0 e0 Hc0) as (t0 & r & A & B & C & D). exists t0, r.
      rewrite Epc, Eloc. feq; [destruct Hn as [Hn|(e' & w & Hn)]; congruence|]. splits.
      intros k Hk He0 Hl Hne. rewrite Est. now apply D.
    - intros l0 Hc0 k Hk He0 Hl Hne. rewrite Est. now apply (inv_absent l0 Hc0).
    - intros t0. rewrite Epc. feq; [discriminate|apply inv_nopend].
  Qed.

  (* the lookup finds nothing: installs its marker and calls the requester *)
  Lemma inv_issue m hs (s : state) t x :
    Inv m hs (Some t) s -> nonowner s t -> cache s (t_loc (tasks s t)) = CAbsent ->
    (x = RPending /\ t_mode (tasks s t) = MSuspend) \/ (exists o, x = RDone o /\ t_mode (tasks s t) = MImmediate o) ->
    Inv m hs (Some t) (issue s t x).
  Proof.
    intros H Hn Hc Hx.
    assert (Hlt : t < ntasks s).
    { eapply lt_ntasks; [exact H|]. intros st0 E. destruct Hn as [Hn|(e' & w & Hn)]; congruence. }
    assert (Hnr : forall r, r < nreqs s -> r_task (reqs s r) <> t) by (intros; eapply nonowner_no_req; eauto).
    assert (Hnf : forall r e, pcof s t <> PFetch r e) by (intros r e E; destruct Hn as [Hn|(e' & w & Hn)]; congruence).
    assert (Hnd : forall st, pcof s t <> PDone st) by (intros st E; destruct Hn as [Hn|(e' & w & Hn)]; congruence).
    destruct H.
    set (l := t_loc (tasks s t)) in *.
    set (s' := issue s t x).
    assert (Epc : forall t0, pcof s' t0 = if Nat.eqb t t0 then PFetch (nreqs s) (nevents s) else pcof s t0)
      by (intros; cbn; unfold fupd; now feq).
    assert (Eloc : forall t0, t_loc (tasks s' t0) = t_loc (tasks s t0)) by (intros; cbn; unfold fupd; now feq).
    assert (Emode : forall t0, t_mode (tasks s' t0) = t_mode (tasks s t0)) by (intros; cbn; unfold fupd; now feq).
    assert (Emust : forall t0, t_must (tasks s' t0) = t_must (tasks s t0)) by (intros; cbn; unfold fupd; now feq).
    assert (Est : forall t0, stat s' t0 = stat s t0).
    { intros. unfold status_of. rewrite Epc. feq; [|reflexivity].
      destruct Hn as [Hn|(e' & w & Hn)]; now rewrite Hn. }
    assert (Ereq : forall r, r < nreqs s -> reqs s' r = reqs s r).
    { intros r Hr. cbn. unfold fupd. feq; [lia|reflexivity]. }
    assert (Enew : reqs s' (nreqs s) = mkReq l t x) by (cbn; unfold fupd; now rewrite Nat.eqb_refl).
    assert (Eev : forall e, e < nevents s -> events s' e = events s e).
    { intros e He. cbn. unfold fupd. feq; [lia|reflexivity]. }
    assert (Enr : nreqs s' = S (nreqs s)) by reflexivity.
    assert (Ene : nevents s' = S (nevents s)) by reflexivity.
    assert (Ent : ntasks s' = ntasks s) by reflexivity.
    assert (Erd : ready s' = ready s) by reflexivity.
    assert (Ecache : forall l0, cache s' l0 = if Nat.eqb l l0 then CMarker (nevents s) else cache s l0)
      by (intros; cbn; unfold fupd; fold l; now feq).
    assert (Ediv : diverged s' = diverged s) by reflexivity.
    clearbody s'.
    constructor; try assumption.
    - now rewrite Ediv.
    - intros t0 Ht0. rewrite Ent in Ht0. rewrite Epc. feq; [lia|]. now apply inv_dummy.
    - rewrite Ent. assumption.
    - intros t0. rewrite Ent, Emode, Eloc. apply inv_mode.
    - intros r Hr. rewrite Enr in Hr. unfold req_ok. rewrite Ent.
      destruct (Nat.eq_dec r (nreqs s)) as [->|Hne].
      + rewrite Enew. cbn. rewrite Epc, Eloc, Emode, Nat.eqb_refl. splits. split; [right; eauto|].
        intros ->. split; [eauto|]. destruct Hx as [[_ Hx]|(o & Hx & _)]; [assumption|discriminate].
      + assert (Hr' : r < nreqs s) by lia. rewrite (Ereq r Hr').
        destruct (inv_req r Hr') as (A & B & C & D). rewrite Epc, Eloc, Emode.
        destruct (Nat.eqb_spec t (r_task (reqs s r))) as [E|E]; [|auto].
        exfalso. now apply (Hnr r Hr').
    - intros r r' Hr Hr'. rewrite Enr in Hr, Hr'.
      destruct (Nat.eq_dec r (nreqs s)) as [->|Hne]; destruct (Nat.eq_dec r' (nreqs s)) as [->|Hne']; auto.
      + rewrite Enew, (Ereq r') by lia. cbn. intros E. exfalso. apply (Hnr r'); [lia|auto].
      + rewrite Enew, (Ereq r) by lia. cbn. intros E. exfalso. apply (Hnr r); [lia|auto].
      + rewrite (Ereq r), (Ereq r') by lia. apply inv_req1; lia.
    - intros r o Ha. apply inv_out1 in Ha. destruct Ha as [A B]. rewrite Enr, (Ereq r A). split; [lia|assumption].
    - intros r o Hr. rewrite Enr in Hr. destruct (Nat.eq_dec r (nreqs s)) as [->|Hne].
      + rewrite Enew. cbn. intros ->. destruct Hx as [[Hx _]|(o' & Hx & Hm)]; [discriminate|].
        injection Hx as <-. unfold outcome_of. destruct (inv_mode t Hlt) as [M _]. now rewrite M, Hm.
      + rewrite (Ereq r) by lia. apply inv_out2. lia.
    - intros t0 Ht0 Hm. rewrite Ent in Ht0. apply inv_canc; [assumption|]. unfold cancel_marked in *.
      rewrite Epc, Emust in Hm. destruct (Nat.eqb_spec t t0) as [<-|Hne].
      + destruct Hm as [Hm|Hm]; [now left|]. rewrite Enew in Hm. cbn in Hm.
        destruct Hx as [[Hx _]|(o' & Hx & _)]; congruence.
      + destruct Hm as [Hm|Hm]; [now left|right].
        assert (T : task_ok hs s t0) by (apply inv_task; congruence). unfold task_ok in T.
        destruct (pcof s t0) as [|r0 e0|e0 w|st0]; auto. destruct T as (A & _). now rewrite (Ereq r0 A) in Hm.
    - intros t0 x0. rewrite Epc. feq; [discriminate|]. intros Hp. destruct (inv_exc _ _ Hp) as (r & o & A & B & C & D).
      exists r, o. rewrite Enr, (Ereq r A). splits. auto.
    - intros t0 v r. rewrite Epc. feq; [discriminate|]. intros Hp Hr. rewrite Enr in Hr.
      destruct (Nat.eq_dec r (nreqs s)) as [->|Hne].
      + rewrite Enew. cbn. intros ->. congruence.
      + rewrite (Ereq r) by lia. apply inv_ret; [assumption|lia].
    - intros t0 Hsk. assert (Hne : t <> t0) by congruence. assert (T := inv_task t0 Hsk).
      unfold task_ok, rdy in *. rewrite Epc, Erd, Enr, Ene. destruct (Nat.eqb_spec t t0); [congruence|].
      destruct (pcof s t0) as [|r0 e0|e0 w|st0] eqn:Hp0; auto.
      + destruct T as (A & B & C & D & E). rewrite (Ereq r0 A), (Eev e0 C). splits. assumption.
      + destruct T as (A & B & C). rewrite (Eev e0 A). splits. destruct w; auto.
        destruct C as (C1 & t' & r' & C2). split; auto. exists t', r'. rewrite Epc.
        feq; [|assumption]. exfalso. now apply (Hnf r' e0).
    - intros l0. rewrite Enr. specialize (inv_epoch l0). lia.
    - intros t1 t2 r1 r2 e0. rewrite !Epc.
      destruct (Nat.eqb_spec t t1) as [<-|N1]; destruct (Nat.eqb_spec t t2) as [<-|N2]; auto.
      + intros [= <- <-] Hp. assert (T : task_ok hs s t2) by (apply inv_task; congruence).
        unfold task_ok in T. rewrite Hp in T. lia.
      + intros Hp [= <- <-]. assert (T : task_ok hs s t1) by (apply inv_task; congruence).
        unfold task_ok in T. rewrite Hp in T. lia.
      + apply inv_own1.
    - intros l0 e0. rewrite Ecache. destruct (Nat.eqb_spec l l0) as [<-|Hne].
      + intros [= <-]. exists t, (nreqs s). rewrite Epc, Eloc, Nat.eqb_refl. splits. split; [apply inv_epoch|].
        intros k Hk He Hl Hk'. rewrite Enr in Hk. assert (Hk3 : k <> nreqs s) by (intros ->; now apply Hk').
        assert (Hk2 : k < nreqs s) by lia.
        rewrite (Ereq k Hk2) in *. rewrite Est. apply (inv_absent l Hc); auto. discriminate.
      + intros Hc0. destruct (inv_marker l0 e0 Hc0) as (t0 & r & A & B & C & D). exists t0, r.
        rewrite Epc, Eloc. feq; [exfalso; now apply (Hnf r e0)|]. splits.
        intros k Hk He Hl Hk'. rewrite Enr in Hk. destruct (Nat.eq_dec k (nreqs s)) as [->|Hk2].
        * rewrite Enew in Hl. cbn in Hl. congruence.
        * rewrite (Ereq k) in * by lia. rewrite Est. apply D; auto. lia.
    - intros l0. rewrite Ecache. destruct (Nat.eqb_spec l l0) as [<-|Hne]; [discriminate|].
      intros Hc0 k Hk He Hl Hk'. rewrite Enr in Hk. destruct (Nat.eq_dec k (nreqs s)) as [->|Hk2].
      + rewrite Enew in Hl. cbn in Hl. congruence.
      + rewrite (Ereq k) in * by lia. rewrite Est. apply (inv_absent l0 Hc0); auto. lia.
    - intros t0. rewrite Epc. feq; [discriminate|apply inv_nopend].
  Qed.

  Lemma inv_set_value m hs sk (s : state) l v : Inv m hs sk s -> Inv m hs sk (set_cache s l (CValue v)).
  Proof.
    intros H. destruct H. constructor; try assumption.
    - intros l0 e. cbn. unfold fupd. feq; [discriminate|]. apply inv_marker.
    - intros l0. cbn. unfold fupd. feq; [discriminate|]. apply inv_absent.
  Qed.

  Definition end_ok (m : mon) (s : state) (t : tid) (r : rid) (st : status V X) : Prop :=
    match st with
    | SCancelled => In t (m_cancel m)
    | SRet v => exists o, r_state (reqs s r) = RDone o /\ convert o = RVal v
    | SExc x => exists o, r_state (reqs s r) = RDone o /\ convert o = RExc x
    | SPending => False
    end.

  (* the owner of a marker ends (returns, fails or is cancelled): finally-clause, then the task is done *)
  Lemma inv_owner_end m hs (s : state) t r e st :
    Inv m hs (Some t) s -> pcof s t = PFetch r e -> r < nreqs s -> r_task (reqs s r) = t ->
    e < nevents s -> e_set (events s e) = false -> r_state (reqs s r) <> RPending ->
    (cache s (t_loc (tasks s t)) = CMarker e -> aborted st = true) ->
    end_ok m s t r st ->
    Inv m hs None (finish (release s (t_loc (tasks s t)) e) t st).
  Proof.
    intros H Hp Hr Hrt He Hunset Hnp Hab Hend.
    assert (Hlt : t < ntasks s) by (eapply lt_ntasks; [exact H|]; intros st0 E; congruence).
    set (l := t_loc (tasks s t)) in *.
    unfold release.
    set (s1 := match cache s l with
               | CMarker e' => if Nat.eqb e' e then set_cache s l CAbsent else s
               | _ => s end).
    assert (F1 : tasks s1 = tasks s /\ ntasks s1 = ntasks s /\ reqs s1 = reqs s /\ nreqs s1 = nreqs s
                 /\ events s1 = events s /\ nevents s1 = nevents s /\ ready s1 = ready s /\ diverged s1 = diverged s).
    { unfold s1. destruct (cache s l) as [|e'|v]; try (repeat split; reflexivity).
      destruct (Nat.eqb e' e); repeat split; reflexivity. }
    destruct F1 as (F1 & F2 & F3 & F4 & F5 & F6 & F7 & F8).
    assert (Fc1 : forall l0 e0, cache s1 l0 = CMarker e0 -> cache s l0 = CMarker e0 /\ ~ (l0 = l /\ e0 = e)).
    { intros l0 e0. unfold s1. destruct (cache s l) as [|e'|v] eqn:Hc; try (intros; split; [assumption|intros [-> ->]; congruence]).
      destruct (Nat.eqb_spec e' e) as [->|Hne].
      - cbn. unfold fupd. feq; [discriminate|]. intros; split; [assumption|intros [-> ->]; congruence].
      - intros; split; [assumption|intros [-> ->]; congruence]. }
    assert (Fc2 : forall l0, cache s1 l0 = CAbsent -> cache s l0 = CAbsent \/ (l0 = l /\ cache s l = CMarker e)).
    { intros l0. unfold s1. destruct (cache s l) as [|e'|v] eqn:Hc; auto.
      destruct (Nat.eqb_spec e' e) as [->|Hne]; auto.
      cbn. unfold fupd. feq; auto. }
    pose proof (event_set_spec s1 e) as S. cbv zeta in S.
    set (s2 := event_set s1 e) in *.
    destruct S as (S1 & S2 & S3 & S4 & S5 & S6 & S7 & S8 & S9).
    rewrite ?F1, ?F2, ?F3, ?F4, ?F5, ?F6, ?F7, ?F8 in *.
    set (W := fun t0 => woken s1 e t0) in *.
    assert (HW : forall t0, W t0 = true -> pcof s t0 = PWait e WPending).
    { intros t0. unfold W, woken, wakes. rewrite F1. intros Hw. apply andb_true_iff in Hw as [_ Hw].
      destruct (pcof s t0) as [|r0 e0|e0 [| |]|st0]; try discriminate. apply Nat.eqb_eq in Hw. now subst. }
    assert (HW' : forall t0, t0 <> t -> pcof s t0 = PWait e WPending -> W t0 = true).
    { intros t0 Hne Hp0. assert (T : task_ok hs s t0) by (apply (inv_task H); congruence).
      unfold task_ok in T. rewrite Hp0 in T. destruct T as (_ & T & _).
      unfold W, woken, wakes. rewrite F1, F5, Hunset, Hp0, Nat.eqb_refl. cbn.
      rewrite andb_true_r. now apply inb_In. }
    assert (HWt : W t = false).
    { destruct (W t) eqn:E; [|reflexivity]. apply HW in E. congruence. }
    set (s3 := finish s2 t st).
    assert (Epc : forall t0, pcof s3 t0 = if Nat.eqb t t0 then PDone st else if W t0 then PWait e WDone else pcof s t0).
    { intros t0. cbn. unfold fupd. destruct (Nat.eqb_spec t t0); [reflexivity|]. now destruct (S8 t0) as (_ & _ & _ & ->). }
    assert (Eloc : forall t0, t_loc (tasks s3 t0) = t_loc (tasks s t0)).
    { intros t0. cbn. unfold fupd. destruct (Nat.eqb_spec t t0) as [E|E]; cbn; [subst t0; now destruct (S8 t) as (-> & _)|now destruct (S8 t0) as (-> & _)]. }
    assert (Emode : forall t0, t_mode (tasks s3 t0) = t_mode (tasks s t0)).
    { intros t0. cbn. unfold fupd. destruct (Nat.eqb_spec t t0) as [E|E]; cbn; [subst t0; now destruct (S8 t) as (_ & -> & _)|now destruct (S8 t0) as (_ & -> & _)]. }
    assert (Emust : forall t0, t0 <> t -> t_must (tasks s3 t0) = t_must (tasks s t0)).
    { intros t0. cbn. unfold fupd. destruct (Nat.eqb_spec t t0) as [<-|]; [congruence|]. now destruct (S8 t0) as (_ & _ & -> & _). }
    assert (Emustt : t_must (tasks s3 t) = false) by (cbn; unfold fupd; now rewrite Nat.eqb_refl).
    assert (Est : forall t0, t0 <> t -> stat s3 t0 = stat s t0).
    { intros t0 Hne. unfold status_of. rewrite Epc. destruct (Nat.eqb_spec t t0); [congruence|].
      destruct (W t0) eqn:E; [|reflexivity]. apply HW in E. now rewrite E. }
    assert (Estt : stat s3 t = st) by (unfold status_of; now rewrite Epc, Nat.eqb_refl).
    assert (Ent : ntasks s3 = ntasks s) by (cbn; assumption).
    assert (Ereqs : reqs s3 = reqs s) by (cbn; assumption).
    assert (Enr : nreqs s3 = nreqs s) by (cbn; assumption).
    assert (Ene : nevents s3 = nevents s) by (cbn; assumption).
    assert (Ediv : diverged s3 = diverged s) by (cbn; assumption).
    assert (Ecache : cache s3 = cache s1) by (cbn; assumption).
    assert (Ews : forall e0, e_waiters (events s3 e0) = e_waiters (events s e0)).
    { intros e0. cbn. now destruct (S7 e0) as (-> & _). }
    assert (Eset : forall e0, e_set (events s3 e0) = if Nat.eqb e e0 then true else e_set (events s e0)).
    { intros e0. cbn. now destruct (S7 e0) as (_ & ->). }
    assert (Erdy : forall x, rdy hs s x -> rdy hs s3 x).
    { intros x. unfold rdy. rewrite !in_app_iff. intros [A|A]; [now left|right]. cbn. apply S9. now left. }
    assert (ErdyW : forall x, W x = true -> rdy hs s3 x).
    { intros x Hx. unfold rdy. rewrite in_app_iff. right. cbn. apply S9. now right. }
    assert (Hreq_t : forall r0, r0 < nreqs s -> r_task (reqs s r0) = t -> r0 = r).
    { intros r0 Hr0 E. apply (inv_req1 H); auto. congruence. }
    clearbody s3 s2 s1 W.
    destruct H.
    constructor.
    - now rewrite Ediv.
    - intros t0 Ht0. rewrite Ent in Ht0. rewrite Epc. destruct (Nat.eqb_spec t t0); [lia|].
      destruct (W t0) eqn:E; [apply HW in E; rewrite inv_dummy in E by assumption; discriminate|]. now apply inv_dummy.
    - now rewrite Ent.
    - intros t0. rewrite Ent, Emode, Eloc. apply inv_mode.
    - intros r0 Hr0. rewrite Enr in Hr0. destruct (inv_req r0 Hr0) as (A & B & C & D).
      unfold req_ok. rewrite Ereqs, Ent, Epc, Eloc, Emode.
      destruct (Nat.eqb_spec t (r_task (reqs s r0))) as [E|E].
      + assert (r0 = r) by (apply Hreq_t; auto). subst r0. splits. split; [left; eauto|]. intros; contradiction.
      + destruct (W (r_task (reqs s r0))) eqn:Ew.
        * apply HW in Ew. destruct C as [[st0 C]|[e0 C]]; congruence.
        * auto.
    - rewrite Ereqs, Enr. assumption.
    - rewrite Ereqs, Enr. assumption.
    - rewrite Ereqs, Enr. assumption.
    - intros t0 Ht0 Hm. rewrite Ent in Ht0. unfold cancel_marked in Hm. rewrite Epc in Hm.
      destruct (Nat.eqb_spec t t0) as [<-|Hne].
      + rewrite Emustt in Hm. destruct Hm as [Hm|Hm]; [discriminate|]. destruct st; try contradiction. exact Hend.
      + rewrite Emust in Hm by auto. apply inv_canc; [assumption|]. unfold cancel_marked.
        destruct Hm as [Hm|Hm]; [now left|right]. destruct (W t0) eqn:Ew; [contradiction|].
        now rewrite Ereqs in Hm.
    - intros t0 x. rewrite Epc, Ereqs, Enr. destruct (Nat.eqb_spec t t0) as [<-|Hne].
      + intros [= ->]. destruct Hend as (o & A & B). exists r, o. auto.
      + destruct (W t0); [discriminate|]. apply inv_exc.
    - intros t0 v r0. rewrite Epc, Ereqs, Enr. destruct (Nat.eqb_spec t t0) as [<-|Hne].
      + intros [= ->] Hr0 E. assert (r0 = r) by (apply Hreq_t; auto). subst r0. exact Hend.
      + destruct (W t0); [discriminate|]. apply inv_ret.
    - intros t0 _. unfold task_ok. rewrite Epc, Ereqs, Enr, Ene.
      destruct (Nat.eqb_spec t t0) as [<-|Hne]; [exact I|].
      assert (T : task_ok hs s t0) by (apply inv_task; congruence). unfold task_ok in T.
      destruct (W t0) eqn:Ew.
      + assert (Hp0 := HW _ Ew). rewrite Hp0 in T. destruct T as (A & B & _).
        rewrite Ews. splits. now apply ErdyW.
      + destruct (pcof s t0) as [|r0 e0|e0 w|st0] eqn:Hp0; auto.
        * destruct T as (A & B & C & D & E). rewrite Eset. splits.
          destruct (Nat.eqb_spec e e0) as [<-|Hee].
          -- exfalso. apply Hne. now apply (inv_own1 _ _ _ _ _ Hp Hp0).
          -- split; [assumption|]. destruct E; auto.
        * destruct T as (A & B & C). rewrite Ews, Eset. splits. destruct w; auto.
          destruct (Nat.eqb_spec e e0) as [<-|Hee].
          -- rewrite HW' in Ew; [discriminate|congruence|assumption].
          -- destruct C as (C1 & t' & r' & C2). split; [assumption|]. exists t', r'. rewrite Epc.
             destruct (Nat.eqb_spec t t') as [<-|]; [congruence|].
             destruct (W t') eqn:Ew'; [apply HW in Ew'; congruence|assumption].
    - intros l0. rewrite Enr. apply inv_epoch.
    - intros t1 t2 r1 r2 e0. rewrite !Epc.
      destruct (Nat.eqb_spec t t1); [discriminate|]. destruct (Nat.eqb_spec t t2); [intros; discriminate|].
      destruct (W t1); [discriminate|]. destruct (W t2); [intros; discriminate|]. apply inv_own1.
    - intros l0 e0. rewrite Ecache. intros Hc. destruct (Fc1 _ _ Hc) as [Hc0 Hno].
      destruct (inv_marker l0 e0 Hc0) as (t0 & r0 & A & B & C & D). exists t0, r0.
      assert (Hne : t0 <> t).
      { intros ->. rewrite Hp in A. injection A as <- <-. apply Hno. auto. }
      rewrite Epc, Eloc. destruct (Nat.eqb_spec t t0); [congruence|].
      destruct (W t0) eqn:Ew; [apply HW in Ew; congruence|]. splits.
      intros k Hk Hek Hl Hk'. rewrite Enr in Hk. rewrite Ereqs in *.
      assert (Hk2 := D k Hk Hek Hl Hk').
      rewrite Est; [assumption|]. intros E. rewrite E in Hk2. unfold status_of in Hk2. rewrite Hp in Hk2. discriminate.
    - intros l0. rewrite Ecache. intros Hc k Hk Hek Hl Hk'. rewrite Enr in Hk. rewrite Ereqs in *.
      destruct (Fc2 _ Hc) as [Hc0|[-> Hc0]].
      + assert (Hk2 := inv_absent l0 Hc0 k Hk Hek Hl Hk').
        rewrite Est; [assumption|]. intros E. rewrite E in Hk2. unfold status_of in Hk2. rewrite Hp in Hk2. discriminate.
      + destruct (inv_marker l e Hc0) as (t0 & r0 & A & B & C & D).
        assert (t0 = t) by (apply (inv_own1 _ _ _ _ _ A Hp)). subst t0.
        rewrite Hp in A. injection A as Er. subst r0.
        destruct (Nat.eq_dec k r) as [->|Hkr].
        * rewrite Hrt, Estt. now apply Hab.
        * assert (Hk2 : aborted (stat s (r_task (reqs s k))) = true) by (apply D; auto; congruence).
          rewrite Est; [assumption|]. intros E. rewrite E in Hk2. unfold status_of in Hk2. rewrite Hp in Hk2. discriminate.
    - intros t0. rewrite Epc. destruct (Nat.eqb_spec t t0).
      + intros [= ->]. contradiction.
      + destruct (W t0); [discriminate|apply inv_nopend].
  Qed.

  Lemma inv_owner_finish m hs (s : state) t r e o :
    Inv m hs (Some t) s -> pcof s t = PFetch r e -> r < nreqs s -> r_task (reqs s r) = t ->
    e < nevents s -> e_set (events s e) = false -> r_state (reqs s r) = RDone o ->
    Inv m hs None (owner_finish convert s t e o).
  Proof.
    intros H Hp Hr Hrt He Hunset Hst. unfold owner_finish.
    destruct (convert o) as [v|x] eqn:Hc.
    - apply inv_set_value with (l := t_loc (tasks s t)) (v := v) in H.
      apply (@inv_owner_end m hs (set_cache s (t_loc (tasks s t)) (CValue v)) t r e (SRet v)); auto.
      + cbn. congruence.
      + cbn. unfold fupd. rewrite Nat.eqb_refl. discriminate.
      + cbn. eauto.
    - apply (@inv_owner_end m hs s t r e (SExc x)); auto.
      + congruence.
      + cbn. eauto.
  Qed.

  Lemma inv_lookup m hs (s : state) t :
    Inv m hs (Some t) s -> nonowner s t -> Inv m hs None (lookup convert s t).
  Proof.
    intros H Hn. unfold lookup.
    destruct (cache s (t_loc (tasks s t))) as [|e|v] eqn:Hc.
    - assert (Hnf : forall st, pcof s t <> PDone st) by (intros st E; destruct Hn as [Hn|(e' & w & Hn)]; congruence).
      destruct (t_mode (tasks s t)) as [|o] eqn:Hm.
      + assert (H' : Inv m hs (Some t) (issue s t RPending)) by (apply inv_issue; auto).
        apply inv_untake with (t := t); [assumption|].
        unfold task_ok. cbn. unfold fupd. repeat (rewrite ?Nat.eqb_refl; cbn). splits. auto.
      + assert (H' : Inv m hs (Some t) (issue s t (RDone o))) by (apply inv_issue; eauto).
        apply inv_owner_finish with (r := nreqs s); auto; cbn; unfold fupd; now rewrite Nat.eqb_refl.
    - destruct (inv_marker H _ Hc) as (to & ro & Ho & _).
      assert (Hto : to <> t) by (intros ->; destruct Hn as [Hn|(e' & w & Hn)]; congruence).
      assert (To : task_ok hs s to) by (apply (inv_task H); congruence). unfold task_ok in To. rewrite Ho in To.
      destruct To as (_ & _ & _ & Hunset & _). rewrite Hunset.
      now apply inv_add_waiter with (l := t_loc (tasks s t)).
    - apply inv_finish_nonowner; auto.
  Qed.

  Theorem inv_run_handle m rest (s : state) t :
    Inv m (t :: rest) None s -> Inv m rest None (run_handle convert s t).
  Proof.
    intros H0. assert (T : task_ok (t :: rest) s t) by (apply (inv_task H0); discriminate).
    assert (H := inv_take H0). unfold run_handle, task_ok in *.
    destruct (pcof s t) as [|r e|e w|st] eqn:Hp.
    - assert (Hn : nonowner s t) by (now left).
      destruct (t_must (tasks s t)) eqn:Hm.
      + unfold throw_cancel. rewrite Hp. apply inv_finish_nonowner; auto.
        apply (inv_canc H0); [eapply lt_ntasks; [exact H|intros st E; congruence]|]. now left.
      + now apply inv_lookup.
    - destruct T as (A & B & C & D & E).
      assert (Hlt : t < ntasks s) by (eapply lt_ntasks; [exact H|intros st E'; congruence]).
      destruct (r_state (reqs s r)) as [|o|] eqn:Hst.
      + apply inv_untake with (t := t); [assumption|]. unfold task_ok. rewrite Hp. splits. auto.
      + destruct (t_must (tasks s t)) eqn:Hm.
        * unfold throw_cancel. rewrite Hp. apply inv_owner_end with (r := r); auto; try congruence.
          cbn. apply (inv_canc H0); auto. now left.
        * now apply inv_owner_finish with (r := r).
      + unfold throw_cancel. rewrite Hp. apply inv_owner_end with (r := r); auto; try congruence.
        cbn. apply (inv_canc H0); auto. right. now rewrite Hp.
    - destruct T as (A & B & C).
      assert (Hlt : t < ntasks s) by (eapply lt_ntasks; [exact H|intros st E'; congruence]).
      assert (Hn : nonowner (remove_waiter s e t) t) by (right; cbn; eauto).
      destruct w.
      + apply inv_untake with (t := t); [assumption|]. unfold task_ok. rewrite Hp. splits. assumption.
      + destruct (t_must (tasks s t)) eqn:Hm.
        * unfold throw_cancel. rewrite Hp. apply inv_finish_nonowner; auto.
          -- now apply inv_remove_waiter.
          -- apply (inv_canc H0); auto. now left.
        * apply inv_lookup; auto. now apply inv_remove_waiter.
      + unfold throw_cancel. rewrite Hp. apply inv_finish_nonowner; auto.
        * now apply inv_remove_waiter.
        * apply (inv_canc H0); auto. right. now rewrite Hp.
    - apply inv_untake with (t := t); [assumption|]. unfold task_ok. now rewrite Hp.
  Qed.

  (* one loop iteration *)
  Lemma inv_handles m hs : forall (s : state), Inv m hs None s ->
    Inv m [] None (fold_left (run_handle convert) hs s).
  Proof.
    induction hs as [|t hs IH]; intros s H; cbn [fold_left]; [assumption|].
    apply IH. now apply inv_run_handle.
  Qed.

  Lemma inv_begin_iter m (s : state) : Inv m [] None s -> Inv m (ready s) None (with_ready s []).
  Proof.
    intros H. destruct H. constructor; try assumption.
    intros t Hsk. specialize (inv_task t Hsk). unfold task_ok, rdy in *. cbn in *. rewrite app_nil_r.
    exact inv_task.
  Qed.

  Lemma inv_iterate m (s : state) : Inv m [] None s -> Inv m [] None (iterate convert s).
  Proof. intros H. unfold iterate. apply inv_handles. now apply inv_begin_iter. Qed.

  Theorem inv_step m (s : state) nl a :
    Inv m [] None s -> Inv (mon_update m a (observe nl s)) [] None (step convert s a).
  Proof.
    intros H. destruct a as [l md|r o|t|l|]; cbn [step].
    - now apply inv_start.
    - now apply inv_complete.
    - now apply inv_cancel.
    - now apply inv_uncache.
    - cbn [mon_update]. now apply inv_iterate.
  Qed.
End Handles.
