(* C18 - deadlock freedom, second half: once the outstanding downloads complete, every lookup finishes.
   [drain] completes every outstanding request and runs one loop iteration, repeatedly; within
   2 * (number of lookups) + 2 rounds no lookup is pending any more. *)
From Coq Require Import List Bool Arith Lia.
From AUC Require Import C18.Model C18.Base C18.Spec C18.Inv C18.Steps C18.Handles C18.Ext.
Import ListNotations.
Set Implicit Arguments.

Section Live.
  Variables O V X : Type.
  Variable convert : O -> result V X.
  Notation state := (state O V X).
  Notation mon := (mon O).
  Notation pcof s t := (t_pc (tasks s t)).
  Notation stat s t := (status_of (tasks s t)).
  Notation Inv := (Inv convert).

  (* ---- more about one handle: other owners are left alone, requests keep their state, and a handle
          schedules something only when its own lookup ends ------------------------------------------ *)
  Record Sum2 (s s' : state) (t : tid) : Prop := mkSum2 {
    s2_fetch : forall t0 r e, t0 <> t -> pcof s t0 = PFetch r e -> pcof s' t0 = PFetch r e;
    s2_rstate : forall r, r < nreqs s -> r_state (reqs s' r) = r_state (reqs s r);
    s2_ready : forall x, In x (ready s') -> In x (ready s) \/ (pending s t /\ exists st, pcof s' t = PDone st)
  }.

  Definition same2 (sA s : state) : Prop := tasks sA = tasks s /\ reqs sA = reqs s /\ ready sA = ready s /\ nreqs sA = nreqs s.

  Lemma sum2_same (sA s : state) t : same2 sA s -> Sum2 s sA t.
  Proof. intros (C1 & C2 & C3 & C4). constructor; rewrite ?C1, ?C2, ?C3; auto. Qed.

  Lemma sum2_finish (sA s : state) t st : same2 sA s -> pending s t -> Sum2 s (finish sA t st) t.
  Proof.
    intros (C1 & C2 & C3 & C4) Hp. constructor; cbn; rewrite ?C1, ?C2, ?C3; auto.
    intros t0 r e Hne. unfold fupd. destruct (Nat.eqb_spec t t0); [congruence|auto].
  Qed.

  Lemma sum2_add_waiter (sA s : state) t e : same2 sA s -> Sum2 s (set_pc (add_waiter sA e t) t (PWait e WPending)) t.
  Proof.
    intros (C1 & C2 & C3 & C4). constructor; cbn; rewrite ?C1, ?C2, ?C3; auto.
    intros t0 r e0 Hne. unfold fupd. destruct (Nat.eqb_spec t t0); [congruence|auto].
  Qed.

  Lemma sum2_issue (sA s : state) t x : same2 sA s -> Sum2 s (issue sA t x) t.
  Proof.
    intros (C1 & C2 & C3 & C4). constructor; cbn; rewrite ?C1, ?C2, ?C3, ?C4; auto.
    - intros t0 r e0 Hne. unfold fupd. destruct (Nat.eqb_spec t t0); [congruence|auto].
    - intros r Hr. unfold fupd. destruct (Nat.eqb_spec (nreqs s) r); [lia|reflexivity].
  Qed.

  Lemma release_fetch (s : state) l e t0 r e0 :
    pcof s t0 = PFetch r e0 -> pcof (release s l e) t0 = PFetch r e0.
  Proof.
    intros Hp. unfold release.
    set (s1 := match cache s l with
               | CMarker e' => if Nat.eqb e' e then set_cache s l CAbsent else s
               | _ => s end).
    assert (F1 : tasks s1 = tasks s).
    { unfold s1. destruct (cache s l) as [|e'|v]; try reflexivity. now destruct (Nat.eqb e' e). }
    pose proof (event_set_spec s1 e) as S. cbv zeta in S.
    destruct S as (_ & _ & _ & _ & _ & _ & _ & S8 & _).
    destruct (S8 t0) as (_ & _ & _ & ->). unfold woken, wakes. rewrite F1, Hp. now rewrite andb_false_r.
  Qed.

  Lemma sum2_end (s sB : state) t e st (setv : option V) :
    Sum2 s sB t -> pending s t -> nreqs s <= nreqs sB ->
    let l := t_loc (tasks sB t) in
    let sBv := match setv with Some v => set_cache sB l (CValue v) | None => sB end in
    Sum2 s (finish (release sBv l e) t st) t.
  Proof.
    intros S Hp Hnr l sBv.
    pose proof (release_sum sBv l e) as R. cbv zeta in R. destruct R as (R1 & R2 & R3 & _).
    assert (B : reqs sBv = reqs sB /\ tasks sBv = tasks sB) by (unfold sBv; destruct setv; split; reflexivity).
    destruct B as [B1 B2]. destruct S.
    constructor; cbn.
    - intros t0 r e0 Hne E. unfold fupd. destruct (Nat.eqb_spec t t0); [congruence|].
      apply release_fetch. rewrite B2. now apply s2_fetch0.
    - intros r Hr. rewrite R2, B1. now apply s2_rstate0.
    - intros x _. right. split; [assumption|]. unfold fupd. rewrite Nat.eqb_refl. cbn. eauto.
  Qed.

  Lemma sum2_owner_finish (s sB : state) t e o :
    Sum2 s sB t -> pending s t -> nreqs s <= nreqs sB -> Sum2 s (owner_finish convert sB t e o) t.
  Proof.
    intros S Hp Hnr. unfold owner_finish. destruct (convert o) as [v|x].
    - now apply (@sum2_end s sB t e (SRet v) (Some v)).
    - now apply (@sum2_end s sB t e (SExc x) None).
  Qed.

  Lemma same2_refl (s : state) : same2 s s.
  Proof. repeat split. Qed.
  Lemma same2_remove_waiter (s : state) e t : same2 (remove_waiter s e t) s.
  Proof. repeat split. Qed.

  Lemma sum2_lookup (sA s : state) t : same2 sA s -> pending s t -> Sum2 s (lookup convert sA t) t.
  Proof.
    intros C Hp. pose proof C as (C1 & C2 & C3 & C4). unfold lookup. rewrite C1.
    destruct (cache sA (t_loc (tasks s t))) as [|e|v].
    - destruct (t_mode (tasks s t)) as [|o].
      + now apply sum2_issue.
      + apply sum2_owner_finish; auto; [now apply sum2_issue|]. cbn. lia.
    - destruct (e_set (events sA e)).
      + apply sum2_same. repeat split; assumption.
      + now apply sum2_add_waiter.
    - now apply sum2_finish.
  Qed.

  Lemma sum2_refl (s : state) t : Sum2 s s t.
  Proof. apply sum2_same, same2_refl. Qed.

  Theorem handle_summary2 (s : state) t : Sum2 s (run_handle convert s t) t.
  Proof.
    unfold run_handle.
    destruct (pcof s t) as [|r e|e w|st] eqn:Hp.
    - assert (Hpe : pending s t) by (intros st E; congruence).
      destruct (t_must (tasks s t)).
      + unfold throw_cancel. rewrite Hp. apply sum2_finish; auto using same2_refl.
      + apply sum2_lookup; auto using same2_refl.
    - assert (Hpe : pending s t) by (intros st E'; congruence).
      destruct (r_state (reqs s r)) as [|o|].
      + apply sum2_refl.
      + destruct (t_must (tasks s t)).
        * unfold throw_cancel. rewrite Hp. apply (@sum2_end s s t e SCancelled None); auto using sum2_refl.
        * apply sum2_owner_finish; auto using sum2_refl.
      + unfold throw_cancel. rewrite Hp. apply (@sum2_end s s t e SCancelled None); auto using sum2_refl.
    - assert (Hpe : pending s t) by (intros st E'; congruence).
      destruct w.
      + apply sum2_refl.
      + destruct (t_must (tasks s t)).
        * unfold throw_cancel. rewrite Hp. apply sum2_finish; auto using same2_remove_waiter.
        * apply sum2_lookup; auto using same2_remove_waiter.
      + unfold throw_cancel. rewrite Hp. apply sum2_finish; auto using same2_remove_waiter.
    - apply sum2_refl.
  Qed.

  (* ---- nothing runnable, nothing outstanding => nothing pending --------------------------------------- *)
  Definition is_done (s : state) (t : tid) : bool := negb (is_pending (stat s t)).
  Definition npend (s : state) : nat := length (filter (fun t => negb (is_done s t)) (seq 0 (ntasks s))).

  Lemma is_done_iff m hs sk (s : state) t : Inv m hs sk s -> (is_done s t = true <-> exists st, pcof s t = PDone st).
  Proof.
    intros H. unfold is_done, status_of. destruct (pcof s t) as [| | |st] eqn:E; cbn; split; try discriminate.
    - intros (st & E'). discriminate.
    - intros (st & E'). discriminate.
    - intros (st & E'). discriminate.
    - eauto.
    - intros _. destruct st; auto. exfalso. apply (inv_nopend H t). assumption.
  Qed.

  Theorem quiescent_done m (s : state) :
    Inv m [] None s -> quiescent s = true -> forall t, is_done s t = true.
  Proof.
    intros H Q t. unfold quiescent in Q.
    destruct (ready s) eqn:Hr; [|discriminate]. destruct (outstanding s) eqn:Ho; [|discriminate].
    assert (Hnf : forall t r e, pcof s t <> PFetch r e).
    { intros t0 r e Hp. assert (T : task_ok [] s t0) by (apply (inv_task H); discriminate).
      unfold task_ok in T. rewrite Hp in T. destruct T as (A & _ & _ & _ & [B|B]).
      - assert (In r (outstanding s)); [|rewrite Ho in *; contradiction].
        unfold outstanding. apply filter_In. split; [apply in_seq; lia|now rewrite B].
      - unfold rdy in B. rewrite Hr in B. contradiction. }
    apply (is_done_iff t H).
    assert (T : task_ok [] s t) by (apply (inv_task H); discriminate). unfold task_ok, rdy in T. rewrite Hr in T.
    destruct (pcof s t) as [|r e|e w|st] eqn:Hp.
    - contradiction.
    - exfalso. now apply (Hnf t r e).
    - destruct T as (_ & _ & T). destruct w; try contradiction.
      destruct T as (_ & t' & r' & T). exfalso. now apply (Hnf t' r' e).
    - eauto.
  Qed.

  (* counting *)
  Lemma filter_length_le (f g : nat -> bool) l :
    (forall x, In x l -> g x = true -> f x = true) -> length (filter g l) <= length (filter f l).
  Proof.
    induction l as [|x l IH]; intros Hfg; cbn; [lia|].
    assert (IH' := IH (fun y Hy => Hfg y (or_intror Hy))).
    destruct (g x) eqn:Eg.
    - rewrite (Hfg x (or_introl eq_refl) Eg). cbn. lia.
    - destruct (f x); cbn; lia.
  Qed.
  Lemma filter_length_lt (f g : nat -> bool) l x0 :
    (forall x, In x l -> g x = true -> f x = true) -> In x0 l -> f x0 = true -> g x0 = false ->
    length (filter g l) < length (filter f l).
  Proof.
    induction l as [|x l IH]; intros Hfg Hin Hf Hg; cbn; [contradiction|].
    assert (Hfg' : forall y, In y l -> g y = true -> f y = true) by (intros y Hy; apply Hfg; now right).
    destruct Hin as [->|Hin].
    - rewrite Hf, Hg. cbn. pose proof (filter_length_le f g l Hfg'). lia.
    - specialize (IH Hfg' Hin Hf Hg). destruct (g x) eqn:Eg.
      + rewrite (Hfg x (or_introl eq_refl) Eg). cbn. lia.
      + destruct (f x); cbn; lia.
  Qed.

  Lemma npend_le (s s' : state) :
    ntasks s' = ntasks s -> (forall t, is_done s t = true -> is_done s' t = true) -> npend s' <= npend s.
  Proof.
    intros Hn Hd. unfold npend. rewrite Hn. apply filter_length_le. intros x _ E.
    destruct (is_done s x) eqn:E'; [|reflexivity]. rewrite (Hd x E') in E. discriminate.
  Qed.
  Lemma npend_lt (s s' : state) t0 :
    ntasks s' = ntasks s -> (forall t, is_done s t = true -> is_done s' t = true) ->
    t0 < ntasks s -> is_done s t0 = false -> is_done s' t0 = true -> npend s' < npend s.
  Proof.
    intros Hn Hd Ht A B. unfold npend. rewrite Hn. apply filter_length_lt with (x0 := t0).
    - intros x _ E. destruct (is_done s x) eqn:E'; [|reflexivity]. rewrite (Hd x E') in E. discriminate.
    - apply in_seq. lia.
    - now rewrite A.
    - now rewrite B.
  Qed.
  Lemma npend_zero (s : state) : npend s = 0 <-> forall t, t < ntasks s -> is_done s t = true.
  Proof.
    unfold npend. split.
    - intros E t Ht. destruct (is_done s t) eqn:D; [reflexivity|]. exfalso.
      assert (Hin : In t (filter (fun t => negb (is_done s t)) (seq 0 (ntasks s)))).
      { apply filter_In. split; [apply in_seq; lia|now rewrite D]. }
      destruct (filter _ _); [contradiction|discriminate].
    - intros Hd. destruct (filter _ _) as [|x l] eqn:E; [reflexivity|]. exfalso.
      assert (Hin : In x (filter (fun t => negb (is_done s t)) (seq 0 (ntasks s)))) by (rewrite E; now left).
      apply filter_In in Hin as [Hin Hx]. apply in_seq in Hin. rewrite Hd in Hx by lia. discriminate.
  Qed.

  (* ---- what a run of handles does to doneness, the ready queue and a woken owner ----------------------- *)
  Definition dn (s : state) (t : tid) : Prop := exists st, pcof s t = PDone st.

  Lemma handle_dn m rest (s : state) t t0 : Inv m (t :: rest) None s -> dn s t0 -> dn (run_handle convert s t) t0.
  Proof. intros H (st & E). exists st. eapply sum_done_keep; [apply (handle_summary H)|exact E]. Qed.
  Lemma handle_nt m rest (s : state) t : Inv m (t :: rest) None s -> ntasks (run_handle convert s t) = ntasks s.
  Proof. intros H. apply (sm_nt (handle_summary H)). Qed.

  Lemma handles_dn m hs : forall (s : state) t0, Inv m hs None s -> dn s t0 -> dn (fold_left (run_handle convert) hs s) t0.
  Proof.
    induction hs as [|t hs IH]; intros s t0 H D; cbn [fold_left]; [assumption|].
    apply IH; [now apply inv_run_handle|]. now apply handle_dn with (m := m) (rest := hs).
  Qed.
  Lemma handles_nt m hs : forall (s : state), Inv m hs None s -> ntasks (fold_left (run_handle convert) hs s) = ntasks s.
  Proof.
    induction hs as [|t hs IH]; intros s H; cbn [fold_left]; [reflexivity|].
    rewrite IH by (now apply inv_run_handle). now apply handle_nt with (m := m) (rest := hs).
  Qed.

  Lemma handles_ready m hs : forall (s : state) x, Inv m hs None s ->
    In x (ready (fold_left (run_handle convert) hs s)) ->
    In x (ready s) \/ exists t, ~ dn s t /\ dn (fold_left (run_handle convert) hs s) t.
  Proof.
    induction hs as [|t hs IH]; intros s x H Hin; cbn [fold_left] in *; [now left|].
    assert (H1 := inv_run_handle H).
    destruct (IH _ x H1 Hin) as [A|(t' & A & B)].
    - destruct (s2_ready (handle_summary2 s t) _ A) as [C|(C & D)]; [now left|right].
      exists t. split.
      + intros (st & E). now apply (C st).
      + now apply handles_dn with (m := m).
    - right. exists t'. split; [|assumption]. intros D. apply A. now apply handle_dn with (m := m) (rest := hs).
  Qed.

  Lemma finish_dn (s : state) t st : dn (finish s t st) t.
  Proof. exists st. cbn. unfold fupd. now rewrite Nat.eqb_refl. Qed.

  Lemma run_owner_here (s : state) t r e :
    pcof s t = PFetch r e -> r_state (reqs s r) <> RPending -> dn (run_handle convert s t) t.
  Proof.
    intros Hp Hs. unfold run_handle. rewrite Hp.
    destruct (r_state (reqs s r)) as [|o|]; [congruence| |].
    - destruct (t_must (tasks s t)).
      + unfold throw_cancel. rewrite Hp. apply finish_dn.
      + unfold owner_finish. destruct (convert o); apply finish_dn.
    - unfold throw_cancel. rewrite Hp. apply finish_dn.
  Qed.

  Lemma handles_owner m hs : forall (s : state) t0 r e, Inv m hs None s -> In t0 hs ->
    pcof s t0 = PFetch r e -> r < nreqs s -> r_state (reqs s r) <> RPending ->
    dn (fold_left (run_handle convert) hs s) t0.
  Proof.
    induction hs as [|t hs IH]; intros s t0 r e H Hin Hp Hr Hs; cbn [fold_left]; [contradiction|].
    assert (H1 := inv_run_handle H).
    destruct (Nat.eq_dec t t0) as [->|Hne].
    - apply handles_dn with (m := m); [assumption|]. now apply run_owner_here with (r := r) (e := e).
    - destruct Hin as [->|Hin]; [congruence|].
      pose proof (handle_summary2 s t) as S2.
      apply IH with (r := r) (e := e); auto.
      + apply (s2_fetch S2); auto.
      + pose proof (sm_nr (handle_summary H)). lia.
      + now rewrite (s2_rstate S2).
  Qed.

  (* ---- completing everything that is outstanding ------------------------------------------------------- *)
  Variable od : O.
  Definition complete_all (rs : list rid) (s : state) : state := fold_left (fun s r => complete s r od) rs s.

  Lemma complete_facts (s : state) r :
    let s1 := complete s r od in
    tasks s1 = tasks s /\ ntasks s1 = ntasks s /\ nreqs s1 = nreqs s
    /\ (forall r0, r_state (reqs s r0) <> RPending -> r_state (reqs s1 r0) <> RPending)
    /\ (r < nreqs s -> r_state (reqs s1 r) <> RPending).
  Proof.
    unfold complete. destruct (Nat.ltb_spec r (nreqs s)) as [Hr|Hr].
    - destruct (r_state (reqs s r)) eqn:E; cbn; repeat split; auto; try congruence.
      + intros r0 N. unfold fupd. destruct (Nat.eqb_spec r r0); cbn; [discriminate|assumption].
      + intros _. unfold fupd. rewrite Nat.eqb_refl. cbn. discriminate.
    - cbn. repeat split; auto. intros; lia.
  Qed.

  Lemma complete_all_facts rs : forall (s : state) m, Inv m [] None s ->
    let s1 := complete_all rs s in
    (exists m1, Inv m1 [] None s1) /\ tasks s1 = tasks s /\ ntasks s1 = ntasks s /\ nreqs s1 = nreqs s
    /\ (forall r0, r_state (reqs s r0) <> RPending -> r_state (reqs s1 r0) <> RPending)
    /\ (forall r, In r rs -> r < nreqs s -> r_state (reqs s1 r) <> RPending).
  Proof.
    induction rs as [|r rs IH]; intros s m H; cbn [complete_all fold_left].
    - unfold complete_all. cbn. repeat split; eauto; intros r [].
    - pose proof (complete_facts s r) as F. cbv zeta in F. destruct F as (F1 & F2 & F3 & F4 & F5).
      assert (H1 : Inv (mon_update m (AComplete r od) (observe 0 s)) [] None (complete s r od))
        by (apply (inv_step 0 (AComplete r od) H)).
      specialize (IH _ _ H1). cbv zeta in IH. fold (complete_all rs (complete s r od)) in *.
      destruct IH as (I0 & I1 & I2 & I3 & I4 & I5).
      split; [assumption|]. split; [congruence|]. split; [congruence|]. split; [congruence|]. split.
      + intros r0 N. apply I4. now apply F4.
      + intros r0 [<-|Hin] Hr0.
        * apply I4. now apply F5.
        * apply I5; [assumption|]. congruence.
  Qed.

  (* ---- the measure ------------------------------------------------------------------------------------- *)
  Definition is_fetch (p : pc V X) : bool := match p with PFetch _ _ => true | _ => false end.
  Definition has_owner (s : state) : bool := existsb (fun t => is_fetch (pcof s t)) (seq 0 (ntasks s)).
  Definition mu (s : state) : nat := 2 * npend s + (if has_owner s then 0 else 1).

  Lemma has_owner_true (s : state) : has_owner s = true -> exists t r e, t < ntasks s /\ pcof s t = PFetch r e.
  Proof.
    unfold has_owner. intros E. apply existsb_exists in E as (t & Hin & E). apply in_seq in Hin.
    destruct (pcof s t) as [|r e| |] eqn:Hp; try discriminate. exists t, r, e. split; [lia|assumption].
  Qed.
  Lemma has_owner_false m (s : state) t r e : Inv m [] None s -> has_owner s = false -> pcof s t <> PFetch r e.
  Proof.
    intros H E Hp. assert (Hlt : t < ntasks s) by (eapply lt_ntasks; [exact H|intros st E'; congruence]).
    unfold has_owner in E. assert (existsb (fun t => is_fetch (pcof s t)) (seq 0 (ntasks s)) = true); [|congruence].
    apply existsb_exists. exists t. split; [apply in_seq; lia|now rewrite Hp].
  Qed.

  Lemma dn_done m (s : state) t : Inv m [] None s -> (dn s t <-> is_done s t = true).
  Proof. intros H. symmetry. apply (is_done_iff t H). Qed.

  Lemma round_facts m (s : state) :
    Inv m [] None s ->
    let s' := round convert od s in
    (exists m', Inv m' [] None s') /\ ntasks s' = ntasks s
    /\ (forall t, is_done s t = true -> is_done s' t = true)
    /\ (quiescent s = false -> npend s > 0 -> mu s' < mu s).
  Proof.
    intros H. unfold round. fold (complete_all (outstanding s) s).
    pose proof (complete_all_facts (outstanding s) H) as F. cbv zeta in F.
    set (s1 := complete_all (outstanding s) s) in *.
    destruct F as ((m1 & H1) & F1 & F2 & F3 & F4 & F5).
    assert (Hb := inv_begin_iter H1).
    assert (H' : Inv m1 [] None (iterate convert s1)) by (now apply inv_iterate).
    assert (Hnt : ntasks (iterate convert s1) = ntasks s).
    { unfold iterate. rewrite (handles_nt Hb). cbn. assumption. }
    assert (Hdn : forall t, dn s t -> dn (iterate convert s1) t).
    { intros t D. unfold iterate. apply handles_dn with (m := m1); [assumption|]. unfold dn in *. cbn. now rewrite F1. }
    assert (Hd : forall t, is_done s t = true -> is_done (iterate convert s1) t = true).
    { intros t D. apply (dn_done t H'). apply Hdn. now apply (dn_done t H). }
    split; [eauto|]. split; [assumption|]. split; [assumption|].
    intros Q Hpos.
    assert (Hle : npend (iterate convert s1) <= npend s) by (now apply npend_le).
    unfold mu. destruct (has_owner s) eqn:Eo.
    - (* an owner is woken by the completion and ends *)
      apply has_owner_true in Eo as (t0 & r & e & Hlt & Hp).
      assert (T : task_ok [] s t0) by (apply (inv_task H); discriminate). unfold task_ok in T. rewrite Hp in T.
      destruct T as (A & B & _).
      assert (Hp1 : pcof s1 t0 = PFetch r e) by (now rewrite F1).
      assert (Hs1 : r_state (reqs s1 r) <> RPending).
      { destruct (r_state (reqs s r)) eqn:Es; [|apply F4; congruence|apply F4; congruence].
        apply F5; [|assumption]. unfold outstanding. apply filter_In. split; [apply in_seq; lia|now rewrite Es]. }
      assert (T1 : task_ok [] s1 t0) by (apply (inv_task H1); discriminate). unfold task_ok in T1. rewrite Hp1 in T1.
      destruct T1 as (_ & _ & _ & _ & [C|C]); [congruence|]. unfold rdy in C. cbn in C.
      assert (D : dn (iterate convert s1) t0).
      { unfold iterate. apply handles_owner with (m := m1) (r := r) (e := e); auto; cbn; congruence. }
      assert (npend (iterate convert s1) < npend s).
      { apply npend_lt with (t0 := t0); auto.
        - unfold is_done, status_of. now rewrite Hp.
        - now apply (dn_done t0 H'). }
      destruct (has_owner (iterate convert s1)); lia.
    - (* no owner: nothing is outstanding, so something is runnable *)
      assert (Ho : outstanding s = []).
      { destruct (outstanding s) as [|r l] eqn:E; [reflexivity|]. exfalso.
        assert (Hin : In r (outstanding s)) by (rewrite E; now left).
        unfold outstanding in Hin. apply filter_In in Hin as [Hin Hr]. apply in_seq in Hin.
        destruct (r_state (reqs s r)) eqn:Es; try discriminate.
        destruct (inv_req H (r := r)) as (_ & _ & _ & D); [lia|]. destruct (D Es) as ((e & D1) & _).
        now apply (has_owner_false _ H Eo D1). }
      destruct (has_owner (iterate convert s1)) eqn:Eo'; [lia|].
      assert (npend (iterate convert s1) < npend s); [|lia].
      destruct (npend (iterate convert s1)) eqn:En; [lia|].
      (* some lookup is still pending; without an owner it must be runnable, so something was scheduled *)
      assert (Hex : exists t, t < ntasks s /\ is_done (iterate convert s1) t = false).
      { destruct (filter (fun t => negb (is_done (iterate convert s1) t)) (seq 0 (ntasks (iterate convert s1)))) as [|x l] eqn:E.
        - unfold npend in En. rewrite E in En. discriminate.
        - assert (Hin : In x (x :: l)) by (now left). rewrite <- E in Hin. apply filter_In in Hin as [Hin Hx].
          apply in_seq in Hin. exists x. split; [lia|]. now destruct (is_done (iterate convert s1) x). }
      destruct Hex as (t & Ht & Hnd).
      assert (T : task_ok [] (iterate convert s1) t) by (apply (inv_task H'); discriminate).
      assert (Hrdy : In t (ready (iterate convert s1))).
      { unfold task_ok, rdy in T. cbn [app] in T.
        destruct (pcof (iterate convert s1) t) as [|r e|e w|st] eqn:Hp; auto.
        - exfalso. now apply (has_owner_false _ H' Eo' Hp).
        - destruct T as (_ & _ & T). destruct w; auto. destruct T as (_ & t' & r' & T).
          exfalso. now apply (has_owner_false _ H' Eo' T).
        - exfalso. assert (is_done (iterate convert s1) t = true); [|congruence].
          apply (dn_done t H'). eexists; eassumption. }
      unfold iterate in Hrdy. destruct (handles_ready _ Hb Hrdy) as [C|(t' & C & D)]; [cbn in C; contradiction|].
      fold (iterate convert s1) in D.
      assert (Hnd' : forall st, pcof s1 t' <> PDone st) by (intros st E'; apply C; exists st; exact E').
      assert (Hlt' : t' < ntasks s) by (rewrite <- F2; eapply lt_ntasks; [exact H1|exact Hnd']).
      rewrite <- En. apply npend_lt with (t0 := t'); auto.
      + unfold is_done, status_of. rewrite <- F1. destruct (pcof s1 t') eqn:E'; auto. exfalso. now apply (Hnd' st).
      + now apply (dn_done t' H').
  Qed.

  Theorem drain_done : forall n (s : state) m, Inv m [] None s -> mu s <= n -> npend (drain convert od n s) = 0.
  Proof.
    induction n as [|n IH]; intros s m H Hmu; cbn [drain].
    - unfold mu in Hmu. lia.
    - destruct (quiescent s) eqn:Q.
      + apply npend_zero. intros t _. now apply (quiescent_done H).
      + pose proof (round_facts H) as R. cbv zeta in R. destruct R as ((m' & H') & Rn & Rd & Rmu).
        destruct (npend s) eqn:En.
        * (* nothing pending: stays so *)
          assert (Z : forall k (s0 : state) m0, Inv m0 [] None s0 -> npend s0 = 0 -> npend (drain convert od k s0) = 0).
          { induction k as [|k IHk]; intros s0 m0 H0 E0; cbn [drain]; [assumption|].
            destruct (quiescent s0); [assumption|].
            pose proof (round_facts H0) as R0. cbv zeta in R0. destruct R0 as ((m0' & H0') & Rn0 & Rd0 & _).
            apply IHk with (m0 := m0'); [assumption|].
            pose proof (@npend_le _ _ Rn0 Rd0). lia. }
          apply Z with (m0 := m'); [assumption|]. pose proof (@npend_le _ _ Rn Rd). lia.
        * apply IH with (m := m'); [assumption|]. assert (mu (round convert od s) < mu s) by (apply Rmu; [assumption|lia]). lia.
  Qed.

  Lemma filter_length_all (f : nat -> bool) l : length (filter f l) <= length l.
  Proof. induction l as [|x l IH]; cbn; [lia|]. destruct (f x); cbn; lia. Qed.

  Lemma mu_bound (s : state) : mu s <= drain_fuel s.
  Proof.
    unfold mu, drain_fuel, npend.
    pose proof (filter_length_all (fun t => negb (is_done s t)) (seq 0 (ntasks s))) as L.
    rewrite seq_length in L. unfold tid in *. destruct (has_owner s); lia.
  Qed.

  Theorem drained_ok m (s : state) :
    Inv m [] None s -> drained (statuses (drain convert od (drain_fuel s) s)) = true.
  Proof.
    intros H. pose proof (@drain_done (drain_fuel s) s m H (mu_bound s)) as Z.
    set (s' := drain convert od (drain_fuel s) s) in *.
    unfold drained, statuses. apply forallb_forall. intros x Hx. apply in_map_iff in Hx as (t & <- & Hin).
    apply in_seq in Hin. apply (proj1 (npend_zero s') Z). lia.
  Qed.
End Live.
