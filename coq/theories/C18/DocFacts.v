(* C18 - facts about the concrete conversion of download outcomes (Doc.v). *)
From Coq Require Import List Bool NArith Arith.
From AUC Require Import Prelude.PyStr Prelude.PyDict C18.Model C18.Doc.
Import ListNotations.

Lemma str_eqb_refl s : str_eqb s s = true.
Proof. destruct (str_eqb_spec s s); congruence. Qed.

Fixpoint dval_eqb_refl (v : dval) : dval_eqb v v = true.
Proof.
  destruct v as [|s|items|l|]; cbn; try reflexivity.
  - apply str_eqb_refl.
  - induction items as [|[k x] items IH]; [reflexivity|].
    rewrite str_eqb_refl, (dval_eqb_refl x). cbn. exact IH.
  - induction l as [|x l IH]; [reflexivity|].
    rewrite (dval_eqb_refl x). cbn. exact IH.
Qed.

Lemma xcls_eqb_refl x : xcls_eqb x x = true.
Proof. now destruct x. Qed.

(* HTTP errors, transport errors, unparsable and empty documents all become "absence" *)
Lemma failure_is_absence o : is_failure o = true -> convert o = RVal DNone.
Proof.
  destruct o as [st b|k]; cbn; [|reflexivity].
  destruct (N.eqb st 200); cbn; [|reflexivity]. destruct b; cbn; congruence.
Qed.

(* no download outcome makes the conversion raise (D37 repaired the two that did) *)
Lemma convert_never_raises o x : convert o <> RExc x.
Proof.
  destruct o as [st b|k]; cbn; [|discriminate].
  destruct (N.eqb st 200); [|discriminate]. destruct b as [| | |t]; try discriminate.
  unfold desc_of. destruct (e2d t) as [name v]. destruct (str_eqb name s_root); [|discriminate].
  destruct v; discriminate.
Qed.
