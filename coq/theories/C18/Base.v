(* C18 - basic facts about the kernel: function update, Event.set, what an observation shows. *)
From Coq Require Import List Bool Arith Lia.
From AUC Require Import C18.Model.
Import ListNotations.
Set Implicit Arguments.

Lemma fupd_eq A (f : nat -> A) k v : fupd f k v k = v.
Proof. unfold fupd. now rewrite Nat.eqb_refl. Qed.
Lemma fupd_neq A (f : nat -> A) k v k' : k <> k' -> fupd f k v k' = f k'.
Proof. unfold fupd. intros H. destruct (Nat.eqb_spec k k'); congruence. Qed.

Fixpoint inb (k : nat) (l : list nat) : bool :=
  match l with [] => false | x :: r => Nat.eqb k x || inb k r end.
Lemma inb_In k l : inb k l = true <-> In k l.
Proof.
  induction l as [|x l IH]; cbn; [intuition congruence|].
  rewrite orb_true_iff, IH, Nat.eqb_eq. intuition.
Qed.

Section Base.
  Variables O V X : Type.
  Variable convert : O -> result V X.
  Notation state := (state O V X).
  Notation pcof s t := (t_pc (tasks s t)).

  (* ---- Event.set ------------------------------------------------------------------------------ *)
  Lemma fold_wake_spec e ws : forall s : state,
    let s' := fold_left (wake e) ws s in
    ntasks s' = ntasks s /\ reqs s' = reqs s /\ nreqs s' = nreqs s /\ events s' = events s
    /\ nevents s' = nevents s /\ cache s' = cache s /\ diverged s' = diverged s
    /\ (forall t, t_loc (tasks s' t) = t_loc (tasks s t) /\ t_mode (tasks s' t) = t_mode (tasks s t)
                  /\ t_must (tasks s' t) = t_must (tasks s t)
                  /\ pcof s' t = if inb t ws && wakes s e t then PWait e WDone else pcof s t)
    /\ (forall t, In t (ready s') <-> In t (ready s) \/ inb t ws && wakes s e t = true).
  Proof.
    induction ws as [|w ws IH]; intros s; cbn [fold_left].
    - cbn. repeat (split; [reflexivity|]). split; [intros t; repeat split; reflexivity|].
      intros t. intuition congruence.
    - specialize (IH (wake e s w)). cbv zeta in IH.
      destruct IH as (H1 & H2 & H3 & H4 & H5 & H6 & H7 & H8 & H9).
      unfold wake in *. destruct (wakes s e w) eqn:Hw.
      + cbn in H1, H2, H3, H4, H5, H6, H7.
        repeat split; try assumption.
        * destruct (H8 t) as (A & _). rewrite A. cbn. unfold fupd. now destruct (Nat.eqb_spec w t) as [->|].
        * destruct (H8 t) as (_ & A & _). rewrite A. cbn. unfold fupd. now destruct (Nat.eqb_spec w t) as [->|].
        * destruct (H8 t) as (_ & _ & A & _). rewrite A. cbn. unfold fupd. now destruct (Nat.eqb_spec w t) as [->|].
        * destruct (H8 t) as (_ & _ & _ & A). rewrite A. clear A H8 H9.
          cbn [inb]. unfold wakes. cbn. unfold fupd.
          destruct (Nat.eqb_spec w t) as [->|Hne].
          -- rewrite Nat.eqb_refl. cbn. unfold wakes in Hw. rewrite Hw. now rewrite andb_false_r.
          -- destruct (Nat.eqb_spec t w); [congruence|]. reflexivity.
        * intros Hin. apply H9 in Hin. cbn in Hin. rewrite in_app_iff in Hin. cbn in Hin.
          cbn [inb]. unfold wakes in *. cbn in Hin. unfold fupd in Hin.
          destruct (Nat.eqb_spec w t) as [->|Hne].
          -- rewrite Nat.eqb_refl. cbn. rewrite Hw. auto.
          -- destruct (Nat.eqb_spec t w); [congruence|]. cbn. intuition.
        * intros Hin. apply H9. cbn. rewrite in_app_iff. cbn.
          cbn [inb] in Hin. unfold wakes in *. cbn. unfold fupd.
          destruct (Nat.eqb_spec w t) as [->|Hne].
          -- auto.
          -- destruct (Nat.eqb_spec t w); [congruence|]. cbn in Hin. intuition.
      + repeat (split; [assumption|]). split.
        * intros t. destruct (H8 t) as (A & B & C & D). repeat (split; [assumption|]).
          rewrite D. cbn [inb].
          destruct (Nat.eqb_spec t w) as [->|Hne]; cbn; [|reflexivity].
          rewrite Hw. cbn. now rewrite andb_false_r.
        * intros t. rewrite H9. cbn [inb].
          destruct (Nat.eqb_spec t w) as [->|Hne]; cbn; [|tauto].
          rewrite Hw. rewrite andb_false_r. tauto.
  Qed.

  Definition woken (s : state) (e : eid) (t : tid) : bool :=
    negb (e_set (events s e)) && inb t (e_waiters (events s e)) && wakes s e t.

  Lemma event_set_spec (s : state) e :
    let s' := event_set s e in
    ntasks s' = ntasks s /\ reqs s' = reqs s /\ nreqs s' = nreqs s
    /\ nevents s' = nevents s /\ cache s' = cache s /\ diverged s' = diverged s
    /\ (forall e', e_waiters (events s' e') = e_waiters (events s e')
                   /\ e_set (events s' e') = if Nat.eqb e e' then true else e_set (events s e'))
    /\ (forall t, t_loc (tasks s' t) = t_loc (tasks s t) /\ t_mode (tasks s' t) = t_mode (tasks s t)
                  /\ t_must (tasks s' t) = t_must (tasks s t)
                  /\ pcof s' t = if woken s e t then PWait e WDone else pcof s t)
    /\ (forall t, In t (ready s') <-> In t (ready s) \/ woken s e t = true).
  Proof.
    unfold event_set, woken. destruct (e_set (events s e)) eqn:Hset; cbv zeta.
    - cbn. repeat split; auto; try tauto.
      + destruct (Nat.eqb_spec e e'); subst; auto.
      + intuition congruence.
    - pose proof (fold_wake_spec e (e_waiters (events s e))
                    (with_events s (fupd (events s) e (mkEvent true (e_waiters (events s e)))))) as H.
      cbv zeta in H. destruct H as (H1 & H2 & H3 & H4 & H5 & H6 & H7 & H8 & H9).
      cbn in H1, H2, H3, H5, H6, H7. cbn [negb andb].
      repeat split; try assumption; try (now destruct (H8 t) as (A & B & C & D)).
      + rewrite H4. cbn. unfold fupd. destruct (Nat.eqb e e') eqn:E; [apply Nat.eqb_eq in E; subst|]; reflexivity.
      + rewrite H4. cbn. unfold fupd. now destruct (Nat.eqb e e').
      + apply H9.
      + apply H9.
  Qed.

  (* ---- what an observation shows ---------------------------------------------------------------- *)
  Lemma nth_map_seq A (f : nat -> A) n k d : k < n -> nth k (map f (seq 0 n)) d = f k.
  Proof.
    intros H. rewrite nth_indep with (d' := f 0) by now rewrite map_length, seq_length.
    rewrite map_nth. now rewrite seq_nth.
  Qed.
  Lemma nth_map_seq_over A (f : nat -> A) n k d : n <= k -> nth k (map f (seq 0 n)) d = d.
  Proof. intros H. apply nth_overflow. now rewrite map_length, seq_length. Qed.
End Base.
