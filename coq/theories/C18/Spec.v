(* C18 - the property, restated over what can be seen from outside the cache: the schedule of external
   actions, and after every action the state of every lookup, the requests the requester has seen (location,
   issuing lookup), which of them are still outstanding, peek_description_dict of every location, and whether
   the loop's ready queue is empty.  Every clause is an executable boolean over (schedule, observations), so
   the same definitions judge the model (Properties.v: they hold for ALL schedules) and the implementation
   (Run.v: report).

   A monitor reads the schedule and remembers: on which lookups cancel() was called, which outcome each
   request was given, the location and requester mode of each lookup, and for every location how many
   requests had been seen when it was last uncached (the start of its current "epoch").

   1 single_flight   a request for l is issued only if every earlier request for l of the current epoch
                     belonged to a lookup that has been cancelled or has failed with an exception
                     (so: one download per location and epoch, unless its owner is taken away)
   2 shared_outcome  a lookup that issued the request returns convert(outcome of that request); any other
                     lookup returns the value peek showed before this iteration, or the value returned in this
                     iteration by a lookup of the same location that issued a request
   3 cached          peek(l) shows a value until uncache(l): it only ever changes to the value just returned
                     by a lookup that issued a request for l; uncache(l) empties it; and no request for l is
                     issued while peek(l) shows a value (absence included: failures are not retried)
   4 no_deadlock     whenever the ready queue is empty and no request is outstanding, no lookup is pending;
                     and after draining (complete every outstanding request, iterate; repeat) none is pending
   5 clean           lookups end only by returning, by CancelledError after cancel() was called on them, or -
                     for the lookup that issued the request - with the exception convert assigns to the
                     outcome; finished lookups stay finished, the request log only grows, only loop
                     iterations change either, no section spins *)
From Coq Require Import List Bool Arith.
From AUC Require Import C18.Model.
Import ListNotations.
Set Implicit Arguments.

Section Spec.
  Variables O V X : Type.
  Variable convert : O -> result V X.
  Variable veqb : V -> V -> bool.
  Variable xeqb : X -> X -> bool.

  Notation action := (action O).
  Notation status := (status V X).
  Notation sobs := (sobs V X).
  Notation mode := (mode O).

  Record mon := mkMon {
    m_cancel : list tid;
    m_out : list (rid * O);
    m_modes : list mode;
    m_locs : list loc;
    m_epoch : list (loc * nat)
  }.
  Definition mon0 : mon := mkMon [] [] [] [] [].

  Fixpoint assoc {A} (k : nat) (l : list (nat * A)) : option A :=
    match l with [] => None | (k', v) :: r => if Nat.eqb k k' then Some v else assoc k r end.
  Definition memb (k : nat) (l : list nat) : bool := existsb (Nat.eqb k) l.

  Definition mon_update (m : mon) (a : action) (p : sobs) : mon :=
    match a with
    | AStart l md => mkMon (m_cancel m) (m_out m) (m_modes m ++ [md]) (m_locs m ++ [l]) (m_epoch m)
    | AComplete r o =>
        if memb r (o_out p) then mkMon (m_cancel m) (m_out m ++ [(r, o)]) (m_modes m) (m_locs m) (m_epoch m)
        else m
    | ACancel t => mkMon (t :: m_cancel m) (m_out m) (m_modes m) (m_locs m) (m_epoch m)
    | AUncache l => mkMon (m_cancel m) (m_out m) (m_modes m) (m_locs m) ((l, length (o_log p)) :: m_epoch m)
    | AIter => m
    end.

  Definition epoch_start (m : mon) (l : loc) : nat := match assoc l (m_epoch m) with Some n => n | None => 0 end.
  Definition loc_of (m : mon) (t : tid) : loc := nth t (m_locs m) 0.

  Definition st (c : sobs) (t : tid) : status := nth t (o_status c) SPending.
  Definition is_pending (x : status) : bool := match x with SPending => true | _ => false end.
  Definition status_eqb (a b : status) : bool :=
    match a, b with
    | SPending, SPending | SCancelled, SCancelled => true
    | SRet v, SRet w => veqb v w
    | SExc x, SExc y => xeqb x y
    | _, _ => false
    end.
  (* t finished during this step *)
  Definition newly (p c : sobs) (t : tid) : bool := is_pending (st p t) && negb (is_pending (st c t)).
  Definition log_at (c : sobs) (k : rid) : loc * tid := nth k (o_log c) (0, 0).
  (* the request issued by t, if any *)
  Fixpoint find_req (t : tid) (k : nat) (lg : list (loc * tid)) : option rid :=
    match lg with
    | [] => None
    | (_, t') :: r => if Nat.eqb t t' then Some k else find_req t (S k) r
    end.
  Definition owner_req (c : sobs) (t : tid) : option rid := find_req t 0 (o_log c).
  Definition outcome_of (m : mon) (t : tid) (r : rid) : option O :=
    match nth t (m_modes m) MSuspend with
    | MImmediate o => Some o
    | MSuspend => assoc r (m_out m)
    end.
  Definition peek_at (c : sobs) (l : loc) : option V := nth l (o_peek c) None.
  Definition tids (c : sobs) : list tid := seq 0 (length (o_status c)).
  (* request indices that appeared during this step *)
  Definition new_reqs (p c : sobs) : list rid := seq (length (o_log p)) (length (o_log c) - length (o_log p)).

  (* a lookup of location l that issued a request finished in this step returning v *)
  Definition owner_returned (m : mon) (p c : sobs) (l : loc) (v : V) : bool :=
    existsb (fun t => newly p c t
                      && match st c t with SRet w => veqb v w | _ => false end
                      && match owner_req c t with Some r => Nat.eqb (fst (log_at c r)) l | None => false end)
            (tids c).

  (* ---- clause 1 ---------------------------------------------------------------------------------- *)
  Definition aborted (x : status) : bool := match x with SCancelled | SExc _ => true | _ => false end.
  Definition single_flight_step (m : mon) (p c : sobs) : bool :=
    forallb (fun k =>
               let l := fst (log_at c k) in
               forallb (fun k' => negb (Nat.eqb (fst (log_at c k')) l) || aborted (st c (snd (log_at c k'))))
                       (seq (epoch_start m l) (k - epoch_start m l)))
            (new_reqs p c).

  (* ---- clause 2 ---------------------------------------------------------------------------------- *)
  Definition shared_step (m : mon) (p c : sobs) : bool :=
    forallb (fun t =>
               negb (newly p c t) ||
               match st c t with
               | SRet v =>
                   match owner_req c t with
                   | Some r => match outcome_of m t r with
                               | Some o => match convert o with RVal w => veqb v w | RExc _ => false end
                               | None => false
                               end
                   | None => match peek_at p (loc_of m t) with Some w => veqb v w | None => false end
                             || owner_returned m p c (loc_of m t) v
                   end
               | _ => true
               end)
            (tids c).

  (* ---- clause 3 ---------------------------------------------------------------------------------- *)
  Definition is_uncache (a : action) (l : loc) : bool := match a with AUncache l' => Nat.eqb l l' | _ => false end.
  Definition cached_step (m : mon) (a : action) (p c : sobs) : bool :=
    forallb (fun l =>
               if is_uncache a l then match peek_at c l with None => true | Some _ => false end
               else match peek_at p l, peek_at c l with
                    | Some v, Some w => veqb v w || owner_returned m p c l w
                    | Some _, None => false
                    | None, Some w => owner_returned m p c l w
                    | None, None => true
                    end)
            (seq 0 (length (o_peek c)))
    && forallb (fun k => match peek_at p (fst (log_at c k)) with None => true | Some _ => false end) (new_reqs p c).

  (* ---- clause 4 ---------------------------------------------------------------------------------- *)
  Definition is_nil_rid (l : list rid) : bool := match l with [] => true | _ => false end.
  Definition no_deadlock_step (c : sobs) : bool :=
    negb (o_idle c && is_nil_rid (o_out c)) || forallb (fun x => negb (is_pending x)) (o_status c).
  Definition drained (final : list status) : bool := forallb (fun x => negb (is_pending x)) final.

  (* ---- clause 5 ---------------------------------------------------------------------------------- *)
  Fixpoint prefixb (a b : list (loc * tid)) : bool :=
    match a, b with
    | [], _ => true
    | (l, t) :: a', (l', t') :: b' => Nat.eqb l l' && Nat.eqb t t' && prefixb a' b'
    | _ :: _, [] => false
    end.
  Definition is_iter (a : action) : bool := match a with AIter => true | _ => false end.
  Definition clean_step (m : mon) (a : action) (p c : sobs) : bool :=
    negb (o_div c)
    && Nat.eqb (length (o_status c)) (length (m_modes m))
    && forallb (fun t => is_pending (st p t) || status_eqb (st p t) (st c t)) (tids c)
    && prefixb (o_log p) (o_log c)
    && forallb (fun k => (snd (log_at c k) <? length (o_status c))
                         && Nat.eqb (fst (log_at c k)) (loc_of m (snd (log_at c k)))) (new_reqs p c)
    && (is_iter a || (forallb (fun t => negb (newly p c t)) (tids c)
                      && Nat.eqb (length (o_log c)) (length (o_log p))))
    && forallb (fun t =>
                  negb (newly p c t) ||
                  match st c t with
                  | SCancelled => memb t (m_cancel m)
                  | SExc x => match owner_req c t with
                              | Some r => match outcome_of m t r with
                                          | Some o => match convert o with RExc y => xeqb x y | RVal _ => false end
                                          | None => false
                                          end
                              | None => false
                              end
                  | _ => true
                  end)
               (tids c).

  (* ---- the whole trace ---------------------------------------------------------------------------- *)
  Definition obs0 (nl : nat) : sobs := observe nl (init O V X).

  Definition clause_step (cl : nat) (m : mon) (a : action) (p c : sobs) : bool :=
    match cl with
    | 1 => single_flight_step m p c
    | 2 => shared_step m p c
    | 3 => cached_step m a p c
    | 4 => no_deadlock_step c
    | _ => clean_step m a p c
    end.

  (* the steps (numbered from 0) at which clause cl fails *)
  Fixpoint failing_steps (cl : nat) (j : nat) (m : mon) (p : sobs) (sched : list action) (tr : list sobs) : list nat :=
    match sched, tr with
    | a :: sched', c :: tr' =>
        let m' := mon_update m a p in
        (if clause_step cl m' a p c then [] else [j]) ++ failing_steps cl (S j) m' c sched' tr'
    | [], [] => []
    | _, _ => [j]          (* trace and schedule of different lengths *)
    end.

  Definition clause_fails (cl : nat) (i : input O) (ob : observation V X) : list nat :=
    failing_steps cl 0 mon0 (obs0 (nlocs (i_sched i))) (i_sched i) (ob_trace ob)
    ++ (if Nat.eqb cl 4 then if drained (ob_final ob) then [] else [length (i_sched i)] else []).
  Definition clause_ok (cl : nat) (i : input O) (ob : observation V X) : bool :=
    match clause_fails cl i ob with [] => true | _ => false end.

  (* every schedule is in the domain: actions that name a request / lookup that does not exist, or a request
     that is no longer outstanding, have no effect (the harness skips them the same way) *)
  Definition in_domain (i : input O) : bool := true.
End Spec.
