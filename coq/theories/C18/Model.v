(* C18 - the description cache on a small deterministic asyncio kernel.  Definitions only.

   KERNEL (CPython 3.12 asyncio, as far as this component exercises it)
     * a task is a coroutine with a program counter at one of its await sites:
         PStart            created by create_task, first __step scheduled, body not yet entered
         PFetch r e        suspended in `await fut` inside the requester (request r); owns marker event e
         PWait e w         suspended in `await fut` inside Event.wait() of event e; w = state of that future
         PDone st          finished (returned / raised / cancelled)
     * futures: the requester's future of request r (state r_state) and the waiter future of a task that
       sits in Event.wait (state kept in the task's pc, the event's _waiters deque holds the task ids);
       completing or cancelling a pending future schedules the awaiting task's wake-up (call_soon)
     * ready queue: FIFO of handles; each handle is "step / wake up task t"
     * one iteration (_run_once) runs exactly the handles that are ready when it starts
     * Task.cancel(): done -> no effect; awaiting a PENDING future -> that future is cancelled (and the
       wake-up scheduled); otherwise (not started, or the awaited future is already done) -> _must_cancel;
       __step with _must_cancel set, or waking up on a cancelled future, throws CancelledError into the
       coroutine at its await site
     * Event.set(): first call sets the flag and completes every still-pending waiter future in deque
       order; Event.wait(): returns at once when the flag is set, otherwise enqueues a new future and, on
       ANY exit from the await (result or CancelledError), removes it from the deque

   COMPONENT  description_cache.py: DescriptionCache.async_get_description_dict (with the D21/D22 repair of
   /verif/proposed/C18/D21.diff), uncache_description, peek_description_dict; async_get_description_xml and
   _async_fetch_description are folded into [convert] (see Doc.v): every requester result or exception is
   turned into "a value to cache" or "an exception that escapes the owner".

   The model is generic in the type O of download outcomes, V of cached values, X of escaping exception
   classes and in [convert]; Doc.v supplies the concrete instance. *)
From Coq Require Import List Bool Arith.
Import ListNotations.
Set Implicit Arguments.

Definition tid := nat.   (* tasks, in order of creation *)
Definition rid := nat.   (* requests, in the order the requester saw them *)
Definition eid := nat.   (* asyncio.Event objects, in order of creation *)
Definition loc := nat.   (* locations *)

Definition fupd {A} (f : nat -> A) (k : nat) (v : A) : nat -> A :=
  fun k' => if Nat.eqb k k' then v else f k'.

Inductive result (V X : Type) := RVal (v : V) | RExc (x : X).
Arguments RVal {V X} v.
Arguments RExc {V X} x.

Section Model.
  Variables O V X : Type.
  Variable convert : O -> result V X.

  (* how the (fake) requester answers a request issued by this task: suspend until an external
     AComplete, or answer on the spot without suspending (as the repository's own test requester does) *)
  Inductive mode := MSuspend | MImmediate (o : O).

  Inductive action :=
  | AStart (l : loc) (m : mode)      (* loop.create_task(cache.async_get_description_dict(l)) *)
  | AComplete (r : rid) (o : O)      (* the requester's future of request r gets a result / an exception *)
  | ACancel (t : tid)                (* task.cancel() *)
  | AUncache (l : loc)               (* cache.uncache_description(l) *)
  | AIter.                           (* loop._run_once() *)

  Inductive status := SPending | SRet (v : V) | SExc (x : X) | SCancelled.
  Inductive wstate := WPending | WDone | WCancelled.
  Inductive pc := PStart | PFetch (r : rid) (e : eid) | PWait (e : eid) (w : wstate) | PDone (st : status).

  Record task := mkTask { t_loc : loc; t_mode : mode; t_pc : pc; t_must : bool }.
  Inductive rstate := RPending | RDone (o : O) | RCancelled.
  Record req := mkReq { r_loc : loc; r_task : tid; r_state : rstate }.
  Record event := mkEvent { e_set : bool; e_waiters : list tid }.
  Inductive centry := CAbsent | CMarker (e : eid) | CValue (v : V).

  Record state := mkState {
    tasks : nat -> task; ntasks : nat;
    reqs : nat -> req; nreqs : nat;
    events : nat -> event; nevents : nat;
    cache : loc -> centry;
    ready : list tid;
    diverged : bool   (* a section ran forever without yielding (never happens: Invariants.v) *)
  }.

  Definition dummy_task := mkTask 0 MSuspend (PDone SCancelled) false.
  Definition init : state :=
    mkState (fun _ => dummy_task) 0 (fun _ => mkReq 0 0 RCancelled) 0 (fun _ => mkEvent true []) 0
            (fun _ => CAbsent) [] false.

  (* ---- field updates ---------------------------------------------------------------------------- *)
  Definition with_tasks (s : state) f :=
    mkState f (ntasks s) (reqs s) (nreqs s) (events s) (nevents s) (cache s) (ready s) (diverged s).
  Definition with_reqs (s : state) f :=
    mkState (tasks s) (ntasks s) f (nreqs s) (events s) (nevents s) (cache s) (ready s) (diverged s).
  Definition with_events (s : state) f :=
    mkState (tasks s) (ntasks s) (reqs s) (nreqs s) f (nevents s) (cache s) (ready s) (diverged s).
  Definition with_cache (s : state) f :=
    mkState (tasks s) (ntasks s) (reqs s) (nreqs s) (events s) (nevents s) f (ready s) (diverged s).
  Definition with_ready (s : state) q :=
    mkState (tasks s) (ntasks s) (reqs s) (nreqs s) (events s) (nevents s) (cache s) q (diverged s).
  Definition set_diverged (s : state) :=
    mkState (tasks s) (ntasks s) (reqs s) (nreqs s) (events s) (nevents s) (cache s) (ready s) true.

  Definition set_pc (s : state) (t : tid) (p : pc) : state :=
    let k := tasks s t in with_tasks s (fupd (tasks s) t (mkTask (t_loc k) (t_mode k) p (t_must k))).
  Definition set_must (s : state) (t : tid) : state :=
    let k := tasks s t in with_tasks s (fupd (tasks s) t (mkTask (t_loc k) (t_mode k) (t_pc k) true)).
  (* the coroutine ends: result / exception / cancelled stored in the task, _must_cancel cleared *)
  Definition finish (s : state) (t : tid) (st : status) : state :=
    let k := tasks s t in with_tasks s (fupd (tasks s) t (mkTask (t_loc k) (t_mode k) (PDone st) false)).
  Definition set_rstate (s : state) (r : rid) (x : rstate) : state :=
    let q := reqs s r in with_reqs s (fupd (reqs s) r (mkReq (r_loc q) (r_task q) x)).
  Definition set_cache (s : state) (l : loc) (c : centry) : state := with_cache s (fupd (cache s) l c).
  Definition enqueue (s : state) (t : tid) : state := with_ready s (ready s ++ [t]).   (* call_soon *)

  (* ---- asyncio.Event ------------------------------------------------------------------------------ *)
  (* the waiter future of task t for event e is pending  <->  t sits at PWait e WPending *)
  Definition wakes (s : state) (e : eid) (t : tid) : bool :=
    match t_pc (tasks s t) with PWait e' WPending => Nat.eqb e' e | _ => false end.
  Definition wake (e : eid) (s : state) (t : tid) : state :=   (* `if not fut.done(): fut.set_result(True)` *)
    if wakes s e t then enqueue (set_pc s t (PWait e WDone)) t else s.
  Definition event_set (s : state) (e : eid) : state :=
    let ev := events s e in
    if e_set ev then s
    else fold_left (wake e) (e_waiters ev) (with_events s (fupd (events s) e (mkEvent true (e_waiters ev)))).
  Definition add_waiter (s : state) (e : eid) (t : tid) : state :=
    let ev := events s e in with_events s (fupd (events s) e (mkEvent (e_set ev) (e_waiters ev ++ [t]))).
  Fixpoint remove1 (t : tid) (l : list tid) : list tid :=       (* deque.remove *)
    match l with [] => [] | x :: r => if Nat.eqb t x then r else x :: remove1 t r end.
  Definition remove_waiter (s : state) (e : eid) (t : tid) : state :=
    let ev := events s e in with_events s (fupd (events s) e (mkEvent (e_set ev) (remove1 t (e_waiters ev)))).

  (* ---- async_get_description_dict --------------------------------------------------------------- *)
  (* finally: if self._cache_dict.get(location) is evt: del self._cache_dict[location]
              evt.set() *)
  Definition release (s : state) (l : loc) (e : eid) : state :=
    event_set (match cache s l with
               | CMarker e' => if Nat.eqb e' e then set_cache s l CAbsent else s
               | _ => s
               end) e.

  (* the owner resumes with the requester's answer: try / except / else / finally, then return.  The value
     returned is the one stored two statements earlier (no await in between). *)
  Definition owner_finish (s : state) (t : tid) (e : eid) (o : O) : state :=
    let l := t_loc (tasks s t) in
    match convert o with
    | RVal v => finish (release (set_cache s l (CValue v)) l e) t (SRet v)
    | RExc x => finish (release s l e) t (SExc x)
    end.

  (* evt = self._cache_dict[location] = asyncio.Event(); ... await self._requester.async_http_request(...):
     the requester sees the request; its future is pending (the task suspends) or, for a requester that answers
     without suspending, already resolved *)
  Definition issue (s : state) (t : tid) (x : rstate) : state :=
    let l := t_loc (tasks s t) in
    let k := tasks s t in
    mkState (fupd (tasks s) t (mkTask (t_loc k) (t_mode k) (PFetch (nreqs s) (nevents s)) (t_must k))) (ntasks s)
            (fupd (reqs s) (nreqs s) (mkReq l t x)) (S (nreqs s))
            (fupd (events s) (nevents s) (mkEvent false [])) (S (nevents s))
            (fupd (cache s) l (CMarker (nevents s))) (ready s) (diverged s).

  (* `cache_dict_or_evt = self._cache_dict.get(location, _UNDEF)` and what follows, up to the next
     suspension or the end of the coroutine *)
  Definition lookup (s : state) (t : tid) : state :=
    let l := t_loc (tasks s t) in
    match cache s l with
    | CValue v => finish s t (SRet v)
    | CMarker e =>
        if e_set (events s e) then set_diverged s     (* wait() returns at once, the loop spins *)
        else set_pc (add_waiter s e t) t (PWait e WPending)
    | CAbsent =>
        match t_mode (tasks s t) with
        | MSuspend => issue s t RPending
        | MImmediate o => owner_finish (issue s t (RDone o)) t (nevents s) o
        end
    end.

  (* CancelledError thrown into the coroutine at its current await site *)
  Definition throw_cancel (s : state) (t : tid) : state :=
    match t_pc (tasks s t) with
    | PStart => finish s t SCancelled                       (* coro.throw on an unstarted coroutine *)
    | PFetch _ e => finish (release s (t_loc (tasks s t)) e) t SCancelled
    | PWait e _ => finish (remove_waiter s e t) t SCancelled  (* Event.wait's finally *)
    | PDone _ => s
    end.

  (* one handle: Task.__step / Task.__wakeup *)
  Definition run_handle (s : state) (t : tid) : state :=
    let k := tasks s t in
    match t_pc k with
    | PDone _ => s
    | PStart => if t_must k then throw_cancel s t else lookup s t
    | PFetch r e =>
        match r_state (reqs s r) with
        | RPending => s
        | RCancelled => throw_cancel s t
        | RDone o => if t_must k then throw_cancel s t else owner_finish s t e o
        end
    | PWait e w =>
        match w with
        | WPending => s
        | WCancelled => throw_cancel s t
        | WDone => if t_must k then throw_cancel s t else lookup (remove_waiter s e t) t
        end
    end.

  Definition iterate (s : state) : state := fold_left run_handle (ready s) (with_ready s []).

  Definition cancel (s : state) (t : tid) : state :=
    if t <? ntasks s then
      match t_pc (tasks s t) with
      | PDone _ => s
      | PStart => set_must s t
      | PFetch r _ =>
          match r_state (reqs s r) with
          | RPending => enqueue (set_rstate s r RCancelled) t
          | _ => set_must s t
          end
      | PWait e WPending => enqueue (set_pc s t (PWait e WCancelled)) t
      | PWait _ _ => set_must s t
      end
    else s.

  Definition complete (s : state) (r : rid) (o : O) : state :=
    if r <? nreqs s then
      match r_state (reqs s r) with
      | RPending => enqueue (set_rstate s r (RDone o)) (r_task (reqs s r))
      | _ => s                                           (* the harness skips futures that are done *)
      end
    else s.

  Definition start (s : state) (l : loc) (m : mode) : state :=
    let t := ntasks s in
    mkState (fupd (tasks s) t (mkTask l m PStart false)) (S t) (reqs s) (nreqs s) (events s) (nevents s)
            (cache s) (ready s ++ [t]) (diverged s).

  Definition step (s : state) (a : action) : state :=
    match a with
    | AStart l m => start s l m
    | AComplete r o => complete s r o
    | ACancel t => cancel s t
    | AUncache l => set_cache s l CAbsent
    | AIter => iterate s
    end.

  Definition run_from (s : state) (sched : list action) : state := fold_left step sched s.
  Definition run (sched : list action) : state := run_from init sched.

  (* ---- what the harness observes between two loop iterations --------------------------------------- *)
  Definition status_of (k : task) : status := match t_pc k with PDone st => st | _ => SPending end.
  Definition is_rpending (x : rstate) : bool := match x with RPending => true | _ => false end.
  Definition peek (s : state) (l : loc) : option V :=           (* peek_description_dict: (True, v) *)
    match cache s l with CValue v => Some v | _ => None end.

  Record sobs := mkObs {
    o_status : list status;          (* per task *)
    o_log : list (loc * tid);        (* requests seen by the requester: location, issuing task *)
    o_out : list rid;                (* requests whose future is still pending *)
    o_peek : list (option V);        (* per location *)
    o_idle : bool;                   (* loop._ready is empty *)
    o_div : bool
  }.

  Definition outstanding (s : state) : list rid :=
    filter (fun r => is_rpending (r_state (reqs s r))) (seq 0 (nreqs s)).
  Definition statuses (s : state) : list status := map (fun t => status_of (tasks s t)) (seq 0 (ntasks s)).
  Definition log (s : state) : list (loc * tid) :=
    map (fun r => (r_loc (reqs s r), r_task (reqs s r))) (seq 0 (nreqs s)).
  Definition observe (nl : nat) (s : state) : sobs :=
    mkObs (statuses s) (log s) (outstanding s) (map (peek s) (seq 0 nl))
          (match ready s with [] => true | _ => false end) (diverged s).

  Fixpoint trace_from (nl : nat) (s : state) (sched : list action) : list sobs :=
    match sched with
    | [] => []
    | a :: r => let s' := step s a in observe nl s' :: trace_from nl s' r
    end.

  (* ---- draining: "once the outstanding downloads complete" ---------------------------------------- *)
  Definition quiescent (s : state) : bool :=
    match ready s, outstanding s with [], [] => true | _, _ => false end.
  Definition round (od : O) (s : state) : state :=
    iterate (fold_left (fun s r => complete s r od) (outstanding s) s).
  Fixpoint drain (od : O) (n : nat) (s : state) : state :=
    match n with
    | 0 => s
    | S n' => if quiescent s then s else drain od n' (round od s)
    end.
  Definition drain_fuel (s : state) : nat := 2 * ntasks s + 2.

  Definition action_loc (a : action) : nat :=
    match a with AStart l _ | AUncache l => S l | _ => 0 end.
  Definition nlocs (sched : list action) : nat := fold_right (fun a n => Nat.max (action_loc a) n) 0 sched.

  Record input := mkInput { i_sched : list action; i_drain : O }.
  Record observation := mkObservation { ob_trace : list sobs; ob_final : list status }.

  Definition model_run (i : input) : observation :=
    let s := run (i_sched i) in
    mkObservation (trace_from (nlocs (i_sched i)) init (i_sched i))
                  (statuses (drain (i_drain i) (drain_fuel s) s)).
End Model.

Arguments MSuspend {O}.
Arguments AIter {O}.
Arguments ACancel {O} t.
Arguments AUncache {O} l.
Arguments SPending {V X}.
Arguments SCancelled {V X}.
Arguments SRet {V X} v.
Arguments SExc {V X} x.
Arguments CAbsent {V}.
Arguments CMarker {V} e.
Arguments RPending {O}.
Arguments RCancelled {O}.
Arguments PStart {V X}.
Arguments PFetch {V X} r e.
Arguments PWait {V X} e w.
