(* C10 — a concrete history inside the domain (used by the non-vacuity Examples of Properties.v). *)
From Coq Require Import List Bool NArith ZArith.
From AUC Require Import Prelude.PyStr Prelude.PyDict C08.TypesDef C08.Model C08.Spec Gen.Types
  C10.Model C10.Spec.
Import ListNotations.
Local Open Scope N_scope.

Definition x_Volume : pystr := [86;111;108;117;109;101].
Definition x_Mute : pystr := [77;117;116;101].
Definition x_When : pystr := [87;104;101;110].
Definition x_Nope : pystr := [78;111;112;101].
Definition x_ns_Mute : pystr := [123;117;114;110;58;120;125;77;117;116;101].     (* "{urn:x}Mute" *)
Definition x_ui2 : pystr := [117;105;50].
Definition x_boolean : pystr := [98;111;111;108;101;97;110].
Definition x_dateTime : pystr := [100;97;116;101;84;105;109;101].
Definition x_sid_a : pystr := [117;117;105;100;58;97].
Definition x_sid_b : pystr := [117;117;105;100;58;98].
Definition x_sid_zz : pystr := [117;117;105;100;58;122;122].

(* service 0 (strict, with callback): Volume ui2 in 0..100, Mute boolean, When dateTime;
   service 1 (strict, with callback): Volume ui2 *)
Definition ex_defs : list svc_def :=
  [ mkSvcDef true true [ mkVarDef x_Volume x_ui2 [] true (Some [48]) (Some [49;48;48]);
                         mkVarDef x_Mute x_boolean [] false None None;
                         mkVarDef x_When x_dateTime [] false None None ];
    mkSvcDef true true [ mkVarDef x_Volume x_ui2 [] false None None ] ].
Definition ex_routes : list (pystr * nat) := [(x_sid_a, 0%nat); (x_sid_b, 1%nat)].
Definition ex_hdr (sid : pystr) : list (pystr * pystr) :=
  [(s_NT, s_upnp_event); (s_NTS, s_upnp_propchange); (s_SID, sid)].
Definition ex_events : list notify :=
  [ (* Volume=50, {urn:x}Mute=yes, Nope=1 -> service 0 *)
    mkNotify HPlain (ex_hdr x_sid_a)
      (BTree [CProperty [(x_Volume, Some [53;48])];
              CProperty [(x_ns_Mute, Some [121;101;115]); (x_Nope, Some [49])]]);
    (* lower-case header names in a CIMultiDict; Volume=101 (out of range), When="12:3" (not a
       dateTime), <Mute/> -> service 0 *)
    mkNotify HCI [([110;116], s_upnp_event); ([78;116;115], s_upnp_propchange); ([115;105;100], x_sid_a)]
      (BTree [CProperty [(x_Volume, Some [49;48;49])]; COther;
              CProperty [(x_When, Some [49;50;58;51])]; CProperty [(x_Mute, None)]]);
    (* Volume=7 -> service 1 *)
    mkNotify HPlain (ex_hdr x_sid_b) (BTree [CProperty [(x_Volume, Some [55])]]);
    (* unrouted SID *)
    mkNotify HPlain (ex_hdr x_sid_zz) (BTree [CProperty [(x_Volume, Some [49])]]);
    (* NTS missing; NTS wrong *)
    mkNotify HPlain [(s_NT, s_upnp_event); (s_SID, x_sid_a)] (BTree [CProperty [(x_Volume, Some [49])]]);
    mkNotify HPlain [(s_NT, s_upnp_event); (s_NTS, [120]); (s_SID, x_sid_a)] (BTree []) ].
Definition ex_input : input := mkInput ex_defs ex_routes ex_events.

Definition no_float (_ : pystr) : option fl := None.
Definition id_lower (c : N) : N := c.

Definition ex_v (vol : option Z) (mute : option bool) : list oval :=
  [ match vol with Some z => VInt z | None => VNone end;
    match mute with Some b => VBool b | None => VNone end;
    VNone ].
Definition ex_expected : observation :=
  Obs [ex_v None None; [VNone]]
    [ (* 200; Volume and Mute stored (the namespace-qualified name reaches Mute), Nope skipped; one call *)
      mkStep (Status 200) [ex_v (Some 50%Z) (Some true); [VNone]]
             [[[(x_Volume, VInt 50); (x_Mute, VBool true)]]; []];
      (* 200; 101 is refused and 50 stays, When reads back absent, Mute = "" -> False;
         one call listing When and Mute but not Volume *)
      mkStep (Status 200) [ex_v (Some 50%Z) (Some false); [VNone]]
             [[[(x_When, VNone); (x_Mute, VBool false)]]; []];
      (* 200; only service 1 changes *)
      mkStep (Status 200) [ex_v (Some 50%Z) (Some false); [VInt 7]]
             [[]; [[(x_Volume, VInt 7)]]];
      (* unrouted SID: 200, nothing touched *)
      mkStep (Status 200) [ex_v (Some 50%Z) (Some false); [VInt 7]] [[]; []];
      mkStep (Status 400) [ex_v (Some 50%Z) (Some false); [VInt 7]] [[]; []];
      mkStep (Status 412) [ex_v (Some 50%Z) (Some false); [VInt 7]] [[]; []] ].

Lemma ex_runs :
  in_domain no_float id_lower ex_input = true /\ model_run no_float id_lower ex_input = ex_expected.
Proof. vm_compute. split; reflexivity. Qed.
