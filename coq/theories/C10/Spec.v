(* C10 — specification.  The property restated over what a caller can observe: the returned status,
   the values of all state variables of all services, and the on_event calls, after every NOTIFY of a
   history.  The clauses are executable booleans over (input, observation), so the same definitions
   judge the model (in the theorems) and the implementation's observations (in the correspondence
   check).  Conversion and acceptance are C08's notions: apply_in (the type's in-coercer over the
   generated tables) and spec_accepts (declared type, time zone, allowed list, range). *)
From Coq Require Import List Bool NArith ZArith Arith.
From AUC Require Import Prelude.PyStr Prelude.PyDict C08.TypesDef C08.Model C08.Spec Gen.Types C10.Model.
Import ListNotations.
Local Open Scope N_scope.

(* ------------------------------------------------------------------ decidable equalities *)
Definition fl_eqb (a b : fl) : bool :=
  match a, b with
  | FFin m1 e1, FFin m2 e2 => (m1 =? m2)%Z && (e1 =? e2)%Z
  | FInf x, FInf y => Bool.eqb x y
  | FNan, FNan => true
  | _, _ => false
  end.
Definition otz_eqb (a b : option Z) : bool :=
  match a, b with Some x, Some y => (x =? y)%Z | None, None => true | _, _ => false end.
Definition date_eqb (a b : pdate) := (dy a =? dy b) && (dm a =? dm b) && (dd a =? dd b).
Definition time_eqb (a b : ptime) :=
  (th a =? th b) && (tmi a =? tmi b) && (ts a =? ts b) && otz_eqb (ttz a) (ttz b).
Definition val_eqb (a b : pyval) : bool :=
  match a, b with
  | VInt x, VInt y => (x =? y)%Z
  | VBool x, VBool y => Bool.eqb x y
  | VFloat x, VFloat y => fl_eqb x y
  | VStr x, VStr y => str_eqb x y
  | VDate x, VDate y => date_eqb x y
  | VTime x, VTime y => time_eqb x y
  | VDateTime d1 t1, VDateTime d2 t2 => date_eqb d1 d2 && time_eqb t1 t2
  | VNone, VNone => true
  | _, _ => false
  end.
Definition oval_eqb (a b : oval) : bool := val_eqb a b.
Fixpoint list_eqb {A} (eqb : A -> A -> bool) (a b : list A) : bool :=
  match a, b with
  | [], [] => true
  | x :: a', y :: b' => eqb x y && list_eqb eqb a' b'
  | _, _ => false
  end.
Definition exn_eqb (a b : exn) : bool :=
  match a, b with
  | ValueError, ValueError | TypeError, TypeError | AttributeError, AttributeError
  | UpnpValueError, UpnpValueError | IndexError, IndexError | OtherError, OtherError => true
  | _, _ => false
  end.
Definition nexn_eqb (a b : nexn) : bool :=
  match a, b with
  | XmlError, XmlError | KeyError, KeyError => true
  | Escaped x, Escaped y => exn_eqb x y
  | _, _ => false
  end.
Definition result_eqb (a b : result) : bool :=
  match a, b with
  | Status x, Status y => x =? y
  | Raised x, Raised y => nexn_eqb x y
  | _, _ => false
  end.
Definition mem (x : pystr) (l : list pystr) : bool := existsb (str_eqb x) l.
(* the same set of names *)
Definition set_eqb (a b : list pystr) : bool :=
  forallb (fun x => mem x b) a && forallb (fun x => mem x a) b.
Fixpoint nodupb (l : list pystr) : bool :=
  match l with
  | [] => true
  | x :: r => negb (mem x r) && nodupb r
  end.
Definition is_some {A} (o : option A) : bool := match o with Some _ => true | None => false end.
Definition is_nil {A} (l : list A) : bool := match l with [] => true | _ => false end.

(* ------------------------------------------------------------------ names *)
(* Reading "namespace-qualified names included": an element tag as ElementTree reports it is either a
   local name, or "{" namespace "}" local-name; neither part contains "}" (an XML name cannot; expat
   refuses a namespace name that does).  A property names the state variable called like its local
   name, whatever its namespace. *)
Definition tag_local (tag : pystr) : option pystr :=
  match tag with
  | c :: r =>
      if c =? c_lbrace then
        match after_char c_rbrace r with
        | Some l => if has_rbrace l then None else Some l
        | None => None
        end
      else if has_rbrace tag then None else Some tag
  | [] => Some []
  end.
Definition names_var (tag x : pystr) : bool :=
  match tag_local tag with Some l => str_eqb l x | None => false end.

(* the properties of an event body in document order: (tag, text) of every child of every
   e:property child of the root; an element without text carries "" *)
Definition entries (cs : list child) : list (pystr * pystr) :=
  flat_map (fun c => match c with
                     | CProperty vars => map (fun tv => (fst tv, text_or_empty (snd tv))) vars
                     | COther => []
                     end) cs.

Section Spec.
  Variable float_of_str : pystr -> option fl.
  Variable lower_ext : N -> N.

  (* ---------------------------------------------------------------- clause 1: status selection *)
  (* missing NT or NTS: 400; wrong NT / NTS or a missing SID: 412; everything else: 200 *)
  Definition spec_status (n : notify) : N :=
    match hget lower_ext n s_NT, hget lower_ext n s_NTS with
    | Some nt, Some nts =>
        if str_eqb nt s_upnp_event && str_eqb nts s_upnp_propchange && is_some (hget lower_ext n s_SID)
        then 200 else 412
    | _, _ => 400
    end.

  (* the service a request is delivered to: status 200 and the SID is routed *)
  Definition spec_target (routes : list (pystr * nat)) (nsvc : nat) (n : notify) : option nat :=
    if spec_status n =? 200 then
      match hget lower_ext n s_SID with
      | Some sid =>
          match dget str_eqb routes sid with
          | Some k => if (k <? nsvc)%nat then Some k else None
          | None => None
          end
      | None => None
      end
    else None.

  (* ---------------------------------------------------------------- what a service declares *)
  Definition var_decl (strict : bool) (vd : var_def) : option decl :=
    match mk_var float_of_str lower_ext strict vd with Ok v => Some (sv_decl v) | Raise _ => None end.
  Definition svc_decls (sd : svc_def) : list (pystr * decl) :=
    flat_map (fun vd => match var_decl (sd_strict sd) vd with
                        | Some d => [(vd_name vd, d)]
                        | None => []
                        end) (sd_vars sd).

  (* ---------------------------------------------------------------- clause 2: applied completely *)
  (* one property delivered to a variable: converted and stored; not convertible: reads back as
     absent; converted but outside what is declared: the old value stays *)
  Definition spec_set (d : decl) (old : oval) (w : pystr) : oval :=
    match apply_in float_of_str lower_ext (r_in (d_row d)) w with
    | Ok v => if spec_accepts d v then v else old
    | Raise _ => VNone
    end.
  (* the variable's value after an event: every property naming it, in document order, and nothing
     else (unknown names, other variables' failures) has any influence *)
  Definition spec_value (x : pystr) (d : decl) (old : oval) (es : list (pystr * pystr)) : oval :=
    fold_left (fun st e => if names_var (fst e) x then spec_set d st (snd e) else st) es old.
  Fixpoint expect_values (decls : list (pystr * decl)) (old : list oval) (es : list (pystr * pystr))
    : option (list oval) :=
    match decls, old with
    | [], [] => Some []
    | (x, d) :: decls', o :: old' =>
        match expect_values decls' old' es with
        | Some r => Some (spec_value x d o es :: r)
        | None => None
        end
    | _, _ => None
    end.

  (* ---------------------------------------------------------------- clause 3: callback once, exact *)
  (* a property replaces the stored value unless it converts to something the declaration refuses *)
  Definition spec_replaced (d : decl) (w : pystr) : bool :=
    match apply_in float_of_str lower_ext (r_in (d_row d)) w with
    | Ok v => spec_accepts d v
    | Raise _ => true
    end.
  Definition spec_changed (decls : list (pystr * decl)) (es : list (pystr * pystr)) : list pystr :=
    flat_map (fun e => match tag_local (fst e) with
                       | Some l => match dget str_eqb decls l with
                                   | Some d => if spec_replaced d (snd e) then [l] else []
                                   | None => []
                                   end
                       | None => []
                       end) es.
  Fixpoint lookup_val (x : pystr) (names : list pystr) (vals : list oval) : option oval :=
    match names, vals with
    | n :: names', v :: vals' => if str_eqb n x then Some v else lookup_val x names' vals'
    | _, _ => None
    end.

  (* ---------------------------------------------------------------- the four clauses, per step *)
  Section Step.
    Variable defs : list svc_def.
    Variable routes : list (pystr * nat).
    Variable n : notify.
    Variable prev : list (list oval).          (* values before the request *)
    Variable ob : step_obs.                    (* what was observed after it *)

    Definition target : option nat := spec_target routes (length defs) n.

    Definition c_status : bool := result_eqb (o_result ob) (Status (spec_status n)).

    Definition c_applied : bool :=
      match target, n_body n with
      | Some k, BTree cs =>
          match nth_error defs k, nth_error prev k, nth_error (o_values ob) k with
          | Some sd, Some old, Some new =>
              match expect_values (svc_decls sd) old (entries cs) with
              | Some e => list_eqb oval_eqb new e
              | None => false
              end
          | _, _, _ => false
          end
      | _, _ => true
      end.

    (* exactly one call, listing (as a set) exactly the replaced variables, which at that moment
       already hold the values observed after the request; no callback set: nothing to call *)
    Definition c_callback : bool :=
      match target, n_body n with
      | Some k, BTree cs =>
          match nth_error defs k, nth_error (o_calls ob) k, nth_error (o_values ob) k with
          | Some sd, Some calls, Some new =>
              if sd_callback sd then
                match calls with
                | [c] =>
                    set_eqb (map fst c) (spec_changed (svc_decls sd) (entries cs)) &&
                    forallb (fun p => match lookup_val (fst p) (map fst (svc_decls sd)) new with
                                      | Some v => oval_eqb (snd p) v
                                      | None => false
                                      end) c
                | _ => false
                end
              else is_nil calls
          | _, _, _ => false
          end
      | _, _ => true
      end.

    (* every service but the target keeps all its values and sees no call *)
    Fixpoint iso (j : nat) (tgt : option nat) (prev vals : list (list oval))
             (calls : list (list (list (pystr * oval)))) : bool :=
      match prev, vals, calls with
      | [], [], [] => true
      | p :: prev', v :: vals', c :: calls' =>
          (if match tgt with Some k => Nat.eqb k j | None => false end then true
           else list_eqb oval_eqb v p && is_nil c)
          && iso (S j) tgt prev' vals' calls'
      | _, _, _ => false
      end.
    Definition c_isolation : bool :=
      Nat.eqb (length prev) (length defs) && iso 0 target prev (o_values ob) (o_calls ob).
  End Step.

  (* ---------------------------------------------------------------- whole histories *)
  Definition clause := list svc_def -> list (pystr * nat) -> notify -> list (list oval) -> step_obs -> bool.
  Definition cl_status : clause := fun _ _ n _ ob => c_status n ob.
  Definition cl_applied : clause := fun defs routes n prev ob => c_applied defs routes n prev ob.
  Definition cl_callback : clause := fun defs routes n _ ob => c_callback defs routes n ob.
  Definition cl_isolation : clause := fun defs routes n prev ob => c_isolation defs routes n prev ob.
  (* index of the first step at which the clause fails *)
  Fixpoint first_fail (c : clause) (defs : list svc_def) (routes : list (pystr * nat))
           (evs : list notify) (prev : list (list oval)) (steps : list step_obs) (idx : N) : option N :=
    match evs, steps with
    | [], [] => None
    | n :: evs', ob :: steps' =>
        if c defs routes n prev ob then first_fail c defs routes evs' (o_values ob) steps' (N.succ idx)
        else Some idx
    | _, _ => Some idx
    end.
  Definition clause_fails (c : clause) (i : input) (ob : observation) : option N :=
    match ob with
    | ObsSetupFailed => Some 0
    | Obs init steps => first_fail c (i_defs i) (i_routes i) (i_events i) init steps 0
    end.

  (* ---------------------------------------------------------------- the domain of the statement *)
  (* services that can be created, with distinct variable names free of "}" *)
  Definition svc_ok (sd : svc_def) : bool :=
    forallb (fun vd => is_some (var_decl (sd_strict sd) vd)) (sd_vars sd)
    && nodupb (map vd_name (sd_vars sd))
    && forallb (fun vd => negb (has_rbrace (vd_name vd))) (sd_vars sd).
  (* "a well-formed property set": the body parses, every tag has the shape ElementTree gives it, and
     no tag occurs twice in one event (UDA: one e:property per evented variable) *)
  Definition event_ok (n : notify) : bool :=
    match n_body n with
    | BTree cs =>
        forallb (fun e => is_some (tag_local (fst e))) (entries cs) && nodupb (map fst (entries cs))
    | BBad => false
    end.
  Definition in_domain (i : input) : bool :=
    forallb svc_ok (i_defs i) && nodupb (map fst (i_routes i)) && forallb event_ok (i_events i).
End Spec.
