(* C10 — NOTIFY requests are routed by SID and applied completely.  Property theorems only. *)
From Coq Require Import List Bool NArith ZArith.
From AUC Require Import Prelude.PyStr Prelude.PyDict C08.TypesDef C08.Model C08.Spec Gen.Types Gen.DateMatchers
  C10.Model C10.Spec C10.Lemmas C10.Apply C10.Proofs C10.SpecFacts C10.Examples.
Import ListNotations.
Local Open Scope N_scope.

(* Quantification shared by the four property theorems: every float() and every str.lower() outside
   ASCII (parameters, no law assumed); every input i = (service declarations, SID routing table,
   history of NOTIFY requests of any length) with [in_domain i]: 1..n services the factory can create
   (any of the generated data types, allowed lists, ranges, strict or not, with or without on_event)
   whose variable names are distinct and free of "}", distinct routed SIDs, and requests with ANY
   header list in either mapping kind and a body that parses, whose tags have ElementTree's shape and
   are not repeated within one event.  [clause_fails c i ob = None] says clause c holds at every step
   of the history, each step judged against the values observed after the previous one;
   [model_run] is the executable model of handle_notify / notify_changed_state_variables. *)

(* Clause 1.  Every request is answered, never by an exception: 400 iff NT or NTS is missing, else
   412 iff NT <> "upnp:event" or NTS <> "upnp:propchange" or SID is missing, else 200 (routed or not). *)
Theorem C10_status_selection :
  forall (float_of_str : pystr -> option fl) (lower_ext : N -> N) (i : input),
    in_domain float_of_str lower_ext i = true ->
    clause_fails (cl_status lower_ext) i (model_run float_of_str lower_ext i) = None.
Proof. exact status_selection. Qed.
Print Assumptions C10_status_selection.

(* Clause 2.  When the status is 200 and the SID is routed to service k, every variable x of k ends
   with [spec_value x]: the fold, in document order, of [spec_set] over exactly the properties whose
   local name is x (namespace-qualified or not) - converted and accepted: stored; not convertible:
   reads back as absent; converted but refused by the declaration: the old value - so unknown
   names and the fate of the other properties have no influence on x. *)
Theorem C10_applied_completely :
  forall (float_of_str : pystr -> option fl) (lower_ext : N -> N) (i : input),
    in_domain float_of_str lower_ext i = true ->
    clause_fails (cl_applied float_of_str lower_ext) i (model_run float_of_str lower_ext i) = None.
Proof. exact applied_completely. Qed.
Print Assumptions C10_applied_completely.

(* Clause 3.  In that case the service's on_event (if set) is called exactly once; the variables it
   lists are, as a set, exactly those some property replaced (a value was stored, or the text could not be converted and the
   variable now reads absent; not the refused ones), and at the time of the call they already hold their final values.  Without on_event
   nothing is called. *)
Theorem C10_callback_once_exact :
  forall (float_of_str : pystr -> option fl) (lower_ext : N -> N) (i : input),
    in_domain float_of_str lower_ext i = true ->
    clause_fails (cl_callback float_of_str lower_ext) i (model_run float_of_str lower_ext i) = None.
Proof. exact callback_once_exact. Qed.
Print Assumptions C10_callback_once_exact.

(* Clause 4.  Every service other than the one the request is delivered to - every service, when the
   status is not 200 or the SID is not routed - keeps all its values and sees no callback. *)
Theorem C10_isolation :
  forall (float_of_str : pystr -> option fl) (lower_ext : N -> N) (i : input),
    in_domain float_of_str lower_ext i = true ->
    clause_fails (cl_isolation lower_ext) i (model_run float_of_str lower_ext i) = None.
Proof. exact isolation. Qed.
Print Assumptions C10_isolation.

(* What clause 2's [spec_value] means for one variable: not named by any property - unchanged ... *)
Theorem C10_unnamed_unchanged :
  forall (float_of_str : pystr -> option fl) (lower_ext : N -> N) x d es old,
    (forall e, In e es -> names_var (fst e) x = false) ->
    spec_value float_of_str lower_ext x d old es = old.
Proof. exact spec_value_unnamed. Qed.
Print Assumptions C10_unnamed_unchanged.

(* ... named by exactly one property (tag, w), wherever it stands among the others: the result of
   that one assignment ... *)
Theorem C10_named_once :
  forall (float_of_str : pystr -> option fl) (lower_ext : N -> N) x d old es1 tag w es2,
    names_var tag x = true ->
    (forall e, In e (es1 ++ es2) -> names_var (fst e) x = false) ->
    spec_value float_of_str lower_ext x d old (es1 ++ (tag, w) :: es2) = spec_set float_of_str lower_ext d old w.
Proof. exact spec_value_once. Qed.
Print Assumptions C10_named_once.

(* ... which is, in C08's terms (the type's in-coercer; declared type, time zone, allowed list, range): *)
Theorem C10_assignment_cases :
  forall (float_of_str : pystr -> option fl) (lower_ext : N -> N) d old w,
    match apply_in float_of_str lower_ext (r_in (d_row d)) w with
    | Ok v => if spec_accepts d v then spec_set float_of_str lower_ext d old w = v
              else spec_set float_of_str lower_ext d old w = old
    | Raise _ => spec_set float_of_str lower_ext d old w = VNone
    end.
Proof. exact spec_set_cases. Qed.
Print Assumptions C10_assignment_cases.

(* "namespace-qualified names included": "{ns}x" names the variable x for every namespace ns *)
Theorem C10_qualified_names :
  forall ns x, has_rbrace ns = false -> has_rbrace x = false ->
    tag_local (c_lbrace :: ns ++ c_rbrace :: x) = Some x /\ names_var (c_lbrace :: ns ++ c_rbrace :: x) x = true.
Proof. exact qualified_names. Qed.
Print Assumptions C10_qualified_names.

(* the comparisons the clauses use decide equality of observed values / equality of name sets *)
Theorem C10_comparisons_exact :
  (forall a b : oval, oval_eqb a b = true <-> a = b) /\
  (forall a b : list pystr, set_eqb a b = true <-> (forall x, In x a <-> In x b)).
Proof. exact comparisons_exact. Qed.
Print Assumptions C10_comparisons_exact.

(* Non-vacuity: a six-request history over two services inside the domain - a namespace-qualified and
   an unknown name, an out-of-range and an unconvertible value, an empty element, a CIMultiDict with
   lower-case header names, a foreign, an unrouted, a missing and a wrong header - and what the model
   computes for it (C10/Examples.v). *)
Example C10_domain_inhabited :
  in_domain no_float id_lower ex_input = true /\ model_run no_float id_lower ex_input = ex_expected.
Proof. exact ex_runs. Qed.
