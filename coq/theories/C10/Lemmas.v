(* C10 — auxiliary lemmas: decidable equalities, name resolution, dict facts. *)
From Coq Require Import List Bool NArith ZArith Arith Lia.
From AUC Require Import Prelude.PyStr Prelude.PyDict C08.TypesDef C08.Model C08.Spec Gen.Types
  C10.Model C10.Spec.
Import ListNotations.
Local Open Scope N_scope.

(* ------------------------------------------------------------------ equalities *)
Lemma str_eqb_refl s : str_eqb s s = true.
Proof. destruct (str_eqb_spec s s); congruence. Qed.
Lemma str_eqb_true a b : str_eqb a b = true -> a = b.
Proof. destruct (str_eqb_spec a b); congruence. Qed.
Lemma str_eqb_false a b : a <> b -> str_eqb a b = false.
Proof. destruct (str_eqb_spec a b); congruence. Qed.

Lemma fl_eqb_eq a b : fl_eqb a b = true <-> a = b.
Proof.
  destruct a, b; cbn; try (split; [discriminate | congruence]).
  - rewrite andb_true_iff, !Z.eqb_eq. split; [intros [-> ->]; reflexivity | intros H; inversion H; auto].
  - rewrite Bool.eqb_true_iff. split; congruence.
  - tauto.
Qed.
Lemma otz_eqb_eq a b : otz_eqb a b = true <-> a = b.
Proof.
  destruct a, b; cbn; try (split; [discriminate | congruence]); [|tauto].
  rewrite Z.eqb_eq. split; congruence.
Qed.
Lemma date_eqb_eq a b : date_eqb a b = true <-> a = b.
Proof.
  destruct a, b; unfold date_eqb; cbn. rewrite !andb_true_iff, !N.eqb_eq.
  split; [intros [[-> ->] ->]; reflexivity | intros H; inversion H; auto].
Qed.
Lemma time_eqb_eq a b : time_eqb a b = true <-> a = b.
Proof.
  destruct a, b; unfold time_eqb; cbn. rewrite !andb_true_iff, !N.eqb_eq, otz_eqb_eq.
  split; [intros [[[-> ->] ->] ->]; reflexivity | intros H; inversion H; auto].
Qed.
Lemma val_eqb_eq a b : val_eqb a b = true <-> a = b.
Proof.
  destruct a, b; cbn; try (split; [discriminate | congruence]).
  - rewrite Z.eqb_eq. split; congruence.
  - rewrite Bool.eqb_true_iff. split; congruence.
  - rewrite fl_eqb_eq. split; congruence.
  - split; [intros H; apply str_eqb_true in H; congruence | intros H; inversion H; apply str_eqb_refl].
  - rewrite date_eqb_eq. split; congruence.
  - rewrite time_eqb_eq. split; congruence.
  - rewrite andb_true_iff, date_eqb_eq, time_eqb_eq.
    split; [intros [-> ->]; reflexivity | intros H; inversion H; auto].
  - tauto.
Qed.
Lemma oval_eqb_eq (a b : oval) : oval_eqb a b = true <-> a = b.
Proof. apply val_eqb_eq. Qed.
Lemma oval_eqb_refl a : oval_eqb a a = true.
Proof. now apply oval_eqb_eq. Qed.

Lemma list_eqb_refl {A} (eqb : A -> A -> bool) :
  (forall x, eqb x x = true) -> forall l, list_eqb eqb l l = true.
Proof. intros H l. induction l; cbn; [reflexivity|]. now rewrite H, IHl. Qed.
Lemma list_eqb_eq {A} (eqb : A -> A -> bool) :
  (forall x y, eqb x y = true <-> x = y) -> forall a b, list_eqb eqb a b = true <-> a = b.
Proof.
  intros H a. induction a as [|x a IH]; intros [|y b]; cbn; try (split; [discriminate | congruence]); [tauto|].
  rewrite andb_true_iff, H, IH. split; [intros [-> ->]; reflexivity | intros E; inversion E; auto].
Qed.

Lemma mem_In x l : mem x l = true <-> In x l.
Proof.
  unfold mem. rewrite existsb_exists. split.
  - intros [y [Hy E]]. apply str_eqb_true in E. now subst.
  - intros H. exists x. split; [assumption | apply str_eqb_refl].
Qed.
Lemma set_eqb_refl l : set_eqb l l = true.
Proof.
  unfold set_eqb. assert (H : forallb (fun x => mem x l) l = true).
  { apply forallb_forall. intros x Hx. now apply mem_In. }
  now rewrite H.
Qed.
Lemma set_eqb_spec a b : set_eqb a b = true <-> (forall x, In x a <-> In x b).
Proof.
  unfold set_eqb. rewrite andb_true_iff, !forallb_forall. split.
  - intros [H1 H2] x. split; intros Hx; [apply mem_In, H1 | apply mem_In, H2]; assumption.
  - intros H. split; intros x Hx; apply mem_In, H; assumption.
Qed.
Lemma nodupb_NoDup l : nodupb l = true -> NoDup l.
Proof.
  induction l as [|x r IH]; cbn; [constructor|].
  rewrite andb_true_iff, negb_true_iff. intros [Hm Hr]. constructor; [|auto].
  intros Hin. apply mem_In in Hin. congruence.
Qed.

(* ------------------------------------------------------------------ "}" *)
Lemma after_char_none s : has_rbrace s = false -> after_char c_rbrace s = None.
Proof.
  unfold has_rbrace. induction s as [|x r IH]; cbn [existsb after_char]; [reflexivity|].
  rewrite orb_false_iff. intros [Hx Hr]. rewrite N.eqb_sym in Hx. rewrite Hx. auto.
Qed.
Lemma until_char_id s : has_rbrace s = false -> until_char c_rbrace s = s.
Proof.
  unfold has_rbrace. induction s as [|x r IH]; cbn [existsb until_char]; [reflexivity|].
  rewrite orb_false_iff. intros [Hx Hr]. rewrite N.eqb_sym in Hx. rewrite Hx. now rewrite IH.
Qed.
Lemma after_char_some s r : after_char c_rbrace s = Some r -> has_rbrace s = true.
Proof.
  unfold has_rbrace. induction s as [|x t IH]; cbn [existsb after_char]; [discriminate|].
  destruct (N.eqb x c_rbrace) eqn:E.
  - intros _. rewrite N.eqb_sym, E. reflexivity.
  - intros H. rewrite (IH H). apply orb_true_r.
Qed.

(* ------------------------------------------------------------------ dict facts *)
Notation sdget := (dget str_eqb).
Notation sdset := (dset str_eqb).
Notation sdhas := (dhas str_eqb).

Section DictFacts.
  Variable V : Type.
  Implicit Types d : dict pystr V.

  Lemma dset_present_map d k v v0 :
    NoDup (dkeys d) -> sdget d k = Some v0 ->
    sdset d k v = map (fun kv => if str_eqb (fst kv) k then (fst kv, v) else kv) d.
  Proof.
    induction d as [|[a w] r IH]; cbn; [discriminate|]. intros Hnd.
    inversion Hnd as [|? ? Hn Hnd']; subst.
    destruct (str_eqb_spec a k) as [->|Hne]; intros H.
    - f_equal. symmetry. rewrite <- (map_id r) at 2. apply map_ext_in. intros [b u] Hin. cbn.
      rewrite str_eqb_false; [reflexivity|]. intros ->. apply Hn.
      change (In k (map fst r)). apply in_map_iff. now exists (k, u).
    - f_equal. now apply IH.
  Qed.

  Lemma dkeys_dset_present d k v v0 : sdget d k = Some v0 -> dkeys (sdset d k v) = dkeys d.
  Proof.
    intros H. rewrite (dkeys_dset str_eqb str_eqb_spec). unfold dhas. now rewrite H.
  Qed.

  Lemma In_dget_unique d k v : NoDup (dkeys d) -> In (k, v) d -> sdget d k = Some v.
  Proof. apply (In_dget str_eqb str_eqb_spec). Qed.

  Lemma dget_map_snd (W : Type) (f : V -> W) d k :
    sdget (map (fun kv => (fst kv, f (snd kv))) d) k = option_map f (sdget d k).
  Proof.
    induction d as [|[a w] r IH]; cbn; [reflexivity|]. destruct (str_eqb a k); [reflexivity | exact IH].
  Qed.
End DictFacts.

(* ------------------------------------------------------------------ name resolution *)
Section Resolve.
  Variable vars : dict pystr variable.
  Hypothesis keys_ok : forall k, In k (dkeys vars) -> has_rbrace k = false.

  Lemma dget_rbrace_none name : has_rbrace name = true -> sdget vars name = None.
  Proof.
    intros H. destruct (sdget vars name) eqn:E; [|reflexivity].
    apply (dget_Some_in str_eqb str_eqb_spec) in E. apply keys_ok in E. congruence.
  Qed.

  Lemma resolve_tag tag l :
    tag_local tag = Some l ->
    has_state_variable vars tag = sdhas vars l /\
    state_variable vars tag = match sdget vars l with Some v => Some (l, v) | None => None end.
  Proof.
    unfold tag_local, has_state_variable, state_variable. destruct tag as [|c r].
    - intros H; inversion H; subst. cbn. rewrite andb_false_r. split; [reflexivity|].
      destruct (sdget vars []); reflexivity.
    - destruct (c =? c_lbrace) eqn:Ec.
      + apply N.eqb_eq in Ec. subst c.
        destruct (after_char c_rbrace r) as [l'|] eqn:Ea; [|discriminate].
        destruct (has_rbrace l') eqn:Hl; [discriminate|]. intros H; inversion H; subst l'.
        assert (Hr : has_rbrace (c_lbrace :: r) = true).
        { unfold has_rbrace. cbn. apply after_char_some in Ea. exact Ea. }
        assert (Hs : split1 (c_lbrace :: r) = Some l).
        { unfold split1. cbn. rewrite Ea. now rewrite until_char_id. }
        unfold dhas. rewrite (dget_rbrace_none _ Hr), Hr, Hs. cbn. split; [reflexivity|].
        destruct (sdget vars l); reflexivity.
      + destruct (has_rbrace (c :: r)) eqn:Hr; [discriminate|]. intros H; inversion H; subst l.
        rewrite andb_false_r. split; [reflexivity|]. destruct (sdget vars (c :: r)); reflexivity.
  Qed.
End Resolve.
