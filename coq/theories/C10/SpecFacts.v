(* C10 — what the specification's definitions say, in the words of the statement. *)
From Coq Require Import List Bool NArith ZArith.
From AUC Require Import Prelude.PyStr Prelude.PyDict C08.TypesDef C08.Model C08.Spec Gen.Types
  C10.Model C10.Spec C10.Lemmas.
Import ListNotations.
Local Open Scope N_scope.

Section SpecFacts.
  Variable fos : pystr -> option fl.
  Variable lext : N -> N.

  Lemma spec_value_unnamed x d es : forall old,
    (forall e, In e es -> names_var (fst e) x = false) -> spec_value fos lext x d old es = old.
  Proof.
    unfold spec_value. induction es as [|e r IH]; intros old H; [reflexivity|]. cbn [fold_left].
    rewrite (H e (or_introl eq_refl)). apply IH. intros e' He'. apply H. now right.
  Qed.

  Lemma spec_value_once x d old es1 tag w es2 :
    names_var tag x = true ->
    (forall e, In e (es1 ++ es2) -> names_var (fst e) x = false) ->
    spec_value fos lext x d old (es1 ++ (tag, w) :: es2) = spec_set fos lext d old w.
  Proof.
    intros Hn H. unfold spec_value. rewrite fold_left_app. cbn [fold_left fst snd]. rewrite Hn.
    fold (spec_value fos lext x d old es1). rewrite spec_value_unnamed.
    - fold (spec_value fos lext x d (spec_set fos lext d old w) es2). apply spec_value_unnamed.
      intros e He. apply H. apply in_app_iff. now right.
    - intros e He. apply H. apply in_app_iff. now left.
  Qed.

  Lemma spec_set_cases d old w :
    match apply_in fos lext (r_in (d_row d)) w with
    | Ok v => if spec_accepts d v then spec_set fos lext d old w = v
              else spec_set fos lext d old w = old
    | Raise _ => spec_set fos lext d old w = VNone
    end.
  Proof.
    unfold spec_set. destruct (apply_in fos lext (r_in (d_row d)) w); [|reflexivity].
    destruct (spec_accepts d a); reflexivity.
  Qed.
End SpecFacts.

Lemma after_char_app ns x : has_rbrace ns = false -> after_char c_rbrace (ns ++ c_rbrace :: x) = Some x.
Proof.
  unfold has_rbrace. induction ns as [|c r IH]; cbn [app existsb after_char].
  - intros _. now rewrite N.eqb_refl.
  - rewrite orb_false_iff. intros [Hc Hr]. rewrite N.eqb_sym in Hc. rewrite Hc. auto.
Qed.

(* a local name names the variable called like it ... *)
Lemma tag_local_plain x : has_rbrace x = false -> hd 0 x <> c_lbrace -> tag_local x = Some x.
Proof.
  intros Hb Hh. destruct x as [|c r]; [reflexivity|]. unfold tag_local. cbn [hd] in Hh.
  destruct (N.eqb_spec c c_lbrace); [contradiction|]. now rewrite Hb.
Qed.
(* ... and so does "{namespace}local", whatever the namespace *)
Lemma tag_local_qualified ns x :
  has_rbrace ns = false -> has_rbrace x = false -> tag_local (c_lbrace :: ns ++ c_rbrace :: x) = Some x.
Proof.
  intros Hn Hx. unfold tag_local. rewrite N.eqb_refl, (after_char_app ns x Hn), Hx. reflexivity.
Qed.

Lemma qualified_names ns x :
  has_rbrace ns = false -> has_rbrace x = false ->
  tag_local (c_lbrace :: ns ++ c_rbrace :: x) = Some x /\ names_var (c_lbrace :: ns ++ c_rbrace :: x) x = true.
Proof.
  intros Hn Hx. unfold names_var. rewrite (tag_local_qualified ns x Hn Hx).
  split; [reflexivity | apply str_eqb_refl].
Qed.

Lemma comparisons_exact :
  (forall a b : oval, oval_eqb a b = true <-> a = b) /\
  (forall a b : list pystr, set_eqb a b = true <-> (forall x, In x a <-> In x b)).
Proof. split; [exact oval_eqb_eq | exact set_eqb_spec]. Qed.
