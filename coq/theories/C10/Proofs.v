(* C10 — the four clauses hold for the model on every history in the domain. *)
From Coq Require Import List Bool NArith ZArith Arith Lia.
From AUC Require Import Prelude.PyStr Prelude.PyDict C08.TypesDef C08.Model C08.Spec Gen.Types
  C10.Model C10.Spec C10.Lemmas C10.Apply.
Import ListNotations.
Local Open Scope N_scope.

(* ------------------------------------------------------------------ lists *)
Lemma nth_error_set_nth_eq {A} (l : list A) k x :
  (k < length l)%nat -> nth_error (set_nth l k x) k = Some x.
Proof.
  revert k. induction l as [|y r IH]; intros [|k] H; cbn in *; try lia; [reflexivity|].
  apply IH. lia.
Qed.
Lemma length_set_nth {A} (l : list A) k x : length (set_nth l k x) = length l.
Proof. revert k. induction l as [|y r IH]; intros [|k]; cbn; auto. Qed.
Lemma Forall2_set_nth {A B} (R : A -> B -> Prop) l1 l2 k a b :
  Forall2 R l1 l2 -> nth_error l1 k = Some a -> R a b -> Forall2 R l1 (set_nth l2 k b).
Proof.
  intros H. revert k. induction H as [|x y l1 l2 Hxy H IH]; intros [|k] Hn Hr; cbn in *; try discriminate.
  - inversion Hn; subst. now constructor.
  - constructor; [assumption | now apply IH].
Qed.
Lemma Forall2_nth {A B} (R : A -> B -> Prop) l1 l2 k a b :
  Forall2 R l1 l2 -> nth_error l1 k = Some a -> nth_error l2 k = Some b -> R a b.
Proof.
  intros H. revert k. induction H as [|x y l1 l2 Hxy H IH]; intros [|k] H1 H2; cbn in *; try discriminate.
  - inversion H1; inversion H2; subst. assumption.
  - eapply IH; eauto.
Qed.
Lemma Forall2_length' {A B} (R : A -> B -> Prop) l1 l2 : Forall2 R l1 l2 -> length l1 = length l2.
Proof. induction 1; cbn; congruence. Qed.
Lemma nth_error_some_lt {A} (l : list A) k x : nth_error l k = Some x -> (k < length l)%nat.
Proof. intros H. apply nth_error_Some. congruence. Qed.
Lemma nth_error_lt_some {A} (l : list A) k : (k < length l)%nat -> exists x, nth_error l k = Some x.
Proof. intros H. destruct (nth_error l k) eqn:E; [eauto|]. apply nth_error_None in E. lia. Qed.

(* ------------------------------------------------------------------ the property-set walk *)
Lemma walk_property_dmerge vars : forall acc,
  walk_property acc vars
  = dmerge str_eqb acc (map (fun tv => (fst tv, text_or_empty (snd tv))) vars).
Proof.
  unfold walk_property, dmerge. induction vars as [|tv r IH]; intros acc; cbn; [reflexivity|]. apply IH.
Qed.
Lemma walk_dmerge cs : forall acc,
  fold_left (fun a c => match c with CProperty vars => walk_property a vars | COther => a end) cs acc
  = dmerge str_eqb acc (entries cs).
Proof.
  induction cs as [|c r IH]; intros acc; [reflexivity|]. cbn [fold_left entries flat_map].
  rewrite IH. unfold dmerge at 2. rewrite fold_left_app. fold (dmerge str_eqb). destruct c.
  - now rewrite walk_property_dmerge.
  - reflexivity.
Qed.
Lemma walk_entries cs : nodupb (map fst (entries cs)) = true -> walk cs = entries cs.
Proof.
  intros H. unfold walk. rewrite walk_dmerge.
  now rewrite (dmerge_dict str_eqb str_eqb_spec) by (cbn; now apply nodupb_NoDup).
Qed.

Section Proofs.
  Variable fos : pystr -> option fl.
  Variable lext : N -> N.

  Definition svc_wf (sd : svc_def) (s : service) : Prop :=
    s_on_event s = sd_callback sd /\ proj (s_vars s) = svc_decls fos lext sd /\
    NoDup (dkeys (s_vars s)) /\ (forall k, In k (dkeys (s_vars s)) -> has_rbrace k = false).
  Definition wf (defs : list svc_def) (routes : list (pystr * nat)) (h : handler) : Prop :=
    h_subs h = routes /\ Forall2 svc_wf defs (h_services h).

  (* ---------------------------------------------------------------- setup *)
  Definition decl_entry (strict : bool) (vd : var_def) : list (pystr * decl) :=
    match var_decl fos lext strict vd with Some d => [(vd_name vd, d)] | None => [] end.

  Lemma mk_vars_ok strict vds : forall acc,
    forallb (fun vd => is_some (var_decl fos lext strict vd)) vds = true ->
    NoDup (dkeys acc ++ map vd_name vds) ->
    exists vars, mk_vars fos lext strict vds acc = Ok vars /\
      proj vars = proj acc ++ flat_map (decl_entry strict) vds /\
      dkeys vars = dkeys acc ++ map vd_name vds.
  Proof.
    induction vds as [|vd r IH]; intros acc Hs Hnd.
    - exists acc. cbn. now rewrite !app_nil_r.
    - cbn [forallb] in Hs. apply andb_true_iff in Hs. destruct Hs as [Hv Hr].
      cbn [mk_vars flat_map]. unfold var_decl in Hv.
      destruct (mk_var fos lext strict vd) as [v|e] eqn:Em; [|discriminate].
      assert (Hn : dget str_eqb acc (vd_name vd) = None).
      { apply (dget_None_notin str_eqb str_eqb_spec). intros Hin. cbn [map] in Hnd.
        apply NoDup_remove_2 in Hnd. apply Hnd. apply in_app_iff. now left. }
      rewrite (dset_absent str_eqb acc (vd_name vd) v Hn).
      destruct (IH (acc ++ [(vd_name vd, v)]) Hr) as [vars [E [P K]]].
      { unfold dkeys. rewrite map_app. cbn [map fst]. rewrite <- app_assoc. exact Hnd. }
      exists vars. split; [exact E|]. split.
      + rewrite P. unfold proj. rewrite map_app. cbn [map fst snd]. rewrite <- app_assoc.
        unfold decl_entry at 2. unfold var_decl. rewrite Em. reflexivity.
      + rewrite K. unfold dkeys. rewrite map_app. cbn [map fst]. now rewrite <- app_assoc.
  Qed.

  Lemma mk_service_ok sd :
    svc_ok fos lext sd = true -> exists s, mk_service fos lext sd = Ok s /\ svc_wf sd s.
  Proof.
    unfold svc_ok. rewrite !andb_true_iff. intros [[Hd Hn] Hb].
    destruct (mk_vars_ok (sd_strict sd) (sd_vars sd) [] Hd) as [vars [E [P K]]].
    { cbn. now apply nodupb_NoDup. }
    unfold mk_service. rewrite E. eexists. split; [reflexivity|]. cbn in P, K.
    repeat split; cbn [s_on_event s_vars].
    - exact P.
    - rewrite K. now apply nodupb_NoDup.
    - intros k. rewrite K. intros Hin. apply in_map_iff in Hin. destruct Hin as [vd [<- Hin]].
      rewrite forallb_forall in Hb. specialize (Hb vd Hin). now apply negb_true_iff in Hb.
  Qed.

  Lemma mk_services_ok defs :
    forallb (svc_ok fos lext) defs = true ->
    exists ss, mk_services fos lext defs = Ok ss /\ Forall2 svc_wf defs ss.
  Proof.
    induction defs as [|sd r IH]; cbn [forallb mk_services]; intros H.
    - exists []. split; [reflexivity | constructor].
    - apply andb_true_iff in H. destruct H as [Hs Hr].
      destruct (mk_service_ok sd Hs) as [s [Es Ws]]. destruct (IH Hr) as [ss [Ess Wss]].
      rewrite Es, Ess. exists (s :: ss). split; [reflexivity | now constructor].
  Qed.

  (* ---------------------------------------------------------------- one delivery, in closed form *)
  Definition delivered (s : service) (es : list (pystr * pystr)) : service :=
    let vars' := after fos lext es (s_vars s) in
    mkService vars' (s_on_event s)
              (if s_on_event s
               then [map (fun n => (n, stored_of vars' n)) (spec_changed fos lext (proj (s_vars s)) es)]
               else []).

  Lemma notify_changed_spec sd s es :
    svc_wf sd s -> forallb (fun e => is_some (tag_local (fst e))) es = true ->
    notify_changed fos lext (clear_log s) es = (delivered s es, None).
  Proof.
    intros [Hc [Hp [Hnd Hk]]] Ht. unfold notify_changed, clear_log. cbn [s_vars s_on_event s_log].
    rewrite (apply_changes_spec fos lext es (s_vars s) [] Hnd Hk Ht). cbn [app].
    unfold delivered. destruct (s_on_event s); reflexivity.
  Qed.

  Lemma delivered_wf sd s es : svc_wf sd s -> svc_wf sd (delivered s es).
  Proof.
    intros [Hc [Hp [Hnd Hk]]]. unfold delivered, svc_wf. cbn [s_on_event s_vars].
    rewrite proj_after, dkeys_after. auto.
  Qed.

  Lemma clear_logs_wf defs routes h : wf defs routes h -> wf defs routes (clear_logs h).
  Proof.
    intros [Hs Hf]. split; [exact Hs|]. cbn [clear_logs h_services].
    induction Hf as [|sd s l1 l2 Hw Hf IH]; cbn [map]; constructor; [|exact IH].
    destruct Hw as [Hc [Hp [Hnd Hk]]]. repeat split; assumption.
  Qed.

  Lemma handle_cases defs routes h n :
    wf defs routes h -> event_ok n = true ->
    match spec_target lext routes (length defs) n with
    | None => handle_notify fos lext (clear_logs h) n = (clear_logs h, Status (spec_status lext n))
    | Some k =>
        exists sd s cs,
          nth_error defs k = Some sd /\ nth_error (h_services h) k = Some s /\ n_body n = BTree cs /\
          spec_status lext n = 200 /\
          handle_notify fos lext (clear_logs h) n
          = (mkHandler routes (set_nth (map clear_log (h_services h)) k (delivered s (entries cs))), Status 200)
    end.
  Proof.
    intros [Hs Hf] Hev. unfold spec_target, spec_status, handle_notify.
    destruct (hget lext n s_NT) as [nt|]; [|reflexivity].
    destruct (hget lext n s_NTS) as [nts|]; [|reflexivity].
    destruct (str_eqb nt s_upnp_event); cbn [negb andb orb]; [|reflexivity].
    destruct (str_eqb nts s_upnp_propchange); cbn [negb andb orb]; [|reflexivity].
    destruct (hget lext n s_SID) as [sid|]; cbn [is_some]; [|reflexivity].
    cbn [N.eqb Pos.eqb]. cbn [clear_logs h_subs h_services]. rewrite Hs.
    destruct (dget str_eqb routes sid) as [k|]; [|reflexivity].
    pose proof (Forall2_length' _ _ _ Hf) as Hlen.
    destruct (Nat.ltb_spec k (length defs)) as [Hlt|Hge].
    - destruct (nth_error_lt_some defs k Hlt) as [sd Esd].
      assert (Hlt' : (k < length (h_services h))%nat) by lia.
      destruct (nth_error_lt_some (h_services h) k Hlt') as [s Es].
      pose proof (Forall2_nth _ _ _ _ _ _ Hf Esd Es) as Hw.
      rewrite (map_nth_error clear_log k (h_services h) Es).
      unfold event_ok in Hev. destruct (n_body n) as [cs|] eqn:Eb; [|discriminate].
      apply andb_true_iff in Hev. destruct Hev as [Ht Hnd].
      exists sd, s, cs. repeat split; try assumption; try reflexivity.
      rewrite (walk_entries cs Hnd). rewrite (notify_changed_spec sd s (entries cs) Hw Ht). reflexivity.
    - assert (E : nth_error (map clear_log (h_services h)) k = None).
      { apply nth_error_None. rewrite map_length. lia. }
      rewrite E. reflexivity.
  Qed.
  (* ---------------------------------------------------------------- observations of a delivery *)
  Lemma values_clear ss : map values_of (map clear_log ss) = map values_of ss.
  Proof. rewrite map_map. reflexivity. Qed.

  Lemma expect_after es vars :
    expect_values fos lext (proj vars) (map (fun kv => obs_stored (sv_stored (snd kv))) vars) es
    = Some (map (fun kv => obs_stored (sv_stored (snd kv))) (after fos lext es vars)).
  Proof.
    induction vars as [|[k v] r IH]; [reflexivity|].
    cbn [proj map expect_values fst snd] in *. unfold proj in IH. rewrite IH.
    cbn [after map fst snd sv_stored sv_decl]. now rewrite obs_fold.
  Qed.

  Lemma lookup_val_dict (vars : dict pystr variable) x :
    lookup_val x (dkeys vars) (map (fun kv => obs_stored (sv_stored (snd kv))) vars)
    = option_map (fun v => obs_stored (sv_stored v)) (dget str_eqb vars x).
  Proof.
    induction vars as [|[k v] r IH]; [reflexivity|]. cbn [dkeys map fst snd lookup_val dget].
    destruct (str_eqb k x); [reflexivity | exact IH].
  Qed.

  Lemma iso_past ss t : forall j, (t < j)%nat ->
    iso j (Some t) (map values_of ss) (map values_of (map clear_log ss)) (map calls_of (map clear_log ss)) = true.
  Proof.
    induction ss as [|s r IH]; intros j H; [reflexivity|]. cbn [map iso].
    destruct (Nat.eqb_spec t j); [lia|]. rewrite IH by lia.
    change (values_of (clear_log s)) with (values_of s).
    rewrite (list_eqb_refl oval_eqb oval_eqb_refl). reflexivity.
  Qed.
  Lemma iso_none ss : forall j,
    iso j None (map values_of ss) (map values_of (map clear_log ss)) (map calls_of (map clear_log ss)) = true.
  Proof.
    induction ss as [|s r IH]; intros j; [reflexivity|]. cbn [map iso]. rewrite IH.
    change (values_of (clear_log s)) with (values_of s).
    rewrite (list_eqb_refl oval_eqb oval_eqb_refl). reflexivity.
  Qed.
  Lemma iso_hit ss s' : forall j k,
    iso j (Some (j + k)%nat) (map values_of ss) (map values_of (set_nth (map clear_log ss) k s'))
        (map calls_of (set_nth (map clear_log ss) k s')) = true.
  Proof.
    induction ss as [|s r IH]; intros j k.
    - destruct k; reflexivity.
    - destruct k as [|k]; cbn [map set_nth iso].
      + rewrite Nat.add_0_r, Nat.eqb_refl. cbn [andb]. apply iso_past. lia.
      + destruct (Nat.eqb_spec (j + S k) j); [lia|].
        change (values_of (clear_log s)) with (values_of s).
        rewrite (list_eqb_refl oval_eqb oval_eqb_refl). cbn [calls_of clear_log s_log map is_nil andb].
        replace (j + S k)%nat with (S j + k)%nat by lia. apply IH.
  Qed.

  (* ---------------------------------------------------------------- one step *)
  Definition step_obs_of (h' : handler) (res : result) : step_obs :=
    mkStep res (map values_of (h_services h')) (map calls_of (h_services h')).

  Lemma step_ok defs routes h n :
    wf defs routes h -> event_ok n = true ->
    let prev := map values_of (h_services h) in
    let hr := handle_notify fos lext (clear_logs h) n in
    let ob := step_obs_of (fst hr) (snd hr) in
    wf defs routes (fst hr) /\
    cl_status lext defs routes n prev ob = true /\
    cl_applied fos lext defs routes n prev ob = true /\
    cl_callback fos lext defs routes n prev ob = true /\
    cl_isolation lext defs routes n prev ob = true.
  Proof.
    intros Hwf Hev prev hr ob. pose proof (handle_cases defs routes h n Hwf Hev) as Hc.
    pose proof (clear_logs_wf _ _ _ Hwf) as Hwfc.
    destruct Hwf as [Hs Hf]. pose proof (Forall2_length' _ _ _ Hf) as Hlen.
    unfold cl_status, cl_applied, cl_callback, cl_isolation, c_status, c_applied, c_callback, c_isolation, target.
    subst ob hr prev.
    destruct (spec_target lext routes (length defs) n) as [k|].
    - destruct Hc as [sd [s [cs [Esd [Es [Eb [Est E]]]]]]]. rewrite E. cbn [fst snd step_obs_of o_result o_values o_calls h_services].
      pose proof (Forall2_nth _ _ _ _ _ _ Hf Esd Es) as Hw.
      assert (Hk : (k < length (map clear_log (h_services h)))%nat).
      { rewrite map_length. now apply nth_error_some_lt in Es. }
      split; [|split; [|split; [|split]]].
      + split; [reflexivity|]. cbn [h_services].
        apply Forall2_set_nth with (a := sd); [|assumption|now apply delivered_wf].
        destruct Hwfc as [_ Hfc]. exact Hfc.
      + rewrite Est. reflexivity.
      + rewrite Eb, Esd. rewrite (map_nth_error values_of k (h_services h) Es).
        rewrite (map_nth_error values_of k _ (nth_error_set_nth_eq _ k _ Hk)).
        destruct Hw as [Hcb [Hp [Hnd Hkk]]]. rewrite <- Hp.
        unfold values_of at 1. rewrite expect_after.
        unfold delivered, values_of. cbn [s_vars].
        apply (list_eqb_refl oval_eqb oval_eqb_refl).
      + rewrite Eb, Esd.
        rewrite (map_nth_error calls_of k _ (nth_error_set_nth_eq _ k _ Hk)).
        rewrite (map_nth_error values_of k _ (nth_error_set_nth_eq _ k _ Hk)).
        destruct Hw as [Hcb [Hp [Hnd Hkk]]]. rewrite <- Hcb, <- Hp.
        unfold delivered, calls_of. cbn [s_log s_vars s_on_event]. destruct (s_on_event s); [|reflexivity].
        cbn [map]. rewrite !map_map. cbn [fst snd]. rewrite map_id.
        rewrite set_eqb_refl. cbn [andb]. rewrite forallb_forall. intros p Hin.
        apply in_map_iff in Hin. destruct Hin as [x [<- Hx]]. cbn [fst snd].
        rewrite dkeys_proj, <- (dkeys_after fos lext (entries cs)). unfold values_of. cbn [s_vars].
        rewrite lookup_val_dict. unfold stored_of.
        apply spec_changed_keys in Hx. rewrite <- (proj_after fos lext (entries cs)), dget_proj in Hx.
        destruct (dget str_eqb (after fos lext (entries cs) (s_vars s)) x); [|now elim Hx].
        cbn [option_map]. apply oval_eqb_refl.
      + rewrite map_length, Hlen, Nat.eqb_refl. cbn [andb]. apply (iso_hit (h_services h) _ 0%nat k).
    - rewrite Hc. cbn [fst snd step_obs_of o_result o_values o_calls h_services clear_logs].
      split; [assumption|]. split; [|split; [reflexivity|split; [reflexivity|]]].
      + cbn [result_eqb]. apply N.eqb_refl.
      + rewrite map_length, Hlen, Nat.eqb_refl. apply iso_none.
  Qed.

  (* ---------------------------------------------------------------- histories *)
  Lemma run_cons h n r :
    run fos lext h (n :: r) =
    step_obs_of (fst (handle_notify fos lext (clear_logs h) n)) (snd (handle_notify fos lext (clear_logs h) n))
    :: run fos lext (fst (handle_notify fos lext (clear_logs h) n)) r.
  Proof. cbn [run]. destruct (handle_notify fos lext (clear_logs h) n). reflexivity. Qed.

  Lemma history_ok (c : clause) defs routes :
    (forall h n, wf defs routes h -> event_ok n = true ->
                 c defs routes n (map values_of (h_services h))
                   (step_obs_of (fst (handle_notify fos lext (clear_logs h) n))
                                (snd (handle_notify fos lext (clear_logs h) n))) = true) ->
    forall evs h idx, wf defs routes h -> forallb event_ok evs = true ->
      first_fail c defs routes evs (map values_of (h_services h)) (run fos lext h evs) idx = None.
  Proof.
    intros Hc evs. induction evs as [|n r IH]; intros h idx Hwf Hev; [reflexivity|].
    cbn [forallb] in Hev. apply andb_true_iff in Hev. destruct Hev as [Hn Hr].
    rewrite run_cons. cbn [first_fail]. rewrite (Hc h n Hwf Hn). cbn [step_obs_of o_values].
    apply IH; [|assumption]. exact (proj1 (step_ok defs routes h n Hwf Hn)).
  Qed.

  Lemma model_ok (c : clause) :
    (forall defs routes h n, wf defs routes h -> event_ok n = true ->
                 c defs routes n (map values_of (h_services h))
                   (step_obs_of (fst (handle_notify fos lext (clear_logs h) n))
                                (snd (handle_notify fos lext (clear_logs h) n))) = true) ->
    forall i, in_domain fos lext i = true -> clause_fails c i (model_run fos lext i) = None.
  Proof.
    intros Hc i. unfold in_domain. rewrite !andb_true_iff. intros [[Hd Hr] He].
    destruct (mk_services_ok (i_defs i) Hd) as [ss [Ess Wss]].
    unfold model_run, setup. rewrite Ess. cbn [clause_fails h_services].
    apply (history_ok c (i_defs i) (i_routes i) (Hc _ _) (i_events i)
                      {| h_subs := i_routes i; h_services := ss |} 0); [|assumption].
    split; [reflexivity | exact Wss].
  Qed.

  Theorem status_selection i :
    in_domain fos lext i = true -> clause_fails (cl_status lext) i (model_run fos lext i) = None.
  Proof. apply model_ok. intros. now apply step_ok. Qed.
  Theorem applied_completely i :
    in_domain fos lext i = true -> clause_fails (cl_applied fos lext) i (model_run fos lext i) = None.
  Proof. apply model_ok. intros. now apply step_ok. Qed.
  Theorem callback_once_exact i :
    in_domain fos lext i = true -> clause_fails (cl_callback fos lext) i (model_run fos lext i) = None.
  Proof. apply model_ok. intros. now apply step_ok. Qed.
  Theorem isolation i :
    in_domain fos lext i = true -> clause_fails (cl_isolation lext) i (model_run fos lext i) = None.
  Proof. apply model_ok. intros. now apply step_ok. Qed.
End Proofs.
