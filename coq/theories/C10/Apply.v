(* C10 — the loop of notify_changed_state_variables in closed form: every variable ends with the fold
   of the properties naming it, whatever happens to the others. *)
From Coq Require Import List Bool NArith ZArith Arith Lia.
From AUC Require Import Prelude.PyStr Prelude.PyDict C08.TypesDef C08.Model C08.Spec Gen.Types
  C10.Model C10.Spec C10.Lemmas C10.Coerce.
Import ListNotations.
Local Open Scope N_scope.

Notation sdget := (dget str_eqb).
Notation sdset := (dset str_eqb).
Notation sdhas := (dhas str_eqb).

Section Apply.
  Variable fos : pystr -> option fl.
  Variable lext : N -> N.

  (* upnp_value.setter + value.setter on the stored cell *)
  Definition upd_st (d : decl) (st : stored) (w : pystr) : stored :=
    match apply_in fos lext (r_in (d_row d)) w with
    | Ok v => if spec_accepts d v then SVal v else st
    | Raise _ => SError
    end.

  Lemma set_upnp_cases d st w :
    set_upnp_value fos lext d st w =
    (upd_st d st w, if spec_replaced fos lext d w then Ok tt else Raise UpnpValueError).
  Proof.
    unfold set_upnp_value, upd_st, spec_replaced, set_value.
    destruct (apply_in fos lext (r_in (d_row d)) w) eqn:E.
    - rewrite accepts_iff. destruct (spec_accepts d a); reflexivity.
    - apply coercion_errors in E. subst. reflexivity.
  Qed.

  Lemma obs_upd d st w : obs_stored (upd_st d st w) = spec_set fos lext d (obs_stored st) w.
  Proof.
    unfold upd_st, spec_set. destruct (apply_in fos lext (r_in (d_row d)) w); [|reflexivity].
    destruct (spec_accepts d a); reflexivity.
  Qed.

  Definition fold_stored (x : pystr) (d : decl) (st : stored) (es : list (pystr * pystr)) : stored :=
    fold_left (fun st e => if names_var (fst e) x then upd_st d st (snd e) else st) es st.

  Lemma fold_stored_cons x d st e r :
    fold_stored x d st (e :: r) =
    fold_stored x d (if names_var (fst e) x then upd_st d st (snd e) else st) r.
  Proof. reflexivity. Qed.

  Lemma obs_fold x d es : forall st,
    obs_stored (fold_stored x d st es) = spec_value fos lext x d (obs_stored st) es.
  Proof.
    induction es as [|e r IH]; intros st; [reflexivity|].
    rewrite fold_stored_cons, IH. unfold spec_value. cbn [fold_left].
    destruct (names_var (fst e) x); [|reflexivity]. now rewrite obs_upd.
  Qed.

  Definition proj (vars : dict pystr variable) : list (pystr * decl) :=
    map (fun kv => (fst kv, sv_decl (snd kv))) vars.
  Definition after (es : list (pystr * pystr)) (vars : dict pystr variable) : dict pystr variable :=
    map (fun kv => (fst kv, mkVariable (sv_decl (snd kv))
                              (fold_stored (fst kv) (sv_decl (snd kv)) (sv_stored (snd kv)) es))) vars.

  Lemma dkeys_proj vars : map fst (proj vars) = dkeys vars.
  Proof. unfold proj, dkeys. rewrite map_map. reflexivity. Qed.
  Lemma dkeys_after es vars : dkeys (after es vars) = dkeys vars.
  Proof. unfold after, dkeys. rewrite map_map. reflexivity. Qed.
  Lemma proj_after es vars : proj (after es vars) = proj vars.
  Proof. unfold after, proj. rewrite map_map. reflexivity. Qed.
  Lemma after_nil vars : after [] vars = vars.
  Proof.
    unfold after. rewrite <- (map_id vars) at 2. apply map_ext. intros [k [d s]]. reflexivity.
  Qed.

  Section OneVar.
    Variable vars : dict pystr variable.
    Hypothesis Hnd : NoDup (dkeys vars).
    Variables (l : pystr) (v : variable).
    Hypothesis Hg : sdget vars l = Some v.

    Lemma same_key k u : In (k, u) vars -> k = l -> u = v.
    Proof.
      intros Hin ->. apply (In_dget_unique _ _ _ _ Hnd) in Hin. congruence.
    Qed.

    Lemma proj_dset st' : proj (sdset vars l (mkVariable (sv_decl v) st')) = proj vars.
    Proof.
      rewrite (dset_present_map _ _ _ _ v Hnd Hg). unfold proj. rewrite map_map.
      apply map_ext_in. intros [k u] Hin. cbn [fst snd].
      destruct (str_eqb_spec k l) as [E|E]; [|reflexivity].
      cbn [fst snd sv_decl]. now rewrite (same_key _ _ Hin E).
    Qed.

    Lemma after_dset tag w r :
      tag_local tag = Some l ->
      after r (sdset vars l (mkVariable (sv_decl v) (upd_st (sv_decl v) (sv_stored v) w)))
      = after ((tag, w) :: r) vars.
    Proof.
      intros Et. rewrite (dset_present_map _ _ _ _ v Hnd Hg). unfold after. rewrite map_map.
      apply map_ext_in. intros [k u] Hin. cbn [fst snd]. rewrite fold_stored_cons. cbn [fst snd].
      unfold names_var. rewrite Et.
      destruct (str_eqb_spec k l) as [E|E].
      - cbn [fst snd sv_decl sv_stored]. rewrite (same_key _ _ Hin E). subst k.
        now rewrite str_eqb_refl.
      - rewrite str_eqb_false by congruence. reflexivity.
    Qed.
  End OneVar.

  Lemma after_skip vars tag w r l :
    tag_local tag = Some l -> sdget vars l = None -> after ((tag, w) :: r) vars = after r vars.
  Proof.
    intros Et Hn. unfold after. apply map_ext_in. intros [k u] Hin. cbn [fst snd].
    rewrite fold_stored_cons. cbn [fst snd]. unfold names_var. rewrite Et.
    rewrite str_eqb_false; [reflexivity|]. intros ->.
    assert (In k (dkeys vars)) by (apply in_map_iff; now exists (k, u)).
    apply (In_dkeys_dget str_eqb str_eqb_spec) in H. congruence.
  Qed.

  Lemma spec_changed_cons decls tag w r :
    spec_changed fos lext decls ((tag, w) :: r) =
    match tag_local tag with
    | Some l => match sdget decls l with
                | Some d => if spec_replaced fos lext d w then [l] else []
                | None => []
                end
    | None => []
    end ++ spec_changed fos lext decls r.
  Proof. reflexivity. Qed.

  Lemma dget_proj vars l : sdget (proj vars) l = option_map sv_decl (sdget vars l).
  Proof. unfold proj. apply dget_map_snd. Qed.

  Lemma apply_changes_spec es : forall vars changed,
    NoDup (dkeys vars) -> (forall k, In k (dkeys vars) -> has_rbrace k = false) ->
    forallb (fun e => is_some (tag_local (fst e))) es = true ->
    apply_changes fos lext vars es changed
    = (after es vars, changed ++ spec_changed fos lext (proj vars) es, None).
  Proof.
    induction es as [|[tag w] r IH]; intros vars changed Hnd Hk Ht.
    - cbn [apply_changes]. rewrite after_nil. cbn. now rewrite app_nil_r.
    - cbn [forallb fst] in Ht. apply andb_true_iff in Ht. destruct Ht as [Ht Hr].
      destruct (tag_local tag) as [l|] eqn:Et; [|discriminate].
      destruct (resolve_tag vars Hk tag l Et) as [Hh Hs].
      cbn [apply_changes]. rewrite Hh, Hs. rewrite spec_changed_cons, Et, dget_proj.
      unfold dhas. destruct (sdget vars l) as [v|] eqn:Eg; cbn [negb option_map].
      + rewrite set_upnp_cases.
        assert (Hnd' : forall st', NoDup (dkeys (sdset vars l (mkVariable (sv_decl v) st')))).
        { intros st'. now rewrite (dkeys_dset_present _ _ _ _ v Eg). }
        assert (Hk' : forall st' k, In k (dkeys (sdset vars l (mkVariable (sv_decl v) st'))) -> has_rbrace k = false).
        { intros st' k. rewrite (dkeys_dset_present _ _ _ _ v Eg). apply Hk. }
        destruct (spec_replaced fos lext (sv_decl v) w); cbv beta iota zeta.
        * rewrite (IH _ _ (Hnd' _) (Hk' _) Hr).
          rewrite (after_dset vars Hnd l v Eg tag w r Et), (proj_dset vars Hnd l v Eg).
          now rewrite <- app_assoc.
        * rewrite (IH _ _ (Hnd' _) (Hk' _) Hr).
          rewrite (after_dset vars Hnd l v Eg tag w r Et), (proj_dset vars Hnd l v Eg).
          reflexivity.
      + rewrite (IH _ _ Hnd Hk Hr). now rewrite (after_skip vars tag w r l Et Eg).
  Qed.

  (* every variable the callback lists is one of the service's *)
  Lemma spec_changed_keys decls es x :
    In x (spec_changed fos lext decls es) -> sdget decls x <> None.
  Proof.
    unfold spec_changed. rewrite in_flat_map. intros [[tag w] [_ Hin]]. cbn [fst snd] in Hin.
    destruct (tag_local tag) as [l|]; [|contradiction].
    destruct (sdget decls l) as [d|] eqn:E; [|contradiction].
    destruct (spec_replaced fos lext d w); [|contradiction].
    destruct Hin as [<-|[]]. congruence.
  Qed.
End Apply.
