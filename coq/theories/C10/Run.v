(* C10 — instantiation used by the correspondence check (never by a theorem). *)
From Coq Require Import List Bool NArith ZArith Arith.
From AUC Require Export Prelude.PyStr Prelude.PyDict C08.TypesDef C08.Model C08.Spec Gen.Types
  Gen.DateMatchers C10.Model C10.Spec.
Import ListNotations.
Local Open Scope N_scope.

(* answers of float() recorded by the harness for every text of the case *)
Definition oracle := list (pystr * option fl).
Definition fparse (o : oracle) (s : pystr) : option fl :=
  match find (fun p => str_eqb (fst p) s) o with Some p => snd p | None => None end.
(* str.lower() outside ASCII: the generators' boolean texts are ASCII; no non-ASCII character lowers
   into one of "1", "true", "yes" *)
Definition lext (c : N) : N := c.

Definition m_run (o : oracle) (i : input) : observation := model_run (fparse o) lext i.
Definition dom (o : oracle) (i : input) : bool := in_domain (fparse o) lext i.

(* ---- comparison of observations: exact, except that the variables listed by one on_event call are
   compared as a set of (name, value) pairs ---- *)
Definition entry_eqb (a b : pystr * oval) : bool := str_eqb (fst a) (fst b) && oval_eqb (snd a) (snd b).
Definition call_eqb (a b : list (pystr * oval)) : bool :=
  forallb (fun p => existsb (entry_eqb p) b) a && forallb (fun p => existsb (entry_eqb p) a) b.
Definition step_eqb (a b : step_obs) : bool :=
  result_eqb (o_result a) (o_result b)
  && list_eqb (list_eqb oval_eqb) (o_values a) (o_values b)
  && list_eqb (list_eqb call_eqb) (o_calls a) (o_calls b).
Fixpoint first_diff (n : N) (a b : list step_obs) : option N :=
  match a, b with
  | [], [] => None
  | x :: a', y :: b' => if step_eqb x y then first_diff (N.succ n) a' b' else Some n
  | _, _ => Some n
  end.
(* None = equal; Some 0 = setup / initial values differ; Some (k+1) = step k differs *)
Definition obs_diff (a b : observation) : option N :=
  match a, b with
  | ObsSetupFailed, ObsSetupFailed => None
  | Obs i1 s1, Obs i2 s2 =>
      if list_eqb (list_eqb oval_eqb) i1 i2
      then match first_diff 0 s1 s2 with Some k => Some (N.succ k) | None => None end
      else Some 0
  | _, _ => Some 0
  end.

Definition c1 (o : oracle) := clause_fails (cl_status lext).
Definition c2 (o : oracle) := clause_fails (cl_applied (fparse o) lext).
Definition c3 (o : oracle) := clause_fails (cl_callback (fparse o) lext).
Definition c4 (o : oracle) := clause_fails (cl_isolation lext).

Definition flag (r : option N) (base k : N) : list (N * N * N) :=
  match r with Some d => [(base, k, d)] | None => [] end.

(* (case index, kind, step): kind 0 = the model's observation differs from the implementation's;
   kind 1..4 = that clause fails on the IMPLEMENTATION's observation at that step (in-domain cases) *)
Fixpoint report (base : N) (cases : list (oracle * input * observation)) : list (N * N * N) :=
  match cases with
  | [] => []
  | (o, i, ob) :: r =>
      flag (obs_diff (m_run o i) ob) base 0 ++
      (if dom o i then
         flag (c1 o i ob) base 1 ++ flag (c2 o i ob) base 2 ++
         flag (c3 o i ob) base 3 ++ flag (c4 o i ob) base 4
       else []) ++
      report (N.succ base) r
  end.

Definition replay (c : oracle * input * observation) :=
  let '(o, i, ob) := c in
  (m_run o i, dom o i, obs_diff (m_run o i) ob, (c1 o i ob, c2 o i ob, c3 o i ob, c4 o i ob)).
