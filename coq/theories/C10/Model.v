(* C10 — NOTIFY requests are routed by SID and applied completely: executable model of the anchored
   code.  Definitions only.

   async_upnp_client/event_handler.py   UpnpEventHandler.handle_notify
   async_upnp_client/client.py          UpnpService.notify_changed_state_variables,
                                        has_state_variable / state_variable,
                                        UpnpStateVariable.upnp_value / .value setters (= C08's model)

   Per-variable conversion and validation are C08's model (apply_in, validate, set_upnp_value, decl /
   mk_decl over the tables generated from const.py and utils.py).

   What is not modelled:
     * XML text -> element tree (defusedxml / expat) and body.rstrip(" \t\r\n\0"): an event body is given
       as the tree the parser yields (the children of the root, and for every e:property child its
       children as (tag, text) pairs), or as "the parser raised".  The harness renders the tree to text
       in many ways and the real parser reads it back.
     * the backlog kept for SIDs that are not (yet) routed (property C11): here an unrouted SID is
       answered 200 and touches no service, which is all that handle_notify lets a caller observe of it.
     * weak references: the harness keeps every subscribed service alive. *)
From Coq Require Import List Bool NArith ZArith.
From AUC Require Import Prelude.PyStr Prelude.PyDict C08.TypesDef C08.Model Gen.Types.
Import ListNotations.
Local Open Scope N_scope.

Definition s_NT : pystr := [78;84].
Definition s_NTS : pystr := [78;84;83].
Definition s_SID : pystr := [83;73;68].
Definition s_upnp_event : pystr := [117;112;110;112;58;101;118;101;110;116].
Definition s_upnp_propchange : pystr := [117;112;110;112;58;112;114;111;112;99;104;97;110;103;101].
Definition c_rbrace : N := 125.
Definition c_lbrace : N := 123.

(* ------------------------------------------------------------------ what a description declares *)
Record var_def := mkVarDef {
  vd_name : pystr; vd_type : pystr; vd_allowed : list pystr;
  vd_has_range : bool; vd_min : option pystr; vd_max : option pystr }.
(* one service (built by its own UpnpFactory: strictness is per factory); sd_callback = on_event is set *)
Record svc_def := mkSvcDef { sd_strict : bool; sd_callback : bool; sd_vars : list var_def }.

(* ------------------------------------------------------------------ a NOTIFY request *)
(* the mapping the caller hands over: a plain dict built from the pairs (exact keys, the last
   duplicate wins) or a multidict.CIMultiDict as aiohttp supplies (case-insensitive, the first wins) *)
Inductive hkind := HPlain | HCI.
(* children of the root element: an {urn:schemas-upnp-org:event-1-0}property element with its child
   elements (tag, .text), or any other element (skipped by findall("./event:property")) *)
Inductive child := CProperty (vars : list (pystr * option pystr)) | COther.
Inductive body := BTree (children : list child) | BBad.     (* BBad: DET.fromstring raises *)
Record notify := mkNotify { n_kind : hkind; n_headers : list (pystr * pystr); n_body : body }.

(* ------------------------------------------------------------------ state *)
Record variable := mkVariable { sv_decl : decl; sv_stored : stored }.
Definition call := list (pystr * stored).                  (* on_event(service, [state variables]) *)
Record service := mkService { s_vars : dict pystr variable; s_on_event : bool; s_log : list call }.
(* _subscriptions: SID -> service (an index into the service list) *)
Record handler := mkHandler { h_subs : dict pystr nat; h_services : list service }.

Inductive nexn := XmlError | KeyError | Escaped (e : exn).
Inductive result := Status (code : N) | Raised (e : nexn).

Fixpoint set_nth {A} (l : list A) (k : nat) (x : A) : list A :=
  match l, k with
  | [], _ => []
  | _ :: r, O => x :: r
  | y :: r, S k' => y :: set_nth r k' x
  end.

(* s[s.find(c)+1:] if c in s *)
Fixpoint after_char (c : N) (s : pystr) : option pystr :=
  match s with
  | [] => None
  | x :: r => if N.eqb x c then Some r else after_char c r
  end.
Fixpoint until_char (c : N) (s : pystr) : pystr :=
  match s with
  | [] => []
  | x :: r => if N.eqb x c then [] else x :: until_char c r
  end.
(* name.split("}")[1], defined when "}" in name *)
Definition split1 (name : pystr) : option pystr :=
  match after_char c_rbrace name with
  | Some rest => Some (until_char c_rbrace rest)
  | None => None
  end.

(* el_state_var.text or "" *)
Definition text_or_empty (t : option pystr) : pystr := match t with Some s => s | None => [] end.

Section Model.
  (* not modelled (no law assumed): float(), str.lower() outside ASCII *)
  Variable float_of_str : pystr -> option fl.
  Variable lower_ext : N -> N.

  (* ---------------------------------------------------------------- construction *)
  Definition mk_var (strict : bool) (vd : var_def) : res variable :=
    match find_row (vd_type vd) type_table with
    | None => Raise OtherError                                (* UpnpError: unsupported data type *)
    | Some row =>
        match mk_decl float_of_str lower_ext row strict (vd_allowed vd) (vd_has_range vd)
                      (vd_min vd) (vd_max vd) with
        | Ok d => Ok (mkVariable d SNone)
        | Raise e => Raise e
        end
    end.
  (* {sv.name: sv for sv in state_variables} *)
  Fixpoint mk_vars (strict : bool) (vds : list var_def) (acc : dict pystr variable)
    : res (dict pystr variable) :=
    match vds with
    | [] => Ok acc
    | vd :: r =>
        match mk_var strict vd with
        | Ok v => mk_vars strict r (dset str_eqb acc (vd_name vd) v)
        | Raise e => Raise e
        end
    end.
  Definition mk_service (sd : svc_def) : res service :=
    match mk_vars (sd_strict sd) (sd_vars sd) [] with
    | Ok vars => Ok (mkService vars (sd_callback sd) [])
    | Raise e => Raise e
    end.
  Fixpoint mk_services (sds : list svc_def) : res (list service) :=
    match sds with
    | [] => Ok []
    | sd :: r =>
        match mk_service sd, mk_services r with
        | Ok s, Ok ss => Ok (s :: ss)
        | Raise e, _ => Raise e
        | _, Raise e => Raise e
        end
    end.

  (* ---------------------------------------------------------------- header mapping *)
  Definition ci_eqb (a b : pystr) : bool :=
    str_eqb (lower_with lower_ext a) (lower_with lower_ext b).
  Fixpoint hget_plain (h : list (pystr * pystr)) (k : pystr) (acc : option pystr) : option pystr :=
    match h with
    | [] => acc
    | (k', v) :: r => hget_plain r k (if str_eqb k' k then Some v else acc)
    end.
  Fixpoint hget_ci (h : list (pystr * pystr)) (k : pystr) : option pystr :=
    match h with
    | [] => None
    | (k', v) :: r => if ci_eqb k' k then Some v else hget_ci r k
    end.
  (* None = `k not in headers`; Some v = headers[k] *)
  Definition hget (n : notify) (k : pystr) : option pystr :=
    match n_kind n with
    | HPlain => hget_plain (n_headers n) k None
    | HCI => hget_ci (n_headers n) k
    end.

  (* ---------------------------------------------------------------- client.py: UpnpService *)
  Definition has_rbrace (s : pystr) : bool := existsb (N.eqb c_rbrace) s.

  (*  if name not in self.state_variables and "}" in name: name = name.split("}")[1]
      return name in self.state_variables  *)
  Definition has_state_variable (vars : dict pystr variable) (name : pystr) : bool :=
    if negb (dhas str_eqb vars name) && has_rbrace name
    then match split1 name with Some n' => dhas str_eqb vars n' | None => false end
    else dhas str_eqb vars name.

  (*  state_var = self.state_variables.get(name, None)
      if not state_var and "}" in name: name = name.split("}")[1]; state_var = ....get(name, None)
      if state_var is None: raise KeyError(name)  *)
  Definition state_variable (vars : dict pystr variable) (name : pystr) : option (pystr * variable) :=
    match dget str_eqb vars name with
    | Some v => Some (name, v)
    | None =>
        if has_rbrace name then
          match split1 name with
          | Some n' => match dget str_eqb vars n' with Some v => Some (n', v) | None => None end
          | None => None
          end
        else None
    end.

  (* the loop of notify_changed_state_variables: (variables, changed so far) -> ..., or the exception
     that escapes it together with the state it leaves behind *)
  Fixpoint apply_changes (vars : dict pystr variable) (changes : list (pystr * pystr))
           (changed : list pystr) : dict pystr variable * list pystr * option nexn :=
    match changes with
    | [] => (vars, changed, None)
    | (name, value) :: r =>
        if negb (has_state_variable vars name) then apply_changes vars r changed
        else
          match state_variable vars name with
          | None => (vars, changed, Some KeyError)
          | Some (n, v) =>
              (* try: state_var.upnp_value = value; changed.append(state_var)
                 except UpnpValueError: log *)
              let '(st', rr) := set_upnp_value float_of_str lower_ext (sv_decl v) (sv_stored v) value in
              let vars' := dset str_eqb vars n (mkVariable (sv_decl v) st') in
              match rr with
              | Ok _ => apply_changes vars' r (changed ++ [n])
              | Raise UpnpValueError => apply_changes vars' r changed
              | Raise e => (vars', changed, Some (Escaped e))
              end
          end
    end.

  Definition stored_of (vars : dict pystr variable) (n : pystr) : stored :=
    match dget str_eqb vars n with Some v => sv_stored v | None => SNone end.

  (* notify_changed_state_variables *)
  Definition notify_changed (s : service) (changes : list (pystr * pystr)) : service * option nexn :=
    let '(vars', changed, err) := apply_changes (s_vars s) changes [] in
    match err with
    | Some e => (mkService vars' (s_on_event s) (s_log s), Some e)
    | None =>
        if s_on_event s
        then (mkService vars' true (s_log s ++ [map (fun n => (n, stored_of vars' n)) changed]), None)
        else (mkService vars' false (s_log s), None)
    end.

  (* ---------------------------------------------------------------- event_handler.py *)
  (*  for el_property in el_root.findall("./event:property", NS):
          for el_state_var in el_property: changes[el_state_var.tag] = el_state_var.text or ""  *)
  Definition walk_property (acc : dict pystr pystr) (vars : list (pystr * option pystr)) : dict pystr pystr :=
    fold_left (fun a tv => dset str_eqb a (fst tv) (text_or_empty (snd tv))) vars acc.
  Definition walk (cs : list child) : dict pystr pystr :=
    fold_left (fun a c => match c with CProperty vars => walk_property a vars | COther => a end) cs [].

  Definition handle_notify (h : handler) (n : notify) : handler * result :=
    match hget n s_NT, hget n s_NTS with
    | None, _ | _, None => (h, Status 400)                                  (* BAD_REQUEST *)
    | Some nt, Some nts =>
        if negb (str_eqb nt s_upnp_event) || negb (str_eqb nts s_upnp_propchange) then (h, Status 412)
        else
          match hget n s_SID with
          | None => (h, Status 412)                                          (* PRECONDITION_FAILED *)
          | Some sid =>
              match dget str_eqb (h_subs h) sid with
              | None => (h, Status 200)                                      (* backlog: see C11 *)
              | Some k =>
                  match nth_error (h_services h) k with
                  | None => (h, Status 200)                                  (* not reachable from setup *)
                  | Some s =>
                      match n_body n with
                      | BBad => (h, Raised XmlError)
                      | BTree cs =>
                          let '(s', err) := notify_changed s (walk cs) in
                          let h' := mkHandler (h_subs h) (set_nth (h_services h) k s') in
                          match err with
                          | Some e => (h', Raised e)
                          | None => (h', Status 200)
                          end
                      end
                  end
              end
          end
    end.

  (* ---------------------------------------------------------------- histories and observations *)
  Definition oval := pyval.                                  (* what .value reads: the sentinel reads None *)
  Definition obs_stored (s : stored) : oval := read_value s.
  Record step_obs := mkStep {
    o_result : result;
    o_values : list (list oval);                             (* per service, per variable (declared order) *)
    o_calls : list (list (list (pystr * oval))) }.           (* per service: the on_event calls of this step *)

  Definition values_of (s : service) : list oval := map (fun kv => obs_stored (sv_stored (snd kv))) (s_vars s).
  Definition calls_of (s : service) : list (list (pystr * oval)) :=
    map (map (fun p => (fst p, obs_stored (snd p)))) (s_log s).
  Definition clear_log (s : service) : service := mkService (s_vars s) (s_on_event s) [].
  Definition clear_logs (h : handler) : handler := mkHandler (h_subs h) (map clear_log (h_services h)).

  Fixpoint run (h : handler) (evs : list notify) : list step_obs :=
    match evs with
    | [] => []
    | n :: r =>
        let '(h', res) := handle_notify (clear_logs h) n in
        mkStep res (map values_of (h_services h')) (map calls_of (h_services h')) :: run h' r
    end.

  Record input := mkInput { i_defs : list svc_def; i_routes : list (pystr * nat); i_events : list notify }.
  Inductive observation := ObsSetupFailed | Obs (init : list (list oval)) (steps : list step_obs).

  Definition setup (i : input) : res handler :=
    match mk_services (i_defs i) with
    | Ok ss => Ok (mkHandler (i_routes i) ss)
    | Raise e => Raise e
    end.
  Definition model_run (i : input) : observation :=
    match setup i with
    | Ok h => Obs (map values_of (h_services h)) (run h (i_events i))
    | Raise _ => ObsSetupFailed
    end.
End Model.
