(* C10 — the two facts about C08's model this property needs, proved here for ANY generated table
   (C08/Codec.v proves them next to the round-trip theorem, which holds only for tables with a
   lossless codec; a change of const.py that breaks C08 must not break C10's proofs):
   an in-coercer only ever raises ValueError, and the schema accepts exactly what the declaration
   allows. *)
From Coq Require Import List Bool NArith ZArith.
From AUC Require Import Prelude.PyStr C08.TypesDef C08.Model C08.Spec.
Import ListNotations.

Lemma try_matchers_errors ms ts e : try_matchers ms ts = Raise e -> e = ValueError.
Proof.
  induction ms as [|m ms IH]; cbn [try_matchers]; [congruence|].
  destruct (re_match (m_re m) ts []); [|exact IH].
  destruct (interpret (m_fmt m) l fields0); [|congruence].
  destruct (fields_valid f); congruence.
Qed.

Lemma int_of_str_errors s e : int_of_str s = Raise e -> e = ValueError.
Proof.
  unfold int_of_str. destruct (split_sign (strip s)) as [neg body].
  destruct body as [|c r]; [congruence|]. destruct (negb (is_digit c)); [congruence|].
  destruct (drop_underscores false (c :: r)); [|congruence].
  destruct (parse_uint p); congruence.
Qed.

Lemma coercion_errors float_of_str lower_ext i s e :
  apply_in float_of_str lower_ext i s = Raise e -> e = ValueError.
Proof.
  destruct i; cbn [apply_in].
  - destruct (int_of_str s) eqn:E; [discriminate|]. intros H; inversion H; subst.
    now apply int_of_str_errors in E.
  - destruct (float_of_str s); congruence.
  - discriminate.
  - unfold parse_date_time. apply try_matchers_errors.
  - discriminate.
Qed.

Lemma accepts_iff d v : validate d v = spec_accepts d v.
Proof.
  unfold validate, spec_accepts.
  destruct (type_ok d v), (tz_ok d v), (allowed_ok d v), (range_ok d v); reflexivity.
Qed.
