(* C04 — Change notifications fire exactly when something changed, with its snapshot.
   Property theorems only.  C04_notify_exact is the statement over whole histories; the others are its
   ingredients on arbitrary header maps / tracker states. *)
From Coq Require Import List Bool NArith ZArith.
From AUC Require Import Prelude.PyStr Prelude.PyDict C16.Model C16.Proofs C03.Model C03.Spec C03.Run
  C04.Spec C04.Proofs C04.Run C04.History C04.Sender C03.Clauses.
Import ListNotations.

(* "a non-volatile header value differs from the previous message of that type": for all header maps
   (C16 invariant), the code's comparison is true exactly when some header that is neither decoder
   metadata nor date / cache-control / server / host / location is present in both maps with different
   values.  The volatile list is the statement's own; the proof ties it to IGNORED_HEADERS as
   generated from the current source. *)
Theorem C04_headers_differ_exact :
  forall cur new : hdrs,
    Inv str_eqb lower cur -> Inv str_eqb lower new ->
    (same_headers_differ cur new = true <->
     exists lk a b, nonvolatile lk = true /\ hget cur lk = Some a /\ hget new lk = Some b /\ a <> b).
Proof. exact same_headers_differ_iff. Qed.
Print Assumptions C04_headers_differ_exact.

(* "At notification time the device's combined headers for that type equal the latest search headers
   overlaid by the latest advertisement headers": header by header, read case-insensitively. *)
Theorem C04_snapshot :
  forall (d : device) (ty : pystr) (s a : hdrs),
    sget (d_search d) ty = Some s -> sget (d_adv d) ty = Some a ->
    Inv str_eqb lower s -> Inv str_eqb lower a -> hget a k_source <> None ->
    exists c, combined_headers d ty = Some c /\
              forall lk, hget c lk = if str_eqb k_source lk then None
                                     else match hget a lk with Some v => Some v | None => hget s lk end.
Proof. exact combined_snapshot. Qed.
Print Assumptions C04_snapshot.

(* every processed message yields at most one notification, and only messages do *)
Theorem C04_at_most_one :
  forall ipver th t o,
    match snd (fst (step ipver th t o)) with
    | Some (u, ty, _) => exists items, (o = Adv items \/ o = Srch items)
    | None => True
    end.
Proof. exact at_most_one. Qed.
Print Assumptions C04_at_most_one.

(* The statement over whole histories.  For every history of the domain (any sequence of search responses,
   ssdp:alive / ssdp:update / ssdp:byebye advertisements - valid or not, any header spelling, any types, any
   locations inside the reading, any max-age - and purges; any ip-version oracle), at every step the tracker
   model's notification is exactly the one C04.Spec.expect computes from the history alone: for a valid
   sighting of device u with type ty, source "changed" (search) / a notification at all (alive) iff u was not
   known and valid, or ty was never seen for u, or the location is new within an already known address family
   (or u had no location), or some non-volatile header differs from the previous search response /
   advertisement of that type; always for ssdp:update; ssdp:byebye iff u was known; nothing otherwise - for the
   sending device and the message's type, at most one per message; and whenever a notification is due, the
   combined headers handed out are the latest search headers overlaid by the latest advertisement headers for
   that type (steps at which a stored location has silently run out lie outside the reading and are skipped,
   as in the correspondence check).  [C04.Run.spec_failures] is the very function the correspondence check
   runs on the implementation's observations. *)
Theorem C04_notify_exact :
  forall i : input, dom i = true -> C04.Run.spec_failures i (model_run i) = [].
Proof. exact notify_exact. Qed.
Print Assumptions C04_notify_exact.

Theorem C04_notify_exact_prefix :
  forall i : input, C04.Run.spec_failures_prefix i (model_run i) = [].
Proof. exact notify_exact_prefix. Qed.
Print Assumptions C04_notify_exact_prefix.

(* The expectation is relative to the device table of the previous observation; what makes that table right is C03's
   statement.  The correspondence check therefore evaluates C03's clauses on the same observations (reported as clauses
   11..15 of C04); of the model they hold on every history, as for C03. *)
Theorem C04_tracker_clauses :
  forall i : input, C03.Run.spec_failures_prefix i (model_run i) = [].
Proof. exact C03.Clauses.spec_holds_prefix. Qed.
Print Assumptions C04_tracker_clauses.

Theorem C04_history_clauses :
  forall (ipv : pystr -> option N) (ops : list op) (t : tracker) (st : spec_state) (prev : obs) (n : N),
    C03.Inv.Inv t -> MemRel t st -> o_devs prev = devs_of t -> in_domain ops = true ->
    C04.Run.clauses_from ipv n st prev ops (run_from [] ipv t ops) = [].
Proof. exact history_clauses. Qed.
Print Assumptions C04_history_clauses.

(* "at most one notification per processed message, for the sending device and the message's type": on every history
   of the domain (no reading restriction), each step yields at most one notification (the observation carries an
   option), and when there is one it names the device of the message's uuid USN - the message being a valid sighting
   or a valid byebye of that device - and the message's own type (ST for a search response, NT for an advertisement). *)
Theorem C04_names_sender :
  forall (ipv : pystr -> option N) (ops : list op),
    in_domain ops = true ->
    Forall2 (fun o ob => match o_note ob with
                         | Some (u, ty, _) =>
                             ((exists ts vt, sighting o = Some (u, ts, vt)) \/ byebye_of o = Some u) /\
                             op_type o = Some ty
                         | None => True
                         end) ops (run_from [] ipv tracker0 ops).
Proof.
  intros ipv ops Hd. exact (history_names_sender ipv ops tracker0 [] obs0 C03.Inv.Inv0 MemRel0 eq_refl Hd).
Qed.
Print Assumptions C04_names_sender.

(* non-vacuity: a history of the domain with a "changed", an "alive", a "changed" (BOOTID differs, other spelling)
   and a byebye notification *)
Definition ex_history : input :=
  ([], [],
   [Srch [([85;83;78]%N, HStr [117;117;105;100;58;97;58;58;116]%N); ([83;84]%N, HStr [116]%N); ([76;79;67;65;84;73;79;78]%N, HStr [104;116;116;112;58;47;47;104;47;120]%N); ([66;79;79;84;73;68;46;85;80;78;80;46;79;82;71]%N, HStr [49]%N); ([95;117;100;110]%N, HStr [117;117;105;100;58;97]%N); ([95;116;105;109;101;115;116;97;109;112]%N, HTime (TS 0))];
    Srch [([117;115;110]%N, HStr [117;117;105;100;58;97;58;58;116]%N); ([115;116]%N, HStr [116]%N); ([108;111;99;97;116;105;111;110]%N, HStr [104;116;116;112;58;47;47;104;47;120]%N); ([98;111;111;116;105;100;46;117;112;110;112;46;111;114;103]%N, HStr [49]%N); ([95;117;100;110]%N, HStr [117;117;105;100;58;97]%N); ([95;116;105;109;101;115;116;97;109;112]%N, HTime (TS 5))];
    Srch [([85;83;78]%N, HStr [117;117;105;100;58;97;58;58;116]%N); ([83;84]%N, HStr [116]%N); ([76;79;67;65;84;73;79;78]%N, HStr [104;116;116;112;58;47;47;104;47;120]%N); ([66;111;111;116;73;100;46;85;80;110;80;46;111;114;103]%N, HStr [50]%N); ([95;117;100;110]%N, HStr [117;117;105;100;58;97]%N); ([95;116;105;109;101;115;116;97;109;112]%N, HTime (TS 9))];
    Adv [([85;83;78]%N, HStr [117;117;105;100;58;97;58;58;116]%N); ([78;84]%N, HStr [116]%N); ([78;84;83]%N, HStr [115;115;100;112;58;98;121;101;98;121;101]%N); ([95;117;100;110]%N, HStr [117;117;105;100;58;97]%N); ([95;116;105;109;101;115;116;97;109;112]%N, HTime (TS 12))]]).
Example C04_notify_exact_nonvacuous :
  dom ex_history = true /\
  map (fun ob => match o_note ob with Some (_, _, c) => Some c | None => None end) (model_run ex_history)
  = [Some 0; Some 1; Some 0; Some 3]%N.
Proof. vm_compute. split; reflexivity. Qed.
