(* C04 — Change notifications fire exactly when something changed, with its snapshot.
   Property theorems only.  C04_notify_exact is the statement over whole histories; the others are its
   ingredients on arbitrary header maps / tracker states. *)
From Coq Require Import List Bool NArith ZArith.
From AUC Require Import Prelude.PyStr Prelude.PyDict C16.Model C16.Proofs C03.Model C03.Spec C03.Run
  C04.Spec C04.Proofs C04.Run C04.History.
Import ListNotations.

(* "a non-volatile header value differs from the previous message of that type": for all header maps
   (C16 invariant), the code's comparison is true exactly when some header that is neither decoder
   metadata nor date / cache-control / server / host / location is present in both maps with different
   values.  The volatile list is the statement's own; the proof ties it to IGNORED_HEADERS as
   generated from the current source. *)
Theorem C04_headers_differ_exact :
  forall cur new : hdrs,
    Inv str_eqb lower cur -> Inv str_eqb lower new ->
    (same_headers_differ cur new = true <->
     exists lk a b, nonvolatile lk = true /\ hget cur lk = Some a /\ hget new lk = Some b /\ a <> b).
Proof. exact same_headers_differ_iff. Qed.
Print Assumptions C04_headers_differ_exact.

(* "At notification time the device's combined headers for that type equal the latest search headers
   overlaid by the latest advertisement headers": header by header, read case-insensitively. *)
Theorem C04_snapshot :
  forall (d : device) (ty : pystr) (s a : hdrs),
    sget (d_search d) ty = Some s -> sget (d_adv d) ty = Some a ->
    Inv str_eqb lower s -> Inv str_eqb lower a -> hget a k_source <> None ->
    exists c, combined_headers d ty = Some c /\
              forall lk, hget c lk = if str_eqb k_source lk then None
                                     else match hget a lk with Some v => Some v | None => hget s lk end.
Proof. exact combined_snapshot. Qed.
Print Assumptions C04_snapshot.

(* every processed message yields at most one notification, and only messages do *)
Theorem C04_at_most_one :
  forall ipver th t o,
    match snd (fst (step ipver th t o)) with
    | Some (u, ty, _) => exists items, (o = Adv items \/ o = Srch items)
    | None => True
    end.
Proof. exact at_most_one. Qed.
Print Assumptions C04_at_most_one.

(* The statement over whole histories.  For every history of the domain (any sequence of search responses,
   ssdp:alive / ssdp:update / ssdp:byebye advertisements - valid or not, any header spelling, any types, any
   locations inside the reading, any max-age - and purges; any ip-version oracle), at every step the tracker
   model's notification is exactly the one C04.Spec.expect computes from the history alone: for a valid
   sighting of device u with type ty, source "changed" (search) / a notification at all (alive) iff u was not
   known and valid, or ty was never seen for u, or the location is new within an already known address family
   (or u had no location), or some non-volatile header differs from the previous search response /
   advertisement of that type; always for ssdp:update; ssdp:byebye iff u was known; nothing otherwise - for the
   sending device and the message's type, at most one per message; and whenever a notification is due, the
   combined headers handed out are the latest search headers overlaid by the latest advertisement headers for
   that type (steps at which a stored location has silently run out lie outside the reading and are skipped,
   as in the correspondence check).  [C04.Run.spec_failures] is the very function the correspondence check
   runs on the implementation's observations. *)
Theorem C04_notify_exact :
  forall i : input, dom i = true -> C04.Run.spec_failures i (model_run i) = [].
Proof. exact notify_exact. Qed.
Print Assumptions C04_notify_exact.

Theorem C04_history_clauses :
  forall (ipv : pystr -> option N) (ops : list op) (t : tracker) (st : spec_state) (prev : obs) (n : N),
    C03.Inv.Inv t -> MemRel t st -> o_devs prev = devs_of t -> in_domain ops = true ->
    C04.Run.clauses_from ipv n st prev ops (run_from [] ipv t ops) = [].
Proof. exact history_clauses. Qed.
Print Assumptions C04_history_clauses.
