(* C04 — Change notifications fire exactly when something changed, with its snapshot.
   Property theorems only.  The clause-level statement over whole histories (Run.spec_failures on
   model_run) is evaluated by the correspondence check on every run; what is proved here are its
   ingredients on arbitrary header maps / tracker states (see DESIGN.md, C04: notify_exact_partial). *)
From Coq Require Import List Bool NArith ZArith.
From AUC Require Import Prelude.PyStr Prelude.PyDict C16.Model C16.Proofs C03.Model C03.Spec C04.Spec C04.Proofs.
Import ListNotations.

(* "a non-volatile header value differs from the previous message of that type": for all header maps
   (C16 invariant), the code's comparison is true exactly when some header that is neither decoder
   metadata nor date / cache-control / server / host / location is present in both maps with different
   values.  The volatile list is the statement's own; the proof ties it to IGNORED_HEADERS as
   generated from the current source. *)
Theorem C04_headers_differ_exact :
  forall cur new : hdrs,
    Inv str_eqb lower cur -> Inv str_eqb lower new ->
    (same_headers_differ cur new = true <->
     exists lk a b, nonvolatile lk = true /\ hget cur lk = Some a /\ hget new lk = Some b /\ a <> b).
Proof. exact same_headers_differ_iff. Qed.
Print Assumptions C04_headers_differ_exact.

(* "At notification time the device's combined headers for that type equal the latest search headers
   overlaid by the latest advertisement headers": header by header, read case-insensitively. *)
Theorem C04_snapshot :
  forall (d : device) (ty : pystr) (s a : hdrs),
    sget (d_search d) ty = Some s -> sget (d_adv d) ty = Some a ->
    Inv str_eqb lower s -> Inv str_eqb lower a -> hget a k_source <> None ->
    exists c, combined_headers d ty = Some c /\
              forall lk, hget c lk = if str_eqb k_source lk then None
                                     else match hget a lk with Some v => Some v | None => hget s lk end.
Proof. exact combined_snapshot. Qed.
Print Assumptions C04_snapshot.

(* every processed message yields at most one notification, and only messages do *)
Theorem C04_at_most_one :
  forall ipver th t o,
    match snd (fst (step ipver th t o)) with
    | Some (u, ty, _) => exists items, (o = Adv items \/ o = Srch items)
    | None => True
    end.
Proof. exact at_most_one. Qed.
Print Assumptions C04_at_most_one.
