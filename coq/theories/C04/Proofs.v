(* C04 — the decision ingredients and the snapshot, on header maps satisfying the C16 invariant. *)
From Coq Require Import List Bool NArith ZArith Lia.
From AUC Require Import Prelude.PyStr Prelude.PyDict C16.Model C16.Spec C16.Proofs
  C03.Model C03.Spec C03.Bridge C04.Spec Gen.Ssdp.
Import ListNotations.

Local Notation KS := str_eqb_spec.
Local Notation HInv := (C16.Proofs.Inv str_eqb lower).

Lemma hval_eqb_spec a b : reflect (a = b) (hval_eqb a b).
Proof.
  destruct a, b; cbn; try (constructor; congruence).
  - destruct (KS s s0); constructor; congruence.
  - destruct (Z.eqb_spec t t0); constructor; congruence.
  - destruct (N.eqb_spec n n0); constructor; congruence.
Qed.

(* the generated IGNORED_HEADERS is the statement's list of volatile headers *)
Lemma ignored_is_volatile lk : ignored lk = negb (nonvolatile lk).
Proof.
  unfold ignored, nonvolatile, ignored_headers, spec_volatile. cbn [existsb].
  destruct (is_meta lk); cbn; [reflexivity|].
  repeat match goal with
         | |- context [str_eqb lk ?c] => destruct (str_eqb lk c)
         end; reflexivity.
Qed.

Lemma hget_blookup (h : hdrs) lk :
  hget h lk = match blookup str_eqb h lk with Some e => Some (snd e) | None => None end.
Proof.
  unfold hget, b_get_lower, blookup, plookup.
  destruct (dget str_eqb (bcmap h) lk) as [k|]; [|reflexivity].
  destruct (dget str_eqb (bdata h) k); reflexivity.
Qed.

(* same_headers_differ: some non-volatile header present in both maps has a different value *)
Theorem same_headers_differ_iff (cur new : hdrs) : HInv cur -> HInv new ->
  (same_headers_differ cur new = true <->
   exists lk a b, nonvolatile lk = true /\ hget cur lk = Some a /\ hget new lk = Some b /\ a <> b).
Proof.
  intros [Hnd Hnc Hc Hd] [Hnd' Hnc' Hc' Hd']. unfold same_headers_differ. rewrite existsb_exists. split.
  - intros [[lk k] [Hin Ht]]. cbn [fst snd] in Ht. rewrite ignored_is_volatile in Ht.
    destruct (nonvolatile lk) eqn:En; [|discriminate]. cbn [negb] in Ht.
    destruct (dget str_eqb (bcmap new) lk) as [nk|] eqn:E1; [|discriminate].
    destruct (dget str_eqb (bdata cur) k) as [a|] eqn:E2; [|discriminate].
    destruct (dget str_eqb (bdata new) nk) as [b|] eqn:E3; [|discriminate].
    apply negb_true_iff in Ht. exists lk, a, b. split; [exact En|].
    apply (In_dget str_eqb KS _ _ _ Hnc) in Hin.
    unfold hget, b_get_lower. rewrite Hin, E1, E2, E3. repeat split.
    revert Ht. destruct (hval_eqb_spec a b); intros; congruence.
  - intros [lk [a [b [En [Ha [Hb Hne]]]]]]. unfold hget, b_get_lower in Ha, Hb.
    destruct (dget str_eqb (bcmap cur) lk) as [k|] eqn:E0; [|discriminate].
    destruct (dget str_eqb (bcmap new) lk) as [nk|] eqn:E1; [|discriminate].
    exists (lk, k). split; [now apply (dget_In str_eqb KS)|]. cbn [fst snd].
    rewrite ignored_is_volatile, En, E1, Ha, Hb. cbn [negb].
    destruct (hval_eqb_spec a b); [congruence | reflexivity].
Qed.

(* every header map has a canonical abstraction *)
Lemma rel_canon (b : hdrs) : HInv b -> Rel str_eqb lower b (s_writes str_eqb lower [] (bdata b)).
Proof.
  intros Hi. split; [exact Hi|]. split; [apply (SInv_writes KS), SInv_nil|].
  intros lk. rewrite (s_writes_get str_eqb KS lower). cbn. rewrite (LW_self KS) by exact Hi.
  destruct (blookup str_eqb b lk); reflexivity.
Qed.

(* combine(search, advertisement): the advertisement wins, header by header *)
Lemma combine_lookup (s a : hdrs) : HInv s -> HInv a ->
  exists c, b_combine str_eqb s a = Some c /\ HInv c /\
            forall lk, blookup str_eqb c lk =
                       match blookup str_eqb a lk with Some e => Some e | None => blookup str_eqb s lk end.
Proof.
  intros Hs Ha. pose proof (H_combine_body KS (rel_canon s Hs) (rel_canon a Ha)) as H.
  destruct (b_combine str_eqb s a) as [c|]; [|contradiction]. cbn in H. destruct H as [Hi [Hsi Hl]].
  exists c. split; [reflexivity|]. split; [exact Hi|]. intros lk. rewrite Hl.
  rewrite (s_writes_get str_eqb KS lower). rewrite (LW_smap KS) by (apply (SInv_writes KS), SInv_nil).
  rewrite !(s_writes_get str_eqb KS lower). cbn. rewrite !(LW_self KS) by assumption.
  destruct (blookup str_eqb a lk); [reflexivity|]. destruct (blookup str_eqb s lk); reflexivity.
Qed.

Lemma del_lower_lookup (c : hdrs) lk0 : HInv c ->
  match b_del_lower str_eqb c lk0 with
  | Some c' => HInv c' /\ forall lk, blookup str_eqb c' lk = if str_eqb lk0 lk then None else blookup str_eqb c lk
  | None => blookup str_eqb c lk0 = None
  end.
Proof.
  intros Hc. pose proof (H_del_lower_body KS lk0 (rel_canon c Hc)) as H.
  unfold s_del_lower, dhas in H. pose proof (rel_canon c Hc) as [_ [_ Hl]].
  destruct (b_del_lower str_eqb c lk0) as [c'|].
  - destruct (dget str_eqb (s_writes str_eqb lower [] (bdata c)) lk0) eqn:E; [|contradiction].
    cbn in H. destruct H as [Hi [Hsi Hl']]. split; [exact Hi|]. intros lk. rewrite Hl'.
    rewrite (dget_ddel str_eqb KS) by (apply (SInv_writes KS), SInv_nil). rewrite <- Hl. reflexivity.
  - destruct (dget str_eqb (s_writes str_eqb lower [] (bdata c)) lk0) eqn:E; [contradiction|].
    now rewrite Hl.
Qed.

(* SsdpDevice.combined_headers when both kinds of headers are known for the type: every header
   except _source reads as the advertisement's value if it has one, else the search response's *)
Theorem combined_snapshot (d : device) ty (s a : hdrs) :
  sget (d_search d) ty = Some s -> sget (d_adv d) ty = Some a -> HInv s -> HInv a ->
  hget a k_source <> None ->
  exists c, combined_headers d ty = Some c /\
            forall lk, hget c lk = if str_eqb k_source lk then None
                                   else match hget a lk with Some v => Some v | None => hget s lk end.
Proof.
  intros Es Ea Hs Ha Hsrc. unfold combined_headers. rewrite Es, Ea.
  destruct (combine_lookup s a Hs Ha) as [c [Ec [Hc Hl]]]. rewrite Ec.
  pose proof (del_lower_lookup c k_source Hc) as Hd.
  destruct (b_del_lower str_eqb c k_source) as [c'|].
  - destruct Hd as [Hi' Hl']. exists c'. split; [reflexivity|]. intros lk.
    rewrite hget_blookup, Hl'. destruct (str_eqb k_source lk); [reflexivity|].
    rewrite Hl, !hget_blookup. destruct (blookup str_eqb a lk); [reflexivity|].
    destruct (blookup str_eqb s lk); reflexivity.
  - exfalso. apply Hsrc. rewrite hget_blookup. rewrite Hl in Hd.
    destruct (blookup str_eqb a k_source); [discriminate | reflexivity].
Qed.

(* at most one notification per processed message, for the sending device and the message's type *)
Theorem at_most_one ipver th t o :
  match snd (fst (step ipver th t o)) with
  | Some (u, ty, _) => exists items, (o = Adv items \/ o = Srch items)
  | None => True
  end.
Proof.
  destruct o as [items|items|nw]; cbn [step]; try exact I.
  - destruct (on_adv ipver t (mk_hdrs items)) as [[t' [[[u ty] s]|]] d]; cbn; eauto.
  - destruct (on_srch ipver th t (mk_hdrs items)) as [[t' [[[u ty] s]|]] d]; cbn; eauto.
Qed.
