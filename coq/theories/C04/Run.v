(* C04 — instantiation used by the correspondence check; model and observations are C03's. *)
From Coq Require Import List Bool NArith ZArith.
From AUC Require Export C03.Run C04.Spec.
Import ListNotations.
Local Open Scope N_scope.

(* clause 1: the notification is exactly the expected one (at most one, right device/type/source)
   clause 2: the combined headers at notification time are the overlay *)
Fixpoint clauses_from (ipv : pystr -> option N) (n : N) (st : spec_state) (prev : obs)
         (ops : list op) (obs_l : observation) : list (N * N) :=
  match ops, obs_l with
  | o :: ops', ob :: obs' =>
      let '(note, comb, st', in_reading) := expect ipv st prev o in
      (if negb in_reading || C04.Spec.note_eqb (o_note ob) note then [] else [(1, n)]) ++
      (if negb in_reading ||
          match note, o_note ob with
          | Some _, Some _ => perm_eqb C04.Spec.kv_eqb (o_combined ob) comb
          | _, _ => true
          end then [] else [(2, n)]) ++
      clauses_from ipv (N.succ n) st' ob ops' obs'
  | [], [] => []
  | _, _ => [(1, n)]
  end.

Definition spec_failures (i : input) (obs_l : observation) : list (N * N) :=
  let '(_, tab, ops) := i in clauses_from (ipver_of tab) 0 [] obs0 ops obs_l.

(* evaluated on the longest in-domain prefix of the history (see C03.Run.dom_prefix) *)
Definition spec_failures_prefix (i : input) (obs_l : observation) : list (N * N) :=
  let '(th, tab, ops) := i in
  match th with
  | [] => let p := dom_prefix ops in clauses_from (ipver_of tab) 0 [] obs0 p (firstn (length p) obs_l)
  | _ => []
  end.

Fixpoint report (base : N) (cases : list (input * observation)) : list (N * N * N) :=
  match cases with
  | [] => []
  | (i, o) :: r =>
      (match first_diff 0 (model_run i) o with Some p => [(base, 0, p)] | None => [] end) ++
      map (fun e => (base, fst e, snd e)) (spec_failures_prefix i o) ++
      (* the expectation above takes the device table (who is known, with which locations, until when) from the
         previous observation; what makes that table right is C03's statement, so its clauses are evaluated on the
         same observations here (numbered 11..15; proved of the model as C03_spec_holds_prefix) *)
      map (fun e => (base, 10 + fst e, snd e)) (C03.Run.spec_failures_prefix i o) ++
      report (N.succ base) r
  end.

Definition replay (c : input * observation) :=
  (model_run (fst c), dom (fst c), spec_failures_prefix (fst c) (snd c), C03.Run.spec_failures_prefix (fst c) (snd c)).
