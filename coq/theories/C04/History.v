(* C04 — the history-level statement: on every history of the domain the tracker model's notifications and
   snapshots are exactly the ones the specification computes from the history (C04.Spec.expect), i.e. the
   clauses the correspondence check evaluates on the implementation hold of the model for all histories. *)
From Coq Require Import List Bool NArith ZArith Lia Permutation.
From AUC Require Import Prelude.PyStr Prelude.PyDict C16.Model C16.Spec C16.Proofs C16.Equivb
  C03.Model C03.Spec C03.Inv C03.Bridge C03.StepChar C03.Run C03.Clauses C04.Spec C04.Proofs C04.Run Gen.Ssdp.
Import ListNotations.

Local Notation KS := str_eqb_spec.
Local Notation HInv := (C16.Proofs.Inv str_eqb lower).
Local Notation TInv := C03.Inv.Inv.

(* ------------------------------------------------------------------ association lists *)
Lemma perm_of_dget (V : Type) (x y : dict pystr V) :
  NoDup (dkeys x) -> NoDup (dkeys y) -> (forall k, dget str_eqb x k = dget str_eqb y k) -> Permutation x y.
Proof.
  intros Hx Hy H. apply NoDup_Permutation; [now apply NoDup_pairs | now apply NoDup_pairs |].
  intros [k v]. split; intros Hin.
  - apply (In_dget str_eqb KS _ _ _ Hx) in Hin. rewrite H in Hin. now apply (dget_In str_eqb KS).
  - apply (In_dget str_eqb KS _ _ _ Hy) in Hin. rewrite <- H in Hin. now apply (dget_In str_eqb KS).
Qed.

Lemma dget_filter_key (V : Type) (p : pystr -> bool) (l : dict pystr V) k :
  dget str_eqb (filter (fun kv => p (fst kv)) l) k = if p k then dget str_eqb l k else None.
Proof.
  induction l as [|[a v] r IH]; cbn [filter dget fst]; [now destruct (p k)|].
  destruct (p a) eqn:Ea; cbn [dget]; destruct (KS a k) as [Heq|Hne].
  - subst a. now rewrite Ea.
  - exact IH.
  - subst a. now rewrite IH, Ea.
  - exact IH.
Qed.

Lemma NoDup_filter_keys (V : Type) (f : pystr * V -> bool) (l : dict pystr V) :
  NoDup (dkeys l) -> NoDup (dkeys (filter f l)).
Proof. apply NoDup_keys_filter. Qed.

Lemma kv_eqb_spec a b : reflect (a = b) (C04.Spec.kv_eqb a b).
Proof.
  destruct a as [k v], b as [k' v']. unfold C04.Spec.kv_eqb. cbn [fst snd].
  destruct (KS k k'), (hval_eqb_spec v v'); cbn; constructor; congruence.
Qed.

Lemma not_source_sym lk : negb (str_eqb lk k_source) = negb (str_eqb k_source lk).
Proof. destruct (KS lk k_source), (KS k_source lk); congruence. Qed.

(* ------------------------------------------------------------------ stored messages *)
Definition stored_ok (src : pystr) (h : hdrs) (items : list (pystr * hval)) : Prop :=
  HInv h /\ items_ok items /\
  forall lk, hget h lk = if str_eqb k_source lk then Some (HStr src) else item_get items lk.

Definition stored_rel (src : pystr) (oh : option hdrs) (oi : option (list (pystr * hval))) : Prop :=
  match oh, oi with
  | Some h, Some it => stored_ok src h it
  | None, None => True
  | _, _ => False
  end.

Definition mem_of (st : spec_state) (u : pystr) : mem :=
  match mget st u with Some m => m | None => mem0 end.

Definition dev_rel (d : device) (m : mem) : Prop :=
  (forall ty, stored_rel src_search (sget (d_search d) ty) (mget (fst m) ty)) /\
  (forall ty, stored_rel src_advertisement (sget (d_adv d) ty) (mget (snd m) ty)).

Definition MemRel (t : tracker) (st : spec_state) : Prop :=
  forall u d, In (u, d) (devices t) -> dev_rel d (mem_of st u).

Lemma msg_stored items src : items_ok items -> stored_ok src (with_source (mk_hdrs items) src) items.
Proof.
  intros H. destruct (mk_hdrs_ok _ H) as [Hi Hg]. split; [apply (with_source_get _ src k_source Hi)|].
  split; [exact H|]. intros lk. destruct (with_source_get _ src lk Hi) as [_ E]. rewrite E, Hg. reflexivity.
Qed.

Lemma nonvolatile_not_source lk : nonvolatile lk = true -> str_eqb k_source lk = false.
Proof.
  intros H. destruct (KS k_source lk) as [<-|]; [|reflexivity]. vm_compute in H. discriminate.
Qed.

Lemma item_get_entry items lk v : items_ok items ->
  (item_get items lk = Some v <-> exists k, In (k, v) items /\ lower k = lk).
Proof.
  intros Hok. unfold items_ok in Hok. apply (nodupb_NoDup str_eqb KS) in Hok. unfold item_get. split.
  - intros H. apply (dlast_In str_eqb KS) in H. apply in_map_iff in H as [[k w] [Heq Hin]].
    cbn [fst snd] in Heq. inversion Heq; subst. eauto.
  - intros [k [Hin <-]]. rewrite (dlast_dget str_eqb KS) by (rewrite map_map; exact Hok).
    apply (In_dget str_eqb KS); [rewrite <- map_map in Hok; unfold dkeys; rewrite map_map; cbn [fst]; rewrite map_map in Hok; exact Hok|].
    apply in_map_iff. exists (k, v). auto.
Qed.

(* the comparison of the implementation is the statement's comparison of the two messages *)
Lemma differ_eq src src' old oi h items :
  stored_ok src old oi -> stored_ok src' h items -> same_headers_differ old h = spec_differ oi items.
Proof.
  intros [Ho [Hoi Hgo]] [Hh [Hit Hgh]]. apply Bool.eq_true_iff_eq.
  rewrite (same_headers_differ_iff old h Ho Hh). unfold spec_differ. rewrite existsb_exists. split.
  - intros [lk [a [b [Hnv [Ha [Hb Hne]]]]]]. pose proof (nonvolatile_not_source lk Hnv) as Hs.
    rewrite Hgo, Hs in Ha. rewrite Hgh, Hs in Hb.
    apply (item_get_entry oi lk a Hoi) in Ha as [k [Hin Hl]]. exists (k, a). split; [exact Hin|].
    cbn [fst snd]. rewrite Hl, Hnv, Hb. cbn [andb]. destruct (hval_eqb_spec a b); [contradiction | reflexivity].
  - intros [[k a] [Hin Ht]]. cbn [fst snd] in Ht. apply andb_true_iff in Ht as [Hnv Ht].
    destruct (item_get items (lower k)) as [b|] eqn:Eb; [|discriminate].
    pose proof (nonvolatile_not_source _ Hnv) as Hs.
    exists (lower k), a, b. split; [exact Hnv|]. rewrite Hgo, Hgh, Hs. split; [|split; [exact Eb|]].
    + apply (item_get_entry oi (lower k) a Hoi). eauto.
    + apply negb_true_iff in Ht. destruct (hval_eqb_spec a b); congruence.
Qed.

(* ------------------------------------------------------------------ snapshots *)
Lemma low_get (l : list (pystr * hval)) lk :
  dget str_eqb (dmerge str_eqb [] (map (fun kv => (lower (fst kv), snd kv)) l)) lk = item_get l lk.
Proof. rewrite (dget_dmerge str_eqb KS). unfold item_get. cbn [dget]. now destruct (dlast _ _ lk). Qed.

Lemma overlay_get s a lk :
  dget str_eqb (overlay s a) lk =
  if str_eqb k_source lk then None
  else match item_get a lk with Some v => Some v | None => item_get s lk end.
Proof.
  unfold overlay.
  rewrite (dget_filter_key _ (fun k => negb (str_eqb k k_source))), not_source_sym.
  destruct (str_eqb k_source lk); [reflexivity|]. cbn [negb].
  rewrite (dget_dmerge str_eqb KS).
  rewrite (dlast_dget str_eqb KS) by (apply (NoDup_dmerge str_eqb KS); constructor).
  now rewrite !low_get.
Qed.

Lemma overlay_nodup s a : NoDup (dkeys (overlay s a)).
Proof.
  unfold overlay. apply NoDup_filter_keys. apply (NoDup_dmerge str_eqb KS), (NoDup_dmerge str_eqb KS). constructor.
Qed.

Lemma lower_items_of_get c lk : HInv c ->
  dget str_eqb (lower_items_of c) lk = if str_eqb k_source lk then None else hget c lk.
Proof.
  intros Hc. unfold lower_items_of.
  rewrite (dget_filter_key _ (fun k => negb (str_eqb k k_source))), not_source_sym.
  destruct (str_eqb k_source lk); [reflexivity|]. cbn [negb].
  unfold b_as_lower. rewrite (lower_items_get str_eqb KS lower), (LW_self KS lk Hc). now rewrite hget_blookup.
Qed.

Lemma lower_items_of_nodup c : NoDup (dkeys (lower_items_of c)).
Proof. unfold lower_items_of. apply NoDup_filter_keys. apply (lower_items_nodup str_eqb KS). Qed.

(* the snapshot handed out equals the overlay of the two stored messages *)
Lemma snapshot_perm c s a : HInv c ->
  (forall lk, str_eqb k_source lk = false ->
              hget c lk = match item_get a lk with Some v => Some v | None => item_get s lk end) ->
  perm_eqb C04.Spec.kv_eqb (lower_items_of c) (overlay s a) = true.
Proof.
  intros Hc Hg. apply (perm_eqb_complete _ kv_eqb_spec). apply perm_of_dget.
  - apply lower_items_of_nodup.
  - apply overlay_nodup.
  - intros lk. rewrite (lower_items_of_get c lk Hc), overlay_get.
    destruct (str_eqb k_source lk) eqn:E; [reflexivity | now apply Hg].
Qed.

(* ------------------------------------------------------------------ devices and their memories *)
Definition devs_of (t : tracker) : list dev_obs :=
  map (fun e => (fst e, d_valid_to (snd e), d_locs (snd e))) (devices t).

Lemma find_dev_devs t u :
  find_dev u (devs_of t) =
  match sget (devices t) u with Some d => Some (u, d_valid_to d, d_locs d) | None => None end.
Proof.
  unfold find_dev, devs_of, sget. induction (devices t) as [|[k d] r IH]; [reflexivity|].
  cbn [map find dget fst snd]. destruct (KS k u) as [->|Hne]; [reflexivity | exact IH].
Qed.

Lemma dev_rel_ext d d' m : d_search d' = d_search d -> d_adv d' = d_adv d -> dev_rel d m -> dev_rel d' m.
Proof. intros Es Ea [Hs Ha]. unfold dev_rel. rewrite Es, Ea. now split. Qed.

Lemma dev_rel_fresh d : d_search d = [] -> d_adv d = [] -> dev_rel d mem0.
Proof. intros Es Ea. unfold dev_rel. rewrite Es, Ea. split; intros ty; exact I. Qed.

Lemma dev_rel_set_search d d2 m ty h items :
  dev_rel d m -> stored_ok src_search h items ->
  d_search d2 = sset (d_search d) ty h -> d_adv d2 = d_adv d ->
  dev_rel d2 (mset (fst m) ty items, snd m).
Proof.
  intros [Hs Ha] Hok Es Ea. unfold dev_rel. rewrite Es, Ea. cbn [fst snd]. split; [|exact Ha].
  intros ty'. unfold sset, sget, mset, mget. rewrite !(dget_dset str_eqb KS).
  destruct (str_eqb ty ty'); [exact Hok | apply Hs].
Qed.

Lemma dev_rel_set_adv d d2 m ty h items :
  dev_rel d m -> stored_ok src_advertisement h items ->
  d_adv d2 = sset (d_adv d) ty h -> d_search d2 = d_search d ->
  dev_rel d2 (fst m, mset (snd m) ty items).
Proof.
  intros [Hs Ha] Hok Ea Es. unfold dev_rel. rewrite Es, Ea. cbn [fst snd]. split; [exact Hs|].
  intros ty'. unfold sset, sget, mset, mget. rewrite !(dget_dset str_eqb KS).
  destruct (str_eqb ty ty'); [exact Hok | apply Ha].
Qed.

Lemma stored_dhas src (dm : dict pystr hdrs) (mm : dict pystr (list (pystr * hval))) ty :
  stored_rel src (sget dm ty) (mget mm ty) -> dhas str_eqb dm ty = dhas str_eqb mm ty.
Proof.
  unfold dhas, sget, mget. destruct (dget str_eqb dm ty), (dget str_eqb mm ty); cbn; tauto.
Qed.

Lemma stored_differ src src' (dm : dict pystr hdrs) (mm : dict pystr (list (pystr * hval))) ty h items :
  stored_rel src (sget dm ty) (mget mm ty) -> stored_ok src' h items ->
  match sget dm ty with Some old => same_headers_differ old h | None => false end =
  match mget mm ty with Some oi => spec_differ oi items | None => false end.
Proof.
  unfold sget, mget. destruct (dget str_eqb dm ty) as [old|], (dget str_eqb mm ty) as [oi|]; cbn; try tauto.
  intros Ho Hh. exact (differ_eq _ _ _ _ _ _ Ho Hh).
Qed.

(* the snapshot of a device for a type with at least one stored message *)
Lemma combined_inv (d : device) ty (s a : hdrs) :
  sget (d_search d) ty = Some s -> sget (d_adv d) ty = Some a -> HInv s -> HInv a ->
  hget a k_source <> None ->
  exists c, combined_headers d ty = Some c /\ HInv c /\
            forall lk, hget c lk = if str_eqb k_source lk then None
                                   else match hget a lk with Some v => Some v | None => hget s lk end.
Proof.
  intros Es Ea Hs Ha Hsrc. unfold combined_headers. rewrite Es, Ea.
  destruct (combine_lookup s a Hs Ha) as [c [Ec [Hc Hl]]]. rewrite Ec.
  pose proof (del_lower_lookup c k_source Hc) as Hd.
  destruct (b_del_lower str_eqb c k_source) as [c'|].
  - destruct Hd as [Hi' Hl']. exists c'. split; [reflexivity|]. split; [exact Hi'|]. intros lk.
    rewrite hget_blookup, Hl'. destruct (str_eqb k_source lk); [reflexivity|].
    rewrite Hl, !hget_blookup. destruct (blookup str_eqb a lk); [reflexivity|].
    destruct (blookup str_eqb s lk); reflexivity.
  - exfalso. apply Hsrc. rewrite hget_blookup. rewrite Hl in Hd.
    destruct (blookup str_eqb a k_source); [discriminate | reflexivity].
Qed.

Lemma combined_ok d m ty : dev_rel d m ->
  dhas str_eqb (d_search d) ty || dhas str_eqb (d_adv d) ty = true ->
  perm_eqb C04.Spec.kv_eqb
    (match combined_headers d ty with Some c => lower_items_of c | None => [] end)
    (overlay (match mget (fst m) ty with Some i => i | None => [] end)
             (match mget (snd m) ty with Some i => i | None => [] end)) = true.
Proof.
  intros [Hs Ha] Hhas. specialize (Hs ty). specialize (Ha ty). unfold dhas in Hhas.
  change (dget str_eqb (d_search d) ty) with (sget (d_search d) ty) in Hhas.
  change (dget str_eqb (d_adv d) ty) with (sget (d_adv d) ty) in Hhas.
  destruct (sget (d_search d) ty) as [s|] eqn:Es, (mget (fst m) ty) as [si|]; cbn in Hs; try contradiction;
    destruct (sget (d_adv d) ty) as [a|] eqn:Ea, (mget (snd m) ty) as [ai|]; cbn in Ha; try contradiction;
    try discriminate.
  - destruct Hs as [His [_ Hgs]], Ha as [Hia [_ Hga]].
    destruct (combined_inv d ty s a Es Ea His Hia) as [c [Ec [Hc Hg]]].
    { rewrite Hga. destruct (KS k_source k_source); congruence. }
    rewrite Ec. apply snapshot_perm; [exact Hc|]. intros lk Hne. rewrite Hg, Hne, Hga, Hgs, Hne. reflexivity.
  - destruct Hs as [His [_ Hgs]]. unfold combined_headers. rewrite Es, Ea.
    apply snapshot_perm; [exact His|]. intros lk Hne. rewrite Hgs, Hne. reflexivity.
  - destruct Ha as [Hia [_ Hga]]. unfold combined_headers. rewrite Es, Ea.
    apply snapshot_perm; [exact Hia|]. intros lk Hne. rewrite Hga, Hne.
    destruct (item_get ai lk); reflexivity.
Qed.

(* ------------------------------------------------------------------ what purging leaves of one device *)
Lemma In_sget (ds : dict pystr device) u d : NoDup (dkeys ds) -> In (u, d) ds -> sget ds u = Some d.
Proof. intros Hnd Hin. now apply (In_dget str_eqb KS). Qed.

Lemma sget_In (ds : dict pystr device) u d : sget ds u = Some d -> In (u, d) ds.
Proof. apply (dget_In str_eqb KS). Qed.

Lemma filter_all (A : Type) (g : A -> bool) (l : list A) :
  existsb g l = false -> filter (fun x => negb (g x)) l = l.
Proof.
  induction l as [|x r IH]; [reflexivity|]. cbn [existsb filter]. intros H. apply orb_false_iff in H as [Hx Hr].
  now rewrite Hx, IH.
Qed.

Lemma purged_view t ts u : TInv t ->
  match sget (devices t) u with
  | None => sget (devices (purge_devices t ts)) u = None
  | Some d =>
      if (ts >? d_valid_to d)%Z then sget (devices (purge_devices t ts)) u = None
      else exists d', sget (devices (purge_devices t ts)) u = Some d' /\
                      d_search d' = d_search d /\ d_adv d' = d_adv d /\
                      (d' = d \/ d' = purge_locations d ts)
  end.
Proof.
  intros Hi. destruct (purge_devices_spec t ts Hi) as [Hi1 [Hkept Hstay]].
  pose proof (inv_nodup _ Hi) as Hnd. pose proof (inv_nodup _ Hi1) as Hnd1.
  destruct (sget (devices t) u) as [d|] eqn:E.
  - apply sget_In in E. destruct (ts >? d_valid_to d)%Z eqn:G.
    + destruct (sget (devices (purge_devices t ts)) u) as [d'|] eqn:E1; [|reflexivity]. exfalso.
      apply sget_In in E1. destruct (Hkept _ _ E1) as [d0 [Hin [Hle _]]].
      assert (d0 = d) by (apply (In_sget _ _ _ Hnd) in Hin, E; congruence). subst d0. lia.
    + destruct (Hstay _ _ E) as [d' Hin']; [lia|]. exists d'. split; [now apply In_sget|].
      destruct (Hkept _ _ Hin') as [d0 [Hin [_ [_ [Hs [Ha Hor]]]]]].
      assert (d0 = d) by (apply (In_sget _ _ _ Hnd) in Hin, E; congruence). subst d0. auto.
  - destruct (sget (devices (purge_devices t ts)) u) as [d'|] eqn:E1; [|reflexivity]. exfalso.
    apply sget_In in E1. destruct (Hkept _ _ E1) as [d0 [Hin _]].
    apply (In_sget _ _ _ Hnd) in Hin. congruence.
Qed.

(* every device of the purged tracker keeps the stored messages it had *)
Lemma purged_mem t ts st : TInv t -> MemRel t st -> MemRel (purge_devices t ts) st.
Proof.
  intros Hi HM u d' Hin. destruct (purge_devices_spec t ts Hi) as [_ [Hkept _]].
  destruct (Hkept _ _ Hin) as [d [Hind [_ [_ [Hs [Ha _]]]]]].
  apply (dev_rel_ext d d' _ Hs Ha). now apply HM.
Qed.

(* ------------------------------------------------------------------ "new location" *)
Section Loc.
  Variable ipver : pystr -> option N.

  Lemma dhas_existsb (locs : dict pystr Z) loc :
    dhas str_eqb locs loc = existsb (fun l => str_eqb (fst l) loc) locs.
  Proof.
    unfold dhas. induction locs as [|[k v] r IH]; [reflexivity|]. cbn [dget existsb fst].
    destruct (str_eqb k loc); [reflexivity | exact IH].
  Qed.

  Lemma location_changed_eq d h c r :
    location_of h = c :: r ->
    location_changed ipver d h =
    match d_locs d with [] => true | _ => family_known ipver (c :: r) (d_locs d) end.
  Proof.
    intros E. unfold location_changed, family_known. rewrite E.
    destruct (d_locs d) as [|l0 ls] eqn:El; [reflexivity|]. rewrite <- El.
    rewrite dhas_existsb. destruct (existsb _ (d_locs d)); [reflexivity|]. cbn [negb andb].
    destruct (ipver (c :: r)); reflexivity.
  Qed.

  (* _see_device, written out *)
  Lemma see_device_eq t h c r u :
    hstr h k_usn = Some (c :: r) -> udn_from_usn (c :: r) = Some u ->
    let t1 := purge_devices t (ts_of h) in
    exists d0 d1 nv,
      d_locs d0 = match sget (devices t1) u with Some d => d_locs d | None => [] end /\
      d_search d1 = fresh_or t1 u d_search /\ d_adv d1 = fresh_or t1 u d_adv /\
      see_device ipver t h =
      ({| devices := sset (devices t1) u d1; next_valid_to := nv |}, Some (u, location_changed ipver d0 h)).
  Proof.
    intros Hs Hu t1. unfold see_device. rewrite Hs, Hu. fold t1. unfold fresh_or.
    destruct (sget (devices t1) u) as [d|]; do 3 eexists; (split; [|split; [|split; [|reflexivity]]]); reflexivity.
  Qed.
End Loc.

(* ------------------------------------------------------------------ a valid sighting, step by step *)
Lemma stored_reads src h items : stored_ok src h items -> reads_as h items.
Proof.
  intros [_ [_ Hg]] lk Hrd. rewrite Hg, (tracker_reads_not_source lk Hrd). reflexivity.
Qed.

Section Sight.
  Variable ipver : pystr -> option N.
  Variable items : list (pystr * hval).
  Variable h : hdrs.
  Variable src : pystr.
  Hypothesis D : msg_dom items.
  Hypothesis SO : stored_ok src h items.

  Let R : reads_as h items := stored_reads src h items SO.

  (* the specification's view of the device named by the message, before the message *)
  Definition alive_in (t : tracker) (u : pystr) (ts : Z) : bool :=
    match sget (devices t) u with Some d => negb (ts >? d_valid_to d)%Z | None => false end.
  Definition locs_in (t : tracker) (u : pystr) (ts : Z) : list (pystr * Z) :=
    match sget (devices t) u with Some d => if negb (ts >? d_valid_to d)%Z then d_locs d else [] | None => [] end.
  Definition mem_in (st : spec_state) (t : tracker) (u : pystr) (ts : Z) : mem :=
    if alive_in t u ts then mem_of st u else mem0.

  Lemma sight_core t st u : TInv t -> MemRel t st -> usn_udn items = Some u ->
    good_location (msg_loc items) = true ->
    let ts := item_time items in
    exists d1 nl t1,
      see_device ipver t h = (t1, Some (u, nl)) /\
      sget (devices t1) u = Some d1 /\ NoDup (dkeys (devices t1)) /\
      dev_rel d1 (mem_in st t u ts) /\
      (forall u' d', u' <> u -> In (u', d') (devices t1) -> In (u', d') (devices (purge_devices t ts))) /\
      (existsb (fun l => (ts >? snd l)%Z) (locs_in t u ts) = false ->
       nl = match locs_in t u ts with [] => true | _ => family_known ipver (msg_loc items) (locs_in t u ts) end) /\
      (alive_in t u ts = true -> dhas str_eqb (devices t) u = true).
  Proof.
    intros Hi HM Hu Hgood ts.
    destruct (usn_udn_inv items u Hu) as [c [r [Hs Hd]]].
    assert (Hus : hstr h k_usn = Some (c :: r)) by (rewrite (rd_str items h R k_usn eq_refl); exact Hs).
    destruct (see_device_eq ipver t h c r u Hus Hd) as [d0 [d1 [nv [Hl0 [Hs1 [Ha1 E]]]]]].
    rewrite (ts_read items h R) in *. fold ts in Hl0, Hs1, Ha1, E.
    destruct (purge_devices_spec t ts Hi) as [Hi1 _]. pose proof (inv_nodup _ Hi1) as Hnd1.
    exists d1, (location_changed ipver d0 h). eexists. split; [exact E|]. cbn [devices].
    split; [unfold sset, sget; rewrite (dget_dset str_eqb KS); destruct (KS u u); congruence|].
    split; [now apply (NoDup_dset str_eqb KS)|].
    pose proof (purged_view t ts u Hi) as PV. unfold mem_in, alive_in, locs_in.
    assert (Hloc : exists c0 r0, location_of h = c0 :: r0 /\ msg_loc items = c0 :: r0).
    { rewrite (loc_read items h R). destruct (msg_loc items) as [|c0 r0]; [discriminate Hgood | eauto]. }
    destruct Hloc as [c0 [r0 [Hlh Hlm]]].
    split; [|split; [|split]].
    - (* memory *)
      unfold fresh_or in Hs1, Ha1.
      destruct (sget (devices t) u) as [d|] eqn:Eg.
      + destruct (ts >? d_valid_to d)%Z; cbn [negb].
        * rewrite PV in Hs1, Ha1. now apply dev_rel_fresh.
        * destruct PV as [d' [E' [Hs' [Ha' _]]]]. rewrite E' in Hs1, Ha1.
          apply (dev_rel_ext d d1); [congruence | congruence |]. apply HM. now apply sget_In.
      + rewrite PV in Hs1, Ha1. now apply dev_rel_fresh.
    - intros u' d' Hne Hin. apply (In_sset _ _ _ _ _ _ Hnd1) in Hin. destruct Hin as [[-> _]|[_ Hin]]; [congruence | exact Hin].
    - (* new location *)
      intros Hrd. rewrite (location_changed_eq ipver d0 h c0 r0 Hlh), Hl0, Hlm.
      destruct (sget (devices t) u) as [d|] eqn:Eg.
      + destruct (ts >? d_valid_to d)%Z; cbn [negb] in *.
        * now rewrite PV.
        * destruct PV as [d' [E' [_ [_ [Hd1 | Hd1]]]]]; subst d'; rewrite E'; [reflexivity|].
          cbn [purge_locations d_locs]. now rewrite (filter_all _ _ _ Hrd).
      + now rewrite PV.
    - unfold dhas. change (dget str_eqb (devices t) u) with (sget (devices t) u).
      destruct (sget (devices t) u); [reflexivity | discriminate].
  Qed.
End Sight.

(* the statement's decision, from the specification's view of the device *)
Definition spec_changed (ipver : pystr -> option N) (st : spec_state) (t : tracker) (u : pystr) (ts : Z)
           (is_search : bool) (ty : pystr) (items : list (pystr * hval)) : bool :=
  let m := mem_in st t u ts in
  let locs := locs_in t u ts in
  negb (alive_in t u ts) ||
  negb (dhas str_eqb (fst m) ty || dhas str_eqb (snd m) ty) ||
  match locs with [] => true | _ => family_known ipver (msg_loc items) locs end ||
  match (if is_search then mget (fst m) ty else mget (snd m) ty) with
  | Some oi => spec_differ oi items
  | None => false
  end.

Lemma changed_bool (nd al k nl df : bool) :
  (al = true -> nd = false) -> (al = false -> k = false) ->
  nd || negb k || nl || df = negb al || negb k || nl || df.
Proof. destruct nd, al, k, nl, df; cbn; intros H1 H2; try reflexivity; try (now specialize (H1 eq_refl)); now specialize (H2 eq_refl). Qed.

Section Sight2.
  Variable ipver : pystr -> option N.
  Variable items : list (pystr * hval).
  Variable h : hdrs.
  Hypothesis D : msg_dom items.

  Lemma udn_read src u : stored_ok src h items -> usn_udn items = Some u -> hstr h k_udn = Some u.
  Proof.
    intros SO Hu. rewrite (rd_str items h (stored_reads _ _ _ SO) k_udn eq_refl). unfold item_str.
    pose proof (md_udn _ D) as M. rewrite Hu in M. destruct (item_get items k_udn) as [[u0| |]|]; try contradiction.
    now subst.
  Qed.

  Lemma mem_in_known st t u ts ty : alive_in t u ts = false ->
    dhas str_eqb (fst (mem_in st t u ts)) ty || dhas str_eqb (snd (mem_in st t u ts)) ty = false.
  Proof. intros H. unfold mem_in. rewrite H. reflexivity. Qed.

  (* a search response that is a valid sighting *)
  Lemma see_search_full t st u ts vt :
    TInv t -> MemRel t st -> stored_ok src_search h items ->
    sighting_items items (item_str items k_st) = Some (u, ts, vt) ->
    exists ty t2 sc d2,
      item_str items k_st = Some ty /\
      see_search ipver t h = (t2, Some (u, ty, sc)) /\
      sget (devices t2) u = Some d2 /\
      dev_rel d2 (mset (fst (mem_in st t u ts)) ty items, snd (mem_in st t u ts)) /\
      dhas str_eqb (d_search d2) ty = true /\
      (forall u' d', u' <> u -> In (u', d') (devices t2) -> In (u', d') (devices (purge_devices t ts))) /\
      (existsb (fun l => (ts >? snd l)%Z) (locs_in t u ts) = false ->
       sc = if spec_changed ipver st t u ts true ty items then SearchChanged else SearchAlive).
  Proof.
    intros Hi HM SO Hsi. pose proof (stored_reads _ _ _ SO) as R.
    unfold sighting_items in Hsi. destruct (usn_udn items) as [u0|] eqn:Eu; [|discriminate].
    destruct (item_str items k_st) as [[|c r]|] eqn:Est; try discriminate.
    destruct (good_location (msg_loc items)) eqn:Eg; [|discriminate]. inversion Hsi; subst u0 ts vt; clear Hsi.
    destruct (sight_core ipver items h src_search SO t st u Hi HM Eu Eg)
      as [d1 [nl [t1 [E [Hg1 [Hnd1 [Hrel [Hoth [Hnl Hal]]]]]]]]].
    set (ts := item_time items) in *.
    exists (c :: r). unfold see_search, valid_search_headers.
    rewrite (truthy_udn items h D R), (truthy_plain items h D R k_st eq_refl eq_refl),
      (loc_read items h R), (loc_ok_good items D), Eu, Est, Eg. cbn [nonempty andb negb].
    rewrite E, (rd_str items h R k_st eq_refl), Est, Hg1, (udn_read _ u SO Eu).
    unfold upd_device. rewrite Hg1. cbn [devices next_valid_to].
    do 3 eexists. split; [reflexivity|]. split; [reflexivity|]. cbn [devices].
    split; [unfold sset, sget; rewrite (dget_dset str_eqb KS); destruct (KS u u); [reflexivity | congruence]|].
    split; [apply (dev_rel_set_search d1 _ _ _ h items Hrel SO); reflexivity|].
    split; [cbn [d_search]; unfold dhas, sset; rewrite (dget_dset str_eqb KS); destruct (KS (c :: r) (c :: r)); [reflexivity | congruence]|].
    split.
    - intros u' d' Hne Hin. apply (In_sset _ _ _ _ _ _ Hnd1) in Hin. destruct Hin as [[-> _]|[_ Hin]]; [congruence|].
      now apply (Hoth u' d' Hne).
    - intros Hrd. unfold spec_changed. rewrite (Hnl Hrd). destruct Hrel as [Hrs Hra].
      rewrite (stored_dhas _ _ _ _ (Hra (c :: r))), (stored_dhas _ _ _ _ (Hrs (c :: r))).
      rewrite (stored_differ _ _ _ _ (c :: r) h items (Hrs (c :: r)) SO).
      rewrite <- negb_orb, (orb_comm (dhas str_eqb (snd _) _)).
      match goal with |- (if ?a then _ else _) = (if ?b then _ else _) => assert (Hab : a = b); [|now rewrite Hab] end.
      apply changed_bool.
      + intros Ha. now rewrite (Hal Ha).
      + intros Ha. now apply mem_in_known.
  Qed.
End Sight2.

Lemma changed_bool_u (nu nd al k nl df : bool) :
  (al = true -> nd = false) -> (al = false -> k = false) ->
  nu || nd || negb k || nl || df = nu || (negb al || negb k || nl || df).
Proof. destruct nu, nd, al, k, nl, df; cbn; intros H1 H2; try reflexivity; try (now specialize (H1 eq_refl)); now specialize (H2 eq_refl). Qed.

Section Sight3.
  Variable ipver : pystr -> option N.
  Variable items : list (pystr * hval).
  Variable h : hdrs.
  Hypothesis D : msg_dom items.

  Definition nts_is_update_items : bool :=
    match item_str items k_nts with Some s => str_eqb s nts_update | None => false end.

  (* an ssdp:alive / ssdp:update advertisement that is a valid sighting *)
  Lemma see_adv_full t st u ts vt b :
    TInv t -> MemRel t st -> stored_ok src_advertisement h items ->
    nonempty (item_str items k_nts) = true ->
    sighting_items items (item_str items k_nt) = Some (u, ts, vt) ->
    exists ty t2 d2 (pr : bool),
      item_str items k_nt = Some ty /\
      see_advertisement ipver t h b = (t2, if pr then Some (u, ty) else None) /\
      sget (devices t2) u = Some d2 /\
      dev_rel d2 (fst (mem_in st t u ts), mset (snd (mem_in st t u ts)) ty items) /\
      dhas str_eqb (d_adv d2) ty = true /\
      (forall u' d', u' <> u -> In (u', d') (devices t2) -> In (u', d') (devices (purge_devices t ts))) /\
      (existsb (fun l => (ts >? snd l)%Z) (locs_in t u ts) = false ->
       pr = nts_is_update_items || spec_changed ipver st t u ts false ty items).
  Proof.
    intros Hi HM SO Hnts Hsi. pose proof (stored_reads _ _ _ SO) as R.
    unfold sighting_items in Hsi. destruct (usn_udn items) as [u0|] eqn:Eu; [|discriminate].
    destruct (item_str items k_nt) as [[|c r]|] eqn:Ent; try discriminate.
    destruct (good_location (msg_loc items)) eqn:Eg; [|discriminate]. inversion Hsi; subst u0 ts vt; clear Hsi.
    destruct (sight_core ipver items h src_advertisement SO t st u Hi HM Eu Eg)
      as [d1 [nl [t1 [E [Hg1 [Hnd1 [Hrel [Hoth [Hnl Hal]]]]]]]]].
    set (ts := item_time items) in *.
    exists (c :: r). unfold see_advertisement, valid_advertisement_headers.
    rewrite (truthy_udn items h D R), (truthy_plain items h D R k_nt eq_refl eq_refl),
      (truthy_plain items h D R k_nts eq_refl eq_refl), Hnts,
      (loc_read items h R), (loc_ok_good items D), Eu, Ent, Eg. cbn [nonempty andb negb].
    rewrite E, (rd_str items h R k_nt eq_refl), Ent, Hg1, (udn_read items h D _ u SO Eu),
      (rd_str items h R k_nts eq_refl).
    unfold upd_device. rewrite Hg1. cbn [devices next_valid_to].
    do 3 eexists. split; [reflexivity|]. split; [reflexivity|]. cbn [devices].
    split; [unfold sset, sget; rewrite (dget_dset str_eqb KS); destruct (KS u u); [reflexivity | congruence]|].
    split; [apply (dev_rel_set_adv d1 _ _ _ h items Hrel SO); reflexivity|].
    split; [cbn [d_adv]; unfold dhas, sset; rewrite (dget_dset str_eqb KS); destruct (KS (c :: r) (c :: r)); [reflexivity | congruence]|].
    split.
    - intros u' d' Hne Hin. apply (In_sset _ _ _ _ _ _ Hnd1) in Hin. destruct Hin as [[-> _]|[_ Hin]]; [congruence|].
      now apply (Hoth u' d' Hne).
    - intros Hrd. unfold spec_changed, nts_is_update_items. rewrite (Hnl Hrd). destruct Hrel as [Hrs Hra].
      rewrite (stored_dhas _ _ _ _ (Hra (c :: r))), (stored_dhas _ _ _ _ (Hrs (c :: r))).
      rewrite (stored_differ _ _ _ _ (c :: r) h items (Hra (c :: r)) SO).
      rewrite <- negb_orb, (orb_comm (dhas str_eqb (snd _) _)).
      apply changed_bool_u.
      + intros Ha. now rewrite (Hal Ha).
      + intros Ha. now apply mem_in_known.
  Qed.
End Sight3.

Section Sight4.
  Variable ipver : pystr -> option N.
  Variable items : list (pystr * hval).
  Variable h : hdrs.
  Hypothesis D : msg_dom items.

  Lemma see_search_invalid t src :
    stored_ok src h items -> sighting_items items (item_str items k_st) = None ->
    see_search ipver t h = (t, None).
  Proof.
    intros SO Hsi. pose proof (stored_reads _ _ _ SO) as R. unfold see_search, valid_search_headers.
    rewrite (truthy_udn items h D R), (truthy_plain items h D R k_st eq_refl eq_refl),
      (loc_read items h R), (loc_ok_good items D).
    unfold sighting_items in Hsi. destruct (usn_udn items) as [u|]; [|reflexivity].
    destruct (item_str items k_st) as [[|c r]|]; try reflexivity.
    cbn [nonempty andb]. destruct (good_location (msg_loc items)); [discriminate | reflexivity].
  Qed.

  Lemma see_adv_invalid t src b :
    stored_ok src h items -> sighting_items items (item_str items k_nt) = None ->
    see_advertisement ipver t h b = (t, None).
  Proof.
    intros SO Hsi. pose proof (stored_reads _ _ _ SO) as R. unfold see_advertisement, valid_advertisement_headers.
    rewrite (truthy_udn items h D R), (truthy_plain items h D R k_nt eq_refl eq_refl),
      (truthy_plain items h D R k_nts eq_refl eq_refl), (loc_read items h R), (loc_ok_good items D).
    unfold sighting_items in Hsi. destruct (usn_udn items) as [u|]; [|reflexivity].
    destruct (item_str items k_nt) as [[|c r]|]; try reflexivity.
    cbn [nonempty andb]. destruct (nonempty (item_str items k_nts)); [|reflexivity]. cbn [andb].
    destruct (good_location (msg_loc items)); [discriminate | reflexivity].
  Qed.

  (* ssdp:byebye *)
  Lemma unsee_full t st :
    MemRel t st -> stored_ok src_advertisement h items -> nonempty (item_str items k_nts) = true ->
    match usn_udn items, item_str items k_nt with
    | Some u, Some (c :: r) =>
        match sget (devices t) u with
        | Some d =>
            exists d', unsee_advertisement t h =
                       ({| devices := sdel (devices t) u; next_valid_to := next_valid_to t |}, Some (u, c :: r, d')) /\
                       dev_rel d' (fst (mem_of st u), mset (snd (mem_of st u)) (c :: r) items) /\
                       dhas str_eqb (d_adv d') (c :: r) = true
        | None => unsee_advertisement t h = (t, None)
        end
    | _, _ => unsee_advertisement t h = (t, None)
    end.
  Proof.
    intros HM SO Hnts. pose proof (stored_reads _ _ _ SO) as R. unfold unsee_advertisement, valid_byebye_headers.
    rewrite (truthy_udn items h D R), (truthy_plain items h D R k_nt eq_refl eq_refl),
      (truthy_plain items h D R k_nts eq_refl eq_refl), Hnts.
    destruct (usn_udn items) as [u|] eqn:Eu; [|reflexivity].
    destruct (item_str items k_nt) as [[|c r]|] eqn:Ent; try reflexivity.
    cbn [nonempty andb negb]. destruct (usn_udn_inv items u Eu) as [c0 [r0 [Hs Hd]]].
    rewrite (rd_str items h R k_usn eq_refl), Hs, Hd, (rd_str items h R k_nt eq_refl), Ent.
    destruct (sget (devices t) u) as [d|] eqn:Eg; [|reflexivity].
    eexists. split; [reflexivity|]. split.
    - apply (dev_rel_set_adv d _ _ _ h items); [apply HM; now apply sget_In | exact SO | reflexivity | reflexivity].
    - cbn [d_adv]. unfold dhas, sset. rewrite (dget_dset str_eqb KS). destruct (KS (c :: r) (c :: r)); [reflexivity | congruence].
  Qed.
End Sight4.

(* ------------------------------------------------------------------ the specification's expectation, unfolded *)
Section Expect.
  Variable ipv : pystr -> option N.

  Definition note_code (k : kind) (u ty : pystr) (changed : bool) : option (pystr * pystr * N) :=
    match k with
    | KSearch => Some (u, ty, if changed then 0 else 1)%N
    | KAlive => if changed then Some (u, ty, 2%N) else None
    | KUpdate => Some (u, ty, 4%N)
    | _ => None
    end.

  Lemma expect_sighting st prev t o u ts vt ty :
    o_devs prev = devs_of t -> sighting o = Some (u, ts, vt) -> op_type o = Some ty ->
    let is_search := match msg_kind o with KSearch => true | _ => false end in
    let m := mem_in st t u ts in
    let m' := if is_search then (mset (fst m) ty (op_items o), snd m) else (fst m, mset (snd m) ty (op_items o)) in
    expect ipv st prev o =
    (note_code (msg_kind o) u ty (spec_changed ipv st t u ts is_search ty (op_items o)),
     overlay (match mget (fst m') ty with Some i => i | None => [] end)
             (match mget (snd m') ty with Some i => i | None => [] end),
     mset st u m',
     negb (existsb (fun l => (ts >? snd l)%Z) (locs_in t u ts))).
  Proof.
    intros Hp Hs Ht. cbv zeta. unfold expect. rewrite Hs, Ht, Hp, find_dev_devs.
    unfold spec_changed, mem_in, alive_in, locs_in, note_code, mem_of.
    destruct (sget (devices t) u) as [d|]; [destruct (negb (ts >? d_valid_to d)%Z)|];
      destruct (msg_kind o); reflexivity.
  Qed.

  Lemma expect_byebye st prev t o u ty :
    o_devs prev = devs_of t -> sighting o = None -> byebye_of o = Some u -> op_type o = Some ty ->
    expect ipv st prev o =
    match sget (devices t) u with
    | Some _ =>
        (Some (u, ty, 3%N),
         overlay (match mget (fst (mem_of st u)) ty with Some i => i | None => [] end) (op_items o), st, true)
    | None => (None, [], st, true)
    end.
  Proof.
    intros Hp Hs Hb Ht. unfold expect. rewrite Hs, Hb, Ht, Hp, find_dev_devs. unfold mem_of.
    destruct (op_type o); destruct (sget (devices t) u); reflexivity.
  Qed.

  Lemma expect_none st prev o :
    sighting o = None -> byebye_of o = None -> expect ipv st prev o = (None, [], st, true).
  Proof.
    intros Hs Hb. unfold expect. rewrite Hs, Hb. destruct (op_type o); reflexivity.
  Qed.
End Expect.

(* ------------------------------------------------------------------ one operation *)
Lemma note_eqb_refl n : C04.Spec.note_eqb n n = true.
Proof.
  destruct n as [[[u ty] s]|]; [|reflexivity]. cbn.
  destruct (KS u u); [|congruence]. destruct (KS ty ty); [|congruence]. now rewrite N.eqb_refl.
Qed.

Lemma memrel_after t t2 st u d2 m' ts :
  TInv t -> MemRel t st -> NoDup (dkeys (devices t2)) -> sget (devices t2) u = Some d2 -> dev_rel d2 m' ->
  (forall u' d', u' <> u -> In (u', d') (devices t2) -> In (u', d') (devices (purge_devices t ts))) ->
  MemRel t2 (mset st u m').
Proof.
  intros Hi HM Hnd Hg Hrel Hoth u0 d0 Hin. unfold mem_of, mset, mget. rewrite (dget_dset str_eqb KS).
  destruct (KS u u0) as [<-|Hne].
  - apply (In_sget _ _ _ Hnd) in Hin. assert (d0 = d2) by congruence. now subst.
  - apply (purged_mem t ts st Hi HM). apply Hoth; [congruence | exact Hin].
Qed.

Definition step_good (ipv : pystr -> option N) (st : spec_state) (prev : obs) (t : tracker) (o : op) : Prop :=
  forall t' n d, step ipv [] t o = (t', n, d) ->
  forall note comb st' inr, expect ipv st prev o = (note, comb, st', inr) ->
    MemRel t' st' /\
    (inr = true ->
     C04.Spec.note_eqb (o_note (obs_of t' n d)) note = true /\
     match note, o_note (obs_of t' n d) with
     | Some _, Some _ => perm_eqb C04.Spec.kv_eqb (o_combined (obs_of t' n d)) comb = true
     | _, _ => True
     end).

Lemma quiet_good ipv st prev t o :
  MemRel t st -> step ipv [] t o = (t, None, None) -> sighting o = None -> byebye_of o = None ->
  step_good ipv st prev t o.
Proof.
  intros HM Es Hs Hb t' n d E note comb st' inr Ex. rewrite Es in E. inversion E; subst.
  rewrite (expect_none ipv st prev o Hs Hb) in Ex. inversion Ex; subst. split; [exact HM|].
  intros _. split; reflexivity.
Qed.

Section StepSearch.
  Variable ipv : pystr -> option N.

  Lemma srch_good st prev t items :
    TInv t -> MemRel t st -> o_devs prev = devs_of t -> op_in_domain (Srch items) = true ->
    step_good ipv st prev t (Srch items).
  Proof.
    intros Hi HM Hp Hd. pose proof (op_dom_srch _ Hd) as D.
    destruct (mk_hdrs_ok items (md_ok _ D)) as [Hi0 Hg0].
    pose proof (msg_stored items src_search (md_ok _ D)) as SO.
    assert (Ht : htruthy (mk_hdrs items) k_nts = nonempty (item_str items k_nts)).
    { unfold htruthy, nonempty, item_str. rewrite Hg0.
      destruct (item_get items k_nts) as [v|] eqn:E; [|reflexivity].
      destruct (md_str _ D _ _ E eq_refl) as [s ->]. destruct s; reflexivity. }
    assert (Hdisc : is_discover (mk_hdrs items) =
                    match item_str items k_man with Some s => str_eqb s ssdp_discover | None => false end).
    { unfold is_discover, hstr, item_str. now rewrite Hg0. }
    assert (Estep : step ipv [] t (Srch items) =
                    if is_discover (mk_hdrs items) then (t, None, None)
                    else if htruthy (mk_hdrs items) k_nts then (t, None, None)
                    else match see_search ipv t (with_source (mk_hdrs items) src_search) with
                         | (t', Some (u, ty, sc)) => (t', Some (u, ty, sc), sget (devices t') u)
                         | (t', None) => (t', None, None)
                         end).
    { cbn [step]. unfold on_srch. destruct (is_discover _); [reflexivity|]. destruct (htruthy _ _); reflexivity. }
    assert (Ekind : msg_kind (Srch items) =
                    if is_discover (mk_hdrs items) then KOther
                    else if htruthy (mk_hdrs items) k_nts then KOther else KSearch).
    { unfold msg_kind. now rewrite Hdisc, Ht. }
    destruct (is_discover (mk_hdrs items)).
    { apply quiet_good; [exact HM | exact Estep | |]; unfold sighting, byebye_of; now rewrite Ekind. }
    destruct (htruthy (mk_hdrs items) k_nts).
    { apply quiet_good; [exact HM | exact Estep | |]; unfold sighting, byebye_of; now rewrite Ekind. }
    assert (Hb : byebye_of (Srch items) = None) by (unfold byebye_of; now rewrite Ekind).
    assert (Hty : op_type (Srch items) = item_str items k_st) by (unfold op_type; now rewrite Ekind).
    assert (Hsg : sighting (Srch items) = sighting_items items (item_str items k_st)).
    { unfold sighting. rewrite Ekind, Hty. reflexivity. }
    destruct (sighting_items items (item_str items k_st)) as [[[u ts] vt]|] eqn:Esi.
    - destruct (see_search_full ipv items _ D t st u ts vt Hi HM SO Esi)
        as [ty [t2 [sc [d2 [Ety [Ess [Hg2 [Hrel [Hhas [Hoth Hsc]]]]]]]]]].
      rewrite Ess in Estep.
      intros t' n d E note comb st' inr Ex. rewrite Estep in E. inversion E; subst t' n d; clear E.
      rewrite Ety in Hty.
      rewrite (expect_sighting ipv st prev t _ u ts vt ty Hp Hsg Hty) in Ex. rewrite Ekind in Ex. cbn [op_items] in Ex.
      inversion Ex; subst; clear Ex.
      assert (Hi2 : TInv t2).
      { pose proof (see_search_Inv ipv t (with_source (mk_hdrs items) src_search) Hi) as X. now rewrite Ess in X. }
      split; [exact (memrel_after t t2 st u d2 _ ts Hi HM (inv_nodup _ Hi2) Hg2 Hrel Hoth)|].
      intros Hinr. apply negb_true_iff in Hinr. specialize (Hsc Hinr). subst sc.
      unfold obs_of, note_code. cbn [o_note o_combined]. rewrite Hg2. split.
      + destruct (spec_changed ipv st t u ts true ty items); apply note_eqb_refl.
      + apply (combined_ok d2 _ ty Hrel). now rewrite Hhas.
    - rewrite (see_search_invalid ipv items _ D t src_search SO Esi) in Estep.
      apply quiet_good; [exact HM | exact Estep | now rewrite Hsg | exact Hb].
  Qed.
End StepSearch.

Section StepAdv.
  Variable ipv : pystr -> option N.

  Lemma adv_sighting_good st prev t items (b : bool) (k : kind) (sc : source) t2 (pr : bool) u ty ts vt d2 :
    TInv t -> MemRel t st -> o_devs prev = devs_of t ->
    (k = KAlive /\ sc = AdvAlive /\ nts_is_update_items items = false \/
     k = KUpdate /\ sc = AdvUpdate /\ nts_is_update_items items = true) ->
    msg_kind (Adv items) = k ->
    sighting_items items (item_str items k_nt) = Some (u, ts, vt) ->
    item_str items k_nt = Some ty ->
    see_advertisement ipv t (with_source (mk_hdrs items) src_advertisement) b = (t2, if pr then Some (u, ty) else None) ->
    sget (devices t2) u = Some d2 ->
    dev_rel d2 (fst (mem_in st t u ts), mset (snd (mem_in st t u ts)) ty items) ->
    dhas str_eqb (d_adv d2) ty = true ->
    (forall u' d', u' <> u -> In (u', d') (devices t2) -> In (u', d') (devices (purge_devices t ts))) ->
    (existsb (fun l => (ts >? snd l)%Z) (locs_in t u ts) = false ->
     pr = nts_is_update_items items || spec_changed ipv st t u ts false ty items) ->
    step ipv [] t (Adv items) =
      (if pr then (t2, Some (u, ty, sc), sget (devices t2) u) else (t2, None, None)) ->
    step_good ipv st prev t (Adv items).
  Proof.
    intros Hi HM Hp Hk Ekind Esi Ety Ess Hg2 Hrel Hhas Hoth Hpr Estep.
    assert (Hty : op_type (Adv items) = Some ty).
    { unfold op_type. rewrite Ekind. destruct Hk as [[-> _]|[-> _]]; exact Ety. }
    assert (Hsg : sighting (Adv items) = Some (u, ts, vt)).
    { unfold sighting. rewrite Ekind, Hty. cbn [op_items]. rewrite <- Ety, Esi. destruct Hk as [[-> _]|[-> _]]; reflexivity. }
    intros t' n d E note comb st' inr Ex. rewrite Estep in E.
    rewrite (expect_sighting ipv st prev t _ u ts vt ty Hp Hsg Hty) in Ex. rewrite Ekind in Ex. cbn [op_items] in Ex.
    assert (Hi2 : TInv t2).
    { pose proof (see_advertisement_Inv ipv t (with_source (mk_hdrs items) src_advertisement) b Hi) as X.
      now rewrite Ess in X. }
    assert (HM2 : MemRel t2 (mset st u (fst (mem_in st t u ts), mset (snd (mem_in st t u ts)) ty items))).
    { exact (memrel_after t t2 st u d2 _ ts Hi HM (inv_nodup _ Hi2) Hg2 Hrel Hoth). }
    assert (Hsearch : match k with KSearch => true | _ => false end = false) by (destruct Hk as [[-> _]|[-> _]]; reflexivity).
    rewrite Hsearch in Ex. inversion Ex; subst note comb st' inr; clear Ex.
    split; [destruct pr; inversion E; subst; exact HM2|].
    intros Hinr. apply negb_true_iff in Hinr. specialize (Hpr Hinr).
    destruct Hk as [[-> [-> Hu]]|[-> [-> Hu]]]; rewrite Hu in Hpr; cbn [orb] in Hpr; unfold note_code.
    - rewrite <- Hpr. destruct pr; inversion E; subst t' n d; clear E; unfold obs_of; cbn [o_note o_combined].
      + split; [apply note_eqb_refl|]. rewrite Hg2. apply (combined_ok d2 _ ty Hrel). rewrite Hhas. apply orb_true_r.
      + split; reflexivity.
    - subst pr. inversion E; subst t' n d; clear E. unfold obs_of; cbn [o_note o_combined].
      split; [apply note_eqb_refl|]. rewrite Hg2. apply (combined_ok d2 _ ty Hrel). rewrite Hhas. apply orb_true_r.
  Qed.
End StepAdv.

Section StepAdv2.
  Variable ipv : pystr -> option N.

  Lemma adv_good st prev t items :
    TInv t -> MemRel t st -> o_devs prev = devs_of t -> op_in_domain (Adv items) = true ->
    step_good ipv st prev t (Adv items).
  Proof.
    intros Hi HM Hp Hd. pose proof (op_dom_adv _ Hd) as D.
    destruct (mk_hdrs_ok items (md_ok _ D)) as [Hi0 Hg0].
    pose proof (msg_stored items src_advertisement (md_ok _ D)) as SO.
    set (h := with_source (mk_hdrs items) src_advertisement) in *.
    assert (Hdisc : is_discover (mk_hdrs items) =
                    match item_str items k_man with Some s => str_eqb s ssdp_discover | None => false end).
    { unfold is_discover, hstr, item_str. now rewrite Hg0. }
    assert (Estep : step ipv [] t (Adv items) =
      if is_discover (mk_hdrs items) then (t, None, None) else
      match item_get items k_nts with
      | None => (t, None, None)
      | Some ntsv =>
          let is s := match ntsv with HStr x => str_eqb x s | _ => false end in
          if is nts_alive then
            match see_advertisement ipv t h false with
            | (t', Some (u, ty)) => (t', Some (u, ty, AdvAlive), sget (devices t') u)
            | (t', None) => (t', None, None)
            end
          else if is nts_byebye then
            match unsee_advertisement t h with
            | (t', Some (u, ty, d)) => (t', Some (u, ty, AdvByebye), Some d)
            | (t', None) => (t', None, None)
            end
          else if is nts_update then
            match see_advertisement ipv t h true with
            | (t', Some (u, ty)) => (t', Some (u, ty, AdvUpdate), sget (devices t') u)
            | (t', None) => (t', None, None)
            end
          else (t, None, None)
      end).
    { cbn [step]. unfold on_adv. rewrite Hg0. reflexivity. }
    assert (Ekind : msg_kind (Adv items) =
      if is_discover (mk_hdrs items) then KOther else
      match item_get items k_nts with
      | Some (HStr s) => if str_eqb s nts_alive then KAlive else if str_eqb s nts_byebye then KByebye
                         else if str_eqb s nts_update then KUpdate else KOther
      | _ => KOther
      end).
    { unfold msg_kind. now rewrite Hdisc. }
    destruct (is_discover (mk_hdrs items)).
    { apply quiet_good; [exact HM | exact Estep | |]; unfold sighting, byebye_of; now rewrite Ekind. }
    destruct (item_get items k_nts) as [[s| |]|] eqn:En;
      try (apply quiet_good; [exact HM | exact Estep | |]; unfold sighting, byebye_of; now rewrite Ekind).
    assert (Hnts : item_str items k_nts = Some s) by (unfold item_str; now rewrite En).
    cbv zeta in Estep.
    destruct (str_eqb s nts_alive) eqn:E1.
    { (* ssdp:alive *)
      apply str_eqb_true in E1. subst s.
      destruct (sighting_items items (item_str items k_nt)) as [[[u ts] vt]|] eqn:Esi.
      - destruct (see_adv_full ipv items h D t st u ts vt false Hi HM SO) as
          [ty [t2 [d2 [pr [Ety [Ess [Hg2 [Hrel [Hhas [Hoth Hpr]]]]]]]]]]; [now rewrite Hnts | exact Esi |].
        apply (adv_sighting_good ipv st prev t items false KAlive AdvAlive t2 pr u ty ts vt d2); try assumption.
        + left. split; [reflexivity|]. split; [reflexivity|]. unfold nts_is_update_items. now rewrite Hnts.
        + rewrite Estep, Ess. destruct pr; reflexivity.
      - rewrite (see_adv_invalid ipv items h D t _ false SO Esi) in Estep.
        apply quiet_good; [exact HM | exact Estep | |].
        + unfold sighting. rewrite Ekind. unfold op_type. rewrite Ekind. exact Esi.
        + unfold byebye_of. now rewrite Ekind. }
    destruct (str_eqb s nts_byebye) eqn:E2.
    { (* ssdp:byebye *)
      apply str_eqb_true in E2. subst s.
      assert (Hsg : sighting (Adv items) = None) by (unfold sighting; now rewrite Ekind).
      assert (Hty : op_type (Adv items) = item_str items k_nt) by (unfold op_type; now rewrite Ekind).
      assert (Hbb : byebye_of (Adv items) =
                    match usn_udn items, item_str items k_nt with Some u, Some (_ :: _) => Some u | _, _ => None end).
      { unfold byebye_of. rewrite Ekind, Hty. reflexivity. }
      pose proof (unsee_full items h D t st HM SO) as U. rewrite Hnts in U. specialize (U eq_refl).
      destruct (usn_udn items) as [u|] eqn:Eu;
        [destruct (item_str items k_nt) as [[|c r]|] eqn:Ent|];
        try (rewrite U in Estep; apply quiet_good; [exact HM | exact Estep | exact Hsg | exact Hbb]).
      intros t' n d E note comb st' inr Ex.
      rewrite (expect_byebye ipv st prev t _ u (c :: r) Hp Hsg Hbb Hty) in Ex. cbn [op_items] in Ex.
      destruct (sget (devices t) u) as [d0|] eqn:Eg.
      - destruct U as [d' [EU [Hrel Hhas]]]. rewrite EU in Estep. rewrite Estep in E.
        inversion E; subst t' n d; clear E. inversion Ex; subst note comb st' inr; clear Ex. split.
        + intros u0 d1 Hin. cbn [devices] in Hin. apply (In_sdel _ _ _ _ _ (inv_nodup _ Hi)) in Hin. now apply HM.
        + intros _. unfold obs_of. cbn [o_note o_combined]. split; [apply note_eqb_refl|].
          pose proof (combined_ok d' _ (c :: r) Hrel) as C. cbn [fst snd] in C.
          unfold mset, mget in C. rewrite (dget_dset str_eqb KS) in C.
          destruct (KS (c :: r) (c :: r)); [|congruence]. apply C. rewrite Hhas. apply orb_true_r.
      - rewrite U in Estep. rewrite Estep in E. inversion E; subst. inversion Ex; subst. split; [exact HM|].
        intros _. split; reflexivity. }
    destruct (str_eqb s nts_update) eqn:E3.
    { (* ssdp:update *)
      apply str_eqb_true in E3. subst s.
      destruct (sighting_items items (item_str items k_nt)) as [[[u ts] vt]|] eqn:Esi.
      - destruct (see_adv_full ipv items h D t st u ts vt true Hi HM SO) as
          [ty [t2 [d2 [pr [Ety [Ess [Hg2 [Hrel [Hhas [Hoth Hpr]]]]]]]]]]; [now rewrite Hnts | exact Esi |].
        apply (adv_sighting_good ipv st prev t items true KUpdate AdvUpdate t2 pr u ty ts vt d2); try assumption.
        + right. split; [reflexivity|]. split; [reflexivity|]. unfold nts_is_update_items. now rewrite Hnts.
        + rewrite Estep, Ess. destruct pr; reflexivity.
      - rewrite (see_adv_invalid ipv items h D t _ true SO Esi) in Estep.
        apply quiet_good; [exact HM | exact Estep | |].
        + unfold sighting. rewrite Ekind. unfold op_type. rewrite Ekind. exact Esi.
        + unfold byebye_of. now rewrite Ekind. }
    apply quiet_good; [exact HM | exact Estep | |]; unfold sighting, byebye_of; now rewrite Ekind.
  Qed.
End StepAdv2.

(* ------------------------------------------------------------------ every operation, every history *)
Lemma step_good_all ipv st prev t o :
  TInv t -> MemRel t st -> o_devs prev = devs_of t -> op_in_domain o = true -> step_good ipv st prev t o.
Proof.
  intros Hi HM Hp Hd. destruct o as [items|items|nw].
  - now apply adv_good.
  - now apply srch_good.
  - intros t' n d E note comb st' inr Ex. cbn [step] in E. inversion E; subst t' n d; clear E.
    rewrite (expect_none ipv st prev (Purge nw) eq_refl eq_refl) in Ex. inversion Ex; subst; clear Ex.
    split; [now apply purged_mem|]. intros _. split; reflexivity.
Qed.

Theorem history_clauses ipv : forall ops t st prev n,
  TInv t -> MemRel t st -> o_devs prev = devs_of t -> in_domain ops = true ->
  C04.Run.clauses_from ipv n st prev ops (run_from [] ipv t ops) = [].
Proof.
  induction ops as [|o ops IH]; intros t st prev n Hi HM Hp Hd; [reflexivity|].
  cbn [in_domain forallb] in Hd. apply andb_true_iff in Hd as [Hd Hds].
  cbn [run_from]. destruct (step ipv [] t o) as [[t' nn] d] eqn:Es. cbn [C04.Run.clauses_from].
  destruct (expect ipv st prev o) as [[[note comb] st'] inr] eqn:Ex.
  destruct (step_good_all ipv st prev t o Hi HM Hp Hd t' nn d Es note comb st' inr Ex) as [HM' Hcl].
  assert (Hi' : TInv t').
  { pose proof (step_Inv ipv [] t o Hi) as X. now rewrite Es in X. }
  rewrite (IH t' st' (obs_of t' nn d) (N.succ n) Hi' HM' eq_refl Hds), app_nil_r.
  destruct inr; [|reflexivity]. destruct (Hcl eq_refl) as [H1 H2]. cbn [negb orb]. rewrite H1.
  destruct note, (o_note (obs_of t' nn d)); try reflexivity. now rewrite H2.
Qed.

Lemma MemRel0 : MemRel tracker0 [].
Proof. intros u d []. Qed.

(* the clauses the correspondence check evaluates on the implementation hold of the model on every history *)
Theorem notify_exact : forall i, dom i = true -> C04.Run.spec_failures i (model_run i) = [].
Proof.
  intros [[th tab] ops] Hd. unfold dom in Hd. destruct th; [|discriminate].
  unfold C04.Run.spec_failures, model_run. apply history_clauses; [exact Inv0 | exact MemRel0 | reflexivity | exact Hd].
Qed.

(* the same on the in-domain prefix of ANY history: what the correspondence check evaluates *)
Theorem notify_exact_prefix : forall i, C04.Run.spec_failures_prefix i (model_run i) = [].
Proof.
  intros [[th tab] ops]. unfold C04.Run.spec_failures_prefix, model_run. destruct th; [|reflexivity]. cbv zeta.
  rewrite run_from_prefix.
  exact (notify_exact ([], tab, dom_prefix ops) (in_domain_prefix ops)).
Qed.
