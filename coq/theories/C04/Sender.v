(* C04 — "for the sending device and the message's type": every notification the tracker model produces names the
   device of the message's USN and the message's own type, on every history of the domain (no reading restriction). *)
From Coq Require Import List Bool NArith ZArith Lia.
From AUC Require Import Prelude.PyStr Prelude.PyDict C16.Model C16.Spec C16.Proofs
  C03.Model C03.Spec C03.Inv C03.Bridge C03.StepChar C03.Run C04.Spec C04.Proofs C04.Run C04.History Gen.Ssdp.
Import ListNotations.

Local Notation KS := str_eqb_spec.
Local Notation TInv := C03.Inv.Inv.

Definition names_sender (o : op) (n : option notification) : Prop :=
  match n with
  | Some (u, ty, _) =>
      ((exists ts vt, sighting o = Some (u, ts, vt)) \/ byebye_of o = Some u) /\ op_type o = Some ty
  | None => True
  end.

Section Sender.
  Variable ipv : pystr -> option N.

  Lemma srch_names st t items :
    TInv t -> MemRel t st -> op_in_domain (Srch items) = true ->
    names_sender (Srch items) (snd (fst (step ipv [] t (Srch items)))).
  Proof.
    intros Hi HM Hd. pose proof (op_dom_srch _ Hd) as D.
    destruct (mk_hdrs_ok items (md_ok _ D)) as [Hi0 Hg0].
    pose proof (msg_stored items src_search (md_ok _ D)) as SO.
    assert (Ht : htruthy (mk_hdrs items) k_nts = nonempty (item_str items k_nts)).
    { unfold htruthy, nonempty, item_str. rewrite Hg0.
      destruct (item_get items k_nts) as [v|] eqn:E; [|reflexivity].
      destruct (md_str _ D _ _ E eq_refl) as [s ->]. destruct s; reflexivity. }
    assert (Hdisc : is_discover (mk_hdrs items) =
                    match item_str items k_man with Some s => str_eqb s ssdp_discover | None => false end).
    { unfold is_discover, hstr, item_str. now rewrite Hg0. }
    assert (Estep : step ipv [] t (Srch items) =
                    if is_discover (mk_hdrs items) then (t, None, None)
                    else if htruthy (mk_hdrs items) k_nts then (t, None, None)
                    else match see_search ipv t (with_source (mk_hdrs items) src_search) with
                         | (t', Some (u, ty, sc)) => (t', Some (u, ty, sc), sget (devices t') u)
                         | (t', None) => (t', None, None)
                         end).
    { cbn [step]. unfold on_srch. destruct (is_discover _); [reflexivity|]. destruct (htruthy _ _); reflexivity. }
    assert (Ekind : msg_kind (Srch items) =
                    if is_discover (mk_hdrs items) then KOther
                    else if htruthy (mk_hdrs items) k_nts then KOther else KSearch).
    { unfold msg_kind. now rewrite Hdisc, Ht. }
    rewrite Estep. destruct (is_discover (mk_hdrs items)); [exact I|].
    destruct (htruthy (mk_hdrs items) k_nts); [exact I|].
    assert (Hty : op_type (Srch items) = item_str items k_st) by (unfold op_type; now rewrite Ekind).
    assert (Hsg : sighting (Srch items) = sighting_items items (item_str items k_st)).
    { unfold sighting. rewrite Ekind, Hty. reflexivity. }
    destruct (sighting_items items (item_str items k_st)) as [[[u ts] vt]|] eqn:Esi.
    - destruct (see_search_full ipv items _ D t st u ts vt Hi HM SO Esi)
        as [ty [t2 [sc [d2 [Ety [Ess _]]]]]].
      rewrite Ess. cbn [fst snd names_sender]. split; [left; eauto|]. now rewrite Hty.
    - rewrite (see_search_invalid ipv items _ D t src_search SO Esi). exact I.
  Qed.

  Lemma adv_names st t items :
    TInv t -> MemRel t st -> op_in_domain (Adv items) = true ->
    names_sender (Adv items) (snd (fst (step ipv [] t (Adv items)))).
  Proof.
    intros Hi HM Hd. pose proof (op_dom_adv _ Hd) as D.
    destruct (mk_hdrs_ok items (md_ok _ D)) as [Hi0 Hg0].
    pose proof (msg_stored items src_advertisement (md_ok _ D)) as SO.
    set (h := with_source (mk_hdrs items) src_advertisement) in *.
    assert (Hdisc : is_discover (mk_hdrs items) =
                    match item_str items k_man with Some s => str_eqb s ssdp_discover | None => false end).
    { unfold is_discover, hstr, item_str. now rewrite Hg0. }
    assert (Ekind : msg_kind (Adv items) =
      if is_discover (mk_hdrs items) then KOther else
      match item_get items k_nts with
      | Some (HStr s) => if str_eqb s nts_alive then KAlive else if str_eqb s nts_byebye then KByebye
                         else if str_eqb s nts_update then KUpdate else KOther
      | _ => KOther
      end).
    { unfold msg_kind. now rewrite Hdisc. }
    cbn [step]. unfold on_adv. rewrite Hg0. fold h.
    destruct (is_discover (mk_hdrs items)); [exact I|].
    destruct (item_get items k_nts) as [[s| |]|] eqn:En; try exact I.
    assert (Hnts : item_str items k_nts = Some s) by (unfold item_str; now rewrite En).
    cbv zeta.
    destruct (str_eqb s nts_alive) eqn:E1.
    { apply str_eqb_true in E1. subst s.
      assert (Hty : op_type (Adv items) = item_str items k_nt) by (unfold op_type; now rewrite Ekind).
      assert (Hsg : sighting (Adv items) = sighting_items items (item_str items k_nt)).
      { unfold sighting. rewrite Ekind, Hty. reflexivity. }
      destruct (sighting_items items (item_str items k_nt)) as [[[u ts] vt]|] eqn:Esi.
      - destruct (see_adv_full ipv items h D t st u ts vt false Hi HM SO) as
          [ty [t2 [d2 [pr [Ety [Ess _]]]]]]; [now rewrite Hnts | exact Esi |].
        rewrite Ess. destruct pr; [|exact I]. cbn [fst snd names_sender]. split; [left; eauto|]. now rewrite Hty.
      - rewrite (see_adv_invalid ipv items h D t _ false SO Esi). exact I. }
    destruct (str_eqb s nts_byebye) eqn:E2.
    { apply str_eqb_true in E2. subst s.
      assert (Hty : op_type (Adv items) = item_str items k_nt) by (unfold op_type; now rewrite Ekind).
      assert (Hbb : byebye_of (Adv items) =
                    match usn_udn items, item_str items k_nt with Some u, Some (_ :: _) => Some u | _, _ => None end).
      { unfold byebye_of. rewrite Ekind, Hty. reflexivity. }
      pose proof (unsee_full items h D t st HM SO) as U. rewrite Hnts in U. specialize (U eq_refl).
      destruct (usn_udn items) as [u|] eqn:Eu;
        [destruct (item_str items k_nt) as [[|c r]|] eqn:Ent|]; try (rewrite U; exact I).
      destruct (sget (devices t) u) as [d0|]; [|rewrite U; exact I].
      destruct U as [d' [EU _]]. rewrite EU. cbn [fst snd names_sender]. split; [right; exact Hbb | exact Hty]. }
    destruct (str_eqb s nts_update) eqn:E3; [|exact I].
    apply str_eqb_true in E3. subst s.
    assert (Hty : op_type (Adv items) = item_str items k_nt) by (unfold op_type; now rewrite Ekind).
    assert (Hsg : sighting (Adv items) = sighting_items items (item_str items k_nt)).
    { unfold sighting. rewrite Ekind, Hty. reflexivity. }
    destruct (sighting_items items (item_str items k_nt)) as [[[u ts] vt]|] eqn:Esi.
    - destruct (see_adv_full ipv items h D t st u ts vt true Hi HM SO) as
        [ty [t2 [d2 [pr [Ety [Ess _]]]]]]; [now rewrite Hnts | exact Esi |].
      rewrite Ess. destruct pr; [|exact I]. cbn [fst snd names_sender]. split; [left; eauto|]. now rewrite Hty.
    - rewrite (see_adv_invalid ipv items h D t _ true SO Esi). exact I.
  Qed.

  Lemma step_names st t o :
    TInv t -> MemRel t st -> op_in_domain o = true -> names_sender o (snd (fst (step ipv [] t o))).
  Proof.
    intros Hi HM Hd. destruct o as [items|items|nw]; [now apply (adv_names st) | now apply (srch_names st) | exact I].
  Qed.

  (* over whole histories: at every step, at most one notification, naming the sender and the message's type *)
  Theorem history_names_sender : forall ops t st prev,
    TInv t -> MemRel t st -> o_devs prev = devs_of t -> in_domain ops = true ->
    Forall2 (fun o ob => match o_note ob with
                         | Some (u, ty, _) =>
                             ((exists ts vt, sighting o = Some (u, ts, vt)) \/ byebye_of o = Some u) /\ op_type o = Some ty
                         | None => True
                         end) ops (run_from [] ipv t ops).
  Proof.
    induction ops as [|o ops IH]; intros t st prev Hi HM Hp Hd; [constructor|].
    cbn [in_domain forallb] in Hd. apply andb_true_iff in Hd as [Hd Hds].
    cbn [run_from]. pose proof (step_names st t o Hi HM Hd) as Hn.
    destruct (step ipv [] t o) as [[t' nn] d] eqn:Es. cbn [fst snd] in Hn.
    destruct (expect ipv st prev o) as [[[note comb] st'] inr] eqn:Ex.
    destruct (step_good_all ipv st prev t o Hi HM Hp Hd t' nn d Es note comb st' inr Ex) as [HM' _].
    assert (Hi' : TInv t') by (pose proof (step_Inv ipv [] t o Hi) as X; now rewrite Es in X).
    constructor.
    - unfold obs_of. cbn [o_note]. destruct nn as [[[u ty] sc]|]; [exact Hn | exact I].
    - exact (IH t' st' (obs_of t' nn d) Hi' HM' eq_refl Hds).
  Qed.
End Sender.
