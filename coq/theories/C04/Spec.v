(* C04 — when a change notification is due and what snapshot it carries, computed from the
   history and the device map observed before the operation.  Executable clauses. *)
From Coq Require Import List Bool NArith ZArith.
From AUC Require Import Prelude.PyStr Prelude.PyDict C16.Model C16.Spec C03.Model C03.Spec.
Import ListNotations.
Local Open Scope N_scope.

(* "non-volatile header": not decoder metadata (_...), and not one of date, cache-control, server,
   host, location (the location is judged separately) *)
Definition spec_volatile : list pystr :=
  [[100;97;116;101]; [99;97;99;104;101;45;99;111;110;116;114;111;108]; [115;101;114;118;101;114];
   [104;111;115;116]; [108;111;99;97;116;105;111;110]].
Definition nonvolatile (lk : pystr) : bool :=
  negb (is_meta lk) && negb (existsb (str_eqb lk) spec_volatile).

(* some non-volatile header present in both has a different value *)
Definition spec_differ (old new : list (pystr * hval)) : bool :=
  existsb (fun kv =>
             let lk := lower (fst kv) in
             nonvolatile lk &&
             match item_get new lk with
             | Some v' => negb (hval_eqb (snd kv) v')
             | None => false
             end) old.

(* the memory of a device: per type, the items of its latest search response / advertisement *)
Definition mem := (dict pystr (list (pystr * hval)) * dict pystr (list (pystr * hval)))%type.
Definition mem0 : mem := ([], []).
Definition spec_state := dict pystr mem.

Definition mget {V} := @dget pystr str_eqb V.
Definition mset {V} := @dset pystr str_eqb V.

(* latest search headers overlaid by latest advertisement headers, read case-insensitively *)
Definition overlay (s a : list (pystr * hval)) : list (pystr * hval) :=
  let low l := dmerge str_eqb [] (map (fun kv => (lower (fst kv), snd kv)) l) in
  filter (fun kv => negb (str_eqb (fst kv) k_source)) (dmerge str_eqb (low s) (low a)).

Section WithIpVersion.
  Variable ipver : pystr -> option N.

  Definition family_known (loc : pystr) (locs : list (pystr * Z)) : bool :=
    negb (existsb (fun l => str_eqb (fst l) loc) locs) &&
    match ipver loc with
    | Some v => existsb (fun l => match ipver (fst l) with Some w => w =? v | None => false end) locs
    | None => false
    end.

  (* (expected notification, expected combined headers, memory after, decision is inside the reading) *)
  Definition expect (st : spec_state) (prev : obs) (o : op)
    : option (pystr * pystr * N) * list (pystr * hval) * spec_state * bool :=
    let items := op_items o in
    match sighting o, op_type o with
    | Some (u, ts, _), Some ty =>
        let pd := find_dev u (o_devs prev) in
        let alive := match pd with Some (_, v, _) => negb (ts >? v)%Z | None => false end in
        let m := if alive then match mget st u with Some m => m | None => mem0 end else mem0 in
        let locs := match pd with Some (_, _, l) => if alive then l else [] | None => [] end in
        (* a stored location that itself ran out before ts may or may not have been dropped *)
        let in_reading := negb (existsb (fun l => (ts >? snd l)%Z) locs) in
        let known_type := dhas str_eqb (fst m) ty || dhas str_eqb (snd m) ty in
        let new_loc := match locs with [] => true | _ => family_known (msg_loc items) locs end in
        let is_search := match msg_kind o with KSearch => true | _ => false end in
        let old := if is_search then mget (fst m) ty else mget (snd m) ty in
        let differs := match old with Some oi => spec_differ oi items | None => false end in
        let changed := negb alive || negb known_type || new_loc || differs in
        let m' := if is_search then (mset (fst m) ty items, snd m) else (fst m, mset (snd m) ty items) in
        let note := match msg_kind o with
                    | KSearch => Some (u, ty, if changed then 0 else 1)
                    | KAlive => if changed then Some (u, ty, 2) else None
                    | KUpdate => Some (u, ty, 4)
                    | _ => None
                    end in
        let comb := overlay (match mget (fst m') ty with Some i => i | None => [] end)
                            (match mget (snd m') ty with Some i => i | None => [] end) in
        (note, comb, mset st u m', in_reading)
    | _, _ =>
        match byebye_of o, op_type o with
        | Some u, Some ty =>
            match find_dev u (o_devs prev) with
            | Some _ =>
                let m := match mget st u with Some m => m | None => mem0 end in
                let comb := overlay (match mget (fst m) ty with Some i => i | None => [] end) items in
                (Some (u, ty, 3), comb, st, true)
            | None => (None, [], st, true)
            end
        | _, _ => (None, [], st, true)
        end
    end.
End WithIpVersion.

Definition kv_eqb (a b : pystr * hval) : bool := str_eqb (fst a) (fst b) && hval_eqb (snd a) (snd b).
Definition note_eqb (a b : option (pystr * pystr * N)) : bool :=
  match a, b with
  | Some (u1, t1, s1), Some (u2, t2, s2) => str_eqb u1 u2 && str_eqb t1 t2 && (s1 =? s2)
  | None, None => true
  | _, _ => false
  end.
