(* C06 — concrete calls used by the non-vacuity examples of Properties.v.  Definitions only. *)
From Coq Require Import List NArith ZArith.
From AUC Require Import Prelude.PyStr C08.TypesDef C08.Model C06.Model.
Import ListNotations.
Local Open Scope N_scope.

(* RenderingControl SetVolume(InstanceID: ui4, Channel: string in [Master, LF], DesiredVolume: ui2 in 0..100)
   plus an out-argument, called with InstanceID=True (a bool, D26), Channel="Master", DesiredVolume=100 *)
Definition ex_args : list argdef := [
  mkArg [73;110;115;116;97;110;99;101;73;68] true [117;105;52] [] false None None;
  mkArg [67;104;97;110;110;101;108] true [115;116;114;105;110;103] [[77;97;115;116;101;114]; [76;70]] false None None;
  mkArg [68;101;115;105;114;101;100;86;111;108;117;109;101] true [117;105;50] [] true (Some [48]) (Some [49;48;48]);
  mkArg [82] false [117;105;52] [] false None None ].
Definition ex_st : pystr :=
  [117;114;110;58;115;99;104;101;109;97;115;45;117;112;110;112;45;111;114;103;58;115;101;114;118;105;99;101;58;82;101;110;100;101;114;105;110;103;67;111;110;116;114;111;108;58;49].
Definition ex_url : pystr := [104;116;116;112;58;47;47;104;58;49;47;99;116;108].      (* http://h:1/ctl *)
Definition ex_call (vol : Z) : call :=
  mkCall true ex_st [83;101;116;86;111;108;117;109;101] ex_args ex_url [104;58;49]
    [([73;110;115;116;97;110;99;101;73;68], VBool true);
     ([67;104;97;110;110;101;108], VStr [77;97;115;116;101;114]);
     ([68;101;115;105;114;101;100;86;111;108;117;109;101], VInt vol)].

