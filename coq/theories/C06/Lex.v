(* C06 — lemmas about the XML reader's lexer: escaped character data reads back as the original
   text; a tag chunk is handed to parse_tag; simple start/end tags. *)
From Coq Require Import List Bool NArith Lia.
From AUC Require Import Prelude.PyStr C06.XmlRead C06.Model.
Import ListNotations.
Local Open Scope N_scope.

(* ------------------------------------------------------------------ escaped text *)
Lemma eqb_false_of_ne a b : a <> b -> (a =? b) = false.
Proof. intros H. now apply N.eqb_neq. Qed.

Lemma lex_text_char c nbr acc r :
  xml_legal c = true -> c <> 60 -> c <> 38 -> c <> 62 -> c <> 13 ->
  lexa (MText nbr None acc) (c :: r) = lexa (MText (if c =? 93 then S nbr else O) None (c :: acc)) r.
Proof.
  intros L H1 H2 H3 H4. cbn [lexa].
  rewrite (eqb_false_of_ne _ _ H1), (eqb_false_of_ne _ _ H2), L, (eqb_false_of_ne _ _ H3),
    (eqb_false_of_ne _ _ H4). reflexivity.
Qed.

Lemma lex_text_amp nbr acc r :
  lexa (MText nbr None acc) ([38;97;109;112;59] ++ r) = lexa (MText 0 None (38 :: acc)) r.
Proof. reflexivity. Qed.
Lemma lex_text_lt nbr acc r :
  lexa (MText nbr None acc) ([38;108;116;59] ++ r) = lexa (MText 0 None (60 :: acc)) r.
Proof. reflexivity. Qed.
Lemma lex_text_gt nbr acc r :
  lexa (MText nbr None acc) ([38;103;116;59] ++ r) = lexa (MText 0 None (62 :: acc)) r.
Proof. reflexivity. Qed.
Lemma lex_text_cr nbr acc r :
  lexa (MText nbr None acc) ([38;35;49;51;59] ++ r) = lexa (MText 0 None (13 :: acc)) r.
Proof. reflexivity. Qed.

(* the heart of the escape round trip: in character-data mode, the escaped form of any string of
   legal characters, followed by the '<' of the next tag, yields exactly that string *)
Lemma lex_escaped s : forall nbr acc rest,
  forallb xml_legal s = true ->
  lexa (MText nbr None acc) (escape s ++ 60 :: rest) =
  ocons (TText (List.rev acc ++ s)) (lexa (MTag [] None) rest).
Proof.
  induction s as [|c s IH]; intros nbr acc rest L.
  - cbn [escape flat_map app]. cbn [lexa]. rewrite N.eqb_refl, app_nil_r. reflexivity.
  - cbn [forallb] in L. apply andb_true_iff in L as [Lc Ls].
    change (escape (c :: s)) with (esc_char c ++ escape s). rewrite <- app_assoc.
    replace (List.rev acc ++ c :: s) with (List.rev (c :: acc) ++ s)
      by (cbn [List.rev]; now rewrite <- app_assoc).
    unfold esc_char.
    destruct (N.eqb_spec c 38) as [->|N1]; [rewrite lex_text_amp; now apply IH|].
    destruct (N.eqb_spec c 60) as [->|N2]; [rewrite lex_text_lt; now apply IH|].
    destruct (N.eqb_spec c 62) as [->|N3]; [rewrite lex_text_gt; now apply IH|].
    destruct (N.eqb_spec c 13) as [->|N4]; [rewrite lex_text_cr; now apply IH|].
    cbn [app]. rewrite lex_text_char by assumption. now apply IH.
Qed.

(* ------------------------------------------------------------------ tags *)
(* the quote automaton of tag mode *)
Fixpoint qrun (q : option N) (s : pystr) : option (option N) :=
  match s with
  | [] => Some q
  | c :: r =>
      match q with
      | None => if c =? 62 then None
                else if (c =? 34) || (c =? 39) then qrun (Some c) r else qrun None r
      | Some x => if c =? x then qrun None r else qrun (Some x) r
      end
  end.

Lemma qrun_app q a b :
  qrun q (a ++ b) = match qrun q a with Some q' => qrun q' b | None => None end.
Proof.
  revert q. induction a as [|c a IH]; intros q; [reflexivity|].
  cbn [app qrun]. destruct q as [x|].
  - destruct (c =? x); apply IH.
  - destruct (c =? 62); [reflexivity|]. destruct ((c =? 34) || (c =? 39)); apply IH.
Qed.

Lemma lex_tag chunk : forall acc q rest,
  qrun q chunk = Some None ->
  lexa (MTag acc q) (chunk ++ 62 :: rest) =
  match parse_tag (List.rev acc ++ chunk) with
  | Some t => ocons t (lexa (MText 0 None []) rest)
  | None => None
  end.
Proof.
  induction chunk as [|c chunk IH]; intros acc q rest H.
  - cbn [qrun] in H. inversion H; subst q. cbn [app lexa]. rewrite N.eqb_refl, app_nil_r. reflexivity.
  - cbn [qrun] in H. cbn [app lexa].
    replace (List.rev acc ++ c :: chunk) with (List.rev (c :: acc) ++ chunk)
      by (cbn [List.rev]; now rewrite <- app_assoc).
    destruct q as [x|].
    + destruct (c =? x); now apply IH.
    + destruct (c =? 62); [discriminate|].
      destruct ((c =? 34) || (c =? 39)); now apply IH.
Qed.

Lemma name_char_not_special c :
  name_char c = true -> (c =? 62) = false /\ ((c =? 34) || (c =? 39)) = false /\ (c =? 58) = false /\ is_ws c = false.
Proof.
  unfold name_char, name_start, is_alpha, is_dig, is_ws. intros H.
  destruct (N.eqb_spec c 62), (N.eqb_spec c 34), (N.eqb_spec c 39), (N.eqb_spec c 58),
    (N.eqb_spec c 32), (N.eqb_spec c 9), (N.eqb_spec c 10), (N.eqb_spec c 13); subst; try discriminate H;
    repeat split; reflexivity.
Qed.

Lemma qrun_name s : forallb name_char s = true -> qrun None s = Some None.
Proof.
  induction s as [|c s IH]; [reflexivity|]. cbn [forallb qrun]. intros H.
  apply andb_true_iff in H as [Hc Hs]. destruct (name_char_not_special c Hc) as (-> & -> & _).
  now apply IH.
Qed.

Lemma ncname_chars s : is_ncname s = true -> forallb name_char s = true.
Proof.
  destruct s as [|c r]; [discriminate|]. cbn [is_ncname forallb]. intros H.
  apply andb_true_iff in H as [H1 H2]. rewrite H2, andb_true_r. unfold name_char. now rewrite H1.
Qed.

Lemma span_all (p : N -> bool) s r :
  forallb p s = true -> match r with [] => True | c :: _ => p c = false end ->
  span p (s ++ r) = (s, r).
Proof.
  induction s as [|c s IH]; intros H Hr.
  - cbn [app]. destruct r as [|c r]; [reflexivity|]. cbn [span]. now rewrite Hr.
  - cbn [forallb] in H. apply andb_true_iff in H as [Hc Hs]. cbn [app span]. rewrite Hc.
    now rewrite (IH Hs Hr).
Qed.

Lemma scan_qname_plain s r :
  is_ncname s = true -> match r with [] => True | c :: _ => name_char c = false /\ c <> 58 end ->
  scan_qname (s ++ r) = Some ((None, s), r).
Proof.
  intros H Hr. pose proof (ncname_chars s H) as Hall.
  destruct s as [|c s']; [discriminate|]. cbn [is_ncname] in H. apply andb_true_iff in H as [Hc _].
  unfold scan_qname. cbn [app]. rewrite Hc.
  change (c :: s' ++ r) with ((c :: s') ++ r).
  rewrite span_all; [|assumption|destruct r; [exact I|apply Hr]].
  destruct r as [|x r]; [reflexivity|]. destruct Hr as [_ Hx].
  now rewrite (eqb_false_of_ne _ _ Hx).
Qed.
