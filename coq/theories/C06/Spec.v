(* C06 — "SOAP requests say exactly what the caller asked": the property restated as executable
   booleans over (call, observation).  The same definitions judge the model (theorems) and the
   implementation's observations (correspondence).  The observation is what the UpnpRequester
   received: method, URL, headers, and the body as decoded by an XML parser (the real expat for the
   implementation, C06.XmlRead for the model). *)
From Coq Require Import List Bool NArith ZArith.
From AUC Require Import Prelude.PyStr C08.TypesDef C08.Model C08.Spec Gen.Types Gen.DateMatchers
  C06.XmlRead C06.Model.
Import ListNotations.
Local Open Scope N_scope.

Inductive observation :=
| OCreateFailed                                     (* the action could not be built from its description *)
| ORefused (e : cexn) (ncalls : N)                  (* async_call raised; requester calls so far *)
| OSent (ncalls : N) (method url : pystr) (headers : list (pystr * pystr)) (body : pystr)
        (tree : option xtree).                      (* first request; None = body is not well-formed *)

(* ------------------------------------------------------------------ vocabulary *)
Definition ns_soap_env : pystr :=      (* http://schemas.xmlsoap.org/soap/envelope/ *)
  [104;116;116;112;58;47;47;115;99;104;101;109;97;115;46;120;109;108;115;111;97;112;46;111;114;103;47;115;111;97;112;47;101;110;118;101;108;111;112;101;47].
Definition s_Envelope : pystr := [69;110;118;101;108;111;112;101].
Definition s_Body : pystr := [66;111;100;121].
(* text/xml;charset=utf-8 : the content type with blanks and quotes removed, lower case *)
Definition ct_canon : pystr := [116;101;120;116;47;120;109;108;59;99;104;97;114;115;101;116;61;117;116;102;45;56].
Definition canon_ct (s : pystr) : pystr :=
  lower_with (fun c => c) (filter (fun c => negb ((c =? 32) || (c =? 34) || (c =? 39))) s).

(* RFC 3986 authority of an absolute URL: between "//" and the next '/', '?' or '#' *)
Fixpoint after_slashes (s : pystr) : option pystr :=
  match s with
  | 58 :: 47 :: 47 :: r => Some r
  | c :: r => if (c =? 47) || (c =? 63) || (c =? 35) then None else after_slashes r
  | [] => None
  end.
Definition authority (url : pystr) : pystr :=
  match after_slashes url with
  | Some r => fst (span (fun c => negb ((c =? 47) || (c =? 63) || (c =? 35))) r)
  | None => []
  end.

(* header names are case-insensitive (HTTP); the value of the only header of that name *)
Definition hdr_get (hs : list (pystr * pystr)) (name : pystr) : option pystr :=
  let low := lower_with (fun c => c) in
  match filter (fun h => str_eqb (low (fst h)) (low name)) hs with
  | [h] => Some (snd h)
  | _ => None
  end.
Definition opt_str_eqb (a : option pystr) (b : pystr) : bool :=
  match a with Some x => str_eqb x b | None => false end.

(* ---- equality of values; Python's True == 1 *)
Definition fl_eqb (a b : fl) : bool :=
  match a, b with
  | FFin m1 e1, FFin m2 e2 => (m1 =? m2)%Z && (e1 =? e2)%Z
  | FInf x, FInf y => Bool.eqb x y
  | FNan, FNan => true
  | _, _ => false
  end.
Definition otz_eqb (a b : option Z) : bool :=
  match a, b with Some x, Some y => (x =? y)%Z | None, None => true | _, _ => false end.
Definition date_eqb (a b : pdate) := (dy a =? dy b) && (dm a =? dm b) && (dd a =? dd b).
Definition time_eqb (a b : ptime) :=
  (th a =? th b) && (tmi a =? tmi b) && (ts a =? ts b) && otz_eqb (ttz a) (ttz b).
Definition val_eqb (a b : pyval) : bool :=
  match a, b with
  | VInt x, VInt y => (x =? y)%Z
  | VBool x, VBool y => Bool.eqb x y
  | VFloat x, VFloat y => fl_eqb x y
  | VStr x, VStr y => str_eqb x y
  | VDate x, VDate y => date_eqb x y
  | VTime x, VTime y => time_eqb x y
  | VDateTime d1 t1, VDateTime d2 t2 => date_eqb d1 d2 && time_eqb t1 t2
  | VNone, VNone => true
  | _, _ => false
  end.
Definition same_value (supplied decoded : pyval) : bool :=
  val_eqb supplied decoded ||
  match supplied, decoded with
  | VBool b, VInt z => (z =? (if b then 1 else 0))%Z
  | _, _ => false
  end.

Fixpoint nodup_str (l : list pystr) : bool :=
  match l with
  | [] => true
  | x :: r => negb (existsb (str_eqb x) r) && nodup_str r
  end.

(* a service type that can stand inside a double-quoted attribute unchanged *)
Definition attr_safe_char (c : N) : bool :=
  xml_legal c && negb ((c =? 34) || (c =? 60) || (c =? 38) || (c =? 9) || (c =? 10) || (c =? 13)).

Section Spec.
  Variable float_str : fl -> pystr.
  Variable float_of_str : pystr -> option fl.
  Variable lower_ext : N -> N.

  (* "accepted by the action's declared types, ranges and allowed values": every in-argument is
     supplied and passes C08's acceptance predicate (type [isinstance reading], timezone, allowed
     list, range) *)
  Definition accepted (ins : list (argdef * decl)) (kw : list (pystr * pyval)) : bool :=
    forallb (fun ad => match kw_get kw (a_name (fst ad)) with
                       | Some v => spec_accepts (snd ad) v
                       | None => false
                       end) ins.

  (* Reading "values of the right type": the C08 round-trip domain of the declared type (all ints,
     both bools, all non-nan floats under the repr/parse premise evaluated on this very float, all
     strings, dates 0001..9999, whole-second times with whole-minute offsets), a bool for an integer
     type counting as the integer it equals.  Strings consist of XML-legal characters (the
     quantifier: "strings of arbitrary XML-legal Unicode"); so does the text float.__repr__ returns
     (oracle premise, evaluated on this very float) *)
  Definition value_ok (d : decl) (v : pyval) : bool :=
    let v' := norm_bool d v in
    value_in_domain (r_type (d_row d)) v' &&
    match v' with
    | VFloat f =>
        match float_of_str (float_str f) with Some g => fl_eqb f g | None => false end &&
        forallb xml_legal (float_str f)
    | VStr s => forallb xml_legal s
    | _ => true
    end.
  Definition values_ok (ins : list (argdef * decl)) (kw : list (pystr * pyval)) : bool :=
    forallb (fun ad => match kw_get kw (a_name (fst ad)) with
                       | Some v => value_ok (snd ad) v
                       | None => false
                       end) ins.

  (* hypotheses of the theorems; every "reading" is a conjunct here *)
  Definition in_domain (c : call) : bool :=
    c_strict c &&                                             (* reading: the default, strict client *)
    match prepare float_of_str lower_ext (c_strict c) (c_args c) with
    | Ok args =>
        let ins := in_arguments args in
        is_ncname (c_action c) &&                             (* generated services: XML names *)
        forallb (fun ad => is_ncname (a_name (fst ad))) ins &&
        nodup_str (map (fun ad => a_name (fst ad)) ins) &&
        nodup_str (map fst (c_kwargs c)) &&                   (* keyword arguments are a dict *)
        negb (match c_st c with [] => true | _ => false end) &&
        forallb attr_safe_char (c_st c) &&
        str_eqb (c_netloc c) (authority (c_url c)) &&         (* oracle law: netloc is the authority *)
        (if accepted ins (c_kwargs c) then values_ok ins (c_kwargs c) else true)
    | Raise _ => false
    end.

  (* ---------------------------------------------------------------- clauses *)
  Definition with_args (c : call) (k : list (argdef * decl) -> bool) : bool :=
    match prepare float_of_str lower_ext (c_strict c) (c_args c) with
    | Ok args => k (in_arguments args)
    | Raise _ => true
    end.

  (* 1: an accepted call is one POST to the resolved control URL *)
  Definition c_request (c : call) (o : observation) : bool :=
    with_args c (fun ins =>
      if accepted ins (c_kwargs c) then
        match o with
        | OSent n m u _ _ _ => (n =? 1) && str_eqb m s_POST && str_eqb u (c_url c)
        | _ => false
        end
      else true).

  (* 2: SOAPAction "serviceType#action", text/xml utf-8, Host = the URL's authority *)
  Definition c_headers (c : call) (o : observation) : bool :=
    with_args c (fun ins =>
      if accepted ins (c_kwargs c) then
        match o with
        | OSent _ _ _ hs _ _ =>
            opt_str_eqb (hdr_get hs h_soapaction) ([34] ++ c_st c ++ [35] ++ c_action c ++ [34]) &&
            opt_str_eqb (hdr_get hs h_host) (authority (c_url c)) &&
            match hdr_get hs h_content_type with
            | Some v => str_eqb (canon_ct v) ct_canon
            | None => false
            end
        | _ => false
        end
      else true).

  (* the argument elements of a well-formed envelope whose body holds exactly one element named after
     the action in the service-type namespace *)
  Definition action_kids (c : call) (t : option xtree) : option (list xtree) :=
    match t with
    | Some (XE n1 l1 _ [] [XE n2 l2 _ [] [XE n3 l3 _ [] kids]]) =>
        if str_eqb n1 ns_soap_env && str_eqb l1 s_Envelope && str_eqb n2 ns_soap_env && str_eqb l2 s_Body &&
           str_eqb n3 (c_st c) && str_eqb l3 (c_action c)
        then Some kids else None
    | _ => None
    end.

  Fixpoint kids_match (ins : list (argdef * decl)) (kids : list xtree) : bool :=
    match ins, kids with
    | [], [] => true
    | (a, _) :: ins', XE n l _ _ [] :: kids' =>
        str_eqb n [] && str_eqb l (a_name a) && kids_match ins' kids'
    | _, _ => false
    end.

  (* 3: well-formed envelope; each in-argument exactly once, in declared order *)
  Definition c_envelope (c : call) (o : observation) : bool :=
    with_args c (fun ins =>
      if accepted ins (c_kwargs c) then
        match o with
        | OSent _ _ _ _ _ t =>
            match action_kids c t with Some kids => kids_match ins kids | None => false end
        | _ => false
        end
      else true).

  Fixpoint texts_decode (ins : list (argdef * decl)) (kw : list (pystr * pyval)) (kids : list xtree) : bool :=
    match ins, kids with
    | [], [] => true
    | (a, d) :: ins', XE _ _ _ t _ :: kids' =>
        match kw_get kw (a_name a), apply_in float_of_str lower_ext (r_in (d_row d)) t with
        | Some v, Ok v' => same_value v v'
        | _, _ => false
        end && texts_decode ins' kw kids'
    | _, _ => false
    end.

  (* 4: the text of every argument element decodes (XML, then the type's in-coercer) to the supplied value *)
  Definition c_values (c : call) (o : observation) : bool :=
    with_args c (fun ins =>
      if accepted ins (c_kwargs c) then
        match o with
        | OSent _ _ _ _ _ t =>
            match action_kids c t with Some kids => texts_decode ins (c_kwargs c) kids | None => false end
        | _ => false
        end
      else true).

  (* 5: anything else is refused with the library's error before anything is sent *)
  Definition c_refusal (c : call) (o : observation) : bool :=
    with_args c (fun ins =>
      if accepted ins (c_kwargs c) then true
      else match o with
           | ORefused EUpnpError n | ORefused EUpnpValueError n => n =? 0
           | _ => false
           end).

  Definition spec_all (c : call) (o : observation) : bool :=
    c_request c o && c_headers c o && c_envelope c o && c_values c o && c_refusal c o.

  (* ---------------------------------------------------------------- the model's observation *)
  Definition model_obs (c : call) : observation :=
    match prepare float_of_str lower_ext (c_strict c) (c_args c) with
    | Raise _ => OCreateFailed
    | Ok args =>
        match async_call float_str c args with
        | (Some e, l) => ORefused e (N.of_nat (length l))
        | (None, q :: l) =>
            OSent (N.of_nat (length (q :: l))) (q_method q) (q_url q) (q_headers q) (q_body q) (xml_read (q_body q))
        | (None, []) => OCreateFailed
        end
    end.
End Spec.
