(* C06 — SOAP requests say exactly what the caller asked.  Property theorems only. *)
From Coq Require Import List Bool NArith ZArith.
From AUC Require Import Prelude.PyStr C08.TypesDef C08.Model C08.Spec Gen.Types Gen.DateMatchers
  C06.XmlRead C06.Model C06.Spec C06.ReadEnv C06.BuildEnv C06.Values C06.Shape C06.EscapeThm C06.ExampleCall.
Import ListNotations.
Local Open Scope N_scope.

(* For every float printer/parser and every non-ASCII lower-casing (the oracles of C08), and every call
   (service type, resolved control URL, action with its arguments and their declarations over the
   type table generated from const.py, keyword assignment) in the domain (strict client; names are
   XML names; the service type can stand in a double-quoted attribute; netloc is the URL's authority;
   and, when the assignment is accepted, the values lie in C08's round-trip domain with strings of
   XML-legal characters): the observation of the model satisfies all five clauses of the
   specification -- one POST to the control URL; SOAPAction "serviceType#action", text/xml utf-8,
   Host = authority; a well-formed envelope (read by C06.XmlRead) whose body holds one element named
   after the action in the service-type namespace holding each in-argument exactly once in declared
   order; each argument's text decodes, through XML and then the declared type's in-coercer, to the
   supplied value; and an assignment that is not accepted is refused with UpnpError/UpnpValueError
   with no requester call.  These are the very booleans the correspondence check evaluates on the
   implementation's observations. *)
Theorem C06_request_meets_spec :
  forall (float_str : fl -> pystr) (float_of_str : pystr -> option fl) (lower_ext : N -> N) (c : call),
    in_domain float_str float_of_str lower_ext c = true ->
    spec_all float_of_str lower_ext c (model_obs float_str float_of_str lower_ext c) = true.
Proof. exact model_meets_spec. Qed.
Print Assumptions C06_request_meets_spec.

(* The same for accepted calls, as a proposition about the request handed to the requester: exactly
   one request (POST, control URL, the three headers with Host = authority of the URL, body); the body
   is the envelope around the in-arguments joined by newlines, each <name>escape(wire)</name>; the XML
   reader maps the body to the envelope tree with one child per in-argument, in declared order, whose
   text is the wire text; and each wire text is the out-coercion of the supplied value and is mapped
   back to it (Python equality: True = 1) by the in-coercer of the declared type. *)
Theorem C06_request_shape :
  forall (float_str : fl -> pystr) (float_of_str : pystr -> option fl) (lower_ext : N -> N)
         (c : call) (args : list (argdef * decl)),
    in_domain float_str float_of_str lower_ext c = true ->
    prepare float_of_str lower_ext (c_strict c) (c_args c) = Ok args ->
    accepted (in_arguments args) (c_kwargs c) = true ->
    exists ws : list argw,
      let body := envelope (c_st c) (c_action c) (join [10] (map (fun x => arg_xml (fst x) (snd x)) ws)) in
      async_call float_str c args =
        (None, [mkReq s_POST (c_url c) (headers (c_st c) (c_action c) (authority (c_url c))) body]) /\
      xml_read body = Some (envelope_tree (c_st c) (c_action c) ws) /\
      Forall2 (fun (ad : argdef * decl) (x : argw) =>
                 fst x = a_name (fst ad) /\
                 exists v v', kw_get (c_kwargs c) (a_name (fst ad)) = Some v /\
                              coerce_upnp float_str (snd ad) v = Ok (snd x) /\
                              apply_in float_of_str lower_ext (r_in (d_row (snd ad))) (snd x) = Ok v' /\
                              same_value v v' = true)
              (in_arguments args) ws.
Proof. exact request_shape. Qed.
Print Assumptions C06_request_shape.

(* Refusal needs no hypothesis on names, values, strictness or the service: an assignment that omits an
   in-argument or fails type / timezone / allowed list / range (C08's acceptance predicate) makes
   async_call raise UpnpError or UpnpValueError before the requester is called. *)
Theorem C06_refusal :
  forall (float_str : fl -> pystr) (c : call) (args : list (argdef * decl)),
    accepted (in_arguments args) (c_kwargs c) = false ->
    exists e, async_call float_str c args = (Some e, []) /\ (e = EUpnpError \/ e = EUpnpValueError).
Proof. exact refusal. Qed.
Print Assumptions C06_refusal.

(* validate_arguments passes exactly the accepted assignments *)
Theorem C06_accepted_iff :
  forall (ins : list (argdef * decl)) (kw : list (pystr * pyval)),
    validate_arguments ins kw = Done tt <-> accepted ins kw = true.
Proof. exact accepted_iff. Qed.
Print Assumptions C06_accepted_iff.

(* escape (with the CR repair) and the XML reader: <a>escape(s)</a> is the element a with text s, for
   every string of XML-legal characters *)
Theorem C06_escape_roundtrip :
  forall a s : pystr, is_ncname a = true -> forallb xml_legal s = true ->
    xml_read (arg_xml a s) = Some (XE [] a [] s []).
Proof. exact escape_roundtrip. Qed.
Print Assumptions C06_escape_roundtrip.

(* the escaped text of any string contains no '<', '>', literal CR, and '&' only as the start of
   &amp; &lt; &gt; &#13; *)
Theorem C06_escape_safe : forall s : pystr, refs_only (escape s) = true.
Proof. exact escape_safe. Qed.
Print Assumptions C06_escape_safe.

(* The envelope, read: for every non-empty attribute-safe service type, XML action name and arguments
   with XML names and legal wire texts *)
Theorem C06_read_envelope :
  forall (st name : pystr) (l : list argw),
    st <> [] -> forallb attr_safe_char st = true -> is_ncname name = true -> forallb arg_ok l = true ->
    xml_read (envelope st name (soap_args l)) = Some (envelope_tree st name l).
Proof. exact read_envelope. Qed.
Print Assumptions C06_read_envelope.

(* ---------------------------------------------------------------- non-vacuity *)
(* the calls are defined in C06/ExampleCall.v: RenderingControl SetVolume(InstanceID: ui4, Channel: string in
   [Master, LF], DesiredVolume: ui2 in 0..100) plus an out-argument, called with InstanceID=True (a bool, D26),
   Channel=Master and the given DesiredVolume *)
Example C06_domain_inhabited_accepted :
  in_domain enc_fl dec_fl (fun c => c) (ex_call 100) = true /\
  with_args dec_fl (fun c => c) (ex_call 100) (fun ins => accepted ins (c_kwargs (ex_call 100))) = true /\
  match model_obs enc_fl dec_fl (fun c => c) (ex_call 100) with
  | OSent 1 _ _ _ _ (Some (XE _ _ _ _ [XE _ _ _ _ [XE _ _ _ _ [XE _ _ _ [49] []; XE _ _ _ _ []; XE _ _ _ [49;48;48] []]]])) => True
  | _ => False
  end.
Proof. vm_compute. repeat split; reflexivity. Qed.

Example C06_domain_inhabited_refused :
  in_domain enc_fl dec_fl (fun c => c) (ex_call 101) = true /\
  model_obs enc_fl dec_fl (fun c => c) (ex_call 101) = ORefused EUpnpValueError 0.
Proof. vm_compute. split; reflexivity. Qed.

(* a string with markup, CR, CR LF, "]]>" and an astral character goes out and comes back *)
Example C06_escape_example :
  let s := [97;60;13;38;13;10;93;93;62;128512;9;98] in
  forallb xml_legal s = true /\ xml_read (arg_xml [65] s) = Some (XE [] [65] [] s []).
Proof. vm_compute. split; reflexivity. Qed.
