(* C06 — the tree the XML reader builds from the token stream of a request envelope. *)
From Coq Require Import List Bool NArith Lia.
From AUC Require Import Prelude.PyStr C06.XmlRead C06.Model C06.Spec C06.Lex C06.Tags C06.ReadEnv.
Import ListNotations.
Local Open Scope N_scope.

Lemma str_eqb_refl s : str_eqb s s = true.
Proof. destruct (str_eqb_spec s s); [reflexivity|congruence]. Qed.

Definition kid (x : argw) : xtree := XE [] (fst x) [] (snd x) [].

(* one argument element under an open element whose scope has no default namespace *)
Lemma build_arg pre x r f stk root :
  env_get (f_env f) [] = None ->
  build (arg_toks pre x ++ r) (f :: stk) root =
  build r (add_kid (add_text f pre) (kid x) :: stk) root.
Proof.
  intros He. unfold arg_toks. cbn [app build].
  cbn [add_text f_env]. unfold open_frame. cbn [raw_dup decls resolve_elem resolve_attrs attr_dup].
  rewrite He. cbv iota beta.
  cbn [add_text f_text f_q f_ns f_local f_attrs f_env f_kids app].
  unfold qname_eqb. cbn [fst snd]. rewrite str_eqb_refl. cbv iota beta. cbn [andb].
  unfold close_frame. cbn [f_kids f_text f_ns f_local f_attrs List.rev]. reflexivity.
Qed.

Fixpoint fold_args (f : frame) (pre : pystr) (l : list argw) : frame :=
  match l with
  | [] => f
  | x :: r => fold_args (add_kid (add_text f pre) (kid x)) [10] r
  end.

Lemma build_args l : forall pre r f stk root,
  env_get (f_env f) [] = None ->
  build (toks_from pre l ++ r) (f :: stk) root = build r (fold_args f pre l :: stk) root.
Proof.
  induction l as [|x l IH]; intros pre r f stk root He; [reflexivity|].
  cbn [toks_from fold_args]. rewrite <- app_assoc. rewrite build_arg by assumption.
  apply IH. exact He.
Qed.

Lemma fold_args_fields l : forall f pre,
  forallb is_ws pre = true -> forallb is_ws (f_text f) = true ->
  let g := fold_args f pre l in
  f_q g = f_q f /\ f_ns g = f_ns f /\ f_local g = f_local f /\ f_attrs g = f_attrs f /\ f_env g = f_env f /\
  f_kids g = List.rev (map kid l) ++ f_kids f /\ forallb is_ws (f_text g) = true /\
  (l = [] -> f_text g = f_text f).
Proof.
  induction l as [|x l IH]; intros f pre Hp Hf; cbn zeta.
  - cbn [fold_args map List.rev app]. repeat split; auto.
  - cbn [fold_args].
    specialize (IH (add_kid (add_text f pre) (kid x)) [10] eq_refl).
    cbn [add_kid add_text f_text f_q f_ns f_local f_attrs f_env f_kids] in IH.
    rewrite forallb_app, Hp, Hf in IH. specialize (IH eq_refl). cbn zeta in IH.
    destruct IH as (A & B & C & D & E & F & G & _).
    repeat split; auto.
    + rewrite F. cbn [map List.rev]. now rewrite <- app_assoc.
    + discriminate.
Qed.

(* ------------------------------------------------------------------ the three fixed frames *)
Definition fr_env : frame :=
  {| f_q := (Some s_s, s_Envelope); f_ns := ns_soap_env; f_local := s_Envelope;
     f_attrs := [(ns_soap_env, s_encodingStyle, ns_soap_enc)]; f_env := [(s_s, ns_soap_env)];
     f_text := []; f_kids := [] |}.
Definition fr_body : frame :=
  {| f_q := (Some s_s, s_Body); f_ns := ns_soap_env; f_local := s_Body; f_attrs := [];
     f_env := [(s_s, ns_soap_env)]; f_text := []; f_kids := [] |}.
Definition fr_act (st name : pystr) : frame :=
  {| f_q := (Some s_u, name); f_ns := st; f_local := name; f_attrs := [];
     f_env := [(s_u, st); (s_s, ns_soap_env)]; f_text := []; f_kids := [] |}.

Lemma open_env : open_frame [] (Some s_s, s_Envelope)
    [((Some s_s, s_encodingStyle), ns_soap_enc); ((Some s_xmlns, s_s), ns_soap_env)] = Some fr_env.
Proof. vm_compute. reflexivity. Qed.
Lemma open_body : open_frame [(s_s, ns_soap_env)] (Some s_s, s_Body) [] = Some fr_body.
Proof. vm_compute. reflexivity. Qed.
Lemma open_act (st name : pystr) : st <> [] ->
  open_frame [(s_s, ns_soap_env)] (Some s_u, name) [((Some s_xmlns, s_u), st)] = Some (fr_act st name).
Proof. intros H. destruct st as [|c n]; [congruence|]. reflexivity. Qed.

Definition envelope_tree (st name : pystr) (l : list argw) : xtree :=
  XE ns_soap_env s_Envelope [(ns_soap_env, s_encodingStyle, ns_soap_enc)] []
     [XE ns_soap_env s_Body [] [] [XE st name [] [] (map kid l)]].

Lemma close_act (st name : pystr) l :
  close_frame (add_text (fold_args (fr_act st name) [] l) []) = XE st name [] [] (map kid l).
Proof.
  pose proof (fold_args_fields l (fr_act st name) [] eq_refl eq_refl) as H. cbn zeta in H.
  destruct H as (A & B & C & D & E & F & G & K).
  unfold close_frame. cbn [add_text f_kids f_text f_ns f_local f_attrs].
  rewrite B, C, D, F. cbn [add_text fr_act f_ns f_local f_attrs f_kids].
  rewrite app_nil_r, rev_involutive.
  destruct l as [|x l].
  - cbn [map]. rewrite (K eq_refl). reflexivity.
  - cbn [map]. rewrite forallb_app, G. reflexivity.
Qed.

Lemma build_doc (st name : pystr) l :
  st <> [] -> build (env_toks st name l) [] None = Some (envelope_tree st name l).
Proof.
  intros Hst. unfold env_toks, T_env, T_body, T_act, tail_toks.
  cbn [app build forallb]. rewrite open_env. cbv iota beta.
  cbn [build add_text fr_env f_env]. rewrite open_body. cbv iota beta.
  cbn [build add_text fr_body f_env]. rewrite (open_act st name Hst). cbv iota beta.
  rewrite build_args by reflexivity.
  cbn [app build].
  unfold qname_eqb. cbn [fst snd].
  assert (Q : f_q (add_text (fold_args (fr_act st name) [] l) []) = (Some s_u, name)).
  { pose proof (fold_args_fields l (fr_act st name) [] eq_refl eq_refl) as H. cbn zeta in H.
    destruct H as (A & _). cbn [add_text f_q]. exact A. }
  rewrite Q. cbn [fst snd]. rewrite !str_eqb_refl. cbv iota beta. cbn [andb].
  rewrite !close_act.
  reflexivity.
Qed.

(* ------------------------------------------------------------------ the document *)
Theorem read_envelope (st name : pystr) l :
  st <> [] -> forallb attr_safe_char st = true -> is_ncname name = true -> forallb arg_ok l = true ->
  xml_read (envelope st name (soap_args l)) = Some (envelope_tree st name l).
Proof.
  intros Hst Hs Hn Hl. unfold xml_read.
  replace (strip_decl xml_decls (envelope st name (soap_args l))) with (doc st name (soap_args l)).
  2:{ unfold envelope, doc. unfold x_decl. repeat rewrite <- app_assoc. reflexivity. }
  rewrite (lex_doc st name l Hn Hs Hl). now apply build_doc.
Qed.
