(* C06 — executable model of the SOAP request path of client.py:
     UpnpAction.async_call -> create_request -> _format_request_args -> validate_arguments
       -> UpnpStateVariable.validate_value (voluptuous schema: C08.Model.validate / mk_decl)
       -> coerce_upnp (C08.Model.apply_out over Gen/Types.v) -> xml.sax.saxutils.escape
   with the two repairs proposed in /verif/proposed/C06 (D25: CR is sent as &#13;  D26: a bool given
   for an integer argument is sent as the number it is).  Data types, validation and wire coercion
   are the C08 model (not re-modelled).  urljoin / urlparse(...).netloc are oracle answers carried
   by the call.  Definitions only. *)
From Coq Require Import List Bool NArith ZArith.
From AUC Require Import Prelude.PyStr C08.TypesDef C08.Model Gen.Types Gen.DateMatchers.
Import ListNotations.
Local Open Scope N_scope.

(* exceptions of this path: the library's family (UpnpError and its subclass UpnpValueError) or a
   foreign class escaping from a coercer *)
Inductive cexn := EUpnpError | EUpnpValueError | EForeign (e : exn).
Inductive outcome (A : Type) := Done (a : A) | Fail (e : cexn).
Arguments Done {A}. Arguments Fail {A}.

(* one <argument> of the action with its related state variable's declaration (SCPD text) *)
Record argdef := mkArg {
  a_name : pystr; a_in : bool; a_type : pystr;
  a_allowed : list pystr; a_has_range : bool; a_min : option pystr; a_max : option pystr }.

Record call := mkCall {
  c_strict : bool;                       (* UpnpFactory(non_strict = not c_strict) *)
  c_st : pystr;                          (* service type *)
  c_action : pystr;
  c_args : list argdef;
  c_url : pystr;                         (* oracle: urljoin(device_url, controlURL) *)
  c_netloc : pystr;                      (* oracle: urlparse(c_url).netloc *)
  c_kwargs : list (pystr * pyval) }.     (* the caller's keyword arguments *)

(* what the requester is handed *)
Record request := mkReq { q_method : pystr; q_url : pystr; q_headers : list (pystr * pystr); q_body : pystr }.

(* ------------------------------------------------------------------ literals *)
Definition s_POST : pystr := [80;79;83;84].
Definition h_soapaction : pystr := [83;79;65;80;65;99;116;105;111;110].
Definition h_host : pystr := [72;111;115;116].
Definition h_content_type : pystr := [67;111;110;116;101;110;116;45;84;121;112;101].
Definition v_content_type : pystr :=      (* text/xml; charset="utf-8" *)
  [116;101;120;116;47;120;109;108;59;32;99;104;97;114;115;101;116;61;34;117;116;102;45;56;34].
(* <?xml version="1.0"?> *)
Definition x_decl : pystr := [60;63;120;109;108;32;118;101;114;115;105;111;110;61;34;49;46;48;34;63;62].
(* <s:Envelope s:encodingStyle="http://schemas.xmlsoap.org/soap/encoding/" xmlns:s="http://schemas.xmlsoap.org/soap/envelope/"> *)
Definition x_env_open : pystr :=
  [60;115;58;69;110;118;101;108;111;112;101;32;115;58;101;110;99;111;100;105;110;103;83;116;121;108;101;61;34;
   104;116;116;112;58;47;47;115;99;104;101;109;97;115;46;120;109;108;115;111;97;112;46;111;114;103;47;115;111;97;112;47;101;110;99;111;100;105;110;103;47;34;
   32;120;109;108;110;115;58;115;61;34;
   104;116;116;112;58;47;47;115;99;104;101;109;97;115;46;120;109;108;115;111;97;112;46;111;114;103;47;115;111;97;112;47;101;110;118;101;108;111;112;101;47;34;62].
Definition x_body_open : pystr := [60;115;58;66;111;100;121;62].                 (* <s:Body> *)
Definition x_u_open : pystr := [60;117;58].                                      (* <u: *)
Definition x_xmlns_u : pystr := [32;120;109;108;110;115;58;117;61;34].            (* blank xmlns:u= dquote *)
Definition x_q_gt : pystr := [34;62].                                            (* dquote gt *)
Definition x_u_close : pystr := [60;47;117;58].                                  (* </u: *)
Definition x_tail : pystr :=                                                     (* </s:Body></s:Envelope> *)
  [60;47;115;58;66;111;100;121;62;60;47;115;58;69;110;118;101;108;111;112;101;62].

(* ------------------------------------------------------------------ escape *)
(* xml.sax.saxutils.escape(data, {"\r": "&#13;"}): & < > first, then the extra entity *)
Definition esc_char (c : N) : pystr :=
  if c =? 38 then [38;97;109;112;59]            (* &amp; *)
  else if c =? 60 then [38;108;116;59]          (* &lt; *)
  else if c =? 62 then [38;103;116;59]          (* &gt; *)
  else if c =? 13 then [38;35;49;51;59]         (* &#13;  (D25) *)
  else [c].
Definition escape (s : pystr) : pystr := flat_map esc_char s.

Fixpoint join (sep : pystr) (l : list pystr) : pystr :=
  match l with
  | [] => []
  | [x] => x
  | x :: r => x ++ sep ++ join sep r
  end.

Fixpoint kw_get (kw : list (pystr * pyval)) (k : pystr) : option pyval :=
  match kw with
  | [] => None
  | (k', v) :: r => if str_eqb k' k then Some v else kw_get r k
  end.

Section Soap.
  Variable float_str : fl -> pystr.
  Variable float_of_str : pystr -> option fl.
  Variable lower_ext : N -> N.

  (* UpnpFactory: the state variable behind an argument; a declaration that cannot be built
     (unknown data type, unconvertible allowed value / bound) aborts device creation *)
  Definition arg_decl (strict : bool) (a : argdef) : res decl :=
    match find_row (a_type a) type_table with
    | Some row => mk_decl float_of_str lower_ext row strict (a_allowed a) (a_has_range a) (a_min a) (a_max a)
    | None => Raise OtherError
    end.
  Fixpoint prepare (strict : bool) (args : list argdef) : res (list (argdef * decl)) :=
    match args with
    | [] => Ok []
    | a :: r =>
        match arg_decl strict a with
        | Ok d => match prepare strict r with Ok l => Ok ((a, d) :: l) | Raise e => Raise e end
        | Raise e => Raise e
        end
    end.

  Definition in_arguments (args : list (argdef * decl)) : list (argdef * decl) :=
    filter (fun ad => a_in (fst ad)) args.

  (* UpnpAction.validate_arguments: in declared order, first failure decides *)
  Fixpoint validate_arguments (ins : list (argdef * decl)) (kw : list (pystr * pyval)) : outcome unit :=
    match ins with
    | [] => Done tt
    | (a, d) :: r =>
        match kw_get kw (a_name a) with
        | None => Fail EUpnpError                                   (* Missing argument *)
        | Some v => if validate d v then validate_arguments r kw else Fail EUpnpValueError
        end
    end.

  (* UpnpStateVariable.coerce_upnp (D26 repaired: bool for an int type goes out as the int) *)
  Definition norm_bool (d : decl) (v : pyval) : pyval :=
    match r_type (d_row d), v with
    | TInt, VBool b => VInt (if b then 1 else 0)%Z
    | _, _ => v
    end.
  Definition coerce_upnp (d : decl) (v : pyval) : res pystr :=
    apply_out float_str (r_out (d_row d)) (norm_bool d v).

  Definition arg_xml (name w : pystr) : pystr :=
    [60] ++ name ++ [62] ++ escape w ++ [60;47] ++ name ++ [62].

  Fixpoint format_args (ins : list (argdef * decl)) (kw : list (pystr * pyval)) : outcome (list pystr) :=
    match ins with
    | [] => Done []
    | (a, d) :: r =>
        match kw_get kw (a_name a) with
        | None => Fail (EForeign OtherError)                        (* KeyError: unreachable after validation *)
        | Some v =>
            match coerce_upnp d v with
            | Ok w => match format_args r kw with
                      | Done l => Done (arg_xml (a_name a) w :: l)
                      | Fail e => Fail e
                      end
            | Raise e => Fail (EForeign e)
            end
        end
    end.

  (* UpnpAction._format_request_args *)
  Definition format_request_args (ins : list (argdef * decl)) (kw : list (pystr * pyval)) : outcome pystr :=
    match validate_arguments ins kw with
    | Fail e => Fail e
    | Done _ => match format_args ins kw with
                | Done l => Done (join [10] l)
                | Fail e => Fail e
                end
    end.

  Definition envelope (st name soap_args : pystr) : pystr :=
    x_decl ++ x_env_open ++ x_body_open ++
    x_u_open ++ name ++ x_xmlns_u ++ st ++ x_q_gt ++
    soap_args ++
    x_u_close ++ name ++ [62] ++ x_tail.

  Definition headers (st name netloc : pystr) : list (pystr * pystr) :=
    [ (h_soapaction, [34] ++ st ++ [35] ++ name ++ [34]);
      (h_host, netloc);
      (h_content_type, v_content_type) ].

  (* UpnpAction.create_request *)
  Definition create_request (c : call) (args : list (argdef * decl)) : outcome request :=
    match format_request_args (in_arguments args) (c_kwargs c) with
    | Fail e => Fail e
    | Done soap_args =>
        Done {| q_method := s_POST; q_url := c_url c;
                q_headers := headers (c_st c) (c_action c) (c_netloc c);
                q_body := envelope (c_st c) (c_action c) soap_args |}
    end.

  (* UpnpAction.async_call up to the first await: the request is created completely before the
     requester is called; an exception leaves the requester untouched *)
  Definition async_call (c : call) (args : list (argdef * decl)) : option cexn * list request :=
    match create_request c args with
    | Fail e => (Some e, [])
    | Done q => (None, [q])
    end.
End Soap.
