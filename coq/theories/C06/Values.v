(* C06 — the wire text of an accepted value decodes, through the declared type's in-coercer, to the
   supplied value: C08's round-trip theorem, instantiated pointwise for floats. *)
From Coq Require Import List Bool NArith ZArith Lia.
From AUC Require Import Prelude.PyStr C08.TypesDef C08.Model C08.Spec C08.Codec Gen.Types Gen.DateMatchers
  C06.XmlRead C06.Model C06.Spec C06.WireLegal.
Import ListNotations.
Local Open Scope N_scope.

(* ---- facts about the generated type table (re-checked whenever const.py changes) ---- *)
Definition row_float_ok (row : type_row) : bool :=
  match r_type row with
  | TFloat => match r_in row, r_out row with InFloat, OutStr => true | _, _ => false end
  | _ => match r_in row with InFloat => false | _ => true end
  end.
Lemma table_float_ok : forallb row_float_ok type_table = true.
Proof. vm_compute. reflexivity. Qed.

(* ---- an invertible float printer, to instantiate C08's theorem where no float is involved ---- *)
Definition enc_z (z : Z) : list N := [Z.abs_N z; if (z <? 0)%Z then 1 else 0].
Definition dec_z (a s : N) : Z := if s =? 1 then (- Z.of_N a)%Z else Z.of_N a.
Definition enc_fl (f : fl) : pystr :=
  match f with
  | FFin m e => 0 :: enc_z m ++ enc_z e
  | FInf b => [1; if b then 1 else 0]
  | FNan => [2]
  end.
Definition dec_fl (s : pystr) : option fl :=
  match s with
  | [0; a; sa; b; sb] => Some (FFin (dec_z a sa) (dec_z b sb))
  | [1; b] => Some (FInf (b =? 1))
  | [2] => Some FNan
  | _ => None
  end.
Lemma dec_enc_z z : dec_z (Z.abs_N z) (if (z <? 0)%Z then 1 else 0) = z.
Proof. destruct z; reflexivity. Qed.
Lemma dec_enc_fl f : dec_fl (enc_fl f) = Some f.
Proof.
  destruct f as [m e|b|]; cbn [enc_fl enc_z app dec_fl].
  - now rewrite !dec_enc_z.
  - destruct b; reflexivity.
  - reflexivity.
Qed.

Lemma fl_eqb_eq a b : fl_eqb a b = true -> a = b.
Proof.
  destruct a, b; cbn; try discriminate; intros H.
  - apply andb_true_iff in H as [H1 H2]. apply Z.eqb_eq in H1, H2. now subst.
  - apply Bool.eqb_prop in H. now subst.
  - reflexivity.
Qed.

Lemma val_eqb_refl v : val_eqb v v = true.
Proof.
  assert (Hz : forall o, otz_eqb o o = true) by (intros [z|]; cbn; [apply Z.eqb_refl|reflexivity]).
  assert (Hd : forall d, date_eqb d d = true) by (intros d; unfold date_eqb; now rewrite !N.eqb_refl).
  assert (Ht : forall t, time_eqb t t = true) by (intros t; unfold time_eqb; now rewrite !N.eqb_refl, Hz).
  destruct v; cbn.
  - apply Z.eqb_refl.
  - now destruct b.
  - destruct f; cbn; [now rewrite !Z.eqb_refl|now destruct neg|reflexivity].
  - destruct (str_eqb_spec s s); [reflexivity|congruence].
  - apply Hd.
  - apply Ht.
  - now rewrite Hd, Ht.
  - reflexivity.
Qed.

Section Values.
  Variable float_str : fl -> pystr.
  Variable float_of_str : pystr -> option fl.
  Variable lower_ext : N -> N.

  Lemma apply_out_indep fs' o v : (forall f, v <> VFloat f) ->
    apply_out float_str o v = apply_out fs' o v.
  Proof. intros H. destruct o, v; try reflexivity. exfalso. now apply (H f). Qed.

  Lemma apply_in_indep fp' i w : i <> InFloat ->
    apply_in float_of_str lower_ext i w = apply_in fp' lower_ext i w.
  Proof. intros H. destruct i; try reflexivity. congruence. Qed.

  Lemma same_value_norm d v : same_value v (norm_bool d v) = true.
  Proof.
    unfold norm_bool, same_value. destruct (r_type (d_row d)), v; try apply orb_true_iff; try (left; apply val_eqb_refl).
    right. destruct b; reflexivity.
  Qed.

  Lemma wire_spec_some ty v : value_in_domain ty v = true -> (forall f, v <> VFloat f) ->
    exists x, wire_spec v = Some x.
  Proof.
    intros Hd Hf. destruct v as [z|b|g|s|dd|tt|dd tt|]; try (eexists; reflexivity).
    - destruct b; eexists; reflexivity.
    - exfalso. now apply (Hf g).
    - destruct ty; discriminate Hd.
  Qed.

  (* an accepted value of the domain has a wire text; it consists of legal characters; the declared
     type's in-coercer maps it back to the supplied value *)
  Theorem wire_ok row d v :
    In row type_table -> d_row d = row -> value_ok float_str float_of_str d v = true ->
    exists w, coerce_upnp float_str d v = Ok w /\ forallb xml_legal w = true /\
              exists v', apply_in float_of_str lower_ext (r_in row) w = Ok v' /\ same_value v v' = true.
  Proof.
    intros Hin Hrow Hok.
    unfold value_ok in Hok. cbv zeta in Hok. apply andb_true_iff in Hok as [Hdom Hv].
    unfold coerce_upnp. rewrite Hrow in *.
    pose proof table_float_ok as T. rewrite forallb_forall in T. specialize (T row Hin).
    unfold row_float_ok in T.
    pose proof (same_value_norm d v) as Hsame.
    remember (norm_bool d v) as v' eqn:Ev.
    assert (Hcases : (exists f, v' = VFloat f) \/ (forall f, v' <> VFloat f)).
    { destruct v'; try (right; intros; discriminate). left. now exists f. }
    destruct Hcases as [[f ->]|Hnf].
    - (* a float: the premises hold at this very float *)
      apply andb_true_iff in Hv as [Hfl Hleg].
      destruct (r_type row) eqn:Et; try discriminate Hdom.
      destruct (r_in row) eqn:Ei; try discriminate T. destruct (r_out row) eqn:Eo; try discriminate T.
      exists (float_str f). cbn [apply_out py_str apply_in]. repeat split; [exact Hleg|].
      exists (VFloat f). split; [|exact Hsame].
      destruct (float_of_str (float_str f)) as [g|]; [|discriminate Hfl].
      apply fl_eqb_eq in Hfl. now subst g.
    - (* anything else: C08's round trip does not involve the float oracles *)
      destruct (roundtrip enc_fl dec_fl lower_ext (fun f _ => dec_enc_fl f) row v' Hin Hdom) as (w0 & Ho & Hi & Hspec).
      exists w0. rewrite (apply_out_indep enc_fl _ _ Hnf). split; [exact Ho|]. split.
      + destruct (wire_spec_some _ _ Hdom Hnf) as (x & Hx). rewrite (Hspec x Hx).
        assert (Hs : (exists s, v' = VStr s) \/ (forall s, v' <> VStr s)).
        { destruct v'; try (right; intros; discriminate). left. now exists s. }
        destruct Hs as [[s ->]|Hns].
        * cbn [wire_spec] in Hx. injection Hx as <-. exact Hv.
        * exact (wire_spec_legal _ _ _ Hdom Hnf Hns Hx).
      + exists v'. split; [|exact Hsame].
        rewrite (apply_in_indep dec_fl); [exact Hi|].
        intros Ei. rewrite Ei in T. destruct (r_type row) eqn:Et; try discriminate T.
        destruct v'; try discriminate Hdom. now apply (Hnf f).
  Qed.
End Values.
