(* C06 — the model meets the specification: request line, headers, envelope, values, refusal. *)
From Coq Require Import List Bool NArith ZArith Lia.
From AUC Require Import Prelude.PyStr C08.TypesDef C08.Model C08.Spec C08.Codec Gen.Types Gen.DateMatchers
  C06.XmlRead C06.Model C06.Spec C06.Lex C06.Tags C06.ReadEnv C06.BuildEnv C06.Values.
Import ListNotations.
Local Open Scope N_scope.

Lemma find_row_in name t row : find_row name t = Some row -> In row t.
Proof.
  induction t as [|r t IH]; cbn; [discriminate|].
  destruct (str_eqb (r_name r) name); intros H; [inversion H; now left|right; now apply IH].
Qed.

Section Shape.
  Variable float_str : fl -> pystr.
  Variable float_of_str : pystr -> option fl.
  Variable lower_ext : N -> N.

  Lemma mk_decl_row row strict allowed hr mn mx d :
    mk_decl float_of_str lower_ext row strict allowed hr mn mx = Ok d -> d_row d = row.
  Proof.
    unfold mk_decl. destruct strict; cbn [negb]; [|intros H; inversion H; reflexivity].
    destruct (coerce_all float_of_str lower_ext (r_in row) allowed); [|discriminate].
    destruct hr; [|intros H; inversion H; reflexivity].
    destruct mn as [[|c r]|]; destruct mx as [[|c' r']|];
      repeat match goal with
             | |- context [apply_in ?a ?b ?c ?d] => destruct (apply_in a b c d)
             end; intros H; inversion H; reflexivity.
  Qed.

  Lemma prepare_rows strict args l :
    prepare float_of_str lower_ext strict args = Ok l ->
    Forall (fun ad : argdef * decl => In (d_row (snd ad)) type_table) l.
  Proof.
    revert l. induction args as [|a args IH]; intros l H; cbn [prepare] in H.
    - inversion H. constructor.
    - unfold arg_decl in H. destruct (find_row (a_type a) type_table) as [row|] eqn:F; [|discriminate].
      destruct (mk_decl float_of_str lower_ext row strict (a_allowed a) (a_has_range a) (a_min a) (a_max a)) as [d|] eqn:M;
        [|discriminate].
      destruct (prepare float_of_str lower_ext strict args) as [l'|]; [|discriminate].
      inversion H; subst l. constructor; [|now apply IH].
      cbn [snd]. rewrite (mk_decl_row _ _ _ _ _ _ _ M). now apply find_row_in in F.
  Qed.

  Lemma forall_filter {A} (P : A -> Prop) f (l : list A) : Forall P l -> Forall P (filter f l).
  Proof. induction 1; cbn; [constructor|]. destruct (f x); [constructor|]; assumption. Qed.

  (* ---------------------------------------------------------------- validation *)
  Lemma accepted_validate ins kw : accepted ins kw = true -> validate_arguments ins kw = Done tt.
  Proof.
    induction ins as [|[a d] ins IH]; cbn [accepted forallb validate_arguments fst snd]; [reflexivity|].
    intros H. apply andb_true_iff in H as [H1 H2].
    destruct (kw_get kw (a_name a)) as [v|]; [|discriminate]. rewrite accepts_iff, H1. now apply IH.
  Qed.

  Lemma rejected_validate ins kw :
    accepted ins kw = false ->
    validate_arguments ins kw = Fail EUpnpError \/ validate_arguments ins kw = Fail EUpnpValueError.
  Proof.
    induction ins as [|[a d] ins IH]; cbn [accepted forallb validate_arguments fst snd]; [discriminate|].
    intros H. destruct (kw_get kw (a_name a)) as [v|]; [|now left].
    rewrite accepts_iff. destruct (spec_accepts d v); [|now right]. apply IH. exact H.
  Qed.

  (* ---------------------------------------------------------------- formatting *)
  Fixpoint wires (ins : list (argdef * decl)) (kw : list (pystr * pyval)) : list argw :=
    match ins with
    | [] => []
    | (a, d) :: r =>
        match kw_get kw (a_name a) with
        | Some v => match coerce_upnp float_str d v with
                    | Ok w => (a_name a, w) :: wires r kw
                    | Raise _ => wires r kw
                    end
        | None => wires r kw
        end
    end.

  Lemma str_eqb_refl' s : str_eqb s s = true.
  Proof. destruct (str_eqb_spec s s); [reflexivity|congruence]. Qed.

  Definition rows_ok (ins : list (argdef * decl)) : Prop :=
    Forall (fun ad : argdef * decl => In (d_row (snd ad)) type_table) ins.
  Definition names_ok (ins : list (argdef * decl)) : bool :=
    forallb (fun ad : argdef * decl => is_ncname (a_name (fst ad))) ins.

  Lemma ins_facts ins kw :
    rows_ok ins -> values_ok float_str float_of_str ins kw = true -> names_ok ins = true ->
    format_args float_str ins kw = Done (map axml (wires ins kw)) /\
    forallb arg_ok (wires ins kw) = true /\
    kids_match ins (map kid (wires ins kw)) = true /\
    texts_decode float_of_str lower_ext ins kw (map kid (wires ins kw)) = true.
  Proof.
    induction ins as [|[a d] ins IH]; intros Hrows H Hn;
      cbn [values_ok names_ok forallb format_args wires kids_match texts_decode map fst snd] in *;
      [repeat split; reflexivity|].
    inversion Hrows as [|? ? Hr Hrs]; subst. cbn [snd] in Hr.
    apply andb_true_iff in H as [H1 H2]. apply andb_true_iff in Hn as [Hn1 Hn2].
    destruct (kw_get kw (a_name a)) as [v|] eqn:K; [|discriminate].
    destruct (wire_ok float_str float_of_str lower_ext (d_row d) d v Hr eq_refl H1) as (w & W & L & v' & Hi & Hs).
    rewrite W. destruct (IH Hrs H2 Hn2) as (F1 & F2 & F3 & F4). rewrite F1.
    cbn [map kid kids_match texts_decode forallb fst snd]. unfold arg_ok at 1. cbn [fst snd].
    rewrite Hn1, L, F2, F3, F4, Hi, Hs, !str_eqb_refl'. repeat split; reflexivity.
  Qed.

  Lemma wires_spec ins kw :
    rows_ok ins -> values_ok float_str float_of_str ins kw = true ->
    Forall2 (fun (ad : argdef * decl) (x : argw) =>
               fst x = a_name (fst ad) /\
               exists v v', kw_get kw (a_name (fst ad)) = Some v /\
                            coerce_upnp float_str (snd ad) v = Ok (snd x) /\
                            apply_in float_of_str lower_ext (r_in (d_row (snd ad))) (snd x) = Ok v' /\
                            same_value v v' = true)
            ins (wires ins kw).
  Proof.
    induction ins as [|[a d] ins IH]; intros Hrows H; cbn [values_ok forallb wires fst snd] in *; [constructor|].
    inversion Hrows as [|? ? Hr Hrs]; subst. cbn [snd] in Hr.
    apply andb_true_iff in H as [H1 H2].
    destruct (kw_get kw (a_name a)) as [v|] eqn:K; [|discriminate].
    destruct (wire_ok float_str float_of_str lower_ext (d_row d) d v Hr eq_refl H1) as (w & W & L & v' & Hi & Hs).
    rewrite W. constructor; [|now apply IH].
    cbn [fst snd]. split; [reflexivity|]. exists v, v'. rewrite K. repeat split; assumption.
  Qed.

  (* ---------------------------------------------------------------- headers *)
  Lemma headers_ok (st name netloc : pystr) :
    hdr_get (headers st name netloc) h_soapaction = Some ([34] ++ st ++ [35] ++ name ++ [34]) /\
    hdr_get (headers st name netloc) h_host = Some netloc /\
    hdr_get (headers st name netloc) h_content_type = Some v_content_type.
  Proof. repeat split; reflexivity. Qed.

  Lemma ct_ok : str_eqb (canon_ct v_content_type) ct_canon = true.
  Proof. vm_compute. reflexivity. Qed.

  (* ---------------------------------------------------------------- the theorem *)
  Theorem model_meets_spec c :
    in_domain float_str float_of_str lower_ext c = true ->
    spec_all float_of_str lower_ext c (model_obs float_str float_of_str lower_ext c) = true.
  Proof.
    unfold in_domain. intros H. apply andb_true_iff in H as [Hstrict H].
    destruct (prepare float_of_str lower_ext (c_strict c) (c_args c)) as [args|] eqn:P; [|discriminate].
    cbv zeta in H.
    apply andb_true_iff in H as [H Hvals0]. apply andb_true_iff in H as [H Hnet].
    apply andb_true_iff in H as [H Hsafe]. apply andb_true_iff in H as [H Hne].
    apply andb_true_iff in H as [H Hkw]. apply andb_true_iff in H as [H Hnodup].
    apply andb_true_iff in H as [Hname Hnames].
    pose proof (forall_filter _ (fun ad => a_in (fst ad)) _ (prepare_rows _ _ _ P)) as Hrows.
    fold (in_arguments args) in Hrows.
    unfold spec_all, c_request, c_headers, c_envelope, c_values, c_refusal, with_args, model_obs. rewrite P.
    unfold async_call, create_request, format_request_args.
    destruct (accepted (in_arguments args) (c_kwargs c)) eqn:A.
    - pose proof Hvals0 as Hvals.
      destruct (ins_facts _ _ Hrows Hvals Hnames) as (F1 & F2 & F3 & F4).
      rewrite (accepted_validate _ _ A). rewrite F1.
      fold (soap_args (wires (in_arguments args) (c_kwargs c))).
      cbn [length N.of_nat q_method q_url q_headers q_body].
      assert (Hst : c_st c <> []) by (destruct (c_st c); [discriminate Hne|discriminate]).
      rewrite (read_envelope (c_st c) (c_action c) _ Hst Hsafe Hname F2).
      destruct (headers_ok (c_st c) (c_action c) (c_netloc c)) as (E1 & E2 & E3). rewrite E1, E2, E3.
      unfold opt_str_eqb. rewrite Hnet, ct_ok, !str_eqb_refl'.
      unfold action_kids, envelope_tree. rewrite !str_eqb_refl'. cbn [andb].
      rewrite F3, F4.
      reflexivity.
    - destruct (rejected_validate _ _ A) as [E|E]; rewrite E; reflexivity.
  Qed.

  (* ---------------------------------------------------------------- the same, as propositions *)
  Lemma str_eqb_true a b : str_eqb a b = true -> a = b.
  Proof. destruct (str_eqb_spec a b); [trivial|discriminate]. Qed.

  Theorem accepted_iff ins kw : validate_arguments ins kw = Done tt <-> accepted ins kw = true.
  Proof.
    split; [|apply accepted_validate].
    destruct (accepted ins kw) eqn:A; [reflexivity|].
    destruct (rejected_validate _ _ A) as [E|E]; rewrite E; discriminate.
  Qed.

  Theorem request_shape c args :
    in_domain float_str float_of_str lower_ext c = true ->
    prepare float_of_str lower_ext (c_strict c) (c_args c) = Ok args ->
    accepted (in_arguments args) (c_kwargs c) = true ->
    exists ws : list argw,
      let body := envelope (c_st c) (c_action c) (join [10] (map (fun x => arg_xml (fst x) (snd x)) ws)) in
      async_call float_str c args =
        (None, [mkReq s_POST (c_url c) (headers (c_st c) (c_action c) (authority (c_url c))) body]) /\
      xml_read body = Some (envelope_tree (c_st c) (c_action c) ws) /\
      Forall2 (fun (ad : argdef * decl) (x : argw) =>
                 fst x = a_name (fst ad) /\
                 exists v v', kw_get (c_kwargs c) (a_name (fst ad)) = Some v /\
                              coerce_upnp float_str (snd ad) v = Ok (snd x) /\
                              apply_in float_of_str lower_ext (r_in (d_row (snd ad))) (snd x) = Ok v' /\
                              same_value v v' = true)
              (in_arguments args) ws.
  Proof.
    unfold in_domain. intros H P A. apply andb_true_iff in H as [Hstrict H]. rewrite P in H. cbv zeta in H.
    apply andb_true_iff in H as [H Hvals]. apply andb_true_iff in H as [H Hnet].
    apply andb_true_iff in H as [H Hsafe]. apply andb_true_iff in H as [H Hne].
    apply andb_true_iff in H as [H Hkw]. apply andb_true_iff in H as [H Hnodup].
    apply andb_true_iff in H as [Hname Hnames]. rewrite A in Hvals.
    pose proof (forall_filter _ (fun ad => a_in (fst ad)) _ (prepare_rows _ _ _ P)) as Hrows.
    fold (in_arguments args) in Hrows.
    destruct (ins_facts _ _ Hrows Hvals Hnames) as (F1 & F2 & F3 & F4).
    exists (wires (in_arguments args) (c_kwargs c)). cbv zeta.
    assert (Hst : c_st c <> []) by (destruct (c_st c); [discriminate Hne|discriminate]).
    split; [|split].
    - unfold async_call, create_request, format_request_args.
      rewrite (accepted_validate _ _ A), F1. rewrite (str_eqb_true _ _ Hnet). reflexivity.
    - exact (read_envelope (c_st c) (c_action c) _ Hst Hsafe Hname F2).
    - now apply wires_spec.
  Qed.

  (* no hypothesis at all on names, values or the service: whatever is not accepted is refused with
     the library's error, and the requester is not called *)
  Theorem refusal c args :
    accepted (in_arguments args) (c_kwargs c) = false ->
    exists e, async_call float_str c args = (Some e, []) /\ (e = EUpnpError \/ e = EUpnpValueError).
  Proof.
    intros A. unfold async_call, create_request, format_request_args.
    destruct (rejected_validate _ _ A) as [E|E]; rewrite E; eexists; split; eauto.
  Qed.
End Shape.
