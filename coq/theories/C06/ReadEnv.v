(* C06 — the XML reader applied to a request envelope: the token stream and the tree. *)
From Coq Require Import List Bool NArith Lia.
From AUC Require Import Prelude.PyStr C06.XmlRead C06.Model C06.Spec C06.Lex C06.Tags.
Import ListNotations.
Local Open Scope N_scope.

Lemma app_nil_l' (l : pystr) : [] ++ l = l. Proof. reflexivity. Qed.

Definition oapp (l : list token) (o : option (list token)) : option (list token) :=
  match o with Some l' => Some (l ++ l') | None => None end.

Lemma ocons_oapp t l o : ocons t (oapp l o) = oapp (t :: l) o.
Proof. destruct o; reflexivity. Qed.
Lemma oapp_oapp a b o : oapp a (oapp b o) = oapp (a ++ b) o.
Proof. destruct o; cbn; [now rewrite app_assoc|reflexivity]. Qed.
Lemma ocons_as_oapp t o : ocons t o = oapp [t] o.
Proof. destruct o; reflexivity. Qed.

Definition argw := (pystr * pystr)%type.                    (* argument name, wire text *)
Definition axml (x : argw) : pystr := arg_xml (fst x) (snd x).
Definition arg_ok (x : argw) : bool := is_ncname (fst x) && forallb xml_legal (snd x).
Definition arg_toks (pre : pystr) (x : argw) : list token :=
  [TText pre; TStart (None, fst x) [] false; TText (snd x); TEnd (None, fst x)].
Fixpoint toks_from (pre : pystr) (l : list argw) : list token :=
  match l with
  | [] => []
  | x :: r => arg_toks pre x ++ toks_from [10] r
  end.

Lemma axml_shape x rest :
  axml x ++ rest = 60 :: fst x ++ 62 :: escape (snd x) ++ 60 :: (47 :: fst x) ++ 62 :: rest.
Proof.
  unfold axml, arg_xml. repeat rewrite <- app_assoc. reflexivity.
Qed.

Lemma lex_arg x nbr pre rest :
  arg_ok x = true ->
  lexa (MText nbr None pre) (axml x ++ rest) =
  oapp (arg_toks (List.rev pre) x) (lexa (MText 0 None []) rest).
Proof.
  intros H. apply andb_true_iff in H as [Hn Hl].
  rewrite axml_shape. cbn [lexa]. change (60 =? 60) with true. cbv iota.
  rewrite (lex_tag (fst x) [] None) by (apply qrun_name, ncname_chars, Hn).
  cbn [List.rev]; rewrite ?app_nil_l. rewrite (parse_tag_start _ Hn).
  rewrite (lex_escaped (snd x) 0%nat [] _ Hl). cbn [List.rev]; rewrite ?app_nil_l.
  rewrite (lex_tag (47 :: fst x) [] None).
  2:{ cbn [qrun]. change (47 =? 62) with false. change ((47 =? 34) || (47 =? 39)) with false. cbv iota.
      apply qrun_name, ncname_chars, Hn. }
  cbn [List.rev]; rewrite ?app_nil_l. rewrite (parse_tag_end _ Hn).
  destruct (lexa (MText 0 None []) rest); reflexivity.
Qed.

Lemma lex_tail r : forall rest,
  forallb arg_ok r = true ->
  lexa (MText 0 None []) (flat_map (fun x => 10 :: axml x) r ++ 60 :: rest) =
  oapp (toks_from [10] r ++ [TText []]) (lexa (MTag [] None) rest).
Proof.
  induction r as [|x r IH]; intros rest H.
  - cbn [flat_map app toks_from]. cbn [lexa]. change (60 =? 60) with true. cbv iota.
    destruct (lexa (MTag [] None) rest); reflexivity.
  - cbn [forallb] in H. apply andb_true_iff in H as [Hx Hr].
    cbn [flat_map]. rewrite <- app_assoc. cbn [app].
    rewrite lex_text_char by (try reflexivity; discriminate).
    change (if 10 =? 93 then 1%nat else 0%nat) with 0%nat.
    rewrite (lex_arg x 0%nat [10] _ Hx). rewrite (IH rest Hr).
    rewrite oapp_oapp. cbn [toks_from List.rev app]. now rewrite <- app_assoc.
Qed.

Lemma join_flat x (r : list pystr) : join [10] (x :: r) = x ++ flat_map (fun y => 10 :: y) r.
Proof.
  revert x. induction r as [|y r IH]; intros x.
  - cbn. now rewrite app_nil_r.
  - change (join [10] (x :: y :: r)) with (x ++ [10] ++ join [10] (y :: r)). rewrite IH. reflexivity.
Qed.

Lemma flat_map_map {A B C} (f : A -> B) (g : B -> list C) l : flat_map g (map f l) = flat_map (fun x => g (f x)) l.
Proof. induction l; cbn; [reflexivity|now rewrite IHl]. Qed.

Definition soap_args (l : list argw) : pystr := join [10] (map axml l).

Lemma lex_args l rest :
  forallb arg_ok l = true ->
  lexa (MText 0 None []) (soap_args l ++ 60 :: rest) =
  oapp (toks_from [] l ++ [TText []]) (lexa (MTag [] None) rest).
Proof.
  intros H. unfold soap_args. destruct l as [|x r].
  - cbn [map join app toks_from]. cbn [lexa]. change (60 =? 60) with true. cbv iota.
    destruct (lexa (MTag [] None) rest); reflexivity.
  - cbn [forallb] in H. apply andb_true_iff in H as [Hx Hr].
    cbn [map]. rewrite join_flat, flat_map_map. rewrite <- app_assoc.
    rewrite (lex_arg x 0%nat [] _ Hx). rewrite (lex_tail r rest Hr).
    rewrite oapp_oapp. cbn [toks_from List.rev app]. now rewrite <- app_assoc.
Qed.

(* ------------------------------------------------------------------ the fixed tags *)
Definition chunk_env : pystr :=
  [115;58;69;110;118;101;108;111;112;101;32;115;58;101;110;99;111;100;105;110;103;83;116;121;108;101;61;34;
   104;116;116;112;58;47;47;115;99;104;101;109;97;115;46;120;109;108;115;111;97;112;46;111;114;103;47;115;111;97;112;47;101;110;99;111;100;105;110;103;47;34;
   32;120;109;108;110;115;58;115;61;34;
   104;116;116;112;58;47;47;115;99;104;101;109;97;115;46;120;109;108;115;111;97;112;46;111;114;103;47;115;111;97;112;47;101;110;118;101;108;111;112;101;47;34].
Definition chunk_body : pystr := [115;58;66;111;100;121].

Definition s_s : pystr := [115].
Definition s_u : pystr := [117].
Definition s_encodingStyle : pystr := [101;110;99;111;100;105;110;103;83;116;121;108;101].
Definition ns_soap_enc : pystr :=
  [104;116;116;112;58;47;47;115;99;104;101;109;97;115;46;120;109;108;115;111;97;112;46;111;114;103;47;115;111;97;112;47;101;110;99;111;100;105;110;103;47].

Definition T_env : token :=
  TStart (Some s_s, s_Envelope) [((Some s_s, s_encodingStyle), ns_soap_enc); ((Some s_xmlns, s_s), ns_soap_env)] false.
Definition T_body : token := TStart (Some s_s, s_Body) [] false.
Definition T_act (name st : pystr) : token := TStart (Some s_u, name) [((Some s_xmlns, s_u), st)] false.

Lemma parse_chunk_env : parse_tag chunk_env = Some T_env.
Proof. vm_compute. reflexivity. Qed.
Lemma parse_chunk_body : parse_tag chunk_body = Some T_body.
Proof. vm_compute. reflexivity. Qed.
Lemma qrun_chunk_env : qrun None chunk_env = Some None.
Proof. vm_compute. reflexivity. Qed.
Lemma qrun_chunk_body : qrun None chunk_body = Some None.
Proof. vm_compute. reflexivity. Qed.

Definition tail_toks : list token :=
  [TText []; TEnd (Some s_s, s_Body); TText []; TEnd (Some s_s, s_Envelope); TText []].
Lemma lex_tail_lit : lexa (MText 0 None []) x_tail = Some tail_toks.
Proof. vm_compute. reflexivity. Qed.

Definition doc (st name : pystr) (args : pystr) : pystr :=
  x_env_open ++ x_body_open ++ x_u_open ++ name ++ x_xmlns_u ++ st ++ x_q_gt ++ args ++
  x_u_close ++ name ++ [62] ++ x_tail.

Lemma doc_shape st name args :
  doc st name args =
  60 :: chunk_env ++ 62 :: 60 :: chunk_body ++ 62 :: 60 :: action_chunk name st ++ 62 ::
  args ++ 60 :: (47 :: 117 :: 58 :: name) ++ 62 :: x_tail.
Proof.
  unfold doc, action_chunk, x_env_open, x_body_open, x_u_open, x_xmlns_u, x_q_gt, x_u_close, chunk_env, chunk_body.
  repeat rewrite <- app_assoc. reflexivity.
Qed.

Definition env_toks (st name : pystr) (l : list argw) : list token :=
  [TText []; T_env; TText []; T_body; TText []; T_act name st] ++
  toks_from [] l ++ [TText []; TEnd (Some s_u, name)] ++ tail_toks.

Lemma lex_doc st name l :
  is_ncname name = true -> forallb attr_safe_char st = true -> forallb arg_ok l = true ->
  lexa (MText 0 None []) (doc st name (soap_args l)) = Some (env_toks st name l).
Proof.
  intros Hn Hs Hl. rewrite doc_shape.
  cbn [lexa]. change (60 =? 60) with true. cbv iota. cbn [List.rev].
  rewrite (lex_tag chunk_env [] None _ qrun_chunk_env). cbn [List.rev]; rewrite ?app_nil_l. rewrite parse_chunk_env.
  cbn [lexa]. change (60 =? 60) with true. cbv iota. cbn [List.rev].
  rewrite (lex_tag chunk_body [] None _ qrun_chunk_body). cbn [List.rev]; rewrite ?app_nil_l. rewrite parse_chunk_body.
  cbn [lexa]. change (60 =? 60) with true. cbv iota. cbn [List.rev].
  rewrite (lex_tag (action_chunk name st) [] None _ (qrun_action_chunk name st Hn Hs)).
  cbn [List.rev]; rewrite ?app_nil_l. rewrite (parse_tag_action name st Hn Hs).
  rewrite (lex_args l _ Hl).
  rewrite (lex_tag (47 :: 117 :: 58 :: name) [] None).
  2:{ cbn [qrun]. change (47 =? 62) with false. change ((47 =? 34) || (47 =? 39)) with false.
      change (117 =? 62) with false. change ((117 =? 34) || (117 =? 39)) with false.
      change (58 =? 62) with false. change ((58 =? 34) || (58 =? 39)) with false. cbv iota.
      apply qrun_name, ncname_chars, Hn. }
  cbn [List.rev]; rewrite ?app_nil_l. rewrite (parse_tag_end_u name Hn). rewrite lex_tail_lit.
  unfold env_toks, T_act, s_u. cbn [ocons oapp app]. repeat rewrite <- app_assoc. reflexivity.
Qed.
