(* C06 — escape: safety of the output and round trip through the XML reader for one element. *)
From Coq Require Import List Bool NArith Lia.
From AUC Require Import Prelude.PyStr C06.XmlRead C06.Model C06.Spec C06.Lex C06.Tags C06.ReadEnv C06.BuildEnv.
Import ListNotations.
Local Open Scope N_scope.

(* the escaped text contains no '<', no '>', no literal carriage return, and '&' only as the start
   of one of the four references it emits *)
Definition plain_char (c : N) : bool := negb ((c =? 60) || (c =? 62) || (c =? 13) || (c =? 38)).
Fixpoint refs_only (s : pystr) : bool :=
  match s with
  | [] => true
  | 38 :: 97 :: 109 :: 112 :: 59 :: r => refs_only r
  | 38 :: 108 :: 116 :: 59 :: r => refs_only r
  | 38 :: 103 :: 116 :: 59 :: r => refs_only r
  | 38 :: 35 :: 49 :: 51 :: 59 :: r => refs_only r
  | c :: r => plain_char c && refs_only r
  end.

Theorem escape_safe s : refs_only (escape s) = true.
Proof.
  induction s as [|c s IH]; [reflexivity|].
  change (escape (c :: s)) with (esc_char c ++ escape s). unfold esc_char.
  destruct (N.eqb_spec c 38) as [->|N1]; [exact IH|].
  destruct (N.eqb_spec c 60) as [->|N2]; [exact IH|].
  destruct (N.eqb_spec c 62) as [->|N3]; [exact IH|].
  destruct (N.eqb_spec c 13) as [->|N4]; [exact IH|].
  cbn [app].
  assert (P : plain_char c = true).
  { unfold plain_char. apply N.eqb_neq in N1, N2, N3, N4. now rewrite N1, N2, N3, N4. }
  assert (E : refs_only (c :: escape s) = plain_char c && refs_only (escape s)).
  { apply N.eqb_neq in N1.
    destruct c as [|p]; [reflexivity|].
    destruct p as [[[[[[p|p|]|[p|p|]|]|[[p|p|]|[p|p|]|]|]|[[[p|p|]|[p|p|]|]|[[p|p|]|[p|p|]|]|]|]
                  |[[[[p|p|]|[p|p|]|]|[[p|p|]|[p|p|]|]|]|[[[p|p|]|[p|p|]|]|[[p|p|]|[p|p|]|]|]|]|]
                  |[[[[[p|p|]|[p|p|]|]|[[p|p|]|[p|p|]|]|]|[[[p|p|]|[p|p|]|]|[[p|p|]|[p|p|]|]|]|]
                  |[[[[p|p|]|[p|p|]|]|[[p|p|]|[p|p|]|]|]|[[[p|p|]|[p|p|]|]|[[p|p|]|[p|p|]|]|]|]|]|];
      try reflexivity; discriminate N1. }
  rewrite E, P, IH. reflexivity.
Qed.

Lemma name_start_not_qm c : name_start c = true -> (63 =? c) = false.
Proof.
  unfold name_start, is_alpha. intros H. destruct (N.eqb_spec 63 c) as [<-|]; [discriminate H|reflexivity].
Qed.

(* <a>escape(s)</a> read by the XML reader is the element a with text s, for every string of
   XML-legal characters: markup characters, CR, LF, TAB, astral characters included *)
Theorem escape_roundtrip (a s : pystr) :
  is_ncname a = true -> forallb xml_legal s = true ->
  xml_read (arg_xml a s) = Some (XE [] a [] s []).
Proof.
  intros Ha Hs. unfold xml_read.
  destruct (ncname_head a Ha) as (c & r & E & Hc).
  assert (D : strip_decl xml_decls (arg_xml a s) = arg_xml a s).
  { unfold arg_xml. rewrite E. cbn [app]. unfold xml_decls, strip_decl, drop_prefix.
    change (60 =? 60) with true. cbv iota. rewrite (name_start_not_qm c Hc). reflexivity. }
  rewrite D.
  pose proof (lex_arg (a, s) 0%nat [] []) as L. unfold axml in L. cbn [fst snd] in L.
  rewrite app_nil_r in L. rewrite L by (unfold arg_ok; cbn [fst snd]; now rewrite Ha, Hs).
  cbn [lexa oapp arg_toks List.rev app fst snd].
  cbn [build forallb]. unfold open_frame. cbn [raw_dup decls resolve_elem resolve_attrs attr_dup env_get].
  cbn [build add_text f_text f_q app]. unfold qname_eqb. cbn [fst snd f_q]. rewrite str_eqb_refl.
  cbn [andb build forallb]. reflexivity.
Qed.
