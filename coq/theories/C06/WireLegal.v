(* C06 — the normative wire text of a non-float, non-string value of C08's round-trip domain consists
   of XML-legal characters (digits, '-', ':', 'T', '+'), so the legality premise of the request
   theorem is only about the caller's strings (the property's quantifier) and the float oracle. *)
From Coq Require Import List Bool NArith ZArith Lia ZifyBool Decimal DecimalZ.
From AUC Require Import Prelude.PyStr C08.TypesDef C08.Model C08.Spec C06.XmlRead.
Import ListNotations.
Local Open Scope N_scope.

Lemma legal_range c : 32 <= c -> c <= 55295 -> xml_legal c = true.
Proof. intros. unfold xml_legal. lia. Qed.
Lemma dig_legal x : x < 10 -> xml_legal (48 + x) = true.
Proof. intros. apply legal_range; lia. Qed.
Lemma mod10 n : n mod 10 < 10.
Proof. apply N.mod_upper_bound. discriminate. Qed.
Lemma div_lt n b q : b <> 0 -> n < b * q -> n / b < q.
Proof. intros. now apply N.div_lt_upper_bound. Qed.

Lemma pad2_legal n : n <= 99 -> forallb xml_legal (pad2 n) = true.
Proof.
  intros H. unfold pad2. cbn [forallb].
  rewrite (dig_legal (n / 10)) by (apply div_lt; lia). rewrite (dig_legal (n mod 10)) by apply mod10. reflexivity.
Qed.
Lemma pad4_legal n : n <= 9999 -> forallb xml_legal (pad4 n) = true.
Proof.
  intros H. unfold pad4. cbn [forallb].
  rewrite (dig_legal (n / 1000)) by (apply div_lt; lia). rewrite !dig_legal by apply mod10. reflexivity.
Qed.

Lemma render_uint_legal u : forallb xml_legal (render_uint u) = true.
Proof. induction u; cbn [render_uint forallb]; try reflexivity; rewrite IHu; reflexivity. Qed.
Lemma str_of_int_legal z : forallb xml_legal (str_of_int z) = true.
Proof.
  unfold str_of_int, render_int. destruct (Z.to_int z); [apply render_uint_legal|].
  cbn [forallb]. now rewrite render_uint_legal.
Qed.

Lemma dim_le y m : days_in_month y m <= 31.
Proof.
  unfold days_in_month. destruct (is_leap y);
    (destruct m as [|p]; [lia|]);
    (destruct p as [p|p|]; [| |lia]);
    (destruct p as [p|p|]; try lia);
    (destruct p as [p|p|]; try lia);
    (destruct p as [p|p|]; try lia).
Qed.

Lemma iso_date_legal d : date_in_domain d = true -> forallb xml_legal (iso_date d) = true.
Proof.
  unfold date_in_domain, date_valid, iso_date. intros H. pose proof (dim_le (dy d) (dm d)).
  rewrite !forallb_app. rewrite pad4_legal, !pad2_legal by lia. reflexivity.
Qed.

Lemma iso_offset_legal tz : tz_valid tz = true -> forallb xml_legal (iso_offset tz) = true.
Proof.
  destruct tz as [off|]; [|reflexivity]. cbn [tz_valid iso_offset]. intros H.
  set (a := Z.to_N (Z.abs off)). assert (Ha : a < 1440) by (subst a; lia).
  cbn [forallb]. rewrite !forallb_app.
  rewrite (pad2_legal (a / 60)) by (assert (a / 60 < 24) by (apply div_lt; lia); lia).
  rewrite (pad2_legal (a mod 60)) by (assert (a mod 60 < 60) by (apply N.mod_upper_bound; discriminate); lia).
  destruct (off <? 0)%Z; reflexivity.
Qed.

Lemma iso_time_legal t : time_in_domain t = true -> forallb xml_legal (iso_time_spec TsSeconds t) = true.
Proof.
  unfold time_in_domain, iso_time_spec. intros H.
  apply andb_true_iff in H as [H Htz]. rewrite !forallb_app.
  rewrite !pad2_legal by lia. rewrite (iso_offset_legal _ Htz). reflexivity.
Qed.

(* every value of the domain that is neither a float nor a string *)
Theorem wire_spec_legal ty v w :
  value_in_domain ty v = true -> (forall f, v <> VFloat f) -> (forall s, v <> VStr s) ->
  wire_spec v = Some w -> forallb xml_legal w = true.
Proof.
  intros Hd Hf Hs Hw. destruct v; unfold wire_spec in Hw; try discriminate Hw.
  - injection Hw as <-. apply str_of_int_legal.
  - destruct b; injection Hw as <-; reflexivity.
  - exfalso. now apply (Hs s).
  - destruct ty; try discriminate Hd. cbn [value_in_domain] in Hd. injection Hw as <-. now apply iso_date_legal.
  - destruct ty; try discriminate Hd. cbn [value_in_domain] in Hd. injection Hw as <-. now apply iso_time_legal.
  - destruct ty; try discriminate Hd. cbn [value_in_domain] in Hd. apply andb_true_iff in Hd as [H1 H2].
    assert (E : iso_date d ++ [84] ++ iso_time_spec TsSeconds t = w) by congruence. rewrite <- E.
    rewrite !forallb_app. rewrite (iso_date_legal _ H1), (iso_time_legal _ H2). reflexivity.
Qed.
