(* C06 — instantiation used by the correspondence check (never by a theorem). *)
From Coq Require Import List Bool NArith ZArith.
From AUC Require Export Prelude.PyStr C08.TypesDef C08.Model C08.Spec Gen.Types Gen.DateMatchers
  C06.XmlRead C06.Model C06.Spec.
Import ListNotations.
Local Open Scope N_scope.

(* answers of float.__repr__ / float() recorded by the harness, per case *)
Record oracle := { o_fstr : list (fl * pystr); o_fparse : list (pystr * option fl) }.
Definition input := (oracle * call)%type.

Section WithOracle.
  Variable o : oracle.
  Definition fstr (f : fl) : pystr :=
    match find (fun p => fl_eqb (fst p) f) (o_fstr o) with Some p => snd p | None => [] end.
  Definition fparse (s : pystr) : option fl :=
    match find (fun p => str_eqb (fst p) s) (o_fparse o) with Some p => snd p | None => None end.
  Definition lext (c : N) : N := c.
End WithOracle.

Definition model_run (i : input) : observation := model_obs (fstr (fst i)) (fparse (fst i)) lext (snd i).
Definition dom (i : input) : bool := in_domain (fstr (fst i)) (fparse (fst i)) lext (snd i).

(* ---- comparison up to what the property speaks about ---- *)
Fixpoint list_eqb {A} (eqb : A -> A -> bool) (a b : list A) : bool :=
  match a, b with
  | [], [] => true
  | x :: a', y :: b' => eqb x y && list_eqb eqb a' b'
  | _, _ => false
  end.
Definition attr_eqb (a b : pystr * pystr * pystr) : bool :=
  str_eqb (fst (fst a)) (fst (fst b)) && str_eqb (snd (fst a)) (snd (fst b)) && str_eqb (snd a) (snd b).
Fixpoint xtree_eqb (a b : xtree) : bool :=
  match a, b with
  | XE n1 l1 a1 t1 k1, XE n2 l2 a2 t2 k2 =>
      str_eqb n1 n2 && str_eqb l1 l2 && list_eqb attr_eqb a1 a2 && str_eqb t1 t2 &&
      (fix kids (x y : list xtree) : bool :=
         match x, y with
         | [], [] => true
         | p :: x', q :: y' => xtree_eqb p q && kids x' y'
         | _, _ => false
         end) k1 k2
  end.
Definition otree_eqb (a b : option xtree) : bool :=
  match a, b with Some x, Some y => xtree_eqb x y | None, None => true | _, _ => false end.
Definition exn_eqb (a b : exn) : bool :=
  match a, b with
  | ValueError, ValueError | TypeError, TypeError | AttributeError, AttributeError
  | UpnpValueError, UpnpValueError | IndexError, IndexError | OtherError, OtherError => true
  | _, _ => false
  end.
Definition cexn_eqb (a b : cexn) : bool :=
  match a, b with
  | (EUpnpError | EUpnpValueError), (EUpnpError | EUpnpValueError) => true     (* "the library's error": the family *)
  | EForeign x, EForeign y => exn_eqb x y
  | _, _ => false
  end.
Definition ostr_eqb (a b : option pystr) : bool :=
  match a, b with Some x, Some y => str_eqb x y | None, None => true | _, _ => false end.
Definition omap {A B} (f : A -> B) (a : option A) : option B := match a with Some x => Some (f x) | None => None end.

(* detail codes of a model/implementation difference: 1 outcome, 2 method/URL/number of requests,
   3 one of the three headers, 4 decoded body *)
Definition obs_diff (m i : observation) : option N :=
  match m, i with
  | OCreateFailed, OCreateFailed => None
  | ORefused e1 n1, ORefused e2 n2 => if cexn_eqb e1 e2 && (n1 =? n2) then None else Some 1
  | OSent n1 m1 u1 h1 _ t1, OSent n2 m2 u2 h2 _ t2 =>
      if negb ((n1 =? n2) && str_eqb m1 m2 && str_eqb u1 u2) then Some 2
      else if negb (ostr_eqb (hdr_get h1 h_soapaction) (hdr_get h2 h_soapaction) &&
                    ostr_eqb (hdr_get h1 h_host) (hdr_get h2 h_host) &&
                    ostr_eqb (omap canon_ct (hdr_get h1 h_content_type)) (omap canon_ct (hdr_get h2 h_content_type)))
      then Some 3
      else if negb (otree_eqb t1 t2) then Some 4
      else None
  | _, _ => Some 1
  end.

(* the reader of C06.XmlRead stands in for expat in the theorems: it must agree with the real one on
   the very text the implementation sent *)
Definition reader_agrees (i : observation) : bool :=
  match i with
  | OSent _ _ _ _ body t => otree_eqb (xml_read body) t
  | _ => true
  end.

Definition flag (b : bool) (base k : N) : list (N * N * N) := if b then [] else [(base, k, 0)].

(* kind 0 = model differs from the implementation (detail as above; 5 = XML reader vs expat);
   kind 1..5 = spec clause fails on the implementation's observation *)
Fixpoint report (base : N) (cases : list (input * observation)) : list (N * N * N) :=
  match cases with
  | [] => []
  | (i, ob) :: r =>
      let c := snd i in
      let fp := fparse (fst i) in
      (match obs_diff (model_run i) ob with Some d => [(base, 0, d)] | None => [] end) ++
      (if reader_agrees ob then [] else [(base, 0, 5)]) ++
      (if dom i then
         flag (c_request fp lext c ob) base 1 ++ flag (c_headers fp lext c ob) base 2 ++
         flag (c_envelope fp lext c ob) base 3 ++ flag (c_values fp lext c ob) base 4 ++
         flag (c_refusal fp lext c ob) base 5
       else []) ++
      report (N.succ base) r
  end.

Definition replay (c : input * observation) :=
  let i := fst c in
  (model_run i, dom i,
   with_args (fparse (fst i)) lext (snd i) (fun ins => accepted ins (c_kwargs (snd i))),
   obs_diff (model_run i) (snd c), reader_agrees (snd c)).
