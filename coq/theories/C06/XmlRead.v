(* C06 — a reader for the fragment of XML 1.0 + Namespaces that a SOAP request uses: optional XML
   declaration, elements with attributes, character data with the five predefined entities and
   numeric character references, end-of-line normalisation (XML 1.0 2.11), attribute-value
   normalisation (3.3.3), legality of characters (2.2), the "]]>" ban in character data (2.4),
   namespace resolution with scoping.  Comments, CDATA, DOCTYPE and processing instructions are
   refused (the reader accepts a SUBSET of well-formed documents).  It plays the part of expat
   on the model side and is compared with the real expat on every case.  Definitions only. *)
From Coq Require Import List Bool NArith.
From AUC Require Import Prelude.PyStr.
Import ListNotations.
Local Open Scope N_scope.

(* ------------------------------------------------------------------ characters *)
Definition xml_legal (c : N) : bool :=
  (c =? 9) || (c =? 10) || (c =? 13) || ((32 <=? c) && (c <=? 55295)) ||
  ((57344 <=? c) && (c <=? 65533)) || ((65536 <=? c) && (c <=? 1114111)).
Definition is_ws (c : N) : bool := (c =? 32) || (c =? 9) || (c =? 10) || (c =? 13).
Definition is_alpha (c : N) : bool := ((65 <=? c) && (c <=? 90)) || ((97 <=? c) && (c <=? 122)).
Definition is_dig (c : N) : bool := (48 <=? c) && (c <=? 57).
(* NCName restricted to ASCII (a subset of the XML name characters) *)
Definition name_start (c : N) : bool := is_alpha c || (c =? 95).
Definition name_char (c : N) : bool := name_start c || is_dig c || (c =? 45) || (c =? 46).
Definition is_ncname (s : pystr) : bool :=
  match s with c :: r => name_start c && forallb name_char r | [] => false end.

Fixpoint span (p : N -> bool) (s : pystr) : pystr * pystr :=
  match s with
  | c :: r => if p c then let '(a, b) := span p r in (c :: a, b) else ([], s)
  | [] => ([], [])
  end.
Fixpoint skip_ws (s : pystr) : pystr :=
  match s with c :: r => if is_ws c then skip_ws r else s | [] => [] end.

(* ------------------------------------------------------------------ references *)
Definition hex_val (c : N) : option N :=
  if is_dig c then Some (c - 48)
  else if (97 <=? c) && (c <=? 102) then Some (c - 87)
  else if (65 <=? c) && (c <=? 70) then Some (c - 55)
  else None.
Fixpoint dec_num (acc : N) (s : pystr) : option N :=
  match s with
  | [] => Some acc
  | c :: r => if is_dig c then dec_num (10 * acc + (c - 48)) r else None
  end.
Fixpoint hex_num (acc : N) (s : pystr) : option N :=
  match s with
  | [] => Some acc
  | c :: r => match hex_val c with Some d => hex_num (16 * acc + d) r | None => None end
  end.
(* the text between '&' and ';' *)
Definition ref_value (name : pystr) : option N :=
  match name with
  | [97; 109; 112] => Some 38                 (* amp *)
  | [108; 116] => Some 60                      (* lt *)
  | [103; 116] => Some 62                      (* gt *)
  | [113; 117; 111; 116] => Some 34            (* quot *)
  | [97; 112; 111; 115] => Some 39             (* apos *)
  | 35 :: 120 :: (d :: ds) =>
      match hex_num 0 (d :: ds) with Some v => if xml_legal v then Some v else None | None => None end
  | 35 :: (d :: ds) =>
      match dec_num 0 (d :: ds) with Some v => if xml_legal v then Some v else None | None => None end
  | _ => None
  end.

(* ------------------------------------------------------------------ tokens *)
Definition qname := (option pystr * pystr)%type.          (* prefix, local part *)
Inductive token :=
| TStart (q : qname) (attrs : list (qname * pystr)) (selfclose : bool)
| TEnd (q : qname)
| TText (s : pystr).

Definition scan_qname (s : pystr) : option (qname * pystr) :=
  match s with
  | c :: _ =>
      if name_start c then
        let '(a, r) := span name_char s in
        match r with
        | [] => Some ((None, a), r)
        | x :: r1 =>
            if x =? 58 then
              match r1 with
              | c2 :: _ =>
                  if name_start c2 then let '(b, r3) := span name_char r1 in Some ((Some a, b), r3)
                  else None
              | [] => None
              end
            else Some ((None, a), r)
        end
      else None
  | [] => None
  end.

(* attribute value up to the closing quote [q]: references decoded, literal white space -> space
   (CR LF -> one space), '<' refused *)
Definition pcons (v : N) (o : option (pystr * pystr)) : option (pystr * pystr) :=
  match o with Some (t, r) => Some (v :: t, r) | None => None end.
Fixpoint scan_attval (q : N) (ref : option pystr) (s : pystr) : option (pystr * pystr) :=
  match s with
  | [] => None
  | c :: r =>
      match ref with
      | Some acc =>
          if c =? 59 then
            match ref_value (List.rev acc) with
            | Some v => pcons v (scan_attval q None r)
            | None => None
            end
          else scan_attval q (Some (c :: acc)) r
      | None =>
          if c =? q then Some ([], r)
          else if c =? 60 then None
          else if c =? 38 then scan_attval q (Some []) r
          else if negb (xml_legal c) then None
          else if c =? 13 then
            match r with
            | 10 :: r' => pcons 32 (scan_attval q None r')
            | _ => pcons 32 (scan_attval q None r)
            end
          else if (c =? 9) || (c =? 10) then pcons 32 (scan_attval q None r)
          else pcons c (scan_attval q None r)
      end
  end.

(* the attributes of a start tag: (S Attribute)* S? ['/'] *)
Definition is_lone_slash (s : pystr) : bool := match s with [c] => c =? 47 | _ => false end.
Fixpoint scan_attrs (fuel : nat) (s : pystr) (acc : list (qname * pystr))
  : option (list (qname * pystr) * bool) :=
  match fuel with
  | O => None
  | S fuel' =>
      match s with
      | [] => Some (List.rev acc, false)
      | c :: _ =>
          if is_lone_slash s then Some (List.rev acc, true)
          else if is_ws c then
            let s1 := skip_ws s in
            match s1 with
            | [] => Some (List.rev acc, false)
            | _ :: _ =>
                if is_lone_slash s1 then Some (List.rev acc, true)
                else
                  match scan_qname s1 with
                  | Some (qn, s2) =>
                      match skip_ws s2 with
                      | e :: s3 =>
                          if e =? 61 then
                            match skip_ws s3 with
                            | q :: s4 =>
                                if (q =? 34) || (q =? 39) then
                                  match scan_attval q None s4 with
                                  | Some (v, s5) => scan_attrs fuel' s5 ((qn, v) :: acc)
                                  | None => None
                                  end
                                else None
                            | [] => None
                            end
                          else None
                      | [] => None
                      end
                  | None => None
                  end
            end
          else None
      end
  end.

(* the text between '<' and the matching '>' *)
Definition parse_tag (chunk : pystr) : option token :=
  match chunk with
  | [] => None
  | c :: r =>
      if c =? 47 then
        match scan_qname r with
        | Some (qn, r') => match skip_ws r' with [] => Some (TEnd qn) | _ => None end
        | None => None
        end
      else
        match scan_qname chunk with
        | Some (qn, r) =>
            match scan_attrs (S (length r)) r [] with
            | Some (attrs, sc) => Some (TStart qn attrs sc)
            | None => None
            end
        | None => None
        end
  end.

(* ------------------------------------------------------------------ the lexer: one pass over the text *)
Inductive mode :=
| MText (nbr : nat) (ref : option pystr) (acc : pystr)     (* acc: decoded text so far, reversed *)
| MTag (acc : pystr) (quote : option N).                   (* acc: raw tag text so far, reversed *)

Definition ocons (t : token) (o : option (list token)) : option (list token) :=
  match o with Some l => Some (t :: l) | None => None end.

Fixpoint lexa (m : mode) (s : pystr) : option (list token) :=
  match s with
  | [] =>
      match m with
      | MText _ None acc => Some [TText (List.rev acc)]
      | _ => None
      end
  | c :: r =>
      match m with
      | MText nbr (Some racc) acc =>
          if c =? 59 then
            match ref_value (List.rev racc) with
            | Some v => lexa (MText 0 None (v :: acc)) r
            | None => None
            end
          else lexa (MText nbr (Some (c :: racc)) acc) r
      | MText nbr None acc =>
          if c =? 60 then ocons (TText (List.rev acc)) (lexa (MTag [] None) r)
          else if c =? 38 then lexa (MText 0 (Some []) acc) r
          else if negb (xml_legal c) then None
          else if (c =? 62) && (Nat.leb 2 nbr) then None
          else if c =? 13 then
            match r with
            | 10 :: r' => lexa (MText 0 None (10 :: acc)) r'
            | _ => lexa (MText 0 None (10 :: acc)) r
            end
          else lexa (MText (if c =? 93 then S nbr else O) None (c :: acc)) r
      | MTag acc None =>
          if c =? 62 then
            match parse_tag (List.rev acc) with
            | Some t => ocons t (lexa (MText 0 None []) r)
            | None => None
            end
          else if (c =? 34) || (c =? 39) then lexa (MTag (c :: acc) (Some c)) r
          else lexa (MTag (c :: acc) None) r
      | MTag acc (Some q) =>
          if c =? q then lexa (MTag (c :: acc) None) r else lexa (MTag (c :: acc) (Some q)) r
      end
  end.

(* ------------------------------------------------------------------ trees *)
Inductive xtree :=
  XE (ns local : pystr) (attrs : list (pystr * pystr * pystr)) (text : pystr) (kids : list xtree).

Definition ns_xml : pystr :=
  [104;116;116;112;58;47;47;119;119;119;46;119;51;46;111;114;103;47;88;77;76;47;49;57;57;56;47;110;97;109;101;115;112;97;99;101].
Definition s_xmlns : pystr := [120;109;108;110;115].
Definition s_xml : pystr := [120;109;108].

Definition env := list (pystr * pystr).      (* prefix ([] = default) -> namespace name *)
Fixpoint env_get (e : env) (p : pystr) : option pystr :=
  match e with
  | [] => None
  | (k, v) :: e' => if str_eqb k p then Some v else env_get e' p
  end.

(* namespace declarations of a start tag, in front of the inherited environment *)
Fixpoint decls (attrs : list (qname * pystr)) (e : env) : option env :=
  match attrs with
  | [] => Some e
  | ((None, l), v) :: r =>
      if str_eqb l s_xmlns then match decls r e with Some e' => Some (([], v) :: e') | None => None end
      else decls r e
  | ((Some p, l), v) :: r =>
      if str_eqb p s_xmlns then
        match v with
        | [] => None                                  (* a prefix cannot be undeclared in NS 1.0 *)
        | _ => if str_eqb l s_xmlns then None
               else match decls r e with Some e' => Some ((l, v) :: e') | None => None end
        end
      else decls r e
  end.

Definition resolve_elem (e : env) (q : qname) : option (pystr * pystr) :=
  match q with
  | (None, l) => Some (match env_get e [] with Some n => n | None => [] end, l)
  | (Some p, l) =>
      if str_eqb p s_xml then Some (ns_xml, l)
      else match env_get e p with Some (c :: n) => Some (c :: n, l) | _ => None end
  end.

Fixpoint resolve_attrs (e : env) (attrs : list (qname * pystr)) : option (list (pystr * pystr * pystr)) :=
  match attrs with
  | [] => Some []
  | ((None, l), v) :: r =>
      if str_eqb l s_xmlns then resolve_attrs e r
      else match resolve_attrs e r with Some t => Some (([], l, v) :: t) | None => None end
  | ((Some p, l), v) :: r =>
      if str_eqb p s_xmlns then resolve_attrs e r
      else
        match (if str_eqb p s_xml then Some ns_xml
               else match env_get e p with Some (c :: n) => Some (c :: n) | _ => None end) with
        | Some n => match resolve_attrs e r with Some t => Some ((n, l, v) :: t) | None => None end
        | None => None
        end
  end.

Fixpoint attr_dup (l : list (pystr * pystr * pystr)) : bool :=
  match l with
  | [] => false
  | (n, a, _) :: r => existsb (fun x => str_eqb (fst (fst x)) n && str_eqb (snd (fst x)) a) r || attr_dup r
  end.
(* the raw names must be distinct too (a="1" a="2"), also for namespace declarations *)
Fixpoint raw_dup (l : list (qname * pystr)) : bool :=
  match l with
  | [] => false
  | ((p, a), _) :: r =>
      existsb (fun x => str_eqb (snd (fst x)) a &&
                        match p, fst (fst x) with
                        | None, None => true
                        | Some u, Some w => str_eqb u w
                        | _, _ => false
                        end) r || raw_dup r
  end.

(* an open element: raw name, resolved name, attributes, environment, text so far, children (rev) *)
Record frame := { f_q : qname; f_ns : pystr; f_local : pystr; f_attrs : list (pystr * pystr * pystr);
                  f_env : env; f_text : pystr; f_kids : list xtree }.

Definition qname_eqb (a b : qname) : bool :=
  str_eqb (snd a) (snd b) &&
  match fst a, fst b with
  | None, None => true
  | Some x, Some y => str_eqb x y
  | _, _ => false
  end.

(* character data directly inside an element that also has children is dropped when it is only
   white space (SOAP: insignificant), kept otherwise *)
Definition close_frame (f : frame) : xtree :=
  let kids := List.rev (f_kids f) in
  let text := match kids with
              | [] => f_text f
              | _ => if forallb is_ws (f_text f) then [] else f_text f
              end in
  XE (f_ns f) (f_local f) (f_attrs f) text kids.

Definition open_frame (e : env) (q : qname) (attrs : list (qname * pystr)) : option frame :=
  if raw_dup attrs then None else
  match decls attrs e with
  | Some e' =>
      match resolve_elem e' q, resolve_attrs e' attrs with
      | Some (n, l), Some ra =>
          if attr_dup ra then None
          else Some {| f_q := q; f_ns := n; f_local := l; f_attrs := ra; f_env := e'; f_text := []; f_kids := [] |}
      | _, _ => None
      end
  | None => None
  end.

Definition add_kid (f : frame) (k : xtree) : frame :=
  {| f_q := f_q f; f_ns := f_ns f; f_local := f_local f; f_attrs := f_attrs f; f_env := f_env f;
     f_text := f_text f; f_kids := k :: f_kids f |}.
Definition add_text (f : frame) (t : pystr) : frame :=
  {| f_q := f_q f; f_ns := f_ns f; f_local := f_local f; f_attrs := f_attrs f; f_env := f_env f;
     f_text := f_text f ++ t; f_kids := f_kids f |}.

Fixpoint build (toks : list token) (stack : list frame) (root : option xtree) : option xtree :=
  match toks with
  | [] => match stack with [] => root | _ => None end
  | TText t :: r =>
      match stack with
      | f :: st => build r (add_text f t :: st) root
      | [] => if forallb is_ws t then build r [] root else None
      end
  | TStart q attrs sc :: r =>
      let e := match stack with f :: _ => f_env f | [] => [] end in
      match stack, root with
      | [], Some _ => None                                  (* a second document element *)
      | _, _ =>
          match open_frame e q attrs with
          | Some f =>
              if sc then
                match stack with
                | p :: st => build r (add_kid p (close_frame f) :: st) root
                | [] => build r [] (Some (close_frame f))
                end
              else build r (f :: stack) root
          | None => None
          end
      end
  | TEnd q :: r =>
      match stack with
      | f :: st =>
          if qname_eqb (f_q f) q then
            match st with
            | p :: st' => build r (add_kid p (close_frame f) :: st') root
            | [] => build r [] (Some (close_frame f))
            end
          else None
      | [] => None
      end
  end.

(* ------------------------------------------------------------------ the document *)
(* <?xml version="1.0"?> and the spellings with an utf-8 encoding declaration *)
Definition xml_decls : list pystr := [
  [60;63;120;109;108;32;118;101;114;115;105;111;110;61;34;49;46;48;34;63;62];
  [60;63;120;109;108;32;118;101;114;115;105;111;110;61;39;49;46;48;39;63;62];
  [60;63;120;109;108;32;118;101;114;115;105;111;110;61;34;49;46;48;34;32;101;110;99;111;100;105;110;103;61;34;117;116;102;45;56;34;63;62];
  [60;63;120;109;108;32;118;101;114;115;105;111;110;61;34;49;46;48;34;32;101;110;99;111;100;105;110;103;61;34;85;84;70;45;56;34;63;62];
  [60;63;120;109;108;32;118;101;114;115;105;111;110;61;39;49;46;48;39;32;101;110;99;111;100;105;110;103;61;39;117;116;102;45;56;39;63;62];
  [60;63;120;109;108;32;118;101;114;115;105;111;110;61;39;49;46;48;39;32;101;110;99;111;100;105;110;103;61;39;85;84;70;45;56;39;63;62]
].
Fixpoint drop_prefix (p s : pystr) : option pystr :=
  match p, s with
  | [], _ => Some s
  | x :: p', y :: s' => if x =? y then drop_prefix p' s' else None
  | _ :: _, [] => None
  end.
Fixpoint strip_decl (ds : list pystr) (s : pystr) : pystr :=
  match ds with
  | [] => s
  | d :: ds' => match drop_prefix d s with Some r => r | None => strip_decl ds' s end
  end.

Definition xml_read (s : pystr) : option xtree :=
  match lexa (MText 0 None []) (strip_decl xml_decls s) with
  | Some toks => build toks [] None
  | None => None
  end.
