(* C06 — what parse_tag makes of the tags of a request envelope. *)
From Coq Require Import List Bool NArith Lia.
From AUC Require Import Prelude.PyStr C06.XmlRead C06.Model C06.Spec C06.Lex.
Import ListNotations.
Local Open Scope N_scope.

Lemma name_start_not_slash c : name_start c = true -> (c =? 47) = false.
Proof.
  unfold name_start, is_alpha. intros H. destruct (N.eqb_spec c 47) as [->|]; [discriminate H|reflexivity].
Qed.

Lemma ncname_head s : is_ncname s = true -> exists c r, s = c :: r /\ name_start c = true.
Proof.
  destruct s as [|c r]; [discriminate|]. cbn [is_ncname]. intros H. apply andb_true_iff in H as [H _].
  now exists c, r.
Qed.

Lemma scan_qname_whole a : is_ncname a = true -> scan_qname a = Some ((None, a), []).
Proof.
  intros H. rewrite <- (app_nil_r a) at 1. apply scan_qname_plain; [assumption|exact I].
Qed.

(* <name> *)
Lemma parse_tag_start a : is_ncname a = true -> parse_tag a = Some (TStart (None, a) [] false).
Proof.
  intros H. destruct (ncname_head a H) as (c & r & E & Hc).
  unfold parse_tag. rewrite (scan_qname_whole a H). rewrite E at 1. rewrite (name_start_not_slash c Hc).
  reflexivity.
Qed.

(* </name> *)
Lemma parse_tag_end a : is_ncname a = true -> parse_tag (47 :: a) = Some (TEnd (None, a)).
Proof.
  intros H. unfold parse_tag. rewrite N.eqb_refl. rewrite (scan_qname_whole a H). reflexivity.
Qed.

Lemma span_lit1 (p : N -> bool) c r : p c = true -> match r with [] => True | x :: _ => p x = false end ->
  span p (c :: r) = ([c], r).
Proof. intros. change (c :: r) with ([c] ++ r). apply span_all; [cbn; now rewrite H|assumption]. Qed.

Lemma span_whole a : forallb name_char a = true -> span name_char a = (a, []).
Proof. intros H. rewrite <- (app_nil_r a) at 1. apply span_all; [assumption|exact I]. Qed.

(* </u:name> *)
Lemma parse_tag_end_u a :
  is_ncname a = true -> parse_tag (47 :: 117 :: 58 :: a) = Some (TEnd (Some [117], a)).
Proof.
  intros H. pose proof (span_whole a (ncname_chars a H)) as Sp.
  destruct (ncname_head a H) as (c & r & E & Hc). subst a.
  unfold parse_tag. rewrite N.eqb_refl. unfold scan_qname.
  change (name_start 117) with true. cbv iota.
  rewrite span_lit1 by reflexivity. rewrite N.eqb_refl. rewrite Hc. rewrite Sp.
  reflexivity.
Qed.

(* attribute value: a string of attribute-safe characters up to the closing double quote *)
Lemma scan_attval_safe s : forall rest,
  forallb attr_safe_char s = true -> scan_attval 34 None (s ++ 34 :: rest) = Some (s, rest).
Proof.
  induction s as [|c s IH]; intros rest H.
  - reflexivity.
  - cbn [forallb] in H. apply andb_true_iff in H as [Hc Hs].
    unfold attr_safe_char in Hc. apply andb_true_iff in Hc as [L Hn]. apply negb_true_iff in Hn.
    repeat (apply orb_false_iff in Hn as [Hn ?]).
    cbn [app scan_attval]. rewrite Hn, H3, H2, L. cbn [negb]. rewrite H, H1, H0. cbn [orb].
    rewrite IH by assumption. reflexivity.
Qed.

Lemma qrun_attr_safe s : forallb attr_safe_char s = true -> qrun (Some 34) s = Some (Some 34).
Proof.
  induction s as [|c s IH]; [reflexivity|]. cbn [forallb qrun]. intros H.
  apply andb_true_iff in H as [Hc Hs]. unfold attr_safe_char in Hc.
  apply andb_true_iff in Hc as [_ Hn]. apply negb_true_iff in Hn.
  repeat (apply orb_false_iff in Hn as [Hn ?]). rewrite Hn. now apply IH.
Qed.

Lemma scan_attrs_xmlns f st : forallb attr_safe_char st = true ->
  scan_attrs (S (S f)) (32 :: 120 :: 109 :: 108 :: 110 :: 115 :: 58 :: 117 :: 61 :: 34 :: st ++ [34]) []
  = Some ([((Some s_xmlns, [117]), st)], false).
Proof.
  intros H. pose proof (scan_attval_safe st [] H) as E.
  cbv -[scan_attval app] in E |- *.
  rewrite E. reflexivity.
Qed.

(* the chunk of the action element's start tag:  u:NAME xmlns:u="ST"  *)
Definition action_chunk (name st : pystr) : pystr :=
  [117;58] ++ name ++ [32;120;109;108;110;115;58;117;61;34] ++ st ++ [34].

Lemma parse_tag_action name st :
  is_ncname name = true -> forallb attr_safe_char st = true ->
  parse_tag (action_chunk name st) =
  Some (TStart (Some [117], name) [((Some s_xmlns, [117]), st)] false).
Proof.
  intros Hn Hs. destruct (ncname_head name Hn) as (c & r & E & Hc).
  unfold action_chunk, parse_tag. cbn [app]. change (117 =? 47) with false. cbv iota.
  unfold scan_qname at 1. change (name_start 117) with true. cbv iota.
  rewrite span_lit1 by reflexivity. rewrite N.eqb_refl.
  remember (32 :: 120 :: 109 :: 108 :: 110 :: 115 :: 58 :: 117 :: 61 :: 34 :: st ++ [34]) as T eqn:ET.
  assert (Hm : forall (A : Type) (d : A) (F : N -> A),
             match name ++ T with [] => d | c2 :: _ => F c2 end = F c) by (intros; rewrite E; reflexivity).
  rewrite Hm. rewrite Hc. subst T.
  rewrite span_all; [|now apply ncname_chars|reflexivity].
  cbn [length]. rewrite scan_attrs_xmlns by assumption. reflexivity.
Qed.

Lemma qrun_action_chunk name st :
  is_ncname name = true -> forallb attr_safe_char st = true -> qrun None (action_chunk name st) = Some None.
Proof.
  intros Hn Hs. unfold action_chunk.
  rewrite qrun_app. change (qrun None [117; 58]) with (Some (@None N)). cbv beta iota.
  rewrite qrun_app. rewrite (qrun_name name (ncname_chars name Hn)). cbv beta iota.
  rewrite qrun_app. change (qrun None [32; 120; 109; 108; 110; 115; 58; 117; 61; 34]) with (Some (Some 34)).
  cbv beta iota. rewrite qrun_app. rewrite (qrun_attr_safe st Hs). reflexivity.
Qed.
