(* C14 — the theorems, through the very definitions the correspondence check evaluates (Run.v): for every
   input and every operation of it inside the domain, every clause holds of the model's observation. *)
From Coq Require Import List Bool NArith ZArith Lia.
From AUC Require Import Prelude.PyStr Prelude.PyDict C08.TypesDef C08.Model C08.Spec Gen.Types Gen.DateMatchers
  C05.Xml C05.Names C05.Model C05.Def C05.Spec C05.Lemmas
  C06.XmlRead C14.Model C14.Spec C14.Base C14.Init C14.Ser C14.SerDev C14.Descr C14.Bad C14.Call C14.Run.
From AUC Require C06.Model C06.Spec C07.Model C07.Spec.
Import ListNotations.
Local Open Scope N_scope.

Lemma set_iter0_same : forall (l : list pyval) (x : pyval), In x (set_iter0 l) <-> In x l.
Proof. intros; reflexivity. Qed.

Section Link.
  Variable i : input.
  Notation fs := (fstr_of i).
  Notation fp := (fparse_of i).
  Notation uj := (urljoin_of i).
  Notation d := (i_def i).
  Notation o := (dobj_of fp lext d).

  Hypothesis Hdef : def_ok i = true.

  Lemma def_parts :
    wf_stree fs fp lext uj d = true /\ init_device fp lext d = SOk o.
  Proof.
    pose proof Hdef as H. unfold def_ok in H.
    destruct (description_ok fs fp lext set_iter0 uj set_iter0_same (i_probes i) (i_base i) d H) as (Hi & _).
    split; [|exact Hi]. unfold wf_sdev in H. repeat (apply andb_true_iff in H as [H _]). exact H.
  Qed.

  Lemma model_run_ok : model_run i = map (run_op i o) (i_ops i).
  Proof. unfold model_run. destruct def_parts as [_ ->]. reflexivity. Qed.

  Lemma svc_at_obj k s :
    svc_at i k = Some s ->
    exists url, nth_error (all_svcobjs o) k = Some (url, sobj_of fp lext s) /\ wf_ssvc fs fp lext uj url s = true.
  Proof.
    unfold svc_at. destruct (nth_error (all_ssvcs d) k) as [[url s']|] eqn:E; [|discriminate]. intros [= <-].
    exists url. destruct def_parts as [Hwf _]. split.
    - rewrite (all_svcobjs_dobj fp lext). now rewrite (map_nth_error _ _ _ E).
    - apply nth_error_In in E. exact (wf_all_ssvcs fs fp lext uj d (url, s') Hwf E).
  Qed.

  Lemma clauses_hold x : op_in_domain i x = true -> forallb (fun cb : N * bool => snd cb) (clauses i x (run_op i o x)) = true.
  Proof.
    unfold op_in_domain. rewrite Hdef. cbn [andb]. destruct x as [|k name kw h|k hdr body h]; intros Hop.
    - (* the description *)
      cbn [run_op clauses forallb snd]. rewrite andb_true_r.
      exact (clause_description fs fp lext set_iter0 uj set_iter0_same (i_probes i) (i_base i) d Hdef).
    - (* a call through the client *)
      destruct (svc_at i k) as [s|] eqn:Es; [|discriminate].
      destruct (svc_at_obj k s Es) as (url & Hn & Hwf).
      cbn [run_op]. rewrite Hn. cbn [clauses]. rewrite Es. cbn [forallb snd]. rewrite andb_true_r.
      unfold call_ok in Hop. apply andb_true_iff in Hop as [Hnd Hop].
      destruct (act_named s name) as [a|] eqn:Ea; [|discriminate].
      apply andb_true_iff in Hop as [Hargs _].
      unfold act_named in Ea. apply find_some in Ea as [Hin Hname]. apply str_eqb_eq in Hname. subst name.
      assert (Himp : args_valid fp lext s a kw = true -> args_in_domain fs fp lext s a kw = true).
      { intros E. now rewrite E in Hargs. }
      rewrite (clause_call fs fp lext set_iter0 uj set_iter0_same (i_base i) url s a kw h Hwf Hin Hnd Himp).
      exact (clause_fault fs fp lext set_iter0 uj set_iter0_same (i_base i) url s a kw h Hwf Hin Hnd Himp).
    - (* a harness-made request *)
      destruct (svc_at i k) as [s|] eqn:Es; [|discriminate].
      destruct (svc_at_obj k s Es) as (url & Hn & Hwf).
      cbn [run_op]. rewrite Hn. cbn [snd].
      pose proof (bad_request_handled fs fp lext uj url s hdr body h Hwf) as Hb.
      destruct (handle fs fp lext (sobj_of fp lext s) hdr body h) as [seen r]. cbn [snd] in Hb.
      cbn [clauses]. rewrite Es. cbn [forallb snd]. now rewrite Hb.
  Qed.
End Link.

(* For every input, every operation of it that lies inside the domain (Run.op_in_domain: the definition is
   well formed; a call's keyword arguments are a dict, an accepted assignment lies in the C08/C06 value
   domain, the handler method behaves) and the model's observation of it: no clause fails.  This is
   exactly what Run.report evaluates (on the implementation's observations). *)
Theorem run_clauses :
  forall (i : input) (k : nat) (x : op) (m : obs1),
    nth_error (i_ops i) k = Some x -> nth_error (model_run i) k = Some m -> op_in_domain i x = true ->
    forallb (fun cb : N * bool => snd cb) (clauses i x m) = true.
Proof.
  intros i k x m Hx Hm Hdom.
  assert (Hdef : def_ok i = true) by (unfold op_in_domain in Hdom; now apply andb_true_iff in Hdom as [? _]).
  rewrite (model_run_ok i Hdef) in Hm. rewrite (map_nth_error _ _ _ Hx) in Hm. injection Hm as <-.
  now apply clauses_hold.
Qed.

(* clause 1 as a proposition, closed *)
Theorem description_roundtrip :
  forall (float_str : fl -> pystr) (float_of_str : pystr -> option fl) (lower_ext : N -> N)
         (set_iter : list pyval -> list pyval) (urljoin : pystr -> pystr -> pystr),
    (forall l x, In x (set_iter l) <-> In x l) ->
  forall (probes : list pyval) (base : pystr) (d : sdev),
    wf_sdev float_str float_of_str lower_ext urljoin base d = true ->
    exists (o : dobj) (c : dev_o),
      init_device float_of_str lower_ext d = SOk o /\
      describe float_str float_of_str lower_ext set_iter urljoin probes base o = FOk c /\
      mirror_dev urljoin float_of_str lower_ext true probes base (def_of d) c = true /\
      describe_steps float_str float_of_str lower_ext set_iter o = expected_steps d.
Proof.
  intros fs fp le si uj Hs probes base d Hwf.
  destruct (description_ok fs fp le si uj Hs probes base d Hwf) as (A & B & C & D).
  eexists. eexists. repeat split; eassumption.
Qed.

(* the services of an instantiated device are the objects of the definition's services, index by index
   (Run.v addresses a service by its index in visiting order) *)
Theorem services_instantiated :
  forall (float_str : fl -> pystr) (float_of_str : pystr -> option fl) (lower_ext : N -> N)
         (urljoin : pystr -> pystr -> pystr) (base : pystr) (d : sdev),
    wf_sdev float_str float_of_str lower_ext urljoin base d = true ->
    exists o, init_device float_of_str lower_ext d = SOk o /\
      forall k url s, nth_error (all_ssvcs d) k = Some (url, s) ->
        wf_ssvc float_str float_of_str lower_ext urljoin url s = true /\
        nth_error (all_svcobjs o) k = Some (url, sobj_of float_of_str lower_ext s).
Proof.
  intros fs fp le uj base d Hwf.
  destruct (description_ok fs fp le set_iter0 uj set_iter0_same [] base d Hwf) as (Hi & _).
  exists (dobj_of fp le d). split; [exact Hi|]. intros k url s E.
  assert (Ht : wf_stree fs fp le uj d = true).
  { unfold wf_sdev in Hwf. repeat (apply andb_true_iff in Hwf as [Hwf _]). exact Hwf. }
  split.
  - exact (wf_all_ssvcs fs fp le uj d (url, s) Ht (nth_error_In _ _ E)).
  - rewrite (all_svcobjs_dobj fp le). now rewrite (map_nth_error _ _ _ E).
Qed.
