(* C14 — what the serializer writes for a well-formed definition (closed-form trees), and what the
   client's queries (the parse functions of C05.Model) read back from it: the description of the SERVED definition -
   the same definition with every default / bound / allowed value re-written in wire format, absent
   optional device texts as empty elements, allowed values in whatever order the set iterates. *)
From Coq Require Import List Bool NArith ZArith Lia.
From AUC Require Import Prelude.PyStr Prelude.PyDict C08.TypesDef C08.Model C08.Spec C08.Codec Gen.Types Gen.DateMatchers
  C05.Xml C05.Names C05.Model C05.Def C05.Spec C05.Lemmas C05.Parse C06.XmlRead C14.Model C14.Spec C14.Base C14.Init.
From AUC Require C06.Model C06.Spec C06.Values C06.Shape C07.Spec.
Import ListNotations.
Local Open Scope N_scope.

(* the rendering parameters pscpd_of / pdev_of depend on: names are not padded *)
Definition r0 : rendering := rendering_of 0 None false true true.

Lemma tag_is_el ns n k cs : tag_is ns n (el ns k cs) = str_eqb k n.
Proof. unfold tag_is, el. cbn. now rewrite str_eqb_refl. Qed.

Section Ser.
  Variable float_str : fl -> pystr.
  Variable float_of_str : pystr -> option fl.
  Variable lower_ext : N -> N.
  Variable set_iter : list pyval -> list pyval.
  Variable urljoin : pystr -> pystr -> pystr.
  Hypothesis set_iter_same : forall l x, In x (set_iter l) <-> In x l.

  Notation typed := (typed float_str float_of_str lower_ext).
  Notation wf_svar := (wf_svar float_str float_of_str lower_ext).
  Notation wf_ssvc := (wf_ssvc float_str float_of_str lower_ext urljoin).
  Notation wf_stree := (wf_stree float_str float_of_str lower_ext urljoin).
  Notation vobj_of := (vobj_of float_of_str lower_ext).
  Notation aobj_of := (aobj_of float_of_str lower_ext).
  Notation sobj_of := (sobj_of float_of_str lower_ext).
  Notation dobj_of := (dobj_of float_of_str lower_ext).
  Notation ser_sv := (ser_sv float_str float_of_str lower_ext set_iter).
  Notation ser_scpd := (ser_scpd float_str float_of_str lower_ext set_iter).

  (* ---------------------------------------------------------------- the served texts *)
  Definition wire (row : type_row) (x : pyval) : pystr :=
    match coerce_upnp float_str row x with Ok w => w | Raise _ => [] end.
  Definition tv (row : type_row) (t : pystr) : pyval := match typed row t with Some v => v | None => VNone end.
  Definition rew (row : type_row) (t : pystr) : pystr := wire row (tv row t).
  Definition allowed_vals (v : svar) : list pyval := map (tv (vrow_of v)) (vr_allowed_list v).

  Definition served_var (v : svar) : sv_def :=
    let row := vrow_of v in
    {| sd_name := vr_name v; sd_type := vr_type v; sd_attr := true; sd_evented := vr_evented v;
       sd_default := option_map (rew row) (vr_default v);
       sd_range := match vr_range v with
                   | Some (Some mn, Some mx, st) => Some (Some (rew row mn), Some (rew row mx), st)
                   | _ => None
                   end;
       sd_allowed := match allowed_vals v with
                     | [] => None
                     | vs => Some (map (wire row) (set_iter vs))
                     end |}.
  Definition served_svc (s : ssvc) : service_def :=
    {| s_type := sc_type s; s_id := sc_id s; s_scpd := sc_scpd s; s_control := sc_control s; s_event := sc_event s;
       s_vars := map served_var (sc_vars s); s_actions := map actdef_of (sc_acts s); s_corrupt := CNone |}.
  Definition served_hdr (h : dev_hdr) : dev_hdr :=
    {| h_type := h_type h; h_friendly := h_friendly h; h_manufacturer := h_manufacturer h;
       h_manufacturer_url := Some (or_empty (h_manufacturer_url h)); h_model_desc := Some (or_empty (h_model_desc h));
       h_model_name := h_model_name h; h_model_number := Some (or_empty (h_model_number h));
       h_model_url := Some (or_empty (h_model_url h)); h_serial := Some (or_empty (h_serial h)); h_udn := h_udn h;
       h_upc := Some (or_empty (h_upc h)); h_presentation := Some (or_empty (h_presentation h)) |}.
  Fixpoint served_dev (d : sdev) : device_def :=
    match d with
    | SDev h _ icons svcs subs => DeviceDef (served_hdr h) icons (map served_svc svcs) (map served_dev subs)
    end.

  (* ---------------------------------------------------------------- what well-formedness says of the texts *)
  Lemma typed_tv row t : is_typed float_str float_of_str lower_ext row t = true -> typed row t = Some (tv row t).
  Proof. unfold is_typed, tv. destruct (typed row t); [reflexivity | discriminate]. Qed.
  Lemma ordered_typed row t :
    is_ordered float_str float_of_str lower_ext row t = true ->
    is_typed float_str float_of_str lower_ext row t = true /\ naive (tv row t) = true.
  Proof. unfold is_ordered, is_typed, tv. destruct (typed row t); [tauto | discriminate]. Qed.

  Lemma wf_svar_texts v :
    wf_svar v = true ->
    (forall t, vr_default v = Some t -> typed (vrow_of v) t = Some (tv (vrow_of v) t)) /\
    match vr_range v with
    | None => True
    | Some (Some mn, Some mx, _) =>
        typed (vrow_of v) mn = Some (tv (vrow_of v) mn) /\ typed (vrow_of v) mx = Some (tv (vrow_of v) mx)
    | Some _ => False
    end /\
    (forall t, In t (vr_allowed_list v) -> typed (vrow_of v) t = Some (tv (vrow_of v) t)).
  Proof.
    intros Hwf. pose proof (wf_svar_row float_str float_of_str lower_ext v Hwf) as Hrow.
    unfold Spec.wf_svar in Hwf. rewrite Hrow in Hwf.
    apply andb_true_iff in Hwf as [Hwf _]. apply andb_true_iff in Hwf as [Hwf H5].
    apply andb_true_iff in Hwf as [Hwf H4]. apply andb_true_iff in Hwf as [Hwf H3].
    repeat split.
    - intros t E. rewrite E in H3. cbn in H3. now apply typed_tv.
    - destruct (vr_range v) as [[[[mn|] [mx|]] st]|]; try discriminate; try exact I.
      apply andb_true_iff in H4 as [H4 _]. apply andb_true_iff in H4 as [A B].
      split; apply typed_tv; now apply ordered_typed.
    - intros t Hin. unfold vr_allowed_list in Hin. destruct (vr_allowed v) as [l|]; [|destruct Hin].
      apply andb_true_iff in H5 as [H5 _]. rewrite forallb_forall in H5.
      apply typed_tv. now apply ordered_typed, H5.
  Qed.

  Lemma typed_apply row t x : typed row t = Some x -> apply_in float_of_str lower_ext (r_in row) t = Ok x.
  Proof. intros H. now destruct (typed_parts float_str float_of_str lower_ext row t x H) as (_ & E & _). Qed.

  (* the wire text of the value of a typed text: it is what render writes, and a typed text of that value *)
  Lemma render_typed v t :
    wf_svar v = true -> typed (vrow_of v) t = Some (tv (vrow_of v) t) ->
    render float_str (vobj_of v) (tv (vrow_of v) t) = Ok (rew (vrow_of v) t) /\
    typed (vrow_of v) (rew (vrow_of v) t) = Some (tv (vrow_of v) t).
  Proof.
    intros Hwf Ht.
    destruct (typed_render float_str float_of_str lower_ext (vrow_of v) t _
                           (wf_svar_in_table float_str float_of_str lower_ext v Hwf) Ht) as (w & Ho & Hw).
    unfold render, rew, wire. cbn [w_row Init.vobj_of]. rewrite Ho. split; [reflexivity | exact Hw].
  Qed.

  Lemma get_allowed_ok v : wf_svar v = true -> get_allowed float_of_str lower_ext (vobj_of v) = Ok (allowed_vals v).
  Proof.
    intros Hwf. destruct (wf_svar_texts v Hwf) as (_ & _ & Hal).
    unfold get_allowed, allowed_vals. cbn [w_row w_def Init.vobj_of].
    induction (vr_allowed_list v) as [|t l IH]; [reflexivity|]. cbn [coerce_all map].
    rewrite (typed_apply _ _ _ (Hal t (or_introl eq_refl))), IH by (intros; apply Hal; now right). reflexivity.
  Qed.

  Lemma allowed_vals_typed v x :
    wf_svar v = true -> In x (allowed_vals v) ->
    exists t, typed (vrow_of v) t = Some x /\ x = tv (vrow_of v) t.
  Proof.
    intros Hwf Hin. destruct (wf_svar_texts v Hwf) as (_ & _ & Hal).
    unfold allowed_vals in Hin. apply in_map_iff in Hin as (t & <- & Ht). exists t. split; [now apply Hal | reflexivity].
  Qed.

  Lemma render_allowed v l :
    wf_svar v = true -> (forall x, In x l -> In x (allowed_vals v)) ->
    rmapM (render float_str (vobj_of v)) l = Ok (map (wire (vrow_of v)) l).
  Proof.
    intros Hwf Hl. apply rmapM_ok. intros x Hx. destruct (allowed_vals_typed v x Hwf (Hl x Hx)) as (t & Ht & ->).
    now destruct (render_typed v t Hwf Ht) as [E _].
  Qed.

  (* ---------------------------------------------------------------- state variables *)
  Definition srv_sv_tree (v : svar) : xml :=
    let row := vrow_of v in
    Elem ns_service n_stateVariable [(n_sendEvents, yes_no (vr_evented v))] None
      ([leaf ns_service n_name (vr_name v); leaf ns_service n_dataType (vr_type v)] ++
       match allowed_vals v with
       | [] => []
       | vs => [el ns_service n_allowedValueList (map (leaf ns_service n_allowedValue) (map (wire row) (set_iter vs)))]
       end ++
       match vr_range v with
       | Some (Some mn, Some mx, st) =>
           [el ns_service n_allowedValueRange
               ([leaf ns_service n_minimum (rew row mn); leaf ns_service n_maximum (rew row mx)] ++
                match st with Some s => [leaf ns_service n_step s] | None => [] end)]
       | _ => []
       end ++
       match vr_default v with Some t => [leaf ns_service n_defaultValue (rew row t)] | None => [] end).

  Lemma get_typed_some v t :
    typed (vrow_of v) t = Some (tv (vrow_of v) t) ->
    get_typed float_of_str lower_ext (vobj_of v) (Some t) = Ok (Some (tv (vrow_of v) t)).
  Proof. intros H. unfold get_typed. cbn [w_row Init.vobj_of]. now rewrite (typed_apply _ _ _ H). Qed.

  Lemma ser_sv_ok v : wf_svar v = true -> ser_sv (vobj_of v) = Ok (srv_sv_tree v).
  Proof.
    intros Hwf. destruct (wf_svar_texts v Hwf) as (Hdf & Hrg & _).
    unfold Model.ser_sv, srv_sv_tree. cbv zeta. rewrite (get_allowed_ok v Hwf). cbn [rbind].
    assert (Eal : match allowed_vals v with
                  | [] => Ok []
                  | _ :: _ => rbind (rmapM (render float_str (vobj_of v)) (set_iter (allowed_vals v)))
                                    (fun ts => Ok [el ns_service n_allowedValueList (map (leaf ns_service n_allowedValue) ts)])
                  end =
                  Ok (match allowed_vals v with
                      | [] => []
                      | vs => [el ns_service n_allowedValueList
                                  (map (leaf ns_service n_allowedValue) (map (wire (vrow_of v)) (set_iter vs)))]
                      end)).
    { destruct (allowed_vals v) as [|a l] eqn:E; [reflexivity|]. rewrite <- E.
      rewrite (render_allowed v) by (try assumption; intros x Hx; now apply set_iter_same). reflexivity. }
    rewrite Eal. cbn [rbind]. clear Eal. cbn [w_def Init.vobj_of].
    destruct (vr_range v) as [[[[mn|] [mx|]] st]|] eqn:Er; try (destruct Hrg; fail).
    - destruct Hrg as [Hmn Hmx].
      unfold vr_min, vr_max, vr_step. rewrite Er.
      rewrite (get_typed_some v mn Hmn), (get_typed_some v mx Hmx). cbn [rbind].
      destruct (render_typed v mn Hwf Hmn) as [-> _]. destruct (render_typed v mx Hwf Hmx) as [-> _]. cbn [rbind].
      destruct (vr_default v) as [t|] eqn:Ed.
      + rewrite (get_typed_some v t (Hdf t eq_refl)). cbn [rbind].
        destruct (render_typed v t Hwf (Hdf t eq_refl)) as [-> _]. reflexivity.
      + reflexivity.
    - unfold vr_min, vr_max, vr_step. rewrite Er. cbn [get_typed rbind].
      destruct (vr_default v) as [t|] eqn:Ed.
      + rewrite (get_typed_some v t (Hdf t eq_refl)). cbn [rbind].
        destruct (render_typed v t Hwf (Hdf t eq_refl)) as [-> _]. reflexivity.
      + reflexivity.
  Qed.

  Lemma leaf_text ns k t : x_text (leaf ns k t) = match t with [] => None | _ => Some t end.
  Proof. reflexivity. Qed.

  Lemma allowed_texts (ts : list pystr) :
    flat_map (fun x => match x_text x with Some t => [t] | None => [] end)
             (findall1 ns_service n_allowedValue (map (leaf ns_service n_allowedValue) ts)) =
    flat_map (fun t => match t with [] => [] | _ => [t] end) ts.
  Proof.
    unfold findall1. rewrite filter_all by (intros y Hy; apply in_map_iff in Hy as [z [<- _]]; now rewrite tag_is_leaf, str_eqb_refl).
    induction ts as [|t l IH]; cbn; [reflexivity|]. rewrite IH. now destruct t.
  Qed.

  Lemma toe ns k (t : pystr) :
    text_or_empty (Elem ns k [] (match t with [] => None | _ :: _ => Some t end) []) = t.
  Proof. now destruct t. Qed.

  Lemma parse_srv_sv v : parse_sv (srv_sv_tree v) = psv_of r0 (served_var v).
  Proof.
    unfold psv_of, served_var. cbv zeta.
    cbn [sd_attr sd_evented sd_type sd_default sd_range sd_allowed sd_name pad_name r0 rendering_of r_pad].
    unfold srv_sv_tree. cbv zeta.
    destruct (allowed_vals v) as [|a l] eqn:Ea;
      destruct (vr_range v) as [[[[mn|] [mx|]] [st|]]|]; destruct (vr_default v) as [t|];
      unfold parse_sv; cbn [x_children x_attrs app];
      repeat match goal with
             | |- context [leaf ?ns ?k ?t] => change (leaf ns k t) with (Elem ns k [] (match t with [] => None | _ => Some t end) [])
             end;
      unfold el; cbn [findtext find1 find tag_is x_ns x_local str_eqb N.eqb Pos.eqb andb attr_get
                        ns_service n_name n_dataType n_defaultValue n_sendEventsAttribute n_allowedValueRange
                        n_allowedValueList n_minimum n_maximum n_step n_stateVariable n_sendEvents n_allowedValue
                        text_or_empty x_text x_children option_map];
      rewrite ?toe; try reflexivity.
    all: rewrite allowed_texts; reflexivity.
  Qed.
  (* ---------------------------------------------------------------- actions *)
  Definition srv_arg_tree (is_in : bool) (p : pystr * pystr) : xml :=
    el ns_service n_argument
       [leaf ns_service n_name (fst p); leaf ns_service n_direction (if is_in then s_in else s_out);
        leaf ns_service n_relatedStateVariable (snd p)].
  Definition srv_action_tree (a : sact) : xml :=
    el ns_service n_action
       (leaf ns_service n_name (ac_name a) ::
        match ac_ins a ++ ac_outs a with
        | [] => []
        | _ => [el ns_service n_argumentList (map (srv_arg_tree true) (ac_ins a) ++ map (srv_arg_tree false) (ac_outs a))]
        end).

  Lemma bind_of_name vars p :
    existsb (str_eqb (snd p)) (map vr_name vars) = true ->
    w_name (snd (Init.bind_of float_of_str lower_ext vars p)) = snd p.
  Proof.
    intros H. apply existsb_str_In in H. destruct (find_name_in vr_name vars (snd p) H) as (v & Hf & Hn).
    unfold Init.bind_of. cbn [snd]. rewrite Hf. exact Hn.
  Qed.

  Lemma ser_arg_bind vars is_in p :
    existsb (str_eqb (snd p)) (map vr_name vars) = true ->
    ser_arg is_in (Init.bind_of float_of_str lower_ext vars p) = srv_arg_tree is_in p.
  Proof.
    intros H. unfold ser_arg, srv_arg_tree. rewrite (bind_of_name vars p H). reflexivity.
  Qed.

  Lemma ser_action_ok vars a :
    wf_sact (map vr_name vars) a = true -> ser_action (aobj_of vars a) = srv_action_tree a.
  Proof.
    intros Hwf. destruct (wf_sact_parts _ _ Hwf) as (_ & Hargs & _ & _).
    unfold ser_action, srv_action_tree, Init.aobj_of. cbn [ab_name ab_ins ab_outs].
    rewrite <- map_app.
    assert (E1 : map (ser_arg true) (map (Init.bind_of float_of_str lower_ext vars) (ac_ins a)) = map (srv_arg_tree true) (ac_ins a)).
    { rewrite map_map. apply map_ext_in. intros p Hp. apply ser_arg_bind. apply Hargs. apply in_or_app. now left. }
    assert (E2 : map (ser_arg false) (map (Init.bind_of float_of_str lower_ext vars) (ac_outs a)) = map (srv_arg_tree false) (ac_outs a)).
    { rewrite map_map. apply map_ext_in. intros p Hp. apply ser_arg_bind. apply Hargs. apply in_or_app. now right. }
    rewrite E1, E2. destruct (ac_ins a ++ ac_outs a); reflexivity.
  Qed.

  Lemma parse_srv_arg is_in p :
    parse_argument (srv_arg_tree is_in p) = [(fst p, if is_in then s_in else s_out, snd p)].
  Proof.
    unfold parse_argument, srv_arg_tree, el. cbn [x_children].
    repeat match goal with
           | |- context [leaf ?ns ?k ?t] => change (leaf ns k t) with (Elem ns k [] (match t with [] => None | _ => Some t end) [])
           end.
    cbn [findtext find1 find tag_is x_ns x_local str_eqb N.eqb Pos.eqb andb
           ns_service n_name n_direction n_relatedStateVariable].
    rewrite !toe. reflexivity.
  Qed.

  Lemma parse_srv_action a : parse_action (srv_action_tree a) = paction_of (actdef_of a).
  Proof.
    unfold parse_action, srv_action_tree, paction_of, actdef_of. cbn [ad_name ad_args]. cbv zeta.
    unfold el at 1. cbn [x_children].
    change (leaf ns_service n_name (ac_name a)) with
      (Elem ns_service n_name [] (match ac_name a with [] => None | _ => Some (ac_name a) end) []).
    f_equal.
    - cbn [findtext find1 find tag_is x_ns x_local str_eqb N.eqb Pos.eqb andb ns_service n_name]. now rewrite toe.
    - unfold findall2. destruct (ac_ins a ++ ac_outs a) as [|q l] eqn:E.
      + apply app_eq_nil in E as [-> ->]. reflexivity.
      + clear E q l.
        change (findall1 ns_service n_argumentList
                  (x_children (el ns_service n_action
                     [Elem ns_service n_name [] (match ac_name a with [] => None | _ => Some (ac_name a) end) [];
                      el ns_service n_argumentList (map (srv_arg_tree true) (ac_ins a) ++ map (srv_arg_tree false) (ac_outs a))])))
          with [el ns_service n_argumentList (map (srv_arg_tree true) (ac_ins a) ++ map (srv_arg_tree false) (ac_outs a))].
        cbn [flat_map x_children el app]. rewrite app_nil_r.
        unfold findall1. rewrite filter_all.
        2:{ intros y Hy. apply in_app_or in Hy as [Hy|Hy]; apply in_map_iff in Hy as [z [<- _]]; reflexivity. }
        rewrite flat_map_app, map_app. f_equal.
        * induction (ac_ins a) as [|p l IH]; cbn [map flat_map]; [reflexivity|]. rewrite parse_srv_arg, IH. reflexivity.
        * induction (ac_outs a) as [|p l IH]; cbn [map flat_map]; [reflexivity|]. rewrite parse_srv_arg, IH. reflexivity.
  Qed.

  (* ---------------------------------------------------------------- the service description *)
  Definition srv_scpd_tree (s : ssvc) : xml :=
    el ns_service n_scpd
       [ser_spec ns_service; el ns_service n_actionList (map srv_action_tree (sc_acts s));
        el ns_service n_serviceStateTable (map srv_sv_tree (sc_vars s))].

  Lemma ser_svs_ok l :
    (forall v, In v l -> wf_svar v = true) -> rmapM ser_sv (map vobj_of l) = Ok (map srv_sv_tree l).
  Proof.
    induction l as [|v l IH]; intros Hv; [reflexivity|]. cbn [map rmapM].
    rewrite (ser_sv_ok v) by (apply Hv; now left). cbn [rbind].
    rewrite IH by (intros; apply Hv; now right). reflexivity.
  Qed.

  Lemma ser_scpd_ok dev_url s : wf_ssvc dev_url s = true -> ser_scpd (sobj_of s) = Ok (srv_scpd_tree s).
  Proof.
    intros Hwf. destruct (wf_ssvc_parts _ _ _ _ _ _ Hwf) as (_ & _ & _ & _ & Hv & _ & Ha & _).
    unfold Model.ser_scpd, srv_scpd_tree, Init.sobj_of. cbn [sb_vars sb_acts].
    rewrite (ser_svs_ok _ Hv). cbn [rbind]. rewrite !map_map.
    assert (E : map (fun x => ser_action (aobj_of (sc_vars s) x)) (sc_acts s) = map srv_action_tree (sc_acts s)).
    { apply map_ext_in. intros a Hin. now apply ser_action_ok, Ha. }
    now rewrite E.
  Qed.

  Definition pscpd_served (s : ssvc) : p_scpd :=
    {| pd_root_ok := true; pd_table := Some (map (psv_of r0) (map served_var (sc_vars s)));
       pd_actions := map paction_of (map actdef_of (sc_acts s)) |}.

  Lemma parse_srv_scpd s : parse_scpd (srv_scpd_tree s) = pscpd_served s.
  Proof.
    unfold parse_scpd, srv_scpd_tree, pscpd_served. cbv zeta.
    change (x_children (el ns_service n_scpd
              [ser_spec ns_service; el ns_service n_actionList (map srv_action_tree (sc_acts s));
               el ns_service n_serviceStateTable (map srv_sv_tree (sc_vars s))]))
      with [ser_spec ns_service; el ns_service n_actionList (map srv_action_tree (sc_acts s));
            el ns_service n_serviceStateTable (map srv_sv_tree (sc_vars s))].
    change (find1 ns_service n_serviceStateTable
              [ser_spec ns_service; el ns_service n_actionList (map srv_action_tree (sc_acts s));
               el ns_service n_serviceStateTable (map srv_sv_tree (sc_vars s))])
      with (Some (el ns_service n_serviceStateTable (map srv_sv_tree (sc_vars s)))).
    change (find1 ns_service n_actionList
              [ser_spec ns_service; el ns_service n_actionList (map srv_action_tree (sc_acts s));
               el ns_service n_serviceStateTable (map srv_sv_tree (sc_vars s))])
      with (Some (el ns_service n_actionList (map srv_action_tree (sc_acts s)))).
    cbn [x_children el].
    assert (E1 : map parse_sv (findall1 ns_service n_stateVariable (map srv_sv_tree (sc_vars s))) =
                 map (psv_of r0) (map served_var (sc_vars s))).
    { unfold findall1. rewrite filter_all by (intros y Hy; apply in_map_iff in Hy as [z [<- _]]; reflexivity).
      rewrite !map_map. apply map_ext. intros v. apply parse_srv_sv. }
    assert (E2 : map parse_action (findall1 ns_service n_action (map srv_action_tree (sc_acts s))) =
                 map paction_of (map actdef_of (sc_acts s))).
    { unfold findall1. rewrite filter_all by (intros y Hy; apply in_map_iff in Hy as [z [<- _]]; reflexivity).
      rewrite !map_map. apply map_ext. intros a. apply parse_srv_action. }
    rewrite E1, E2. reflexivity.
  Qed.

  Lemma pscpd_of_served s : pscpd_of r0 (served_svc s) = FDoc (pscpd_served s).
  Proof. reflexivity. Qed.
End Ser.
