(* C14 — Server description and control interoperate with the library's own client: executable model of
   the SERVER side of async_upnp_client/server.py, composed with the existing client-side models.
   Definitions only.

   server.py   create_state_var / create_event_var (module level: the definition language, [svar]),
               UpnpServerService.__init__ -> _init_state_variables -> create_state_var (schema through a strict
               UpnpFactory = C08.mk_decl, default value through the upnp_value setter), _init_actions ->
               _init_action (callable_action: name, in-arguments, out-arguments bound to state variables),
               UpnpServerDevice.__init__ (services / embedded devices keyed by type),
               UpnpXmlSerializer (device, service, action, argument, state variable) at TREE level: the
               ElementTree the client's parser produces from ET.tostring's text (namespaces resolved, an
               empty text is None) - ET.tostring / expat are oracles (DESIGN section 2),
               _parse_action_body, action_handler, UpnpServerService.async_handle_action,
               _create_action_response, _create_error_action_response.
   client      NOT re-modelled: C05.Model (UpnpFactory on trees), C06.Model (request building) with the
               Gallina XML reader C06.XmlRead in the place of expat on the server's side, C07.Model (response
               and fault decoding), C08.Model (data types, validation), Gen/Types.v (regenerated table).

   REPAIRED behaviour is modelled for the five defects of /verif/proposed/C14:
     D9   create_state_var recorded send_events=False for every variable      -> the eventable flag;
     D10  an unparseable argument text / an omitted argument escaped action_handler as raw ValueError /
          UpnpError('Missing argument')                                        -> HTTPBadRequest (400);
     D34  the <step> of an allowedValueRange was not serialised               -> written when declared;
     D35  allowed values, bounds and default were serialised with str(python value) (a dateTime.tz default
          became '2020-01-02 03:04:05+01:00', which the client's parser refuses)  -> coerce_upnp;
     D36  a CR in a string result reached the caller as LF (ET.tostring writes it raw) -> &#13;, i.e. the
          tree the client parses carries the text unchanged.
   HTTPBadRequest raised by a handler is aiohttp's way of answering 400: it is the response [RBad], not an
   escaping exception. *)
From Coq Require Import List Bool NArith ZArith.
From AUC Require Import Prelude.PyStr Prelude.PyDict C08.TypesDef C08.Model Gen.Types Gen.DateMatchers
  C05.Xml C05.Names C05.Model C05.Def C06.XmlRead.
From AUC Require C06.Model C06.Spec C07.Model.
Import ListNotations.
Local Open Scope N_scope.

(* ------------------------------------------------------------------ the definition language *)
(* create_state_var(data_type, allowed=, allowed_range={"min","max","step"}, default=) / create_event_var *)
Record svar := mkVar {
  vr_name : pystr; vr_type : pystr; vr_evented : bool; vr_default : option pystr;
  vr_range : option (option pystr * option pystr * option pystr);       (* min, max, step *)
  vr_allowed : option (list pystr) }.
(* @callable_action(name, in_args = {argument: state variable}, out_args = {argument: state variable}) *)
Record sact := mkAct { ac_name : pystr; ac_ins : list (pystr * pystr); ac_outs : list (pystr * pystr) }.
(* SERVICE_DEFINITION (URLs as written) + STATE_VARIABLE_DEFINITIONS + the decorated methods *)
Record ssvc := mkSvc {
  sc_type : pystr; sc_id : pystr; sc_scpd : pystr; sc_control : pystr; sc_event : pystr;
  sc_vars : list svar; sc_acts : list sact }.
(* DEVICE_DEFINITION (its url = where the description is served) + SERVICES + EMBEDDED_DEVICES *)
Inductive sdev := SDev (h : dev_hdr) (url : pystr) (icons : list icon_def) (svcs : list ssvc) (subs : list sdev).

Definition dv_hdr (d : sdev) := match d with SDev h _ _ _ _ => h end.
Definition dv_url (d : sdev) := match d with SDev _ u _ _ _ => u end.
Definition dv_svcs (d : sdev) := match d with SDev _ _ _ s _ => s end.
Definition dv_subs (d : sdev) := match d with SDev _ _ _ _ s => s end.

Definition vr_min (v : svar) : option pystr := match vr_range v with Some (a, _, _) => a | None => None end.
Definition vr_max (v : svar) : option pystr := match vr_range v with Some (_, b, _) => b | None => None end.
Definition vr_step (v : svar) : option pystr := match vr_range v with Some (_, _, c) => c | None => None end.
Definition vr_allowed_list (v : svar) : list pystr := match vr_allowed v with Some l => l | None => [] end.
(* `allowed_range or {}` and the truthiness test of the schema builder: an empty mapping is no range *)
Definition vr_has_range (v : svar) : bool :=
  match vr_range v with Some (None, None, None) | None => false | Some _ => true end.

(* ------------------------------------------------------------------ exceptions of the server side *)
Inductive sexn := EValue | EType | EKey | EUpnp | EUpnpValue | EOther.
Definition of_exn8 (e : exn) : sexn :=
  match e with ValueError => EValue | TypeError => EType | UpnpValueError => EUpnpValue | _ => EOther end.
Inductive sres (A : Type) := SOk (a : A) | SRaise (e : sexn).
Arguments SOk {A}. Arguments SRaise {A}.
Definition sbind {A B} (x : sres A) (f : A -> sres B) : sres B :=
  match x with SOk a => f a | SRaise e => SRaise e end.
Definition smapM {A B} (f : A -> sres B) : list A -> sres (list B) :=
  fix go (l : list A) : sres (list B) :=
    match l with
    | [] => SOk []
    | x :: r => sbind (f x) (fun y => sbind (go r) (fun ys => SOk (y :: ys)))
    end.
Definition of_res8 {A} (r : res A) : sres A := match r with Ok a => SOk a | Raise e => SRaise (of_exn8 e) end.

(* ------------------------------------------------------------------ the objects __init__ builds *)
Record svobj := mkVObj { w_def : svar; w_row : type_row; w_decl : decl }.
Record aobj := mkAObj { ab_name : pystr; ab_ins : list (pystr * svobj); ab_outs : list (pystr * svobj) }.
Record svcobj := mkSObj { sb_def : ssvc; sb_vars : list svobj; sb_acts : list aobj }.
Inductive dobj := DObj (h : dev_hdr) (url : pystr) (icons : list icon_def) (svcs : list svcobj) (subs : list dobj).

Definition w_name (w : svobj) : pystr := vr_name (w_def w).
Definition lookup_var (vars : list svobj) (n : pystr) : option svobj :=
  find (fun w => str_eqb (w_name w) n) vars.
Definition find_arg (args : list (pystr * svobj)) (n : pystr) : option svobj :=
  match find (fun p => str_eqb (fst p) n) args with Some p => Some (snd p) | None => None end.

Section Server.
  Variable float_str : fl -> pystr.                       (* float.__repr__ : oracle *)
  Variable float_of_str : pystr -> option fl.             (* float()        : oracle *)
  Variable lower_ext : N -> N.                            (* str.lower() beyond ASCII : oracle *)
  Variable set_iter : list pyval -> list pyval.           (* iteration order of a Python set : oracle *)
  Variable urljoin : pystr -> pystr -> pystr.             (* urllib.parse.urljoin : oracle *)

  (* UpnpServerService.create_state_var: data type row (create_state_var indexes the mapping: KeyError),
     schema of a strict factory (allowed values, then bounds, through the in-coercer), conversion of a
     non-empty default for the schema key, then `state_var.upnp_value = default` (a ValueError of the
     coercer becomes the sentinel; an invalid value raises UpnpValueError out of __init__) *)
  Definition init_var (v : svar) : sres svobj :=
    match find_row (vr_type v) type_table with
    | None => SRaise EKey
    | Some row =>
        match mk_decl float_of_str lower_ext row true (vr_allowed_list v) (vr_has_range v) (vr_min v) (vr_max v) with
        | Raise e => SRaise (of_exn8 e)
        | Ok d =>
            match vr_default v with
            | None => SOk (mkVObj v row d)
            | Some [] =>
                match apply_in float_of_str lower_ext (r_in row) [] with
                | Ok x => if validate d x then SOk (mkVObj v row d) else SRaise EUpnpValue
                | Raise ValueError => SOk (mkVObj v row d)
                | Raise e => SRaise (of_exn8 e)
                end
            | Some t =>
                match apply_in float_of_str lower_ext (r_in row) t with
                | Ok x => if validate d x then SOk (mkVObj v row d) else SRaise EUpnpValue
                | Raise e => SRaise (of_exn8 e)
                end
            end
        end
    end.

  (* _init_action: every argument is bound to self.state_variable(name) (KeyError when there is none);
     in-arguments first, then out-arguments *)
  Definition bind_arg (vars : list svobj) (p : pystr * pystr) : sres (pystr * svobj) :=
    match lookup_var vars (snd p) with Some w => SOk (fst p, w) | None => SRaise EKey end.
  Definition init_action (vars : list svobj) (a : sact) : sres aobj :=
    sbind (smapM (bind_arg vars) (ac_ins a)) (fun ins =>
    sbind (smapM (bind_arg vars) (ac_outs a)) (fun outs =>
    SOk (mkAObj (ac_name a) ins outs))).

  (* UpnpServerService.__init__; self.actions[name] = action: a later action of the same name wins *)
  Definition init_service (s : ssvc) : sres svcobj :=
    sbind (smapM init_var (sc_vars s)) (fun vars =>
    sbind (smapM (init_action vars) (sc_acts s)) (fun acts =>
    SOk (mkSObj s vars (map snd (dict_of ab_name acts))))).

  (* UpnpServerDevice.__init__: services, then embedded devices; UpnpDevice keys both by type *)
  Fixpoint init_device (d : sdev) : sres dobj :=
    match d with
    | SDev h url icons svcs subs =>
        sbind (smapM init_service svcs) (fun ss =>
        sbind (smapM init_device subs) (fun es =>
        SOk (DObj h url icons
                  (map snd (dict_of (fun s => sc_type (sb_def s)) ss))
                  (map snd (dict_of (fun e => match e with DObj h' _ _ _ _ => h_type h' end) es)))))
    end.

  (* ---------------------------------------------------------------- UpnpXmlSerializer, as parsed *)
  Definition rbind {A B} (x : res A) (f : A -> res B) : res B :=
    match x with Ok a => f a | Raise e => Raise e end.
  Definition rmapM {A B} (f : A -> res B) : list A -> res (list B) :=
    fix go (l : list A) : res (list B) :=
      match l with
      | [] => Ok []
      | x :: r => rbind (f x) (fun y => rbind (go r) (fun ys => Ok (y :: ys)))
      end.

  (* UpnpStateVariable.min_value / max_value / default_value: coerce_python of the declared text *)
  Definition get_typed (w : svobj) (o : option pystr) : res (option pyval) :=
    match o with
    | None => Ok None
    | Some t => rbind (apply_in float_of_str lower_ext (r_in (w_row w)) t) (fun v => Ok (Some v))
    end.
  (* UpnpStateVariable.allowed_values: the set of the coerced allowed values *)
  Definition get_allowed (w : svobj) : res (list pyval) :=
    coerce_all float_of_str lower_ext (r_in (w_row w)) (vr_allowed_list (w_def w)).
  (* D35: UpnpStateVariable.coerce_upnp instead of str() *)
  Definition render (w : svobj) (x : pyval) : res pystr := coerce_upnp float_str (w_row w) x.

  Definition el (ns l : pystr) (cs : list xml) : xml := Elem ns l [] None cs.

  (* _state_variable_to_xml (D9: sendEvents from the eventable flag; D34: step; D35: coerce_upnp) *)
  Definition ser_sv (w : svobj) : res xml :=
    let v := w_def w in
    rbind (get_allowed w) (fun al =>
    rbind (match al with
           | [] => Ok []
           | _ => rbind (rmapM (render w) (set_iter al)) (fun ts =>
                  Ok [el ns_service n_allowedValueList (map (leaf ns_service n_allowedValue) ts)])
           end) (fun e_al =>
    rbind (get_typed w (vr_min v)) (fun mn =>
    rbind (get_typed w (vr_max v)) (fun mx =>
    rbind (match mn, mx with
           | Some a, Some b =>
               rbind (render w a) (fun ta => rbind (render w b) (fun tb =>
               Ok [el ns_service n_allowedValueRange
                      ([leaf ns_service n_minimum ta; leaf ns_service n_maximum tb] ++
                       match vr_step v with Some s => [leaf ns_service n_step s] | None => [] end)]))
           | _, _ => Ok []
           end) (fun e_rg =>
    rbind (get_typed w (vr_default v)) (fun df =>
    rbind (match df with
           | Some x => rbind (render w x) (fun t => Ok [leaf ns_service n_defaultValue t])
           | None => Ok []
           end) (fun e_df =>
    Ok (Elem ns_service n_stateVariable [(n_sendEvents, yes_no (vr_evented v))] None
             ([leaf ns_service n_name (vr_name v); leaf ns_service n_dataType (vr_type v)] ++
              e_al ++ e_rg ++ e_df))))))))).

  Definition ser_arg (is_in : bool) (p : pystr * svobj) : xml :=
    el ns_service n_argument
       [leaf ns_service n_name (fst p); leaf ns_service n_direction (if is_in then s_in else s_out);
        leaf ns_service n_relatedStateVariable (w_name (snd p))].
  Definition ser_action (a : aobj) : xml :=
    el ns_service n_action
       (leaf ns_service n_name (ab_name a) ::
        match ab_ins a ++ ab_outs a with
        | [] => []
        | _ => [el ns_service n_argumentList (map (ser_arg true) (ab_ins a) ++ map (ser_arg false) (ab_outs a))]
        end).
  Definition ser_spec (ns : pystr) : xml := el ns n_specVersion [leaf ns n_major [49]; leaf ns n_minor [48]].
  Definition ser_scpd (s : svcobj) : res xml :=
    rbind (rmapM ser_sv (sb_vars s)) (fun vs =>
    Ok (el ns_service n_scpd
           [ser_spec ns_service; el ns_service n_actionList (map ser_action (sb_acts s));
            el ns_service n_serviceStateTable vs])).

  (* UpnpService.control_url & co: resolved against the owning device's url *)
  Definition ser_service (dev_url : pystr) (s : svcobj) : xml :=
    let d := sb_def s in
    el ns_device n_service
       [leaf ns_device n_serviceType (sc_type d); leaf ns_device n_serviceId (sc_id d);
        leaf ns_device n_controlURL (urljoin dev_url (sc_control d));
        leaf ns_device n_eventSubURL (urljoin dev_url (sc_event d));
        leaf ns_device n_SCPDURL (urljoin dev_url (sc_scpd d))].
  Definition ser_icon (i : icon_def) : xml :=
    el ns_device n_icon
       [leaf ns_device n_mimetype (ic_mime i); leaf ns_device n_width (str_of_int (ic_w i));
        leaf ns_device n_height (str_of_int (ic_h i)); leaf ns_device n_depth (str_of_int (ic_d i));
        leaf ns_device n_url (ic_url i)].
  Definition ser_hdr (h : dev_hdr) : list xml :=
    [leaf ns_device n_deviceType (h_type h); leaf ns_device n_friendlyName (h_friendly h);
     leaf ns_device n_manufacturer (h_manufacturer h); leaf ns_device n_manufacturerURL (or_empty (h_manufacturer_url h));
     leaf ns_device n_modelDescription (or_empty (h_model_desc h)); leaf ns_device n_modelName (h_model_name h);
     leaf ns_device n_modelNumber (or_empty (h_model_number h)); leaf ns_device n_modelURL (or_empty (h_model_url h));
     leaf ns_device n_serialNumber (or_empty (h_serial h)); leaf ns_device n_UDN (h_udn h);
     leaf ns_device n_UPC (or_empty (h_upc h)); leaf ns_device n_presentationURL (or_empty (h_presentation h))].
  Fixpoint ser_dev (d : dobj) : xml :=
    match d with
    | DObj h url icons svcs subs =>
        el ns_device n_device
           (ser_hdr h ++
            [el ns_device n_iconList (map ser_icon icons);
             el ns_device n_serviceList (map (ser_service url) svcs);
             el ns_device n_deviceList (map ser_dev subs)])
    end.
  Definition ser_root (d : dobj) : xml := el ns_device n_root [ser_spec ns_device; ser_dev d].

  (* all services with the url of their device, in the order device.all_services visits them *)
  Fixpoint all_svcobjs (d : dobj) : list (pystr * svcobj) :=
    match d with
    | DObj _ url _ svcs subs => map (fun s => (url, s)) svcs ++ flat_map all_svcobjs subs
    end.

  (* ---------------------------------------------------------------- the client, on the served documents *)
  (* GET: the route of the first service whose (resolved) SCPD URL this is; a raising to_xml is aiohttp's 500 *)
  Definition served_scpd_url (base : pystr) (p : pystr * svcobj) : pystr :=
    urljoin base (urljoin (fst p) (sc_scpd (sb_def (snd p)))).
  Definition fetch_srv (base : pystr) (d : dobj) (url : pystr) : fetched :=
    match find (fun p => str_eqb (served_scpd_url base p) url) (all_svcobjs d) with
    | Some p => match ser_scpd (snd p) with Ok x => FDoc (parse_scpd x) | Raise _ => FStatus 500%Z end
    | None => FStatus 404%Z
    end.
  (* UpnpFactory(requester).async_create_device(base) against the server's handlers *)
  Definition describe (probes : list pyval) (base : pystr) (d : dobj) : fres dev_o :=
    create_device urljoin float_of_str lower_ext (fetch_srv base d) true probes base (RDoc (ser_root d)).

  (* the <step> texts the client's state variables hold (type_info.allowed_value_range["step"]):
     (service type, variable name, step) *)
  Definition steps_of_scpd (st : pystr) (p : p_scpd) : list (pystr * pystr * option pystr) :=
    match pd_table p with
    | Some l => map (fun v => (st, strip (or_empty (pv_name v)),
                               match pv_range v with Some (_, _, s) => s | None => None end)) l
    | None => []
    end.
  Definition describe_steps (d : dobj) : list (pystr * pystr * option pystr) :=
    flat_map (fun p => match ser_scpd (snd p) with
                       | Ok x => steps_of_scpd (sc_type (sb_def (snd p))) (parse_scpd x)
                       | Raise _ => []
                       end) (all_svcobjs d).

  (* the client's UpnpAction of a service, read from the served SCPD: its arguments with the declaration
     of the related state variable (C06.argdef); None = no such action / an argument without variable *)
  Definition argdef_of (svs : list p_sv) (a : pystr * pystr * pystr) : option C06.Model.argdef :=
    let '(n, dir, rsv) := a in
    match find (fun v => str_eqb (strip (or_empty (pv_name v))) rsv) svs with
    | Some v =>
        Some (C06.Model.mkArg n (str_eqb dir s_in) (or_empty (pv_dataType v))
                (match pv_allowed v with Some l => l | None => [] end)
                (match pv_range v with Some _ => true | None => false end)
                (match pv_range v with Some (a, _, _) => a | None => None end)
                (match pv_range v with Some (_, b, _) => b | None => None end))
    | None => None
    end.
  Fixpoint opt_all {A} (l : list (option A)) : option (list A) :=
    match l with
    | [] => Some []
    | Some x :: r => match opt_all r with Some t => Some (x :: t) | None => None end
    | None :: _ => None
    end.
  Definition client_action (p : p_scpd) (name : pystr) : option (list C06.Model.argdef) :=
    match pd_table p with
    | None => None
    | Some svs =>
        match find (fun a => match pa_name a with Some n => str_eqb n name | None => false end) (pd_actions p) with
        | Some a => opt_all (map (argdef_of svs) (pa_args a))
        | None => None
        end
    end.

  (* ---------------------------------------------------------------- _parse_action_body *)
  Definition c_quote : N := 34.
  Definition c_hash : N := 35.
  Fixpoint lstrip_q (s : pystr) : pystr :=
    match s with c :: r => if c =? c_quote then lstrip_q r else s | [] => [] end.
  Definition strip_q (s : pystr) : pystr := rev (lstrip_q (rev (lstrip_q s))).        (* str.strip of the double quote *)
  Fixpoint split_hash (s cur_rev : pystr) : list pystr :=                              (* str.split("#") *)
    match s with
    | [] => [rev cur_rev]
    | c :: r => if c =? c_hash then rev cur_rev :: split_hash r [] else split_hash r (c :: cur_rev)
    end.
  (* `_, action_name = soap_action.split("#")`: exactly one '#' or ValueError *)
  Definition soap_action_name (hdr : option pystr) : option pystr :=
    match split_hash (strip_q (or_empty hdr)) [] with [_; n] => Some n | _ => None end.

  (* ElementTree's tag of an element: "{namespace}local" or "local" *)
  Definition etag (ns l : pystr) : pystr := match ns with [] => l | _ => 123 :: ns ++ 125 :: l end.
  Definition xkids (x : xtree) : list xtree := match x with XE _ _ _ _ k => k end.
  Definition is_soap_body (x : xtree) : bool :=
    match x with XE n l _ _ _ => str_eqb n C06.Spec.ns_soap_env && str_eqb l C06.Spec.s_Body end.
  (* root_el.find("s:Body", NAMESPACES); assert body_el (an element without children is falsy); body_el[0] *)
  Definition rpc_of (t : xtree) : option xtree :=
    match find is_soap_body (xkids t) with
    | Some b => match xkids b with r :: _ => Some r | [] => None end
    | None => None
    end.

  Inductive sresp :=
  | RBad (reason : N)                          (* HTTPBadRequest: 1 InvalidSoap, 2 InvalidAction, 3 InvalidActionArgument *)
  | ROk (args : list (pystr * pystr))          (* 200: the out-arguments written, in order *)
  | RFault (code : Z)                          (* 500 + SOAP fault with this UPnP error code *)
  | REsc (e : sexn).                           (* an exception leaves the handler: aiohttp answers 500 without a fault *)

  (* for arg in rpc_el: action.argument(arg.tag, "in") ; coerce_python(arg.text or "") ; kwargs[arg.tag] = ...
     (D10: a ValueError of the coercer is answered 400) *)
  Fixpoint parse_args (ins : list (pystr * svobj)) (kids : list xtree) (acc : dict pystr pyval)
    : sresp + dict pystr pyval :=
    match kids with
    | [] => inr acc
    | XE ns l _ text _ :: r =>
        match find_arg ins (etag ns l) with
        | None => inl (RBad 3)
        | Some w =>
            match apply_in float_of_str lower_ext (r_in (w_row w)) text with
            | Ok v => parse_args ins r (dset str_eqb acc (etag ns l) v)
            | Raise ValueError => inl (RBad 3)
            | Raise e => inl (REsc (of_exn8 e))
            end
        end
    end.

  Inductive preq := PResp (r : sresp) | PCall (a : aobj) (kw : dict pystr pyval).
  Definition parse_action_body (s : svcobj) (hdr : option pystr) (body : option xtree) : preq :=
    match soap_action_name hdr, body with
    | Some name, Some t =>
        match rpc_of t with
        | None => PResp (RBad 1)
        | Some rpc =>
            match find (fun a => str_eqb (ab_name a) name) (sb_acts s) with
            | None => PResp (RBad 2)
            | Some a =>
                match parse_args (ab_ins a) (xkids rpc) [] with
                | inl r => PResp r
                | inr kw =>
                    (* D10: every in-argument must have been supplied *)
                    if forallb (fun p => dhas str_eqb kw (fst p)) (ab_ins a) then PCall a kw
                    else PResp (RBad 3)
                end
            end
        end
    | _, _ => PResp (RBad 1)
    end.

  (* ---------------------------------------------------------------- action_handler *)
  (* what the (scripted) handler method does when it is reached *)
  Inductive hscript :=
  | HReturn (outs : list (pystr * pyval))       (* return {out-argument: python value} *)
  | HActionError (code : option Z)              (* raise UpnpActionError(error_code=code) *)
  | HValueError                                 (* raise UpnpValueError *)
  | HCrash.                                     (* any other exception: the handler's own bug *)

  (* UpnpAction.validate_arguments on the coerced kwargs *)
  Inductive vres := VOk | VMissing | VInvalid.
  Fixpoint validate_ins (ins : list (pystr * svobj)) (kw : dict pystr pyval) : vres :=
    match ins with
    | [] => VOk
    | (n, w) :: r =>
        match dget str_eqb kw n with
        | None => VMissing
        | Some v => if validate (w_decl w) v then validate_ins r kw else VInvalid
        end
    end.

  (* _create_action_response: out_state_vars[key] (KeyError), validate_value (UpnpValueError, outside the
     try block), coerce_upnp *)
  Fixpoint render_outs (outs : list (pystr * svobj)) (result : list (pystr * pyval)) : sres (list (pystr * pystr)) :=
    match result with
    | [] => SOk []
    | (k, v) :: r =>
        match find_arg outs k with
        | None => SRaise EKey
        | Some w =>
            if validate (w_decl w) v then
              match render w v with
              | Ok t => sbind (render_outs outs r) (fun l => SOk ((k, t) :: l))
              | Raise e => SRaise (of_exn8 e)
              end
            else SRaise EUpnpValue
        end
    end.

  (* `exception.error_code or ACTION_FAILED` *)
  Definition fault_code_of (code : option Z) : Z :=
    match code with Some c => if (c =? 0)%Z then 501%Z else c | None => 501%Z end.

  (* service.async_handle_action + the except clauses + the response; also: what the handler saw *)
  Definition run_action (a : aobj) (kw : dict pystr pyval) (h : hscript) : option (dict pystr pyval) * sresp :=
    match validate_ins (ab_ins a) kw with
    | VMissing => (None, REsc EUpnp)                    (* UpnpError('Missing argument'): not caught *)
    | VInvalid => (None, RFault 402%Z)                  (* UpnpValueError -> 402 *)
    | VOk =>
        (Some kw,
         match h with
         | HReturn outs => match render_outs (ab_outs a) outs with SOk l => ROk l | SRaise e => REsc e end
         | HActionError code => RFault (fault_code_of code)
         | HValueError => RFault 402%Z
         | HCrash => REsc EOther
         end)
    end.

  Definition handle (s : svcobj) (hdr : option pystr) (body : option xtree) (h : hscript)
    : option (dict pystr pyval) * sresp :=
    match parse_action_body s hdr body with
    | PResp r => (None, r)
    | PCall a kw => run_action a kw h
    end.

  (* ---------------------------------------------------------------- the responses, as the client's parser sees them *)
  Definition s_Envelope : pystr := [69;110;118;101;108;111;112;101].
  Definition tag_envelope : pystr := C07.Model.qname C07.Model.ns_soap s_Envelope.
  Definition otext (t : pystr) : option pystr := match t with [] => None | _ => Some t end.
  Definition out_elem (p : pystr * pystr) : C07.Model.xml := C07.Model.Elem (fst p) (otext (snd p)) [].
  (* <s:Envelope><s:Body><st:{Action}Response xmlns:st={service type}> <k>text</k>... *)
  Definition resp_tree (st name : pystr) (args : list (pystr * pystr)) : C07.Model.xml :=
    C07.Model.Elem tag_envelope None
      [C07.Model.Elem C07.Model.tag_body None
         [C07.Model.Elem (C07.Model.qname st (name ++ C07.Model.s_Response)) None (map out_elem args)]].
  Definition s_faultcode : pystr := [102;97;117;108;116;99;111;100;101].
  Definition s_faultstring : pystr := [102;97;117;108;116;115;116;114;105;110;103].
  Definition s_detail : pystr := [100;101;116;97;105;108].
  Definition s_UPnPError : pystr := [85;80;110;80;69;114;114;111;114].
  Definition s_s_Client : pystr := [115;58;67;108;105;101;110;116].                               (* s:Client *)
  Definition s_Action_Failed : pystr := [65;99;116;105;111;110;32;70;97;105;108;101;100].          (* Action Failed *)
  Definition fault_tree_srv (code : Z) : C07.Model.xml :=
    C07.Model.Elem tag_envelope None
      [C07.Model.Elem C07.Model.tag_body None
         [C07.Model.Elem C07.Model.tag_fault None
            [C07.Model.Elem s_faultcode (Some s_s_Client) [];
             C07.Model.Elem s_faultstring (Some s_UPnPError) [];
             C07.Model.Elem s_detail None
               [C07.Model.Elem (C07.Model.qname C07.Model.ns_control s_UPnPError) None
                  [C07.Model.Elem C07.Model.tag_error_code (Some (str_of_int code)) [];
                   C07.Model.Elem C07.Model.tag_error_desc (Some s_Action_Failed) []]]]]].

  Definition status_of (r : sresp) : Z :=
    match r with RBad _ => 400%Z | ROk _ => 200%Z | RFault _ | REsc _ => 500%Z end.
  (* the text -> tree oracle of the client, on the body of this response (the body of a 400 / of aiohttp's
     own 500 is not XML) *)
  Definition parse_of (st name : pystr) (r : sresp) (_ : pystr) : C07.Model.parsed :=
    match r with
    | ROk args => C07.Model.PTree (resp_tree st name args)
    | RFault code => C07.Model.PTree (fault_tree_srv code)
    | RBad _ | REsc _ => C07.Model.PParseError
    end.

  (* ---------------------------------------------------------------- one call through the client *)
  Inductive call_obs :=
  | CNoAction                                         (* the client's model has no such action *)
  | CCreateFailed                                     (* the client could not build a declaration *)
  | CRefused (e : C06.Model.cexn)                     (* async_call raised before anything was sent *)
  | CDone (seen : option (dict pystr pyval))          (* the kwargs the handler method received *)
          (resp : sresp)                              (* what the server answered *)
          (out : C07.Model.outcome).                  (* what async_call returned / raised *)

  Definition cfg_of (st name : pystr) (args : list C06.Model.argdef) : C07.Model.config :=
    C07.Model.mkConfig st name
      (map (fun a => C07.Model.mkArg (C06.Model.a_name a) (if C06.Model.a_in a then s_in else s_out) (C06.Model.a_type a)) args)
      false.

  Definition call_through (base : pystr) (p : pystr * svcobj) (name : pystr) (kw : list (pystr * pyval))
             (h : hscript) : call_obs :=
    let s := snd p in
    let st := sc_type (sb_def s) in
    match ser_scpd s with
    | Raise _ => CNoAction
    | Ok x =>
        match client_action (parse_scpd x) name with
        | None => CNoAction
        | Some argdefs =>
            match C06.Model.prepare float_of_str lower_ext true argdefs with
            | Raise _ => CCreateFailed
            | Ok args =>
                let url := urljoin base (urljoin (fst p) (sc_control (sb_def s))) in
                let c := C06.Model.mkCall true st name argdefs url (C06.Spec.authority url) kw in
                match C06.Model.async_call float_str c args with
                | (Some e, _) => CRefused e
                | (None, q :: _) =>
                    let '(seen, r) := handle s (C06.Spec.hdr_get (C06.Model.q_headers q) C06.Model.h_soapaction)
                                             (xml_read (C06.Model.q_body q)) h in
                    CDone seen r
                          (C07.Model.call (parse_of st name r) float_of_str lower_ext (cfg_of st name argdefs)
                                          (status_of r) (Some []))
                | (None, []) => CCreateFailed
                end
            end
        end
    end.
End Server.
