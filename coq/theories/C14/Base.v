(* C14 — shared lemmas: the little monads of the model, decidable equalities, the pointwise round trip of
   a typed text through the wire format, validation against permuted / deduplicated allowed lists. *)
From Coq Require Import List Bool NArith ZArith Lia.
From AUC Require Import Prelude.PyStr Prelude.PyDict C08.TypesDef C08.Model C08.Spec C08.Codec Gen.Types Gen.DateMatchers
  C05.Xml C05.Names C05.Model C05.Def C05.Spec C05.Lemmas C06.XmlRead C14.Model C14.Spec.
From AUC Require C06.Model C06.Spec C06.Values C06.Shape.
Import ListNotations.
Local Open Scope N_scope.

(* ------------------------------------------------------------------ monads *)
Lemma smapM_ok {A B} (f : A -> sres B) (g : A -> B) l :
  (forall x, In x l -> f x = SOk (g x)) -> smapM f l = SOk (map g l).
Proof.
  induction l as [|x l IH]; intros H; cbn; [reflexivity|].
  rewrite (H x (or_introl eq_refl)). cbn. rewrite IH by (intros; apply H; now right). reflexivity.
Qed.
Lemma rmapM_ok {A B} (f : A -> res B) (g : A -> B) l :
  (forall x, In x l -> f x = Ok (g x)) -> rmapM f l = Ok (map g l).
Proof.
  induction l as [|x l IH]; intros H; cbn; [reflexivity|].
  rewrite (H x (or_introl eq_refl)). cbn. rewrite IH by (intros; apply H; now right). reflexivity.
Qed.

Lemma find_map {A B} (f : A -> B) (p : B -> bool) (l : list A) :
  find p (map f l) = option_map f (find (fun x => p (f x)) l).
Proof. induction l as [|x l IH]; cbn; [reflexivity|]. destruct (p (f x)); [reflexivity | exact IH]. Qed.
Lemma find_ext {A} (p q : A -> bool) l : (forall x, p x = q x) -> find p l = find q l.
Proof. intros H. induction l as [|x l IH]; cbn; [reflexivity|]. now rewrite H, IH. Qed.
Lemma find_some_in {A} (p : A -> bool) l x : find p l = Some x -> In x l /\ p x = true.
Proof. apply find_some. Qed.
Lemma find_name_in {A} (key : A -> pystr) (l : list A) k :
  In k (map key l) -> exists x, find (fun x => str_eqb (key x) k) l = Some x /\ key x = k.
Proof.
  induction l as [|x l IH]; cbn; [tauto|]. destruct (str_eqb_spec (key x) k) as [E|Hne].
  - intros _. now exists x.
  - intros [E|Hin]; [congruence | now apply IH].
Qed.
Lemma nodupb_NoDup' l : nodupb l = true -> NoDup l.
Proof. apply nodupb_NoDup. Qed.

Lemma existsb_str_in x l : In x l -> existsb (str_eqb x) l = true.
Proof. intros H. apply existsb_exists. exists x. split; [assumption | apply str_eqb_refl]. Qed.

Lemma map_snd_dict_of {A} (key : A -> pystr) (l : list A) :
  NoDup (map key l) -> map snd (dict_of key l) = l.
Proof. intros H. rewrite dict_of_nodup by assumption. rewrite map_map. cbn. apply map_id. Qed.

(* ------------------------------------------------------------------ equalities *)
Lemma fl_eqb_eq a b : fl_eqb a b = true -> a = b.
Proof.
  destruct a, b; cbn; try discriminate; intros H.
  - apply andb_true_iff in H as [H1 H2]. apply Z.eqb_eq in H1, H2. now subst.
  - apply Bool.eqb_prop in H. now subst.
  - reflexivity.
Qed.

(* ------------------------------------------------------------------ the round trip of one typed text *)
Section RoundTrip.
  Variable float_str : fl -> pystr.
  Variable float_of_str : pystr -> option fl.
  Variable lower_ext : N -> N.

  Notation typed := (typed float_str float_of_str lower_ext).

  Lemma coerce_upnp_domain row v :
    value_in_domain (r_type row) v = true -> coerce_upnp float_str row v = apply_out float_str (r_out row) v.
  Proof. unfold coerce_upnp. destruct (r_type row), v; try reflexivity; discriminate. Qed.

  (* a value of the domain whose float (if any) this very printer/parser pair maps back: written by the
     out-coercer, read back by the in-coercer *)
  Lemma rt_value row v :
    In row type_table -> value_in_domain (r_type row) v = true -> float_rt float_str float_of_str v = true ->
    exists w, coerce_upnp float_str row v = Ok w /\ apply_in float_of_str lower_ext (r_in row) w = Ok v.
  Proof.
    intros Hin Hdom Hfl. rewrite (coerce_upnp_domain row v Hdom).
    pose proof C06.Values.table_float_ok as T. rewrite forallb_forall in T. specialize (T row Hin).
    unfold C06.Values.row_float_ok in T.
    assert (Hcases : (exists f, v = VFloat f) \/ (forall f, v <> VFloat f)).
    { destruct v; try (right; intros; discriminate). left. now exists f. }
    destruct Hcases as [[f ->]|Hnf].
    - destruct (r_type row) eqn:Et; try discriminate Hdom.
      destruct (r_in row) eqn:Ei; try discriminate T. destruct (r_out row) eqn:Eo; try discriminate T.
      exists (float_str f). cbn [apply_out py_str apply_in]. split; [reflexivity|].
      cbn [float_rt] in Hfl. destruct (float_of_str (float_str f)) as [g|]; [|discriminate].
      apply fl_eqb_eq in Hfl. now subst g.
    - destruct (roundtrip C06.Values.enc_fl C06.Values.dec_fl lower_ext (fun f _ => C06.Values.dec_enc_fl f) row v Hin Hdom)
        as (w0 & Ho & Hi & _).
      exists w0. rewrite (C06.Values.apply_out_indep float_str C06.Values.enc_fl _ _ Hnf). split; [exact Ho|].
      rewrite (C06.Values.apply_in_indep float_of_str lower_ext C06.Values.dec_fl); [exact Hi|].
      intros Ei. rewrite Ei in T. destruct (r_type row) eqn:Et; try discriminate T.
      destruct v; try discriminate Hdom. now apply (Hnf f).
  Qed.

  Lemma typed_parts row t v :
    typed row t = Some v ->
    t <> [] /\ apply_in float_of_str lower_ext (r_in row) t = Ok v /\ value_in_domain (r_type row) v = true /\
    float_rt float_str float_of_str v = true /\ wire_nonempty float_str row v = true.
  Proof.
    unfold Spec.typed. destruct t as [|c t]; [discriminate|].
    destruct (apply_in float_of_str lower_ext (r_in row) (c :: t)) as [x|] eqn:E; [|discriminate].
    destruct (value_in_domain (r_type row) x && float_rt float_str float_of_str x && wire_nonempty float_str row x) eqn:H;
      [|discriminate].
    intros [= <-]. apply andb_true_iff in H as [H H3]. apply andb_true_iff in H as [H1 H2].
    repeat split; try assumption. discriminate.
  Qed.

  (* the wire text of a typed text is again a typed text of the same value *)
  Lemma typed_render row t v :
    In row type_table -> typed row t = Some v ->
    exists w, coerce_upnp float_str row v = Ok w /\ typed row w = Some v.
  Proof.
    intros Hin Ht. destruct (typed_parts row t v Ht) as (_ & _ & Hd & Hf & Hw).
    destruct (rt_value row v Hin Hd Hf) as (w & Ho & Hi). exists w. split; [exact Ho|].
    pose proof Hw as Hw0. unfold wire_nonempty in Hw. rewrite Ho in Hw. destruct w as [|c w]; [discriminate|].
    unfold Spec.typed. rewrite Hi, Hd, Hf, Hw0. reflexivity.
  Qed.
End RoundTrip.

(* ------------------------------------------------------------------ validation and allowed lists as sets *)
Lemma existsb_same {A} (p : A -> bool) (l1 l2 : list A) :
  (forall x, In x l1 <-> In x l2) -> existsb p l1 = existsb p l2.
Proof.
  intros H. destruct (existsb p l1) eqn:E1; symmetry.
  - apply existsb_exists in E1 as (x & Hx & Hp). apply existsb_exists. exists x. split; [now apply H | assumption].
  - destruct (existsb p l2) eqn:E2; [|reflexivity].
    apply existsb_exists in E2 as (x & Hx & Hp).
    assert (existsb p l1 = true) by (apply existsb_exists; exists x; split; [now apply H | assumption]). congruence.
Qed.

Lemma allowed_ok_same d1 d2 v :
  (forall x, In x (d_allowed d1) <-> In x (d_allowed d2)) -> allowed_ok d1 v = allowed_ok d2 v.
Proof.
  intros H. unfold allowed_ok.
  destruct (d_allowed d1) as [|a1 l1] eqn:E1, (d_allowed d2) as [|a2 l2] eqn:E2; try reflexivity.
  - exfalso. apply (H a2). now left.
  - exfalso. apply (H a1). now left.
  - now apply existsb_same.
Qed.

Lemma validate_same d1 d2 v :
  d_row d1 = d_row d2 -> d_min d1 = d_min d2 -> d_max d1 = d_max d2 ->
  (forall x, In x (d_allowed d1) <-> In x (d_allowed d2)) -> validate d1 v = validate d2 v.
Proof.
  intros Hr Hmn Hmx Hal. unfold validate, type_ok, tz_ok, range_ok.
  rewrite Hr, Hmn, Hmx, (allowed_ok_same d1 d2 v Hal). reflexivity.
Qed.
