(* C14 — the property restated.  The statement has four sentences; each is an executable boolean over
   (input, observation), so that the same definitions judge the model (theorems) and the implementation's
   observations (correspondence check):

     1 c_description  the documents the server serves are parsed by the library's client into a model equal
                      to the definition                  = C05's mirror_dev against [def_of] + the <step> texts;
     2 c_call         an action invoked through that client model with valid arguments reaches the handler
                      with the same typed values and returns the handler's typed results to the caller;
     3 c_fault        a handler-raised action error reaches the caller as an action error with the same code;
     4 c_bad_request  missing / unknown / unparseable / out-of-range (not allowed) arguments, an unknown
                      action or a malformed envelope produce a SOAP fault or a 4xx status; and no request
                      whatever makes an exception leave the server's handler.

   Readings (interpretive decisions) are the definitions marked "Reading". *)
From Coq Require Import List Bool NArith ZArith.
From AUC Require Import Prelude.PyStr Prelude.PyDict C08.TypesDef C08.Model C08.Spec Gen.Types Gen.DateMatchers
  C05.Xml C05.Names C05.Model C05.Def C05.Spec C06.XmlRead C14.Model.
From AUC Require C06.Model C06.Spec C07.Model C07.Spec.
Import ListNotations.
Local Open Scope N_scope.

(* ------------------------------------------------------------------ the definition in C05's vocabulary *)
Definition svdef_of (v : svar) : sv_def :=
  {| sd_name := vr_name v; sd_type := vr_type v; sd_attr := true; sd_evented := vr_evented v;
     sd_default := vr_default v; sd_range := vr_range v; sd_allowed := vr_allowed v |}.
Definition argdef_in (p : pystr * pystr) : arg_def :=
  {| ag_name := fst p; ag_in := true; ag_retval := false; ag_rsv := snd p |}.
Definition argdef_out (p : pystr * pystr) : arg_def :=
  {| ag_name := fst p; ag_in := false; ag_retval := false; ag_rsv := snd p |}.
Definition actdef_of (a : sact) : action_def :=
  {| ad_name := ac_name a; ad_args := map argdef_in (ac_ins a) ++ map argdef_out (ac_outs a) |}.
Definition svcdef_of (s : ssvc) : service_def :=
  {| s_type := sc_type s; s_id := sc_id s; s_scpd := sc_scpd s; s_control := sc_control s; s_event := sc_event s;
     s_vars := map svdef_of (sc_vars s); s_actions := map actdef_of (sc_acts s); s_corrupt := CNone |}.
Fixpoint def_of (d : sdev) : device_def :=
  match d with SDev h _ icons svcs subs => DeviceDef h icons (map svcdef_of svcs) (map def_of subs) end.

(* all services of the tree with the url of their device, in visiting order *)
Fixpoint all_ssvcs (d : sdev) : list (pystr * ssvc) :=
  match d with SDev _ url _ svcs subs => map (fun s => (url, s)) svcs ++ flat_map all_ssvcs subs end.

(* the <step> the client must hold for every state variable of the tree *)
Definition expected_steps (d : sdev) : list (pystr * pystr * option pystr) :=
  flat_map (fun p => map (fun v => (sc_type (snd p), vr_name v, vr_step v)) (sc_vars (snd p))) (all_ssvcs d).
Definition step_eqb (a b : pystr * pystr * option pystr) : bool :=
  str_eqb (fst (fst a)) (fst (fst b)) && str_eqb (snd (fst a)) (snd (fst b)) && opt_eqb str_eqb (snd a) (snd b).

Section Spec.
  Variable float_str : fl -> pystr.
  Variable float_of_str : pystr -> option fl.
  Variable lower_ext : N -> N.
  Variable urljoin : pystr -> pystr -> pystr.

  (* -------------------------------------------------------------- which definitions the statement is about *)
  (* Reading [typed text]: a default / bound / allowed value is a non-empty spelling of a value of the
     declared type inside C08's round-trip domain (all ints, bools, strings, non-nan floats that this very
     float printer/parser pair maps back, dates 0001..9999, whole-second times with whole-minute offsets) *)
  Definition float_rt (v : pyval) : bool :=
    match v with
    | VFloat f => match float_of_str (float_str f) with Some g => fl_eqb f g | None => false end
    | _ => true
    end.
  (* ... whose wire text (UpnpStateVariable.coerce_upnp) is not empty *)
  Definition wire_nonempty (row : type_row) (v : pyval) : bool :=
    match coerce_upnp float_str row v with Ok (_ :: _) => true | _ => false end.
  Definition typed (row : type_row) (t : pystr) : option pyval :=
    match t with
    | [] => None
    | _ => match apply_in float_of_str lower_ext (r_in row) t with
           | Ok v => if value_in_domain (r_type row) v && float_rt v && wire_nonempty row v then Some v else None
           | Raise _ => None
           end
    end.
  Definition is_typed (row : type_row) (t : pystr) : bool :=
    match typed row t with Some _ => true | None => false end.
  (* Reading [ordered]: ranges and allowed lists are declared on values Python can order and C08 models:
     not on time-zone aware times (C05 makes the same exclusion) *)
  Definition naive (v : pyval) : bool :=
    match v with
    | VTime t | VDateTime _ t => match ttz t with None => true | Some _ => false end
    | _ => true
    end.
  Definition is_ordered (row : type_row) (t : pystr) : bool :=
    match typed row t with Some v => naive v | None => false end.

  Definition opt_ok (f : pystr -> bool) (o : option pystr) : bool := match o with Some t => f t | None => true end.

  (* Reading [range]: an allowed_range names both its minimum and its maximum (UDA: both REQUIRED); the
     step is optional free text *)
  Definition wf_svar (v : svar) : bool :=
    match find_row (vr_type v) type_table with
    | None => false
    | Some row =>
        nonempty (vr_name v) && str_eqb (strip (vr_name v)) (vr_name v) &&
        opt_ok (is_typed row) (vr_default v) &&
        match vr_range v with
        | None => true
        | Some (Some mn, Some mx, _) => is_ordered row mn && is_ordered row mx && negb (r_tz row)
        | Some _ => false
        end &&
        match vr_allowed v with
        | None => true
        | Some l => forallb (is_ordered row) l && negb (r_tz row)
        end &&
        (* the service object can be built: the default value satisfies its own declaration *)
        match init_var float_of_str lower_ext v with SOk _ => true | SRaise _ => false end
    end.

  (* argument and action names are XML names (they become element names); arguments name existing
     variables; in_args / out_args are mappings: no name twice *)
  Definition wf_sact (vars : list pystr) (a : sact) : bool :=
    is_ncname (ac_name a) &&
    forallb (fun p => is_ncname (fst p) && existsb (str_eqb (snd p)) vars) (ac_ins a ++ ac_outs a) &&
    nodupb (map fst (ac_ins a)) && nodupb (map fst (ac_outs a)).

  (* Reading [server URLs]: the three URLs of a service are written so that resolving them against the
     device's own url leaves them unchanged (absolute paths: aiohttp's router accepts nothing else) *)
  Definition wf_ssvc (dev_url : pystr) (s : ssvc) : bool :=
    C07.Spec.name_ok (sc_type s) &&
    str_eqb (urljoin dev_url (sc_scpd s)) (sc_scpd s) && str_eqb (urljoin dev_url (sc_control s)) (sc_control s) &&
    str_eqb (urljoin dev_url (sc_event s)) (sc_event s) &&
    forallb wf_svar (sc_vars s) && nodupb (map vr_name (sc_vars s)) &&
    forallb (wf_sact (map vr_name (sc_vars s))) (sc_acts s) && nodupb (map ac_name (sc_acts s)) &&
    forallb C06.Spec.attr_safe_char (sc_type s).

  Fixpoint wf_stree (d : sdev) : bool :=
    match d with SDev _ url _ svcs subs => forallb (wf_ssvc url) svcs && forallb wf_stree subs end.

  (* C05's well-formedness of the definition as a description (URL styles, one SCPD URL per service, ...)
     and, as for C05 (known findings D32 / D33 of the client), distinct types among siblings: the server's
     own UpnpDevice is keyed by type as well *)
  Definition wf_sdev (base : pystr) (d : sdev) : bool :=
    wf_stree d && wf_dev urljoin float_of_str lower_ext base (def_of d) &&
    negb (kf_dup_device_types (def_of d)) && negb (kf_dup_service_types (def_of d)).

  (* -------------------------------------------------------------- clause 1 *)
  Definition c_description (probes : list pyval) (base : pystr) (d : sdev)
             (ob : fres dev_o) (steps : list (pystr * pystr * option pystr)) : bool :=
    match ob with
    | FOk o => mirror_dev urljoin float_of_str lower_ext true probes base (def_of d) o &&
               list_eqb step_eqb (expected_steps d) steps
    | FRaise _ => false
    end.

  (* -------------------------------------------------------------- the declarations of the definition *)
  (* the state variable an argument is related to, with the declaration its texts denote *)
  Definition decl_of (v : svar) : option decl :=
    match find_row (vr_type v) type_table with
    | Some row =>
        match mk_decl float_of_str lower_ext row true (vr_allowed_list v) (vr_has_range v) (vr_min v) (vr_max v) with
        | Ok d => Some d
        | Raise _ => None
        end
    | None => None
    end.
  Definition var_named (s : ssvc) (n : pystr) : option svar := find (fun v => str_eqb (vr_name v) n) (sc_vars s).
  Definition arg_decl (s : ssvc) (p : pystr * pystr) : option decl :=
    match var_named s (snd p) with Some v => decl_of v | None => None end.
  Definition act_named (s : ssvc) (n : pystr) : option sact := find (fun a => str_eqb (ac_name a) n) (sc_acts s).

  (* the value is a value of the C08/C06 domain: right type, float printed and parsed back by this very
     oracle pair, strings made of XML-legal characters *)
  Definition value_ok (d : decl) (v : pyval) : bool := C06.Spec.value_ok float_str float_of_str d v.

  (* "valid arguments": every in-argument is supplied with a value its declaration accepts *)
  Definition args_valid (s : ssvc) (a : sact) (kw : list (pystr * pyval)) : bool :=
    forallb (fun p => match arg_decl s p, C06.Model.kw_get kw (fst p) with
                      | Some d, Some v => spec_accepts d v
                      | _, _ => false
                      end) (ac_ins a).
  Definition args_in_domain (s : ssvc) (a : sact) (kw : list (pystr * pyval)) : bool :=
    forallb (fun p => match arg_decl s p, C06.Model.kw_get kw (fst p) with
                      | Some d, Some v => value_ok d v
                      | _, _ => false
                      end) (ac_ins a).
  (* "the handler's typed results": a mapping from out-arguments to values their variables accept *)
  Definition outs_valid (s : ssvc) (a : sact) (outs : list (pystr * pyval)) : bool :=
    nodupb (map fst outs) &&
    forallb (fun kv => match find (fun p => str_eqb (fst p) (fst kv)) (ac_outs a) with
                       | Some p => match arg_decl s p with
                                   | Some d => spec_accepts d (snd kv) && value_ok d (snd kv)
                                   | None => false
                                   end
                       | None => false
                       end) outs.

  (* Reading [same value]: Python equality, True == 1 (a bool offered for an integer argument is the
     integer it equals: C06, D26) *)
  Definition same (a b : pyval) : bool := C06.Spec.same_value a b.

  (* -------------------------------------------------------------- clauses 2 and 3 *)
  Definition kwargs_reach (a : sact) (kw : list (pystr * pyval)) (seen : dict pystr pyval) : bool :=
    nodupb (dkeys seen) && (length seen =? length (ac_ins a))%nat &&
    forallb (fun p => match C06.Model.kw_get kw (fst p), dget str_eqb seen (fst p) with
                      | Some v, Some v' => same v v'
                      | _, _ => false
                      end) (ac_ins a).
  Definition results_return (outs : list (pystr * pyval)) (got : dict pystr pyval) : bool :=
    nodupb (dkeys got) && (length got =? length outs)%nat &&
    forallb (fun kv => match dget str_eqb got (fst kv) with Some v' => same (snd kv) v' | None => false end) outs.

  Definition c_call (s : ssvc) (name : pystr) (kw : list (pystr * pyval)) (h : hscript) (ob : call_obs) : bool :=
    match act_named s name, h with
    | Some a, HReturn outs =>
        if args_valid s a kw && outs_valid s a outs then
          match ob with
          | CDone (Some seen) _ (C07.Model.Returned got) => kwargs_reach a kw seen && results_return outs got
          | _ => false
          end
        else true
    | _, _ => true
    end.

  Definition c_fault (s : ssvc) (name : pystr) (kw : list (pystr * pyval)) (h : hscript) (ob : call_obs) : bool :=
    match act_named s name, h with
    | Some a, HActionError (Some code) =>
        if args_valid s a kw && negb (code =? 0)%Z then
          match ob with
          | CDone (Some seen) _ (C07.Model.Raised (C07.Model.EActionResponse (Some c) _ _))
          | CDone (Some seen) _ (C07.Model.Raised (C07.Model.EAction (Some c) _)) =>
              kwargs_reach a kw seen && (c =? code)%Z
          | _ => false
          end
        else true
    | _, _ => true
    end.

  (* -------------------------------------------------------------- clause 4: classes of requests *)
  Definition soap_ok (hdr : option pystr) (body : option xtree) : option (pystr * list xtree) :=
    match soap_action_name hdr, body with
    | Some name, Some t => match rpc_of t with Some rpc => Some (name, xkids rpc) | None => None end
    | _, _ => None
    end.
  Definition elem_tag (x : xtree) : pystr := match x with XE ns l _ _ _ => etag ns l end.
  Definition elem_text (x : xtree) : pystr := match x with XE _ _ _ t _ => t end.
  Definition in_arg (a : sact) (n : pystr) : option (pystr * pystr) := find (fun p => str_eqb (fst p) n) (ac_ins a).

  (* an argument element names no in-argument *)
  Definition unknown_arg (a : sact) (kids : list xtree) : bool :=
    existsb (fun x => match in_arg a (elem_tag x) with Some _ => false | None => true end) kids.
  (* the text of an argument element is not a spelling of a value of the declared type *)
  Definition unparseable_arg (s : ssvc) (a : sact) (kids : list xtree) : bool :=
    existsb (fun x => match in_arg a (elem_tag x) with
                      | Some p => match arg_decl s p with
                                  | Some d => match apply_in float_of_str lower_ext (r_in (d_row d)) (elem_text x) with
                                              | Ok _ => false | Raise _ => true end
                                  | None => true
                                  end
                      | None => false
                      end) kids.
  Definition missing_arg (a : sact) (kids : list xtree) : bool :=
    existsb (fun p => negb (existsb (fun x => str_eqb (elem_tag x) (fst p)) kids)) (ac_ins a).
  (* Reading [duplicates]: the statement does not say which occurrence of a repeated argument counts; as
     for keyword arguments, the last one does - every occurrence must still be known and parseable *)
  Definition last_text (kids : list xtree) (n : pystr) : option pystr :=
    match find (fun x => str_eqb (elem_tag x) n) (rev kids) with Some x => Some (elem_text x) | None => None end.
  (* out of range / not allowed / without the time zone the type demands *)
  Definition invalid_arg (s : ssvc) (a : sact) (kids : list xtree) : bool :=
    existsb (fun p => match arg_decl s p, last_text kids (fst p) with
                      | Some d, Some t => match apply_in float_of_str lower_ext (r_in (d_row d)) t with
                                          | Ok v => negb (spec_accepts d v)
                                          | Raise _ => false
                                          end
                      | _, _ => false
                      end) (ac_ins a).

  Definition must_refuse (s : ssvc) (hdr : option pystr) (body : option xtree) : bool :=
    match soap_ok hdr body with
    | None => true                                                   (* malformed envelope / SOAPAction *)
    | Some (name, kids) =>
        match act_named s name with
        | None => true                                               (* unknown action *)
        | Some a => unknown_arg a kids || unparseable_arg s a kids || missing_arg a kids || invalid_arg s a kids
        end
    end.

  (* the handler method behaves: it returns typed results for its own out-arguments or raises one of the
     two errors action_handler is written for (anything else is the handler's own bug) *)
  Definition script_ok (s : ssvc) (hdr : option pystr) (h : hscript) : bool :=
    match h with
    | HReturn outs =>
        match soap_action_name hdr with
        | Some name => match act_named s name with Some a => outs_valid s a outs | None => true end
        | None => true
        end
    | HActionError _ | HValueError => true
    | HCrash => false
    end.

  Definition is_refusal (r : sresp) : bool :=
    match r with RBad _ | RFault _ => true | ROk _ | REsc _ => false end.
  Definition not_escaped (r : sresp) : bool := match r with REsc _ => false | _ => true end.

  Definition c_bad_request (s : ssvc) (hdr : option pystr) (body : option xtree) (h : hscript) (r : sresp) : bool :=
    if script_ok s hdr h then
      if must_refuse s hdr body then is_refusal r else not_escaped r
    else true.
End Spec.
