(* C14 — the client's view of an action of a well-formed definition: the arguments it reads from the served
   SCPD, the declarations it builds from them (equal to the server's up to the order of the allowed list),
   and hence: the client's own validation is the definition's. *)
From Coq Require Import List Bool NArith ZArith Lia.
From AUC Require Import Prelude.PyStr Prelude.PyDict C08.TypesDef C08.Model C08.Spec C08.Codec Gen.Types Gen.DateMatchers
  C05.Xml C05.Names C05.Model C05.Def C05.Spec C05.Lemmas C05.Parse C06.XmlRead
  C14.Model C14.Spec C14.Base C14.Init C14.Ser C14.Bad.
From AUC Require C06.Model C06.Spec C06.Values C06.Shape C07.Spec.
Import ListNotations.
Local Open Scope N_scope.

(* ------------------------------------------------------------------ lists *)
Lemma find_ext_in {A} (p q : A -> bool) l : (forall x, In x l -> p x = q x) -> find p l = find q l.
Proof.
  induction l as [|x l IH]; intros H; cbn; [reflexivity|].
  rewrite (H x (or_introl eq_refl)), IH by (intros; apply H; now right). reflexivity.
Qed.

Lemma forallb_ext_in {A} (p q : A -> bool) l : (forall x, In x l -> p x = q x) -> forallb p l = forallb q l.
Proof.
  induction l as [|x l IH]; intros H; cbn; [reflexivity|].
  rewrite (H x (or_introl eq_refl)), IH by (intros; apply H; now right). reflexivity.
Qed.

Lemma forallb_map' {A B} (f : A -> B) (p : B -> bool) l : forallb p (map f l) = forallb (fun x => p (f x)) l.
Proof. induction l as [|x l IH]; cbn; [reflexivity|]. now rewrite IH. Qed.

Lemma opt_all_map_some {A B} (f : A -> option B) (g : A -> B) l :
  (forall x, In x l -> f x = Some (g x)) -> opt_all (map f l) = Some (map g l).
Proof.
  induction l as [|x l IH]; intros H; cbn [map opt_all]; [reflexivity|].
  rewrite (H x (or_introl eq_refl)), IH by (intros; apply H; now right). reflexivity.
Qed.

Lemma opt_all_app {A} (l1 l2 : list (option A)) a b :
  opt_all l1 = Some a -> opt_all l2 = Some b -> opt_all (l1 ++ l2) = Some (a ++ b).
Proof.
  revert a. induction l1 as [|[x|] l1 IH]; intros a H1 H2; cbn [opt_all app] in *.
  - injection H1 as <-. exact H2.
  - destruct (opt_all l1) as [t|]; [|discriminate]. injection H1 as <-. now rewrite (IH t eq_refl H2).
  - discriminate.
Qed.

Lemma filter_none {A} (p : A -> bool) l : (forall x, In x l -> p x = false) -> filter p l = [].
Proof.
  induction l as [|x l IH]; intros H; cbn; [reflexivity|].
  rewrite (H x (or_introl eq_refl)). apply IH. intros; apply H; now right.
Qed.

Section CallArgs.
  Variable float_str : fl -> pystr.
  Variable float_of_str : pystr -> option fl.
  Variable lower_ext : N -> N.
  Variable set_iter : list pyval -> list pyval.
  Variable urljoin : pystr -> pystr -> pystr.
  Hypothesis set_iter_same : forall l x, In x (set_iter l) <-> In x l.

  Notation typed := (typed float_str float_of_str lower_ext).
  Notation wf_svar := (wf_svar float_str float_of_str lower_ext).
  Notation wf_ssvc := (wf_ssvc float_str float_of_str lower_ext urljoin).
  Notation vobj_of := (vobj_of float_of_str lower_ext).
  Notation vdecl_of := (vdecl_of float_of_str lower_ext).
  Notation bind_of := (bind_of float_of_str lower_ext).
  Notation arg_decl := (arg_decl float_of_str lower_ext).
  Notation tv := (tv float_str float_of_str lower_ext).
  Notation rew := (rew float_str float_of_str lower_ext).
  Notation wire := (wire float_str).
  Notation allowed_vals := (allowed_vals float_str float_of_str lower_ext).
  Notation served_var := (served_var float_str float_of_str lower_ext set_iter).
  Notation pscpd_served := (pscpd_served float_str float_of_str lower_ext set_iter).
  Notation args_valid := (args_valid float_of_str lower_ext).
  Notation args_in_domain := (args_in_domain float_str float_of_str lower_ext).

  (* ---------------------------------------------------------------- the variable behind an argument *)
  Definition var_of (s : ssvc) (p : pystr * pystr) : svar :=
    match var_named s (snd p) with Some v => v | None => no_var end.

  Lemma var_of_ok dev_url s a p :
    wf_ssvc dev_url s = true -> In a (sc_acts s) -> In p (ac_ins a ++ ac_outs a) ->
    var_named s (snd p) = Some (var_of s p) /\ wf_svar (var_of s p) = true /\ In (var_of s p) (sc_vars s) /\
    vr_name (var_of s p) = snd p.
  Proof.
    intros Hwf Ha Hp. destruct (wf_ssvc_parts _ _ _ _ _ _ Hwf) as (_ & _ & _ & _ & Hv & _ & Hacts & _).
    destruct (wf_sact_parts _ _ (Hacts a Ha)) as (_ & Hargs & _ & _).
    destruct (Hargs p Hp) as [_ Hex]. apply existsb_str_In in Hex.
    destruct (find_name_in vr_name (sc_vars s) (snd p) Hex) as (v & Hf & Hn).
    pose proof (find_some_in _ _ _ Hf) as [Hin _].
    unfold var_of, var_named. rewrite Hf. repeat split; try assumption. now apply Hv.
  Qed.

  Lemma var_of_bind dev_url s a p :
    wf_ssvc dev_url s = true -> In a (sc_acts s) -> In p (ac_ins a ++ ac_outs a) ->
    bind_of (sc_vars s) p = (fst p, vobj_of (var_of s p)) /\ arg_decl s p = Some (vdecl_of (var_of s p)).
  Proof.
    intros Hwf Ha Hp. destruct (var_of_ok dev_url s a p Hwf Ha Hp) as (Hf & Hwv & _ & _). split.
    - unfold Init.bind_of. unfold var_named in Hf. now rewrite Hf.
    - unfold Spec.arg_decl. rewrite Hf. now apply (init_var_ok float_str).
  Qed.

  Lemma wf_svar_strip v : wf_svar v = true -> strip (vr_name v) = vr_name v.
  Proof.
    intros Hwf. pose proof (wf_svar_row float_str float_of_str lower_ext v Hwf) as Hrow.
    unfold Spec.wf_svar in Hwf. rewrite Hrow in Hwf.
    apply andb_true_iff in Hwf as [Hwf _]. apply andb_true_iff in Hwf as [Hwf _].
    apply andb_true_iff in Hwf as [Hwf _]. apply andb_true_iff in Hwf as [Hwf _].
    apply andb_true_iff in Hwf as [_ H2]. now apply str_eqb_eq.
  Qed.

  (* ---------------------------------------------------------------- the arguments the client reads *)
  Definition argdef_pv (n : pystr) (is_in : bool) (v : p_sv) : C06.Model.argdef :=
    C06.Model.mkArg n is_in (or_empty (pv_dataType v))
      (match pv_allowed v with Some l => l | None => [] end)
      (match pv_range v with Some _ => true | None => false end)
      (match pv_range v with Some (a, _, _) => a | None => None end)
      (match pv_range v with Some (_, b, _) => b | None => None end).
  Definition served_argdef (s : ssvc) (is_in : bool) (p : pystr * pystr) : C06.Model.argdef :=
    argdef_pv (fst p) is_in (psv_of r0 (served_var (var_of s p))).
  Definition served_argdefs (s : ssvc) (a : sact) : list C06.Model.argdef :=
    map (served_argdef s true) (ac_ins a) ++ map (served_argdef s false) (ac_outs a).

  Lemma argdef_of_served dev_url s a p (is_in : bool) :
    wf_ssvc dev_url s = true -> In a (sc_acts s) -> In p (ac_ins a ++ ac_outs a) ->
    argdef_of (map (psv_of r0) (map served_var (sc_vars s))) (fst p, if is_in then s_in else s_out, snd p) =
    Some (served_argdef s is_in p).
  Proof.
    intros Hwf Ha Hp. destruct (var_of_ok dev_url s a p Hwf Ha Hp) as (Hf & _ & _ & _).
    destruct (wf_ssvc_parts _ _ _ _ _ _ Hwf) as (_ & _ & _ & _ & Hv & _).
    unfold argdef_of. rewrite map_map, find_map.
    rewrite (find_ext_in _ (fun v => str_eqb (vr_name v) (snd p))).
    2:{ intros v Hin. change (pv_name (psv_of r0 (served_var v))) with (Some (vr_name v)).
        cbn [or_empty]. now rewrite (wf_svar_strip v (Hv v Hin)). }
    unfold var_named in Hf. rewrite Hf. cbn [option_map]. unfold served_argdef, argdef_pv.
    destruct is_in; reflexivity.
  Qed.

  Lemma client_action_ok dev_url s a :
    wf_ssvc dev_url s = true -> In a (sc_acts s) ->
    client_action (pscpd_served s) (ac_name a) = Some (served_argdefs s a).
  Proof.
    intros Hwf Ha. destruct (wf_ssvc_parts _ _ _ _ _ _ Hwf) as (_ & _ & _ & _ & _ & _ & _ & Hnd & _).
    unfold client_action, Ser.pscpd_served. cbn [pd_table pd_actions].
    set (svs := map (psv_of r0) (map served_var (sc_vars s))).
    rewrite map_map, find_map.
    rewrite (find_ext _ (fun x : sact => str_eqb (ac_name x) (ac_name a))) by (intros x; reflexivity).
    rewrite (find_nodup_self ac_name (sc_acts s) a Hnd Ha). cbn [option_map].
    change (pa_args (paction_of (actdef_of a)))
      with (map parg_of (map argdef_in (ac_ins a) ++ map argdef_out (ac_outs a))).
    rewrite map_app, !map_map, map_app. unfold served_argdefs. apply opt_all_app.
    - rewrite map_map. apply opt_all_map_some. intros p Hp. subst svs.
      apply (argdef_of_served dev_url s a p true Hwf Ha). apply in_or_app. now left.
    - rewrite map_map. apply opt_all_map_some. intros p Hp. subst svs.
      apply (argdef_of_served dev_url s a p false Hwf Ha). apply in_or_app. now right.
  Qed.

  (* ---------------------------------------------------------------- declarations, explicitly *)
  Definition bound_ok (row : type_row) (b : option pystr) (x : option pyval) : Prop :=
    match b with
    | Some t => exists y, typed row t = Some y /\ x = Some y
    | None => x = None
    end.

  Lemma mk_decl_ok row al vals hr mn mx lo hi :
    coerce_all float_of_str lower_ext (r_in row) al = Ok vals ->
    (hr = true -> bound_ok row mn lo /\ bound_ok row mx hi) ->
    (hr = false -> lo = None /\ hi = None) ->
    mk_decl float_of_str lower_ext row true al hr mn mx =
    Ok {| d_row := row; d_strict := true; d_allowed := vals; d_min := lo; d_max := hi |}.
  Proof.
    intros Hal Ht Hf. unfold mk_decl. cbn [negb]. rewrite Hal. destruct hr.
    - destruct (Ht eq_refl) as [A B].
      assert (E : forall b x, bound_ok row b x ->
                  match b with
                  | Some (c :: r) => match apply_in float_of_str lower_ext (r_in row) (c :: r) with
                                     | Ok v => Ok (Some v) | Raise e => Raise e end
                  | _ => Ok None
                  end = Ok x).
      { intros [t|] x Hb; cbn [bound_ok] in Hb; [|now subst].
        destruct Hb as (y & Hy & ->).
        destruct (typed_parts float_str float_of_str lower_ext row t y Hy) as (Hne & Happ & _).
        destruct t as [|c r]; [congruence|]. now rewrite Happ. }
      rewrite (E mn lo A), (E mx hi B). reflexivity.
    - destruct (Hf eq_refl) as [-> ->]. reflexivity.
  Qed.

  Definition vmin_val (v : svar) : option pyval :=
    match vr_range v with Some (Some mn, Some _, _) => Some (tv (vrow_of v) mn) | _ => None end.
  Definition vmax_val (v : svar) : option pyval :=
    match vr_range v with Some (Some _, Some mx, _) => Some (tv (vrow_of v) mx) | _ => None end.

  (* the server's declaration *)
  Lemma vdecl_explicit v :
    wf_svar v = true ->
    vdecl_of v = {| d_row := vrow_of v; d_strict := true; d_allowed := allowed_vals v;
                    d_min := vmin_val v; d_max := vmax_val v |}.
  Proof.
    intros Hwf. destruct (init_var_ok float_str float_of_str lower_ext v Hwf) as [_ Hd].
    pose proof (wf_svar_row float_str float_of_str lower_ext v Hwf) as Hrow.
    destruct (wf_svar_texts float_str float_of_str lower_ext urljoin v Hwf) as (_ & Hrg & _).
    pose proof (get_allowed_ok float_str float_of_str lower_ext urljoin v Hwf) as Hga.
    unfold get_allowed in Hga. cbn [w_row w_def Init.vobj_of] in Hga.
    unfold Spec.decl_of in Hd. rewrite Hrow in Hd.
    rewrite (mk_decl_ok (vrow_of v) (vr_allowed_list v) (allowed_vals v) (vr_has_range v) (vr_min v) (vr_max v)
                        (vmin_val v) (vmax_val v) Hga) in Hd.
    - now injection Hd as <-.
    - unfold vr_has_range, vr_min, vr_max, vmin_val, vmax_val.
      destruct (vr_range v) as [[[[mn|] [mx|]] st]|]; try (destruct Hrg; fail); try discriminate.
      intros _. destruct Hrg as [Hmn Hmx]. split; cbn [bound_ok]; eexists; split; try eassumption; reflexivity.
    - unfold vr_has_range, vmin_val, vmax_val.
      destruct (vr_range v) as [[[[mn|] [mx|]] st]|]; try (destruct Hrg; fail); try discriminate.
      intros _. split; reflexivity.
  Qed.

  (* the client's declaration: the allowed values in the order the set was iterated *)
  Definition calw (v : svar) : list pyval := match allowed_vals v with [] => [] | vs => set_iter vs end.
  Definition cdecl (v : svar) : decl :=
    {| d_row := vrow_of v; d_strict := true; d_allowed := calw v; d_min := vmin_val v; d_max := vmax_val v |}.

  Lemma calw_in v x : In x (calw v) <-> In x (allowed_vals v).
  Proof. unfold calw. destruct (allowed_vals v) as [|y l]; [tauto|]. apply set_iter_same. Qed.

  Lemma wire_allowed v x :
    wf_svar v = true -> In x (allowed_vals v) -> typed (vrow_of v) (wire (vrow_of v) x) = Some x.
  Proof.
    intros Hwf Hin. destruct (allowed_vals_typed float_str float_of_str lower_ext urljoin v x Hwf Hin) as (t & Ht & E).
    rewrite E in Ht. destruct (render_typed float_str float_of_str lower_ext v t Hwf Ht) as [_ H].
    unfold Ser.rew in H. rewrite <- E in H. exact H.
  Qed.

  Lemma wire_allowed_texts v l :
    wf_svar v = true -> (forall x, In x l -> In x (allowed_vals v)) ->
    flat_map (fun t : pystr => match t with [] => [] | _ => [t] end) (map (wire (vrow_of v)) l) = map (wire (vrow_of v)) l /\
    coerce_all float_of_str lower_ext (r_in (vrow_of v)) (map (wire (vrow_of v)) l) = Ok l.
  Proof.
    intros Hwf. induction l as [|x l IH]; intros H; cbn [map flat_map coerce_all]; [split; reflexivity|].
    destruct (IH (fun y Hy => H y (or_intror Hy))) as [IH1 IH2]. rewrite IH1, IH2.
    pose proof (wire_allowed v x Hwf (H x (or_introl eq_refl))) as Ht.
    destruct (typed_parts float_str float_of_str lower_ext _ _ _ Ht) as (Hne & Happ & _). rewrite Happ.
    destruct (wire (vrow_of v) x); [congruence|]. split; reflexivity.
  Qed.

  Lemma client_decl s is_in p :
    wf_svar (var_of s p) = true ->
    C06.Model.arg_decl float_of_str lower_ext true (served_argdef s is_in p) = Ok (cdecl (var_of s p)).
  Proof.
    set (v := var_of s p). intros Hwf.
    pose proof (wf_svar_row float_str float_of_str lower_ext v Hwf) as Hrow.
    destruct (wf_svar_texts float_str float_of_str lower_ext urljoin v Hwf) as (_ & Hrg & _).
    unfold C06.Model.arg_decl, served_argdef. fold v. unfold argdef_pv.
    cbn [C06.Model.a_type C06.Model.a_allowed C06.Model.a_has_range C06.Model.a_min C06.Model.a_max].
    change (pv_dataType (psv_of r0 (served_var v))) with (Some (vr_type v)). cbn [or_empty]. rewrite Hrow.
    change (pv_range (psv_of r0 (served_var v))) with (sd_range (served_var v)).
    change (pv_allowed (psv_of r0 (served_var v)))
      with (option_map (flat_map (fun t : pystr => match t with [] => [] | _ => [t] end)) (sd_allowed (served_var v))).
    unfold cdecl. apply mk_decl_ok.
    - unfold Ser.served_var. cbn [sd_allowed]. unfold calw.
      destruct (allowed_vals v) as [|y l] eqn:Ea; [reflexivity|]. cbn [option_map].
      destruct (wire_allowed_texts v (set_iter (y :: l)) Hwf) as [E1 E2].
      { intros x Hx. rewrite Ea. now apply set_iter_same. }
      now rewrite E1.
    - unfold Ser.served_var, vmin_val, vmax_val. cbn [sd_range].
      destruct (vr_range v) as [[[[mn|] [mx|]] st]|]; try (destruct Hrg; fail); try discriminate.
      intros _. destruct Hrg as [Hmn Hmx].
      destruct (render_typed float_str float_of_str lower_ext v mn Hwf Hmn) as [_ Hmn'].
      destruct (render_typed float_str float_of_str lower_ext v mx Hwf Hmx) as [_ Hmx'].
      split; cbn [bound_ok]; eexists; split; try eassumption; reflexivity.
    - unfold Ser.served_var, vmin_val, vmax_val. cbn [sd_range].
      destruct (vr_range v) as [[[[mn|] [mx|]] st]|]; try (destruct Hrg; fail); try discriminate.
      intros _. split; reflexivity.
  Qed.

  (* both declarations accept the same values *)
  Lemma cdecl_validate v x : wf_svar v = true -> validate (cdecl v) x = validate (vdecl_of v) x.
  Proof.
    intros Hwf. rewrite (vdecl_explicit v Hwf). apply validate_same; try reflexivity.
    intros y. cbn [d_allowed cdecl]. apply calw_in.
  Qed.
  Lemma cdecl_accepts v x : wf_svar v = true -> spec_accepts (cdecl v) x = spec_accepts (vdecl_of v) x.
  Proof. intros Hwf. rewrite <- !accepts_iff. now apply cdecl_validate. Qed.
  Lemma cdecl_row v : wf_svar v = true -> d_row (cdecl v) = d_row (vdecl_of v).
  Proof. intros Hwf. now rewrite (vdecl_explicit v Hwf). Qed.

  Lemma value_ok_row d1 d2 x :
    d_row d1 = d_row d2 ->
    C06.Spec.value_ok float_str float_of_str d1 x = C06.Spec.value_ok float_str float_of_str d2 x.
  Proof. intros H. unfold C06.Spec.value_ok, C06.Model.norm_bool. now rewrite H. Qed.

  (* ---------------------------------------------------------------- prepare *)
  Lemma prepare_map {A} (f : A -> C06.Model.argdef) (g : A -> decl) (l : list A) :
    (forall x, In x l -> C06.Model.arg_decl float_of_str lower_ext true (f x) = Ok (g x)) ->
    C06.Model.prepare float_of_str lower_ext true (map f l) = Ok (map (fun x => (f x, g x)) l).
  Proof.
    induction l as [|x l IH]; intros H; cbn [map C06.Model.prepare]; [reflexivity|].
    rewrite (H x (or_introl eq_refl)), IH by (intros; apply H; now right). reflexivity.
  Qed.
  Lemma prepare_app l1 l2 a b :
    C06.Model.prepare float_of_str lower_ext true l1 = Ok a ->
    C06.Model.prepare float_of_str lower_ext true l2 = Ok b ->
    C06.Model.prepare float_of_str lower_ext true (l1 ++ l2) = Ok (a ++ b).
  Proof.
    revert a. induction l1 as [|x l1 IH]; intros a H1 H2; cbn [app C06.Model.prepare] in *.
    - injection H1 as <-. exact H2.
    - destruct (C06.Model.arg_decl float_of_str lower_ext true x) as [d|]; [|discriminate].
      destruct (C06.Model.prepare float_of_str lower_ext true l1) as [t|]; [|discriminate].
      injection H1 as <-. now rewrite (IH t eq_refl H2).
  Qed.

  Definition cin (s : ssvc) (p : pystr * pystr) : C06.Model.argdef * decl := (served_argdef s true p, cdecl (var_of s p)).
  Definition cout (s : ssvc) (p : pystr * pystr) : C06.Model.argdef * decl := (served_argdef s false p, cdecl (var_of s p)).
  Definition cargs (s : ssvc) (a : sact) : list (C06.Model.argdef * decl) :=
    map (cin s) (ac_ins a) ++ map (cout s) (ac_outs a).

  Lemma prepare_ok dev_url s a :
    wf_ssvc dev_url s = true -> In a (sc_acts s) ->
    C06.Model.prepare float_of_str lower_ext true (served_argdefs s a) = Ok (cargs s a).
  Proof.
    intros Hwf Ha. unfold served_argdefs, cargs. apply prepare_app.
    - apply (prepare_map (served_argdef s true) (fun p => cdecl (var_of s p))). intros p Hp. apply client_decl.
      now destruct (var_of_ok dev_url s a p Hwf Ha (in_or_app _ _ _ (or_introl Hp))) as (_ & H & _).
    - apply (prepare_map (served_argdef s false) (fun p => cdecl (var_of s p))). intros p Hp. apply client_decl.
      now destruct (var_of_ok dev_url s a p Hwf Ha (in_or_app _ _ _ (or_intror Hp))) as (_ & H & _).
  Qed.

  Lemma in_arguments_cargs s a : C06.Model.in_arguments (cargs s a) = map (cin s) (ac_ins a).
  Proof.
    unfold C06.Model.in_arguments, cargs. rewrite filter_app.
    rewrite filter_all by (intros x Hx; apply in_map_iff in Hx as [p [<- _]]; reflexivity).
    rewrite filter_none by (intros x Hx; apply in_map_iff in Hx as [p [<- _]]; reflexivity).
    apply app_nil_r.
  Qed.

  (* ---------------------------------------------------------------- the client's validation is the definition's *)
  Lemma accepted_valid dev_url s a kw :
    wf_ssvc dev_url s = true -> In a (sc_acts s) ->
    C06.Spec.accepted (C06.Model.in_arguments (cargs s a)) kw = args_valid s a kw.
  Proof.
    intros Hwf Ha. rewrite in_arguments_cargs. unfold C06.Spec.accepted, Spec.args_valid.
    rewrite forallb_map'. apply forallb_ext_in. intros p Hp.
    pose proof (in_or_app _ (ac_outs a) _ (or_introl Hp)) as Hp'.
    destruct (var_of_ok dev_url s a p Hwf Ha Hp') as (_ & Hwv & _ & _).
    destruct (var_of_bind dev_url s a p Hwf Ha Hp') as [_ Hd]. rewrite Hd.
    cbn [cin fst snd]. change (C06.Model.a_name (served_argdef s true p)) with (fst p).
    destruct (C06.Model.kw_get kw (fst p)) as [x|]; [|reflexivity]. now apply cdecl_accepts.
  Qed.

  Lemma values_in_domain dev_url s a kw :
    wf_ssvc dev_url s = true -> In a (sc_acts s) ->
    C06.Spec.values_ok float_str float_of_str (C06.Model.in_arguments (cargs s a)) kw = args_in_domain s a kw.
  Proof.
    intros Hwf Ha. rewrite in_arguments_cargs. unfold C06.Spec.values_ok, Spec.args_in_domain.
    rewrite forallb_map'. apply forallb_ext_in. intros p Hp.
    pose proof (in_or_app _ (ac_outs a) _ (or_introl Hp)) as Hp'.
    destruct (var_of_ok dev_url s a p Hwf Ha Hp') as (_ & Hwv & _ & _).
    destruct (var_of_bind dev_url s a p Hwf Ha Hp') as [_ Hd]. rewrite Hd.
    cbn [cin fst snd]. change (C06.Model.a_name (served_argdef s true p)) with (fst p).
    destruct (C06.Model.kw_get kw (fst p)) as [x|]; [|reflexivity].
    unfold value_ok. apply value_ok_row. now apply cdecl_row.
  Qed.
End CallArgs.
