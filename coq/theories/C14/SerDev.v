(* C14 — the device description the server writes, read back by the client's queries: the description of
   the served definition (Ser.served_dev). *)
From Coq Require Import List Bool NArith ZArith Lia.
From AUC Require Import Prelude.PyStr Prelude.PyDict C08.TypesDef C08.Model C08.Spec C08.Codec Gen.Types Gen.DateMatchers
  C05.Xml C05.Names C05.Model C05.Def C05.Spec C05.Lemmas C05.Parse C06.XmlRead C14.Model C14.Spec C14.Base C14.Init C14.Ser.
From AUC Require C06.Model C06.Spec C06.Values C06.Shape C07.Spec.
Import ListNotations.
Local Open Scope N_scope.

Section SerDev.
  Variable float_str : fl -> pystr.
  Variable float_of_str : pystr -> option fl.
  Variable lower_ext : N -> N.
  Variable set_iter : list pyval -> list pyval.
  Variable urljoin : pystr -> pystr -> pystr.

  Notation wf_ssvc := (wf_ssvc float_str float_of_str lower_ext urljoin).
  Notation wf_stree := (wf_stree float_str float_of_str lower_ext urljoin).
  Notation sobj_of := (sobj_of float_of_str lower_ext).
  Notation dobj_of := (dobj_of float_of_str lower_ext).
  Notation served_svc := (served_svc float_str float_of_str lower_ext set_iter).
  Notation served_dev := (served_dev float_str float_of_str lower_ext set_iter).
  Notation ser_service := (ser_service urljoin).
  Notation ser_dev := (ser_dev urljoin).
  Notation ser_root := (ser_root urljoin).

  Ltac unleaf :=
    repeat match goal with
           | |- context [leaf ?ns ?k ?t] =>
               change (leaf ns k t) with (Elem ns k [] (match t with [] => None | _ => Some t end) [])
           end.

  Lemma parse_srv_service url s :
    wf_ssvc url s = true -> parse_service (ser_service url (sobj_of s)) = pservice_of (served_svc s).
  Proof.
    intros Hwf. destruct (wf_ssvc_parts _ _ _ _ _ _ Hwf) as (_ & E1 & E2 & E3 & _).
    unfold parse_service, Model.ser_service, pservice_of, Ser.served_svc. cbv zeta.
    cbn [sb_def Init.sobj_of s_type s_id s_scpd s_control s_event]. rewrite E1, E2, E3.
    unfold el. cbn [x_children]. unleaf.
    cbn [findtext find1 find tag_is x_ns x_local str_eqb N.eqb Pos.eqb andb
           ns_device n_serviceType n_serviceId n_controlURL n_eventSubURL n_SCPDURL].
    rewrite !toe. reflexivity.
  Qed.

  Lemma parse_srv_icon i : parse_icon (ser_icon i) = picon_of i.
  Proof.
    unfold parse_icon, ser_icon, picon_of. cbv zeta. unfold el. cbn [x_children]. unleaf.
    cbn [findtext find1 find tag_is x_ns x_local str_eqb N.eqb Pos.eqb andb
           ns_device n_mimetype n_width n_height n_depth n_url].
    rewrite !toe. reflexivity.
  Qed.

  (* the children of a served <device> element *)
  Definition dev_children (h : dev_hdr) (a b c : list xml) : list xml :=
    ser_hdr h ++ [el ns_device n_iconList a; el ns_device n_serviceList b; el ns_device n_deviceList c].

  Lemma parse_hdr_srv h a b c : parse_hdr (dev_children h a b c) = phdr_of (served_hdr h).
  Proof.
    unfold parse_hdr, dev_children, ser_hdr, phdr_of, served_hdr.
    cbn [app h_type h_friendly h_manufacturer h_manufacturer_url h_model_desc h_model_name h_model_number h_model_url
             h_serial h_udn h_upc h_presentation].
    unfold el. unleaf.
    cbn [findtext find1 find tag_is x_ns x_local str_eqb N.eqb Pos.eqb andb ns_device
           n_deviceType n_friendlyName n_manufacturer n_manufacturerURL n_modelDescription n_modelName n_modelNumber
           n_modelURL n_serialNumber n_UDN n_UPC n_presentationURL].
    rewrite !toe. reflexivity.
  Qed.

  Lemma findall2_srv h a b c (n1 n2 : pystr) (l : list xml) :
    findall1 ns_device n1 (dev_children h a b c) = [el ns_device n1 l] ->
    (forall y, In y l -> tag_is ns_device n2 y = true) ->
    findall2 ns_device n1 n2 (dev_children h a b c) = l.
  Proof.
    intros H1 H2. unfold findall2. rewrite H1. cbn [flat_map x_children el]. rewrite app_nil_r.
    unfold findall1. now apply filter_all.
  Qed.

  Lemma findall1_icons h a b c : findall1 ns_device n_iconList (dev_children h a b c) = [el ns_device n_iconList a].
  Proof. reflexivity. Qed.
  Lemma findall1_services h a b c : findall1 ns_device n_serviceList (dev_children h a b c) = [el ns_device n_serviceList b].
  Proof. reflexivity. Qed.
  Lemma findall1_devices h a b c : findall1 ns_device n_deviceList (dev_children h a b c) = [el ns_device n_deviceList c].
  Proof. reflexivity. Qed.

  Lemma ser_dev_children d :
    x_children (ser_dev (dobj_of d)) =
      match d with
      | SDev h url icons svcs subs =>
          dev_children h (map ser_icon icons) (map (ser_service url) (map sobj_of svcs)) (map ser_dev (map dobj_of subs))
      end.
  Proof. destruct d; reflexivity. Qed.

  Lemma tag_is_ser_dev d : tag_is ns_device n_device (ser_dev d) = true.
  Proof. destruct d; reflexivity. Qed.

  Lemma parse_srv_dev d : wf_stree d = true -> parse_device (ser_dev (dobj_of d)) = pdev_of (served_dev d).
  Proof.
    induction d as [h url icons svcs subs IH] using sdev_ind'. intros Hwf.
    destruct (wf_stree_node _ _ _ _ _ _ _ _ _ Hwf) as [Hs Hsub].
    rewrite parse_device_eq, ser_dev_children. cbn [Ser.served_dev pdev_of].
    rewrite parse_hdr_srv.
    rewrite (findall2_srv _ _ _ _ n_iconList n_icon _ (findall1_icons _ _ _ _))
      by (intros y Hy; apply in_map_iff in Hy as [z [<- _]]; reflexivity).
    rewrite (findall2_srv _ _ _ _ n_serviceList n_service _ (findall1_services _ _ _ _))
      by (intros y Hy; apply in_map_iff in Hy as [z [<- _]]; reflexivity).
    rewrite (findall2_srv _ _ _ _ n_deviceList n_device _ (findall1_devices _ _ _ _))
      by (intros y Hy; apply in_map_iff in Hy as [z [<- _]]; apply tag_is_ser_dev).
    f_equal.
    - rewrite map_map. apply map_ext. intros; apply parse_srv_icon.
    - rewrite !map_map. apply map_ext_in. intros s Hin. now apply parse_srv_service, Hs.
    - rewrite !map_map. apply map_ext_in. intros x Hin. rewrite Forall_forall in IH. apply IH; [assumption | now apply Hsub].
  Qed.

  Lemma parse_srv_root d : wf_stree d = true -> parse_root (ser_root (dobj_of d)) = Some (pdev_of (served_dev d)).
  Proof.
    intros Hwf. unfold parse_root, Model.ser_root. unfold el at 1. cbn [x_children].
    unfold find1. cbn [find]. unfold ser_spec at 1. rewrite tag_is_el.
    change (str_eqb n_specVersion n_device) with false. cbv iota.
    rewrite tag_is_ser_dev. now rewrite parse_srv_dev.
  Qed.
End SerDev.
