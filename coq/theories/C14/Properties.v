(* C14 — Server description and control interoperate with the library's own client.  Property theorems only.

   Vocabulary.  sdev = a server definition (tree of devices; services with state variables as made by
   create_state_var / create_event_var: data type of the generated table, default, range with step, allowed
   list, evented; actions declared with callable_action: in- and out-arguments bound to variables).
   init_device = UpnpServerDevice.__init__ ; describe = the client's UpnpFactory (C05.Model) run on the
   trees UpnpXmlSerializer writes (Model.ser_root / ser_scpd), GETs answered by the server's to_xml;
   call_through = the client's UpnpAction.async_call (C06.Model: request text; C06.XmlRead in the place of the
   server's XML parser; Model.handle = _parse_action_body + action_handler + the two response builders;
   C07.Model: response decoding); handle = one POST to a control URL.  def_of = the definition in C05's
   vocabulary; mirror_dev = C05's "the object graph mirrors the definition one-to-one".
   Oracles are universally quantified: float repr / float(), non-ASCII lower(), urljoin, and the iteration
   order of a Python set (any function returning the same elements).  wf_sdev / wf_ssvc (Spec.v) are the
   readings under which a definition counts as one the statement speaks about.
   The model is the REPAIRED server (D9, D10, D34, D35, D36: /verif/proposed/C14). *)
From Coq Require Import List Bool NArith ZArith.
From AUC Require Import Prelude.PyStr Prelude.PyDict C08.TypesDef C08.Model C08.Spec Gen.Types Gen.DateMatchers
  C05.Xml C05.Names C05.Model C05.Def C05.Spec C06.XmlRead
  C14.Model C14.Spec C14.Base C14.Init C14.Ser C14.SerDev C14.Descr C14.Bad C14.Call C14.Run C14.Link C14.ExampleCase.
From AUC Require C06.Model C06.Spec C07.Model C07.Spec.
Import ListNotations.
Local Open Scope N_scope.

(* Sentence 1.  For every well-formed server definition, every oracle answer and every probe list: the
   device can be instantiated; the client's factory, run on the device description and the service
   descriptions the server serves, succeeds; the object graph mirrors the DEFINITION one-to-one (devices,
   services with resolved URLs, state variables with type / evented flag / minimum / maximum / allowed
   set / default / validation behaviour on the probes, actions with their arguments bound by name, icons);
   and every state variable holds the <step> text of its definition. *)
Theorem C14_description_roundtrip :
  forall (float_str : fl -> pystr) (float_of_str : pystr -> option fl) (lower_ext : N -> N)
         (set_iter : list pyval -> list pyval) (urljoin : pystr -> pystr -> pystr),
    (forall l x, In x (set_iter l) <-> In x l) ->
  forall (probes : list pyval) (base : pystr) (d : sdev),
    wf_sdev float_str float_of_str lower_ext urljoin base d = true ->
    exists (o : dobj) (c : dev_o),
      init_device float_of_str lower_ext d = SOk o /\
      describe float_str float_of_str lower_ext set_iter urljoin probes base o = FOk c /\
      mirror_dev urljoin float_of_str lower_ext true probes base (def_of d) c = true /\
      describe_steps float_str float_of_str lower_ext set_iter o = expected_steps d.
Proof. exact description_roundtrip. Qed.
Print Assumptions C14_description_roundtrip.

(* ... where the instantiated device holds, index by index, the service objects of the definition's
   services (each well formed w.r.t. the url of its device): the theorems below speak about them. *)
Theorem C14_services_instantiated :
  forall (float_str : fl -> pystr) (float_of_str : pystr -> option fl) (lower_ext : N -> N)
         (urljoin : pystr -> pystr -> pystr) (base : pystr) (d : sdev),
    wf_sdev float_str float_of_str lower_ext urljoin base d = true ->
    exists o, init_device float_of_str lower_ext d = SOk o /\
      forall k url s, nth_error (all_ssvcs d) k = Some (url, s) ->
        wf_ssvc float_str float_of_str lower_ext urljoin url s = true /\
        nth_error (all_svcobjs o) k = Some (url, sobj_of float_of_str lower_ext s).
Proof. exact services_instantiated. Qed.
Print Assumptions C14_services_instantiated.

(* Sentence 2.  For every well-formed service, every action of it, every keyword assignment (a dict) that
   gives each in-argument a value its declaration accepts (values of the C08/C06 domain: any int - or a
   bool for an integer type -, bool, non-nan float that this float printer/parser pair maps back, string of
   XML-legal characters incl. markup and CR, date, whole-second time with whole-minute offset) and every
   handler method returning typed results for (any subset of) its out-arguments: the call through the
   client model reaches the handler - which sees exactly the in-arguments, each equal (Python ==) to the
   caller's value -, the server answers 200, and the caller gets back exactly the handler's results. *)
Theorem C14_call_roundtrip :
  forall (float_str : fl -> pystr) (float_of_str : pystr -> option fl) (lower_ext : N -> N)
         (set_iter : list pyval -> list pyval) (urljoin : pystr -> pystr -> pystr),
    (forall l x, In x (set_iter l) <-> In x l) ->
  forall (base dev_url : pystr) (s : ssvc) (a : sact) (kw : list (pystr * pyval)) (outs : list (pystr * pyval)),
    wf_ssvc float_str float_of_str lower_ext urljoin dev_url s = true -> In a (sc_acts s) ->
    nodupb (map fst kw) = true ->
    args_valid float_of_str lower_ext s a kw = true ->
    args_in_domain float_str float_of_str lower_ext s a kw = true ->
    outs_valid float_str float_of_str lower_ext s a outs = true ->
    exists seen l got,
      call_through float_str float_of_str lower_ext set_iter urljoin base
                   (dev_url, sobj_of float_of_str lower_ext s) (ac_name a) kw (HReturn outs)
        = CDone (Some seen) (ROk l) (C07.Model.Returned got) /\
      kwargs_reach a kw seen = true /\ results_return outs got = true.
Proof. exact call_roundtrip. Qed.
Print Assumptions C14_call_roundtrip.

(* Sentence 3.  Under the same premises on the call: an UpnpActionError raised by the handler with error
   code c reaches the caller as an action error (UpnpActionResponseError, status 500) with the same code c
   (501 = ACTION_FAILED when the handler gave none). *)
Theorem C14_fault_roundtrip :
  forall (float_str : fl -> pystr) (float_of_str : pystr -> option fl) (lower_ext : N -> N)
         (set_iter : list pyval -> list pyval) (urljoin : pystr -> pystr -> pystr),
    (forall l x, In x (set_iter l) <-> In x l) ->
  forall (base dev_url : pystr) (s : ssvc) (a : sact) (kw : list (pystr * pyval)) (code : option Z),
    wf_ssvc float_str float_of_str lower_ext urljoin dev_url s = true -> In a (sc_acts s) ->
    nodupb (map fst kw) = true ->
    args_valid float_of_str lower_ext s a kw = true ->
    args_in_domain float_str float_of_str lower_ext s a kw = true ->
    exists seen,
      call_through float_str float_of_str lower_ext set_iter urljoin base
                   (dev_url, sobj_of float_of_str lower_ext s) (ac_name a) kw (HActionError code)
        = CDone (Some seen) (RFault (fault_code_of code))
                (C07.Model.Raised (C07.Model.EActionResponse (Some (fault_code_of code)) (Some s_Action_Failed) 500%Z)) /\
      kwargs_reach a kw seen = true.
Proof. exact fault_roundtrip. Qed.
Print Assumptions C14_fault_roundtrip.

(* The client model built from the served description validates exactly as the definition says: an
   assignment the definition does not accept (an in-argument missing, out of range, not allowed, of the
   wrong type, without the demanded time zone) never leaves the client. *)
Theorem C14_invalid_call_refused :
  forall (float_str : fl -> pystr) (float_of_str : pystr -> option fl) (lower_ext : N -> N)
         (set_iter : list pyval -> list pyval) (urljoin : pystr -> pystr -> pystr),
    (forall l x, In x (set_iter l) <-> In x l) ->
  forall (base dev_url : pystr) (s : ssvc) (a : sact) (kw : list (pystr * pyval)),
    wf_ssvc float_str float_of_str lower_ext urljoin dev_url s = true -> In a (sc_acts s) ->
    args_valid float_of_str lower_ext s a kw = false ->
    forall h, exists e,
      call_through float_str float_of_str lower_ext set_iter urljoin base
                   (dev_url, sobj_of float_of_str lower_ext s) (ac_name a) kw h = CRefused e /\
      (e = C06.Model.EUpnpError \/ e = C06.Model.EUpnpValueError).
Proof. exact invalid_call_refused. Qed.
Print Assumptions C14_invalid_call_refused.

(* Sentence 4.  For every well-formed service and EVERY request - any SOAPAction header or none, any body:
   not XML, or any XML tree - with a handler method that behaves (typed results for its own out-arguments,
   UpnpActionError, UpnpValueError): if the request has a malformed envelope or SOAPAction, names an unknown
   action, or carries an argument element that is unknown or unparseable, or lacks an in-argument, or gives
   one a value that is out of range / not allowed / without the demanded time zone (the last occurrence of
   a repeated argument counting), the answer is a 4xx status or a SOAP fault; otherwise no exception
   leaves the handler. *)
Theorem C14_bad_request_handled :
  forall (float_str : fl -> pystr) (float_of_str : pystr -> option fl) (lower_ext : N -> N)
         (urljoin : pystr -> pystr -> pystr) (dev_url : pystr) (s : ssvc)
         (hdr : option pystr) (body : option xtree) (h : hscript),
    wf_ssvc float_str float_of_str lower_ext urljoin dev_url s = true ->
    c_bad_request float_str float_of_str lower_ext s hdr body h
      (snd (handle float_str float_of_str lower_ext (sobj_of float_of_str lower_ext s) hdr body h)) = true.
Proof. exact bad_request_handled. Qed.
Print Assumptions C14_bad_request_handled.

(* "never an unhandled server exception": whatever the request. *)
Theorem C14_never_escapes :
  forall (float_str : fl -> pystr) (float_of_str : pystr -> option fl) (lower_ext : N -> N)
         (urljoin : pystr -> pystr -> pystr) (dev_url : pystr) (s : ssvc)
         (hdr : option pystr) (body : option xtree) (h : hscript),
    wf_ssvc float_str float_of_str lower_ext urljoin dev_url s = true ->
    script_ok float_str float_of_str lower_ext s hdr h = true ->
    not_escaped (snd (handle float_str float_of_str lower_ext (sobj_of float_of_str lower_ext s) hdr body h)) = true.
Proof. exact never_escapes. Qed.
Print Assumptions C14_never_escapes.

(* and the refusals are not gratuitous: a request of none of the listed classes reaches the handler method *)
Theorem C14_valid_request_reaches_handler :
  forall (float_str : fl -> pystr) (float_of_str : pystr -> option fl) (lower_ext : N -> N)
         (urljoin : pystr -> pystr -> pystr) (dev_url : pystr) (s : ssvc)
         (hdr : option pystr) (body : option xtree) (h : hscript),
    wf_ssvc float_str float_of_str lower_ext urljoin dev_url s = true ->
    script_ok float_str float_of_str lower_ext s hdr h = true ->
    must_refuse float_of_str lower_ext s hdr body = false ->
    exists kw, fst (handle float_str float_of_str lower_ext (sobj_of float_of_str lower_ext s) hdr body h) = Some kw.
Proof. exact valid_request_reaches_handler. Qed.
Print Assumptions C14_valid_request_reaches_handler.

(* The four clauses exactly as the correspondence check evaluates them (Run.report: clauses i x ob, inside
   op_in_domain i x), on the model's own observation, for every input and every operation of it. *)
Theorem C14_run_clauses :
  forall (i : input) (k : nat) (x : op) (m : obs1),
    nth_error (i_ops i) k = Some x -> nth_error (model_run i) k = Some m -> op_in_domain i x = true ->
    forallb (fun cb : N * bool => snd cb) (clauses i x m) = true.
Proof. exact run_clauses. Qed.
Print Assumptions C14_run_clauses.

(* ------------------------------------------------------------------ non-vacuity *)
(* ExampleCase.ex1: a root device (icon; service with an evented ui2 variable with range 0..100 step 5 and
   default, a dateTime.tz variable with a default, a string variable with an allowed list given with a
   repetition, a float variable with default "1.50"; action SetLevel with two in- and three out-arguments,
   action Ping without arguments) and an embedded device with its own url and one service.  The
   definition is well formed; all 15 operations (the description; calls with a bool for the ui2 argument
   and a result string carrying markup, CR, CR LF and an astral character; a handler-raised error 714; a
   call the client refuses; a call into the embedded device; ten requests: unparseable, missing, out of
   range, not allowed, unknown (an out-argument's name), duplicate, unknown action, not XML, no
   SOAPAction, reordered) lie inside the domain; the model's observations are those recorded from the
   repaired implementation and satisfy every clause (the report is empty). *)
Example C14_domain_inhabited :
  def_ok (fst ex1) = true /\
  length (i_ops (fst ex1)) = 15%nat /\
  forallb (op_in_domain (fst ex1)) (i_ops (fst ex1)) = true /\
  report 0 [ex1] = [].
Proof. vm_compute. repeat split; reflexivity. Qed.

(* what the model says on four of these operations: typed results returned; error 714; the client's
   refusal; a 400 for the unparseable argument; the duplicate argument reaches the handler with its last value *)
Example C14_example_observations :
  match model_run (fst ex1) with
  | _ :: ObCall (CDone (Some seen1) (ROk _) (C07.Model.Returned got1))
      :: ObCall (CDone (Some _) (RFault 714%Z) (C07.Model.Raised (C07.Model.EActionResponse (Some 714%Z) _ 500%Z)))
      :: ObCall (CRefused C06.Model.EUpnpValueError)
      :: ObCall (CDone (Some []) (ROk _) (C07.Model.Returned [(_, VBool false)]))
      :: ObRaw None (RBad _) :: ObRaw None (RBad _) :: ObRaw None (RFault 402%Z) :: ObRaw None (RFault 402%Z)
      :: ObRaw None (RBad _) :: ObRaw (Some seen2) (ROk _) :: ObRaw None (RBad _) :: ObRaw None (RBad _)
      :: ObRaw None (RBad _) :: ObRaw (Some _) (ROk _) :: [] =>
      dget str_eqb seen1 [78;101;119;76;101;118;101;108] = Some (VInt 1) /\      (* NewLevel: True arrived as 1 *)
      length got1 = 3%nat /\
      dget str_eqb seen2 [78;101;119;76;101;118;101;108] = Some (VInt 7)         (* NewLevel twice: the last counts *)
  | _ => False
  end.
Proof. vm_compute. repeat split; reflexivity. Qed.

(* the hypotheses of sentence 2 hold of the first call of the example *)
Example C14_call_premises_inhabited :
  match all_ssvcs (i_def (fst ex1)), nth_error (i_ops (fst ex1)) 1 with
  | (url, s) :: _, Some (OpCall _ name kw (HReturn outs)) =>
      match act_named s name with
      | Some a =>
          wf_ssvc (fstr_of (fst ex1)) (fparse_of (fst ex1)) lext (urljoin_of (fst ex1)) url s = true /\
          nodupb (map fst kw) = true /\
          args_valid (fparse_of (fst ex1)) lext s a kw = true /\
          args_in_domain (fstr_of (fst ex1)) (fparse_of (fst ex1)) lext s a kw = true /\
          outs_valid (fstr_of (fst ex1)) (fparse_of (fst ex1)) lext s a outs = true /\
          length kw = 2%nat /\ length outs = 3%nat
      | None => False
      end
  | _, _ => False
  end.
Proof. vm_compute. repeat split; reflexivity. Qed.
