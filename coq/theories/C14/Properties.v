(* C14 — placeholder while the correspondence is being brought up; replaced by the property theorems. *)
From Coq Require Import List.
Theorem C14_placeholder : True.
Proof. exact I. Qed.
Print Assumptions C14_placeholder.
