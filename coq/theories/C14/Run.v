(* C14 — instantiation used by the correspondence check (never by a theorem). *)
From Coq Require Import List Bool NArith ZArith.
From AUC Require Export Prelude.PyStr Prelude.PyDict C08.TypesDef C08.Model Gen.Types
  C05.Xml C05.Names C05.Model C05.Def C05.Spec C06.XmlRead C14.Model C14.Spec.
From AUC Require C06.Model C06.Spec C07.Model C07.Spec C05.Run C07.Run.
Import ListNotations.
Local Open Scope N_scope.

(* one definition, instantiated once; then a list of operations against it *)
Inductive op :=
| OpDescribe                                                             (* UpnpFactory(...).async_create_device(base) *)
| OpCall (svc : nat) (name : pystr) (kw : list (pystr * pyval)) (h : hscript)    (* through the real client *)
| OpRaw (svc : nat) (hdr : option pystr) (body : option xtree) (h : hscript).    (* a POST to the control URL *)

Record input := {
  i_base : pystr;                                   (* description URL handed to the client *)
  i_probes : list pyval;
  i_urljoin : list (pystr * pystr * pystr);         (* (base, url) |-> urllib.parse.urljoin(base, url) *)
  i_fstr : list (fl * pystr);                       (* float |-> repr *)
  i_fparse : list (pystr * option fl);              (* text |-> float(text) *)
  i_def : sdev;
  i_ops : list op }.

Inductive obs1 :=
| ObInitFailed (e : sexn)                           (* the device class could not be instantiated *)
| ObNoService
| ObDescribe (r : fres dev_o) (steps : list (pystr * pystr * option pystr))
| ObCall (c : call_obs)
| ObRaw (seen : option (dict pystr pyval)) (r : sresp).
Definition observation := list obs1.

(* ---- oracles from the recorded tables ---- *)
Definition urljoin_of (i : input) (b u : pystr) : pystr :=
  match find (fun p => str_eqb (fst (fst p)) b && str_eqb (snd (fst p)) u) (i_urljoin i) with
  | Some p => snd p
  | None => [0]
  end.
Definition fstr_of (i : input) (f : fl) : pystr :=
  match find (fun p => fl_eqb (fst p) f) (i_fstr i) with Some p => snd p | None => [] end.
Definition fparse_of (i : input) (s : pystr) : option fl :=
  match find (fun p => str_eqb (fst p) s) (i_fparse i) with Some p => snd p | None => None end.
Definition lext (c : N) : N := c.
Definition set_iter0 (l : list pyval) : list pyval := l.

Definition run_op (i : input) (o : dobj) (x : op) : obs1 :=
  match x with
  | OpDescribe =>
      ObDescribe (describe (fstr_of i) (fparse_of i) lext set_iter0 (urljoin_of i) (i_probes i) (i_base i) o)
                 (describe_steps (fstr_of i) (fparse_of i) lext set_iter0 o)
  | OpCall k name kw h =>
      match nth_error (all_svcobjs o) k with
      | Some p => ObCall (call_through (fstr_of i) (fparse_of i) lext set_iter0 (urljoin_of i) (i_base i) p name kw h)
      | None => ObNoService
      end
  | OpRaw k hdr body h =>
      match nth_error (all_svcobjs o) k with
      | Some p => let '(seen, r) := handle (fstr_of i) (fparse_of i) lext (snd p) hdr body h in ObRaw seen r
      | None => ObNoService
      end
  end.

Definition model_run (i : input) : observation :=
  match init_device (fparse_of i) lext (i_def i) with
  | SRaise e => map (fun _ => ObInitFailed e) (i_ops i)
  | SOk o => map (run_op i o) (i_ops i)
  end.

(* ---- the domain of the theorems, per operation ---- *)
Definition def_ok (i : input) : bool := wf_sdev (fstr_of i) (fparse_of i) lext (urljoin_of i) (i_base i) (i_def i).
Definition svc_at (i : input) (k : nat) : option ssvc :=
  match nth_error (all_ssvcs (i_def i)) k with Some p => Some (snd p) | None => None end.
(* keyword arguments are a dict; an accepted assignment consists of values of the C08/C06 domain; the
   handler behaves (typed results for its own out-arguments, or an action error with a proper code) *)
Definition call_ok (i : input) (s : ssvc) (name : pystr) (kw : list (pystr * pyval)) (h : hscript) : bool :=
  nodupb (map fst kw) &&
  match act_named s name with
  | Some a =>
      (if args_valid (fparse_of i) lext s a kw then args_in_domain (fstr_of i) (fparse_of i) lext s a kw else true) &&
      match h with
      | HReturn outs => outs_valid (fstr_of i) (fparse_of i) lext s a outs
      | HActionError (Some c) => negb (c =? 0)%Z
      | _ => false
      end
  | None => false
  end.
Definition op_in_domain (i : input) (x : op) : bool :=
  def_ok i &&
  match x with
  | OpDescribe => true
  | OpCall k name kw h => match svc_at i k with Some s => call_ok i s name kw h | None => false end
  | OpRaw k hdr _ h => match svc_at i k with Some s => script_ok (fstr_of i) (fparse_of i) lext s hdr h | None => false end
  end.

(* ---- comparison of observations, up to what the property speaks about ---- *)
Definition sexn_eqb (a b : sexn) : bool :=
  match a, b with
  | EValue, EValue | EType, EType | EKey, EKey | EUpnp, EUpnp | EUpnpValue, EUpnpValue | EOther, EOther => true
  | _, _ => false
  end.
Definition seen_eqb (a b : option (dict pystr pyval)) : bool :=
  match a, b with
  | Some x, Some y => nodupb (dkeys y) && deqb str_eqb val_eqb x y
  | None, None => true
  | _, _ => false
  end.
(* a refusal issued before the handler method is reached is compared as a refusal (400 or a fault, with
   whatever reason / code: the statement allows either); a fault on behalf of the handler with its code *)
Definition resp_eqb (strict : bool) (a b : sresp) : bool :=
  match a, b with
  | ROk _, ROk _ => true
  | REsc x, REsc y => sexn_eqb x y
  | RFault x, RFault y => if strict then (x =? y)%Z else true
  | RBad _, RBad _ => true
  | RBad _, RFault _ | RFault _, RBad _ => negb strict
  | _, _ => false
  end.
Definition reached (s : option (dict pystr pyval)) : bool := match s with Some _ => true | None => false end.
Definition cexn_eqb (a b : C06.Model.cexn) : bool :=
  match a, b with
  | (C06.Model.EUpnpError | C06.Model.EUpnpValueError), (C06.Model.EUpnpError | C06.Model.EUpnpValueError) => true
  | C06.Model.EForeign x, C06.Model.EForeign y => C05.Run.exn_eqb x y
  | _, _ => false
  end.
(* what the caller gets for a refusal that never reached the handler: some error carrying the status or
   the code - compared by class *)
Definition outcome_eqb (strict : bool) (a b : C07.Model.outcome) : bool :=
  C07.Run.outcome_eqb a b ||
  (negb strict &&
   match a, b with
   | C07.Model.Raised (C07.Model.EResponse _ | C07.Model.EActionResponse _ _ _),
     C07.Model.Raised (C07.Model.EResponse _ | C07.Model.EActionResponse _ _ _) => true
   | _, _ => false
   end).
(* the code of a fault is compared only where the statement fixes it: a fault on behalf of a handler that
   raised UpnpActionError (its own code) - not for a handler-raised UpnpValueError, nor for refusals *)
Definition code_fixed (h : hscript) (seen : option (dict pystr pyval)) : bool :=
  reached seen && match h with HValueError => false | _ => true end.
Definition call_eqb (h : hscript) (a b : call_obs) : bool :=
  match a, b with
  | CNoAction, CNoAction | CCreateFailed, CCreateFailed => true
  | CRefused x, CRefused y => cexn_eqb x y
  | CDone s1 r1 o1, CDone s2 r2 o2 =>
      seen_eqb s1 s2 && resp_eqb (code_fixed h s1) r1 r2 && outcome_eqb (code_fixed h s1) o1 o2
  | _, _ => false
  end.
Definition obs1_eqb (x : op) (a b : obs1) : bool :=
  match a, b with
  | ObInitFailed x, ObInitFailed y => sexn_eqb x y
  | ObNoService, ObNoService => true
  | ObDescribe r1 s1, ObDescribe r2 s2 => C05.Run.obs_eqb r1 r2 && list_eqb step_eqb s1 s2
  | ObCall c1, ObCall c2 => call_eqb (match x with OpCall _ _ _ h => h | _ => HCrash end) c1 c2
  | ObRaw s1 r1, ObRaw s2 r2 =>
      seen_eqb s1 s2 && resp_eqb (code_fixed (match x with OpRaw _ _ _ h => h | _ => HCrash end) s1) r1 r2
  | _, _ => false
  end.

(* ---- the four clauses on one operation and its observation ---- *)
Definition clauses (i : input) (x : op) (ob : obs1) : list (N * bool) :=
  let fs := fstr_of i in let fp := fparse_of i in
  match x, ob with
  | OpDescribe, ObDescribe r steps => [(1, c_description fp lext (urljoin_of i) (i_probes i) (i_base i) (i_def i) r steps)]
  | OpCall k name kw h, ObCall c =>
      match svc_at i k with
      | Some s => [(2, c_call fs fp lext s name kw h c); (3, c_fault fp lext s name kw h c)]
      | None => []
      end
  | OpRaw k hdr body h, ObRaw _ r =>
      match svc_at i k with
      | Some s => [(4, c_bad_request fs fp lext s hdr body h r)]
      | None => []
      end
  (* an observation of the wrong shape (the device could not even be instantiated) fails the clause the
     operation belongs to *)
  | OpDescribe, _ => [(1, false)]
  | OpCall _ _ _ _, _ => [(2, false)]
  | OpRaw _ _ _ _, _ => [(4, false)]
  end.

Fixpoint report_ops (i : input) (base k : N) (ms : observation) (ops : list op) (obs : observation) : list (N * N * N) :=
  match ops, obs, ms with
  | [], [], _ => []
  | x :: ops', ob :: obs', m :: ms' =>
      (if obs1_eqb x m ob then [] else [(base, 0, k)]) ++
      (if op_in_domain i x
       then flat_map (fun cb : N * bool => if snd cb then [] else [(base, fst cb, k)]) (clauses i x ob)
       else []) ++
      report_ops i base (N.succ k) ms' ops' obs'
  | _, _, _ => [(base, 0, k)]
  end.

(* (case index, kind, operation index): kind 0 = the model's observation differs from the implementation's;
   kind 1..4 = clause fails on the implementation's observation (only inside the domain) *)
Fixpoint report (base : N) (cases : list (input * observation)) : list (N * N * N) :=
  match cases with
  | [] => []
  | (i, obs) :: r => report_ops i base 0 (model_run i) (i_ops i) obs ++ report (N.succ base) r
  end.

Definition replay (c : input * observation) :=
  let '(i, obs) := c in
  (model_run i, def_ok i, map (op_in_domain i) (i_ops i), report 0 [c]).
