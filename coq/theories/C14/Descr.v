(* C14 — clause 1: the client's factory (C05.Model) run on the documents the server serves builds an object
   graph that mirrors the DEFINITION: C05's build-stage theorems applied to the served definition
   (Ser.served_dev), whose texts are the wire spellings of the definition's typed texts, and the mirror
   relation transported back to the definition itself. *)
From Coq Require Import List Bool NArith ZArith Lia.
From AUC Require Import Prelude.PyStr Prelude.PyDict C08.TypesDef C08.Model C08.Spec C08.Codec Gen.Types Gen.DateMatchers
  C05.Xml C05.Names C05.Model C05.Def C05.Spec C05.Lemmas C05.Parse C05.Expected C05.Main
  C06.XmlRead C14.Model C14.Spec C14.Base C14.Init C14.Ser C14.SerDev.
From AUC Require C06.Model C06.Spec C06.Values C06.Shape C07.Spec.
Import ListNotations.
Local Open Scope N_scope.

Section Descr.
  Variable float_str : fl -> pystr.
  Variable float_of_str : pystr -> option fl.
  Variable lower_ext : N -> N.
  Variable set_iter : list pyval -> list pyval.
  Variable urljoin : pystr -> pystr -> pystr.
  Hypothesis set_iter_same : forall l x, In x (set_iter l) <-> In x l.
  Variable probes : list pyval.
  Variable base : pystr.

  Notation typed := (typed float_str float_of_str lower_ext).
  Notation wf_svar := (wf_svar float_str float_of_str lower_ext).
  Notation wf_ssvc := (wf_ssvc float_str float_of_str lower_ext urljoin).
  Notation wf_stree := (wf_stree float_str float_of_str lower_ext urljoin).
  Notation wf_sdev := (wf_sdev float_str float_of_str lower_ext urljoin).
  Notation sobj_of := (sobj_of float_of_str lower_ext).
  Notation dobj_of := (dobj_of float_of_str lower_ext).
  Notation served_var := (served_var float_str float_of_str lower_ext set_iter).
  Notation served_svc := (served_svc float_str float_of_str lower_ext set_iter).
  Notation served_dev := (served_dev float_str float_of_str lower_ext set_iter).
  Notation tv := (tv float_str float_of_str lower_ext).
  Notation rew := (rew float_str float_of_str lower_ext).
  Notation wire := (wire float_str).
  Notation allowed_vals := (allowed_vals float_str float_of_str lower_ext).
  Notation coerce := (Spec.coerce float_of_str lower_ext).
  Notation coerce_list := (Spec.coerce_list float_of_str lower_ext).
  Notation svo_of := (svo_of float_of_str lower_ext true probes).
  Notation svco_of := (svco_of urljoin float_of_str lower_ext true probes base).
  Notation devo_of := (devo_of urljoin float_of_str lower_ext true probes base).
  Notation mirror_sv := (mirror_sv float_of_str lower_ext true probes).
  Notation mirror_service := (mirror_service urljoin float_of_str lower_ext true probes base).
  Notation mirror_dev := (mirror_dev urljoin float_of_str lower_ext true probes base).

  (* ---------------------------------------------------------------- typed texts, in C05's words *)
  Lemma typed_coerce row t x : typed row t = Some x -> coerce row t = Some x /\ nonempty t = true.
  Proof.
    intros H. destruct (typed_parts _ _ _ _ _ _ H) as (Hne & Ha & _). unfold Spec.coerce. rewrite Ha.
    split; [reflexivity|]. now destruct t.
  Qed.
  Lemma typed_coercible row t x :
    typed row t = Some x -> nonempty t && coercible float_of_str lower_ext row t = true.
  Proof.
    intros H. destruct (typed_coerce _ _ _ H) as [Hc Hn]. unfold coercible. now rewrite Hc, Hn.
  Qed.

  Lemma row_of_served v : row_of (served_var v) = vrow_of v.
  Proof. reflexivity. Qed.

  (* what the served variable says, for a well-formed variable *)
  Lemma served_texts v :
    wf_svar v = true ->
    (forall t, vr_default v = Some t -> typed (vrow_of v) (rew (vrow_of v) t) = Some (tv (vrow_of v) t) /\
                                         typed (vrow_of v) t = Some (tv (vrow_of v) t)) /\
    (forall mn mx st, vr_range v = Some (Some mn, Some mx, st) ->
        typed (vrow_of v) (rew (vrow_of v) mn) = Some (tv (vrow_of v) mn) /\ typed (vrow_of v) mn = Some (tv (vrow_of v) mn) /\
        typed (vrow_of v) (rew (vrow_of v) mx) = Some (tv (vrow_of v) mx) /\ typed (vrow_of v) mx = Some (tv (vrow_of v) mx)) /\
    (forall x, In x (allowed_vals v) -> typed (vrow_of v) (wire (vrow_of v) x) = Some x).
  Proof.
    intros Hwf. destruct (wf_svar_texts _ _ _ urljoin v Hwf) as (Hdf & Hrg & Hal). repeat split.
    - now destruct (render_typed _ _ _ v t Hwf (Hdf t H)).
    - now apply Hdf.
    - rewrite H in Hrg. destruct Hrg as [A _]. now destruct (render_typed _ _ _ v mn Hwf A).
    - rewrite H in Hrg. now destruct Hrg.
    - rewrite H in Hrg. destruct Hrg as [_ B]. now destruct (render_typed _ _ _ v mx Hwf B).
    - rewrite H in Hrg. now destruct Hrg.
    - intros x Hx. destruct (allowed_vals_typed _ _ _ urljoin v x Hwf Hx) as (t & Ht & ->).
      now destruct (render_typed _ _ _ v t Hwf Ht).
  Qed.

  Lemma range_shape v :
    wf_svar v = true -> vr_range v = None \/ exists mn mx st, vr_range v = Some (Some mn, Some mx, st).
  Proof.
    intros Hwf. destruct (wf_svar_texts _ _ _ urljoin v Hwf) as (_ & Hrg & _).
    destruct (vr_range v) as [[[[mn|] [mx|]] st]|]; try (destruct Hrg; fail); [right | left; reflexivity].
    now exists mn, mx, st.
  Qed.

  Lemma coerce_list_wire row l :
    (forall x, In x l -> typed row (wire row x) = Some x) -> coerce_list row (map (wire row) l) = l.
  Proof.
    induction l as [|x l IH]; intros H; [reflexivity|]. unfold Spec.coerce_list in *. cbn [map flat_map].
    destruct (typed_coerce _ _ _ (H x (or_introl eq_refl))) as [-> _]. cbn [app].
    now rewrite IH by (intros; apply H; now right).
  Qed.
  Lemma coerce_list_typed row l :
    (forall t, In t l -> typed row t = Some (tv row t)) -> coerce_list row l = map (tv row) l.
  Proof.
    induction l as [|t l IH]; intros H; [reflexivity|]. unfold Spec.coerce_list in *. cbn [map flat_map].
    destruct (typed_coerce _ _ _ (H t (or_introl eq_refl))) as [-> _]. cbn [app].
    now rewrite IH by (intros; apply H; now right).
  Qed.

  Lemma served_default v : sd_default (served_var v) = option_map (rew (vrow_of v)) (vr_default v).
  Proof. reflexivity. Qed.
  Lemma served_min v mn mx st :
    vr_range v = Some (Some mn, Some mx, st) -> Spec.sd_min (served_var v) = Some (rew (vrow_of v) mn).
  Proof. intros E. unfold Spec.sd_min, Ser.served_var. cbn [sd_range]. now rewrite E. Qed.
  Lemma served_max v mn mx st :
    vr_range v = Some (Some mn, Some mx, st) -> Spec.sd_max (served_var v) = Some (rew (vrow_of v) mx).
  Proof. intros E. unfold Spec.sd_max, Ser.served_var. cbn [sd_range]. now rewrite E. Qed.
  Lemma served_norange v : vr_range v = None -> Spec.sd_min (served_var v) = None /\ Spec.sd_max (served_var v) = None.
  Proof. intros E. unfold Spec.sd_min, Spec.sd_max, Ser.served_var. cbn [sd_range]. now rewrite E. Qed.
  Lemma def_min v mn mx st : vr_range v = Some (Some mn, Some mx, st) -> Spec.sd_min (svdef_of v) = Some mn.
  Proof. intros E. unfold Spec.sd_min, svdef_of. cbn [sd_range]. now rewrite E. Qed.
  Lemma def_max v mn mx st : vr_range v = Some (Some mn, Some mx, st) -> Spec.sd_max (svdef_of v) = Some mx.
  Proof. intros E. unfold Spec.sd_max, svdef_of. cbn [sd_range]. now rewrite E. Qed.
  Lemma def_norange v : vr_range v = None -> Spec.sd_min (svdef_of v) = None /\ Spec.sd_max (svdef_of v) = None.
  Proof. intros E. unfold Spec.sd_min, Spec.sd_max, svdef_of. cbn [sd_range]. now rewrite E. Qed.

  Definition siter (vs : list pyval) : list pyval := match vs with [] => [] | _ => set_iter vs end.
  Lemma served_allowed_list v : sd_allowed_list (served_var v) = map (wire (vrow_of v)) (siter (allowed_vals v)).
  Proof.
    unfold sd_allowed_list, Ser.served_var, siter. cbn [sd_allowed]. destruct (allowed_vals v); reflexivity.
  Qed.
  Lemma set_iter_nil_in (vs : list pyval) x : In x (siter vs) <-> In x vs.
  Proof. unfold siter. destruct vs; [tauto | apply set_iter_same]. Qed.
  Lemma set_iter_in1 (vs : list pyval) x : In x (siter vs) -> In x vs.
  Proof. apply set_iter_nil_in. Qed.
  Lemma set_iter_in2 (vs : list pyval) x : In x vs -> In x (siter vs).
  Proof. apply set_iter_nil_in. Qed.

  (* ---------------------------------------------------------------- the served variable is a C05 variable *)
  Lemma wf_sv_served v : wf_svar v = true -> wf_sv float_of_str lower_ext (served_var v) = true.
  Proof.
    intros Hwf. destruct (served_texts v Hwf) as (Hdf & Hrg & Hal).
    pose proof (wf_svar_row _ _ _ v Hwf) as Hrow.
    unfold Spec.wf_sv. cbn [sd_type Ser.served_var]. rewrite Hrow.
    assert (Hname : str_eqb (strip (vr_name v)) (vr_name v) = true).
    { unfold Spec.wf_svar in Hwf. rewrite Hrow in Hwf. do 4 (apply andb_true_iff in Hwf as [Hwf _]).
      now apply andb_true_iff in Hwf as [_ ?]. }
    change (sd_name (served_var v)) with (vr_name v). rewrite Hname. cbn [andb].
    apply andb_true_iff. split; [apply andb_true_iff; split; [apply andb_true_iff; split|]|].
    - unfold opt_coercible. rewrite served_default. destruct (vr_default v) as [t|] eqn:E; [|reflexivity]. cbn [option_map].
      destruct (Hdf t eq_refl) as [A _]. now apply (typed_coercible _ _ _ A).
    - unfold opt_coercible.
      destruct (range_shape v Hwf) as [E|(mn & mx & st & E)].
      + now destruct (served_norange v E) as [-> _].
      + rewrite (served_min v _ _ _ E). destruct (Hrg mn mx st E) as (A & _). now apply (typed_coercible _ _ _ A).
    - unfold opt_coercible.
      destruct (range_shape v Hwf) as [E|(mn & mx & st & E)].
      + now destruct (served_norange v E) as [_ ->].
      + rewrite (served_max v _ _ _ E). destruct (Hrg mn mx st E) as (_ & _ & A & _). now apply (typed_coercible _ _ _ A).
    - rewrite served_allowed_list. apply forallb_forall. intros t Ht. apply in_map_iff in Ht as (x & <- & Hx).
      apply set_iter_in1 in Hx. now apply (typed_coercible _ _ _ (Hal x Hx)).
  Qed.

  (* ---------------------------------------------------------------- ... whose object mirrors the DEFINITION's variable *)
  Lemma opt_refl o : opt_eqb val_eqb o o = true.
  Proof. apply opt_val_eqb_refl. Qed.

  Lemma spec_decl_same v p :
    wf_svar v = true ->
    validate (spec_decl float_of_str lower_ext true (vrow_of v) (served_var v)) p =
    spec_accepts (spec_decl float_of_str lower_ext true (vrow_of v) (svdef_of v)) p.
  Proof.
    intros Hwf. destruct (served_texts v Hwf) as (_ & Hrg & Hal).
    destruct (wf_svar_texts _ _ _ urljoin v Hwf) as (_ & _ & Hal0).
    rewrite <- accepts_iff. apply validate_same; unfold spec_decl; cbn [d_row d_min d_max d_allowed]; try reflexivity.
    - destruct (range_shape v Hwf) as [E|(mn & mx & st & E)].
      + destruct (served_norange v E) as [-> _]. now destruct (def_norange v E) as [-> _].
      + rewrite (served_min v _ _ _ E), (def_min v _ _ _ E). destruct (Hrg mn mx st E) as (A & B & _).
        destruct (typed_coerce _ _ _ A) as [-> _]. now destruct (typed_coerce _ _ _ B) as [-> _].
    - destruct (range_shape v Hwf) as [E|(mn & mx & st & E)].
      + destruct (served_norange v E) as [_ ->]. now destruct (def_norange v E) as [_ ->].
      + rewrite (served_max v _ _ _ E), (def_max v _ _ _ E). destruct (Hrg mn mx st E) as (_ & _ & A & B).
        destruct (typed_coerce _ _ _ A) as [-> _]. now destruct (typed_coerce _ _ _ B) as [-> _].
    - intros x. rewrite served_allowed_list.
      rewrite coerce_list_wire by (intros y Hy; apply Hal; now apply set_iter_in1).
      change (sd_allowed_list (svdef_of v)) with (vr_allowed_list v).
      rewrite (coerce_list_typed _ _ Hal0). apply set_iter_nil_in.
  Qed.

  Lemma mirror_sv_served v : wf_svar v = true -> mirror_sv (svdef_of v) (svo_of (served_var v)) = true.
  Proof.
    intros Hwf. destruct (served_texts v Hwf) as (Hdf & Hrg & Hal).
    destruct (wf_svar_texts _ _ _ urljoin v Hwf) as (_ & _ & Hal0).
    pose proof (wf_svar_row _ _ _ v Hwf) as Hrow.
    unfold Spec.mirror_sv, Expected.svo_of. cbn [sd_type svdef_of]. rewrite Hrow, row_of_served.
    cbn [vo_name vo_dtype vo_pytype vo_events vo_min vo_max vo_allowed vo_default vo_probes vo_bound res_eqb
           sd_name sd_type sd_evented Ser.served_var].
    rewrite !str_eqb_refl, pytype_eqb_refl, eqb_reflx. cbn [andb]. rewrite andb_true_r.
    apply andb_true_iff; split; [apply andb_true_iff; split; [apply andb_true_iff; split; [apply andb_true_iff; split|]|]|].
    - unfold opt_coerce. destruct (range_shape v Hwf) as [E|(mn & mx & st & E)].
      + destruct (served_norange v E) as [-> _]. now destruct (def_norange v E) as [-> _].
      + rewrite (served_min v _ _ _ E), (def_min v _ _ _ E). destruct (Hrg mn mx st E) as (A & B & _).
        destruct (typed_coerce _ _ _ A) as [-> _]. destruct (typed_coerce _ _ _ B) as [-> _]. apply opt_refl.
    - unfold opt_coerce. destruct (range_shape v Hwf) as [E|(mn & mx & st & E)].
      + destruct (served_norange v E) as [_ ->]. now destruct (def_norange v E) as [_ ->].
      + rewrite (served_max v _ _ _ E), (def_max v _ _ _ E). destruct (Hrg mn mx st E) as (_ & _ & A & B).
        destruct (typed_coerce _ _ _ A) as [-> _]. destruct (typed_coerce _ _ _ B) as [-> _]. apply opt_refl.
    - rewrite served_allowed_list.
      rewrite coerce_list_wire by (intros y Hy; apply Hal; now apply set_iter_in1).
      change (sd_allowed_list (svdef_of v)) with (vr_allowed_list v).
      rewrite (coerce_list_typed _ _ Hal0). fold (allowed_vals v).
      unfold set_eqb. apply andb_true_iff. split; apply forallb_forall; intros x Hx; apply existsb_exists; exists x;
        (split; [|apply val_eqb_refl]).
      + now apply set_iter_in1.
      + now apply set_iter_in2.
    - unfold opt_coerce. rewrite served_default. change (sd_default (svdef_of v)) with (vr_default v).
      destruct (vr_default v) as [t|] eqn:E; [|reflexivity]. cbn [option_map].
      destruct (Hdf t eq_refl) as [A B].
      destruct (typed_coerce _ _ _ A) as [-> _]. destruct (typed_coerce _ _ _ B) as [-> _]. apply opt_refl.
    - unfold list_eqb. induction probes as [|p ps IH]; cbn [map forallb2]; [reflexivity|].
      unfold spec_probe at 1. rewrite (spec_decl_same v p Hwf), eqb_reflx. exact IH.
  Qed.
  (* ---------------------------------------------------------------- services *)
  Notation wf_service := (wf_service urljoin float_of_str lower_ext base).
  Notation wf_tree := (wf_tree urljoin float_of_str lower_ext base).

  Lemma forallb2_maps {A B C} (f : B -> C -> bool) (g : A -> B) (h : A -> C) (l : list A) :
    (forall x, In x l -> f (g x) (h x) = true) -> forallb2 f (map g l) (map h l) = true.
  Proof.
    induction l as [|x l IH]; intros H; cbn; [reflexivity|].
    rewrite (H x (or_introl eq_refl)), IH by (intros; apply H; now right). reflexivity.
  Qed.

  Lemma wf_service_served url s :
    wf_ssvc url s = true -> wf_service (svcdef_of s) = true -> wf_service (served_svc s) = true.
  Proof.
    intros Hwf Hc. destruct (wf_ssvc_parts _ _ _ _ _ _ Hwf) as (_ & _ & _ & _ & Hv & _).
    unfold Spec.wf_service in *. cbn [s_scpd s_control s_event s_vars s_actions Ser.served_svc svcdef_of] in *.
    apply andb_true_iff in Hc as [Hc H7]. apply andb_true_iff in Hc as [Hc H6]. apply andb_true_iff in Hc as [Hc H5].
    apply andb_true_iff in Hc as [Hc H4]. apply andb_true_iff in Hc as [Hc H3]. apply andb_true_iff in Hc as [H1 H2].
    rewrite H1, H2, H3. cbn [andb].
    assert (E : map sd_name (map served_var (sc_vars s)) = map sd_name (map svdef_of (sc_vars s))) by (now rewrite !map_map).
    rewrite E, H5, H6, H7, !andb_true_r.
    apply forallb_forall. intros x Hx. apply in_map_iff in Hx as (v & <- & Hin). now apply wf_sv_served, Hv.
  Qed.

  Lemma mirror_service_served url s :
    wf_ssvc url s = true -> wf_service (svcdef_of s) = true ->
    mirror_service (svcdef_of s) (svco_of (served_svc s)) = true.
  Proof.
    intros Hwf Hc. destruct (wf_ssvc_parts _ _ _ _ _ _ Hwf) as (_ & _ & _ & _ & Hv & NDv & _ & NDa & _).
    destruct (wf_service_parts _ _ _ _ _ Hc) as (U1 & U2 & U3 & _).
    unfold Spec.mirror_service, mirror_service_info, Expected.svco_of.
    cbn [so_type so_id so_scpd so_control so_event so_bound so_vars so_actions
           s_type s_id s_scpd s_control s_event s_corrupt s_vars s_actions Ser.served_svc svcdef_of] in *.
    rewrite !(url_ok_resolve urljoin base) by assumption. rewrite !str_eqb_refl. cbn [andb].
    unfold mirror_service_body, vars_of, acts_of.
    cbn [so_vars so_actions s_corrupt s_vars s_actions Ser.served_svc svcdef_of].
    rewrite !dict_of_nodup by (rewrite !map_map; assumption).
    rewrite !map_fst_keyed, !map_snd_keyed, !map_map. cbn [vo_name Expected.svo_of co_name aco_of sd_name ad_name actdef_of svdef_of Ser.served_var].
    rewrite !list_eqb_str_refl. cbn [andb].
    rewrite (forallb2_maps mirror_sv svdef_of (fun x => svo_of (served_var x)))
      by (intros v Hin; now apply mirror_sv_served, Hv).
    cbn [andb].
    apply forallb2_maps. intros a _. apply mirror_action_ok.
  Qed.

  (* ---------------------------------------------------------------- devices *)
  Lemma mirror_hdr_served h : mirror_hdr base h (build_info base (phdr_of (served_hdr h))) = true.
  Proof.
    unfold mirror_hdr, build_info, phdr_of, served_hdr. cbn. rewrite !str_eqb_refl.
    assert (O1 : forall o, opt_matches o (Some (or_empty o)) = true) by (intros [t|]; cbn; [apply str_eqb_refl | reflexivity]).
    now rewrite !O1.
  Qed.

  Lemma served_type d : h_type (dd_hdr (served_dev d)) = h_type (dd_hdr (def_of d)).
  Proof. destruct d; reflexivity. Qed.

  Lemma kf_devices_served d : kf_dup_device_types (served_dev d) = kf_dup_device_types (def_of d).
  Proof.
    induction d as [h url i svcs subs IH] using sdev_ind'. cbn [Ser.served_dev def_of kf_dup_device_types].
    rewrite !map_map. f_equal.
    - do 2 f_equal. apply map_ext. intros x. apply served_type.
    - induction IH as [|x l Hx _ IHl]; cbn [map existsb]; [reflexivity|]. now rewrite Hx, IHl.
  Qed.
  Lemma kf_services_served d : kf_dup_service_types (served_dev d) = kf_dup_service_types (def_of d).
  Proof.
    induction d as [h url i svcs subs IH] using sdev_ind'. cbn [Ser.served_dev def_of kf_dup_service_types].
    rewrite !map_map. f_equal.
    induction IH as [|x l Hx _ IHl]; cbn [map existsb]; [reflexivity|]. now rewrite Hx, IHl.
  Qed.

  Lemma all_services_served d : all_services (served_dev d) = map served_svc (map snd (all_ssvcs d)).
  Proof.
    induction d as [h url i svcs subs IH] using sdev_ind'. cbn [Ser.served_dev all_services all_ssvcs].
    rewrite !map_app, !map_map. cbn [snd]. f_equal.
    induction IH as [|x l Hx _ IHl]; cbn [map flat_map]; [reflexivity|]. now rewrite Hx, IHl, !map_app, !map_map.
  Qed.
  Lemma all_services_def d : all_services (def_of d) = map svcdef_of (map snd (all_ssvcs d)).
  Proof.
    induction d as [h url i svcs subs IH] using sdev_ind'. cbn [def_of all_services all_ssvcs].
    rewrite !map_app, !map_map. cbn [snd]. f_equal.
    induction IH as [|x l Hx _ IHl]; cbn [map flat_map]; [reflexivity|]. now rewrite Hx, IHl, !map_app, !map_map.
  Qed.
  Lemma all_svcobjs_dobj d : all_svcobjs (dobj_of d) = map (fun p => (fst p, sobj_of (snd p))) (all_ssvcs d).
  Proof.
    induction d as [h url i svcs subs IH] using sdev_ind'. cbn [Init.dobj_of all_svcobjs all_ssvcs].
    rewrite !map_app, !map_map. cbn [fst snd]. f_equal.
    induction IH as [|x l Hx _ IHl]; cbn [map flat_map]; [reflexivity|]. now rewrite Hx, IHl, !map_app.
  Qed.

  Lemma any_corrupt_served d : any_corrupt (served_dev d) = false.
  Proof.
    unfold any_corrupt. rewrite all_services_served.
    induction (map snd (all_ssvcs d)) as [|s l IH]; [reflexivity|]. cbn [map existsb]. rewrite IH. reflexivity.
  Qed.

  (* every service of the tree is well formed w.r.t. the url of its device *)
  Lemma wf_all_ssvcs d p : wf_stree d = true -> In p (all_ssvcs d) -> wf_ssvc (fst p) (snd p) = true.
  Proof.
    induction d as [h url i svcs subs IH] using sdev_ind'. intros Hwf Hin.
    destruct (wf_stree_node _ _ _ _ _ _ _ _ _ Hwf) as [Hs Hsub].
    cbn [all_ssvcs] in Hin. apply in_app_or in Hin as [Hin|Hin].
    - apply in_map_iff in Hin as (s & <- & Hs'). cbn [fst snd]. now apply Hs.
    - apply in_flat_map in Hin as (x & Hx & Hin). rewrite Forall_forall in IH. apply (IH x Hx); [now apply Hsub | assumption].
  Qed.

  Lemma wf_tree_served d : wf_stree d = true -> wf_tree (def_of d) = true -> wf_tree (served_dev d) = true.
  Proof.
    induction d as [h url i svcs subs IH] using sdev_ind'. intros Hwf Hc.
    destruct (wf_stree_node _ _ _ _ _ _ _ _ _ Hwf) as [Hs Hsub].
    cbn [def_of] in Hc. destruct (wf_tree_node _ _ _ _ _ _ _ _ Hc) as (Hi & Hcs & Hcsub).
    cbn [Ser.served_dev Spec.wf_tree].
    apply andb_true_iff; split; [apply andb_true_iff; split|].
    - apply forallb_forall. exact Hi.
    - apply forallb_forall. intros x Hx. apply in_map_iff in Hx as (s & <- & Hin).
      apply (wf_service_served url); [now apply Hs|]. apply Hcs. now apply in_map.
    - apply forallb_forall. intros x Hx. apply in_map_iff in Hx as (y & <- & Hin).
      rewrite Forall_forall in IH. apply IH; [assumption | now apply Hsub |]. apply Hcsub. now apply in_map.
  Qed.

  Lemma mirror_dev_served d :
    wf_stree d = true -> wf_tree (def_of d) = true ->
    kf_dup_device_types (def_of d) = false -> kf_dup_service_types (def_of d) = false ->
    mirror_dev (def_of d) (devo_of (served_dev d)) = true.
  Proof.
    induction d as [h url i svcs subs IH] using sdev_ind'. intros Hwf Hc K1 K2.
    destruct (wf_stree_node _ _ _ _ _ _ _ _ _ Hwf) as [Hs Hsub].
    cbn [def_of] in Hc, K1, K2. destruct (wf_tree_node _ _ _ _ _ _ _ _ Hc) as (Hi & Hcs & Hcsub).
    destruct (kf_device_node _ _ _ _ K1) as [ND1 K1s]. destruct (kf_service_node _ _ _ _ K2) as [ND2 K2s].
    cbn [def_of Ser.served_dev Expected.devo_of Spec.mirror_dev]. rewrite mirror_hdr_served. cbn [andb].
    rewrite forallb2_same by (intros; now apply mirror_icon_ok, Hi). cbn [andb].
    rewrite dict_of_nodup by (rewrite !map_map; rewrite map_map in ND2; exact ND2).
    rewrite map_fst_keyed, map_snd_keyed, !map_map. cbn [so_type Expected.svco_of s_type Ser.served_svc svcdef_of].
    rewrite list_eqb_str_refl. cbn [andb].
    rewrite (forallb2_maps mirror_service svcdef_of (fun x => svco_of (served_svc x))).
    2:{ intros s Hin. apply (mirror_service_served url); [now apply Hs|]. apply Hcs. now apply in_map. }
    cbn [andb]. rewrite andb_true_r.
    rewrite dict_of_nodup.
    2:{ rewrite !map_map. rewrite map_map in ND1. erewrite map_ext; [exact ND1|].
        intros x. rewrite (devo_type urljoin float_of_str lower_ext true probes base). apply served_type. }
    assert (Hall : forall x, In x subs -> mirror_dev (def_of x) (devo_of (served_dev x)) = true).
    { intros x Hin. rewrite Forall_forall in IH. apply IH; [assumption | now apply Hsub | | |].
      - apply Hcsub. now apply in_map.
      - apply K1s. now apply in_map.
      - apply K2s. now apply in_map. }
    clear -Hall. induction subs as [|x l IHl]; cbn; [reflexivity|].
    rewrite (devo_type urljoin float_of_str lower_ext true probes base), served_type.
    destruct (def_of x) eqn:E. cbn [dd_hdr]. rewrite str_eqb_refl. rewrite <- E, Hall by now left. cbn [andb].
    apply IHl. intros; apply Hall; now right.
  Qed.

  (* ---------------------------------------------------------------- the server answers the client's GETs *)
  Notation fetch_srv := (fetch_srv float_str float_of_str lower_ext set_iter urljoin).
  Notation pscpd_served := (pscpd_served float_str float_of_str lower_ext set_iter).

  Lemma find_ext_in {A} (p q : A -> bool) l : (forall x, In x l -> p x = q x) -> find p l = find q l.
  Proof.
    induction l as [|x l IH]; intros H; cbn; [reflexivity|].
    rewrite (H x (or_introl eq_refl)), IH by (intros; apply H; now right). reflexivity.
  Qed.

  Definition skey (p : pystr * ssvc) : pystr := urljoin base (sc_scpd (snd p)).

  Lemma fetch_srv_ok d p :
    wf_stree d = true -> NoDup (map skey (all_ssvcs d)) -> In p (all_ssvcs d) ->
    fetch_srv base (dobj_of d) (skey p) = FDoc (pscpd_served (snd p)).
  Proof.
    intros Hwf ND Hin. unfold Model.fetch_srv. rewrite all_svcobjs_dobj, find_map.
    rewrite (find_ext_in _ (fun y => str_eqb (skey y) (skey p))).
    2:{ intros y Hy. unfold served_scpd_url, skey. cbn [fst snd Init.sobj_of sb_def].
        destruct (wf_ssvc_parts _ _ _ _ _ _ (wf_all_ssvcs d y Hwf Hy)) as (_ & -> & _). reflexivity. }
    rewrite (find_nodup_key skey _ p ND Hin). cbn [option_map snd].
    rewrite (ser_scpd_ok _ _ _ _ _ set_iter_same _ _ (wf_all_ssvcs d p Hwf Hin)).
    now rewrite parse_srv_scpd.
  Qed.

  Lemma skeys_def d : map (scpd_url urljoin base) (all_services (def_of d)) = map skey (all_ssvcs d).
  Proof. rewrite all_services_def, !map_map. reflexivity. Qed.

  Lemma fetch_ok_served d :
    wf_stree d = true -> NoDup (map skey (all_ssvcs d)) ->
    fetch_ok urljoin (fetch_srv base (dobj_of d)) base r0 (served_dev d).
  Proof.
    intros Hwf ND s' Hs'. rewrite all_services_served in Hs'. rewrite map_map in Hs'.
    apply in_map_iff in Hs' as (p & <- & Hin).
    change (scpd_url urljoin base (served_svc (snd p))) with (skey p).
    rewrite (fetch_srv_ok d p Hwf ND Hin). symmetry. apply pscpd_of_served.
  Qed.

  (* ---------------------------------------------------------------- the <step> texts *)
  Lemma steps_of_served s :
    (forall v, In v (sc_vars s) -> wf_svar v = true) ->
    steps_of_scpd (sc_type s) (pscpd_served s) = map (fun v => (sc_type s, vr_name v, vr_step v)) (sc_vars s).
  Proof.
    intros Hv. unfold steps_of_scpd, Ser.pscpd_served. cbn [pd_table]. rewrite !map_map.
    apply map_ext_in. intros v Hin. pose proof (Hv v Hin) as Hwf.
    unfold psv_of. cbn [pv_name pv_range pad_name r0 rendering_of r_pad or_empty].
    change (sd_name (served_var v)) with (vr_name v).
    assert (Hname : strip (vr_name v) = vr_name v).
    { pose proof (wf_svar_row _ _ _ v Hwf) as Hrow. unfold Spec.wf_svar in Hwf. rewrite Hrow in Hwf.
      do 4 (apply andb_true_iff in Hwf as [Hwf _]). apply andb_true_iff in Hwf as [_ Hn]. now apply str_eqb_eq. }
    rewrite Hname. f_equal. unfold vr_step, Ser.served_var. cbn [sd_range].
    destruct (range_shape v Hwf) as [->|(mn & mx & st & ->)]; reflexivity.
  Qed.

  Lemma describe_steps_ok d :
    wf_stree d = true ->
    describe_steps float_str float_of_str lower_ext set_iter (dobj_of d) = expected_steps d.
  Proof.
    intros Hwf. unfold describe_steps, expected_steps. rewrite all_svcobjs_dobj.
    assert (H : forall l, (forall p, In p l -> wf_ssvc (fst p) (snd p) = true) ->
              flat_map (fun p => match ser_scpd float_str float_of_str lower_ext set_iter (snd p) with
                                 | Ok x => steps_of_scpd (sc_type (sb_def (snd p))) (parse_scpd x)
                                 | Raise _ => []
                                 end) (map (fun p => (fst p, sobj_of (snd p))) l) =
              flat_map (fun p => map (fun v => (sc_type (snd p), vr_name v, vr_step v)) (sc_vars (snd p))) l).
    { induction l as [|p l IH]; intros Hl; [reflexivity|]. cbn [map flat_map snd].
      pose proof (Hl p (or_introl eq_refl)) as Hp.
      rewrite (ser_scpd_ok _ _ _ _ _ set_iter_same _ _ Hp), parse_srv_scpd. cbn [sb_def Init.sobj_of].
      destruct (wf_ssvc_parts _ _ _ _ _ _ Hp) as (_ & _ & _ & _ & Hv & _).
      rewrite (steps_of_served _ Hv), IH by (intros; apply Hl; now right). reflexivity. }
    apply H. intros p Hp. now apply (wf_all_ssvcs d).
  Qed.

  (* ---------------------------------------------------------------- clause 1 *)
  Theorem description_ok d :
    wf_sdev base d = true ->
    init_device float_of_str lower_ext d = SOk (dobj_of d) /\
    describe float_str float_of_str lower_ext set_iter urljoin probes base (dobj_of d) = FOk (devo_of (served_dev d)) /\
    mirror_dev (def_of d) (devo_of (served_dev d)) = true /\
    describe_steps float_str float_of_str lower_ext set_iter (dobj_of d) = expected_steps d.
  Proof.
    unfold Spec.wf_sdev. intros H.
    apply andb_true_iff in H as [H K2]. apply andb_true_iff in H as [H K1]. apply andb_true_iff in H as [Hwf Hc].
    apply negb_true_iff in K1, K2.
    destruct (wf_dev_parts urljoin float_of_str lower_ext base (def_of d) Hc) as [Ht ND]. rewrite skeys_def in ND.
    split; [now apply (init_device_ok float_str float_of_str lower_ext urljoin)|]. split; [|split; [now apply mirror_dev_served | now apply describe_steps_ok]].
    unfold describe, create_device. rewrite (parse_srv_root float_str float_of_str lower_ext set_iter urljoin d Hwf).
    apply (build_device_ok urljoin float_of_str lower_ext _ true probes base r0).
    - now apply wf_tree_served.
    - now apply fetch_ok_served.
    - now rewrite any_corrupt_served.
  Qed.

  Corollary clause_description d :
    wf_sdev base d = true ->
    c_description float_of_str lower_ext urljoin probes base d
      (describe float_str float_of_str lower_ext set_iter urljoin probes base (dobj_of d))
      (describe_steps float_str float_of_str lower_ext set_iter (dobj_of d)) = true.
  Proof.
    intros H. destruct (description_ok d H) as (_ & -> & Hm & ->). unfold c_description. rewrite Hm. cbn [andb].
    unfold list_eqb. induction (expected_steps d) as [|[[a b] c] l IH]; cbn [forallb2]; [reflexivity|]. rewrite IH, andb_true_r.
    unfold step_eqb. cbn [fst snd]. rewrite !str_eqb_refl. destruct c; cbn; [apply str_eqb_refl | reflexivity].
  Qed.
End Descr.
