(* C14 — clause 4: the server refuses every request of the listed classes with a 4xx status or a SOAP
   fault, no request makes an exception leave the handler (as long as the handler method itself behaves),
   and a request of none of these classes reaches the handler method.

   One lemma characterises [handle] completely ([handle_char]); the three theorems are read off it. *)
From Coq Require Import List Bool NArith ZArith Lia.
From AUC Require Import Prelude.PyStr Prelude.PyDict C08.TypesDef C08.Model C08.Spec C08.Codec Gen.Types Gen.DateMatchers
  C05.Xml C05.Names C05.Model C05.Def C05.Spec C05.Lemmas C06.XmlRead C14.Model C14.Spec C14.Base C14.Init.
From AUC Require C06.Model C06.Spec C06.Values C06.Shape C07.Spec.
Import ListNotations.
Local Open Scope N_scope.

(* ------------------------------------------------------------------ lists *)
Lemma find_app_or {A} (p : A -> bool) (l1 l2 : list A) :
  find p (l1 ++ l2) = match find p l1 with Some x => Some x | None => find p l2 end.
Proof. induction l1 as [|x l1 IH]; cbn; [reflexivity|]. destruct (p x); [reflexivity | exact IH]. Qed.

Lemma existsb_orb_split {A} (f g : A -> bool) (l : list A) :
  existsb (fun x => f x || g x) l = existsb f l || existsb g l.
Proof.
  induction l as [|x l IH]; cbn; [reflexivity|]. rewrite IH.
  destruct (f x), (g x), (existsb f l), (existsb g l); reflexivity.
Qed.

Lemma existsb_pointwise {A} (f g : A -> bool) (l : list A) :
  (forall x, f x = g x) -> existsb f l = existsb g l.
Proof. intros H. induction l as [|x l IH]; cbn; [reflexivity|]. now rewrite H, IH. Qed.

Lemma find_nodup_self {A} (key : A -> pystr) (l : list A) (x : A) :
  NoDup (map key l) -> In x l -> find (fun y => str_eqb (key y) (key x)) l = Some x.
Proof.
  induction l as [|y l IH]; cbn; [tauto|]. intros Hnd Hin. inversion Hnd as [|? ? Hn Hnd']; subst.
  destruct Hin as [->|Hin]; [now rewrite str_eqb_refl|].
  destruct (str_eqb_spec (key y) (key x)) as [E|_]; [|now apply IH].
  exfalso. apply Hn. rewrite E. now apply in_map.
Qed.

Lemma dhas_dset (acc : dict pystr pyval) k v n :
  dhas str_eqb (dset str_eqb acc k v) n = str_eqb k n || dhas str_eqb acc n.
Proof. unfold dhas. rewrite (dget_dset str_eqb str_eqb_spec). destruct (str_eqb k n); reflexivity. Qed.

Section Bad.
  Variable float_str : fl -> pystr.
  Variable float_of_str : pystr -> option fl.
  Variable lower_ext : N -> N.
  Variable urljoin : pystr -> pystr -> pystr.

  Notation wf_svar := (wf_svar float_str float_of_str lower_ext).
  Notation wf_ssvc := (wf_ssvc float_str float_of_str lower_ext urljoin).
  Notation vobj_of := (vobj_of float_of_str lower_ext).
  Notation vdecl_of := (vdecl_of float_of_str lower_ext).
  Notation bind_of := (bind_of float_of_str lower_ext).
  Notation aobj_of := (aobj_of float_of_str lower_ext).
  Notation sobj_of := (sobj_of float_of_str lower_ext).
  Notation arg_decl := (arg_decl float_of_str lower_ext).
  Notation apply_in := (apply_in float_of_str lower_ext).
  Notation parse_args := (parse_args float_of_str lower_ext).
  Notation handle := (handle float_str float_of_str lower_ext).
  Notation must_refuse := (must_refuse float_of_str lower_ext).
  Notation script_ok := (script_ok float_str float_of_str lower_ext).
  Notation outs_valid := (outs_valid float_str float_of_str lower_ext).
  Notation unparseable_arg := (unparseable_arg float_of_str lower_ext).
  Notation invalid_arg := (invalid_arg float_of_str lower_ext).

  (* ---------------------------------------------------------------- parse_args, on the objects *)
  (* the argument element names no in-argument, or its text is not converted *)
  Definition kid_bad (ins : list (pystr * svobj)) (x : xtree) : bool :=
    match find_arg ins (elem_tag x) with
    | None => true
    | Some w => match apply_in (r_in (w_row w)) (elem_text x) with Ok _ => false | Raise _ => true end
    end.
  Definition kid_val (ins : list (pystr * svobj)) (x : xtree) : option pyval :=
    match find_arg ins (elem_tag x) with
    | None => None
    | Some w => match apply_in (r_in (w_row w)) (elem_text x) with Ok v => Some v | Raise _ => None end
    end.

  Lemma parse_args_spec ins kids : forall acc,
    match parse_args ins kids acc with
    | inl r => r = RBad 3 /\ existsb (kid_bad ins) kids = true
    | inr kw =>
        existsb (kid_bad ins) kids = false /\
        forall n,
          dget str_eqb kw n =
            match find (fun x => str_eqb (elem_tag x) n) (rev kids) with
            | Some x => kid_val ins x
            | None => dget str_eqb acc n
            end /\
          dhas str_eqb kw n = existsb (fun x => str_eqb (elem_tag x) n) kids || dhas str_eqb acc n
    end.
  Proof.
    induction kids as [|[ns l ats text ks] r IH]; intros acc.
    - cbn [Model.parse_args existsb rev find orb]. split; [reflexivity|]. intros n. split; reflexivity.
    - cbn [Model.parse_args].
      destruct (find_arg ins (etag ns l)) as [w|] eqn:Ef.
      2:{ split; [reflexivity|]. cbn [existsb]. unfold kid_bad at 1. cbn [elem_tag elem_text]. now rewrite Ef. }
      destruct (apply_in (r_in (w_row w)) text) as [v|e] eqn:Ea.
      + specialize (IH (dset str_eqb acc (etag ns l) v)).
        destruct (parse_args ins r (dset str_eqb acc (etag ns l) v)) as [rr|kw].
        * destruct IH as [-> Hb]. split; [reflexivity|]. cbn [existsb]. rewrite Hb. apply orb_true_r.
        * destruct IH as [Hb Hn]. split.
          { cbn [existsb]. rewrite Hb. unfold kid_bad. cbn [elem_tag elem_text]. now rewrite Ef, Ea. }
          intros n. destruct (Hn n) as [H1 H2]. split.
          { rewrite H1. cbn [rev]. rewrite find_app_or.
            destruct (find (fun x => str_eqb (elem_tag x) n) (rev r)); [reflexivity|].
            cbn [find elem_tag]. rewrite (dget_dset str_eqb str_eqb_spec).
            destruct (str_eqb (etag ns l) n); [|reflexivity].
            unfold kid_val. cbn [elem_tag elem_text]. now rewrite Ef, Ea. }
          { rewrite H2, dhas_dset. cbn [existsb elem_tag].
            destruct (str_eqb (etag ns l) n), (existsb (fun x => str_eqb (elem_tag x) n) r); reflexivity. }
      + pose proof (coercion_errors _ _ _ _ _ Ea) as ->. split; [reflexivity|].
        cbn [existsb]. unfold kid_bad at 1. cbn [elem_tag elem_text]. now rewrite Ef, Ea.
  Qed.

  (* ---------------------------------------------------------------- the arguments of a well-formed service *)
  Lemma find_arg_bind vars (l : list (pystr * pystr)) n :
    find_arg (map (bind_of vars) l) n =
    option_map (fun p => snd (bind_of vars p)) (find (fun p => str_eqb (fst p) n) l).
  Proof.
    unfold find_arg. rewrite find_map.
    change (fun x : pystr * pystr => str_eqb (fst (bind_of vars x)) n) with (fun p : pystr * pystr => str_eqb (fst p) n).
    destruct (find (fun p => str_eqb (fst p) n) l); reflexivity.
  Qed.

  Lemma arg_var dev_url s a p :
    wf_ssvc dev_url s = true -> In a (sc_acts s) -> In p (ac_ins a ++ ac_outs a) ->
    exists v, wf_svar v = true /\ bind_of (sc_vars s) p = (fst p, vobj_of v) /\
              arg_decl s p = Some (vdecl_of v) /\ d_row (vdecl_of v) = vrow_of v /\ In (vrow_of v) type_table.
  Proof.
    intros Hwf Ha Hp. destruct (wf_ssvc_parts _ _ _ _ _ _ Hwf) as (_ & _ & _ & _ & Hv & _ & Hacts & _).
    destruct (wf_sact_parts _ _ (Hacts a Ha)) as (_ & Hargs & _ & _).
    destruct (Hargs p Hp) as [_ Hex]. apply existsb_str_In in Hex.
    destruct (find_name_in vr_name (sc_vars s) (snd p) Hex) as (v & Hf & _).
    pose proof (find_some_in _ _ _ Hf) as [Hin _]. pose proof (Hv v Hin) as Hwv.
    exists v. split; [assumption|]. split; [|split; [|split]].
    - unfold Init.bind_of. now rewrite Hf.
    - unfold Spec.arg_decl, var_named. rewrite Hf. now apply (init_var_ok float_str).
    - now apply (decl_or_row float_str).
    - now apply (wf_svar_in_table float_str float_of_str lower_ext).
  Qed.

  Section Action.
    Variable dev_url : pystr.
    Variable s : ssvc.
    Variable a : sact.
    Hypothesis Hwf : wf_ssvc dev_url s = true.
    Hypothesis Ha : In a (sc_acts s).

    Let ins := map (bind_of (sc_vars s)) (ac_ins a).

    Lemma in_arg_var p : In p (ac_ins a) ->
      exists v, wf_svar v = true /\ bind_of (sc_vars s) p = (fst p, vobj_of v) /\
                arg_decl s p = Some (vdecl_of v) /\ d_row (vdecl_of v) = vrow_of v /\ In (vrow_of v) type_table.
    Proof. intros Hp. apply (arg_var dev_url s a p Hwf Ha). apply in_or_app. now left. Qed.

    Lemma ins_nodup : NoDup (map fst (ac_ins a)).
    Proof.
      destruct (wf_ssvc_parts _ _ _ _ _ _ Hwf) as (_ & _ & _ & _ & _ & _ & Hacts & _).
      now destruct (wf_sact_parts _ _ (Hacts a Ha)) as (_ & _ & Hnd & _).
    Qed.

    Lemma kid_bad_spec x :
      kid_bad ins x =
      (match in_arg a (elem_tag x) with Some _ => false | None => true end) ||
      (match in_arg a (elem_tag x) with
       | Some p => match arg_decl s p with
                   | Some d => match apply_in (r_in (d_row d)) (elem_text x) with Ok _ => false | Raise _ => true end
                   | None => true
                   end
       | None => false
       end).
    Proof.
      unfold kid_bad, ins. rewrite find_arg_bind. unfold in_arg.
      destruct (find (fun p => str_eqb (fst p) (elem_tag x)) (ac_ins a)) as [p|] eqn:Ef; [|reflexivity].
      cbn [option_map orb]. pose proof (find_some_in _ _ _ Ef) as [Hin _].
      destruct (in_arg_var p Hin) as (v & _ & Hb & Hd & Hr & _).
      rewrite Hb, Hd, Hr. reflexivity.
    Qed.

    Lemma kids_bad_spec kids :
      existsb (kid_bad ins) kids = unknown_arg a kids || unparseable_arg s a kids.
    Proof.
      unfold unknown_arg, Spec.unparseable_arg. rewrite <- existsb_orb_split.
      apply existsb_pointwise. exact kid_bad_spec.
    Qed.

    Lemma forallb_dhas (kw : dict pystr pyval) kids :
      (forall n, dhas str_eqb kw n = existsb (fun x => str_eqb (elem_tag x) n) kids) ->
      forallb (fun q : pystr * svobj => dhas str_eqb kw (fst q)) ins = negb (missing_arg a kids).
    Proof.
      intros H. unfold missing_arg, ins. induction (ac_ins a) as [|p l IH]; [reflexivity|].
      cbn [map forallb existsb]. rewrite IH, H.
      change (fst (bind_of (sc_vars s) p)) with (fst p).
      destruct (existsb (fun x => str_eqb (elem_tag x) (fst p)) kids); cbn [negb orb andb]; [reflexivity|].
      reflexivity.
    Qed.

    Lemma validate_ins_spec (kw : dict pystr pyval) kids (l : list (pystr * pystr)) :
      (forall p, In p l ->
         exists v t x, bind_of (sc_vars s) p = (fst p, vobj_of v) /\ arg_decl s p = Some (vdecl_of v) /\
                       d_row (vdecl_of v) = vrow_of v /\ last_text kids (fst p) = Some t /\
                       apply_in (r_in (vrow_of v)) t = Ok x /\ dget str_eqb kw (fst p) = Some x) ->
      validate_ins (map (bind_of (sc_vars s)) l) kw =
      if existsb (fun p => match arg_decl s p, last_text kids (fst p) with
                           | Some d, Some t => match apply_in (r_in (d_row d)) t with
                                               | Ok v => negb (spec_accepts d v)
                                               | Raise _ => false
                                               end
                           | _, _ => false
                           end) l
      then VInvalid else VOk.
    Proof.
      induction l as [|p l IH]; intros H; [reflexivity|].
      destruct (H p (or_introl eq_refl)) as (v & t & x & Hb & Hd & Hr & Hl & Hx & Hg).
      cbn [map existsb]. rewrite Hb, Hd, Hl, Hr, Hx. cbn [validate_ins]. rewrite Hg.
      cbn [w_decl Init.vobj_of]. rewrite accepts_iff.
      destruct (spec_accepts (vdecl_of v) x); cbn [negb orb]; [|reflexivity].
      apply IH. intros q Hq. apply H. now right.
    Qed.

    (* what the keyword arguments hold for the in-arguments, once all of them are there *)
    Lemma kw_facts (kw : dict pystr pyval) kids :
      (forall n, dget str_eqb kw n =
                 match find (fun x => str_eqb (elem_tag x) n) (rev kids) with
                 | Some x => kid_val ins x
                 | None => None
                 end) ->
      forallb (fun q : pystr * svobj => dhas str_eqb kw (fst q)) ins = true ->
      forall p, In p (ac_ins a) ->
        exists v t x, bind_of (sc_vars s) p = (fst p, vobj_of v) /\ arg_decl s p = Some (vdecl_of v) /\
                      d_row (vdecl_of v) = vrow_of v /\ last_text kids (fst p) = Some t /\
                      apply_in (r_in (vrow_of v)) t = Ok x /\ dget str_eqb kw (fst p) = Some x.
    Proof.
      intros Hn Hall p Hp. destruct (in_arg_var p Hp) as (v & _ & Hb & Hd & Hr & _).
      rewrite forallb_forall in Hall. specialize (Hall (bind_of (sc_vars s) p) (in_map _ _ _ Hp)).
      change (fst (bind_of (sc_vars s) p)) with (fst p) in Hall.
      unfold dhas in Hall. destruct (dget str_eqb kw (fst p)) as [x|] eqn:Eg; [|discriminate].
      pose proof Eg as Eg0. rewrite Hn in Eg.
      destruct (find (fun x => str_eqb (elem_tag x) (fst p)) (rev kids)) as [k|] eqn:Ef; [|discriminate].
      pose proof (find_some_in _ _ _ Ef) as [_ Hk]. apply str_eqb_eq in Hk.
      unfold kid_val, ins in Eg. rewrite find_arg_bind, Hk, (find_nodup_self fst (ac_ins a) p ins_nodup Hp) in Eg.
      cbn [option_map] in Eg. rewrite Hb in Eg. cbn [snd w_row Init.vobj_of] in Eg.
      destruct (apply_in (r_in (vrow_of v)) (elem_text k)) as [y|] eqn:Ey; [|discriminate].
      injection Eg as ->.
      exists v, (elem_text k), x. repeat split; try assumption.
      unfold last_text. now rewrite Ef.
    Qed.

    (* ---------------------------------------------------------------- the response *)
    Lemma coerce_same d v : C06.Model.coerce_upnp float_str d v = coerce_upnp float_str (d_row d) v.
    Proof.
      unfold C06.Model.coerce_upnp, C06.Model.norm_bool, coerce_upnp.
      destruct (r_type (d_row d)), v; reflexivity.
    Qed.

    Lemma render_outs_ok outs :
      forallb (fun kv : pystr * pyval =>
                 match find (fun p => str_eqb (fst p) (fst kv)) (ac_outs a) with
                 | Some p => match arg_decl s p with
                             | Some d => spec_accepts d (snd kv) && value_ok float_str float_of_str d (snd kv)
                             | None => false
                             end
                 | None => false
                 end) outs = true ->
      exists l, render_outs float_str (map (bind_of (sc_vars s)) (ac_outs a)) outs = SOk l.
    Proof.
      induction outs as [|[k v] r IH]; intros H; [now exists []|].
      cbn [forallb fst snd] in H. apply andb_true_iff in H as [H1 H2].
      destruct (find (fun p => str_eqb (fst p) k) (ac_outs a)) as [p|] eqn:Ef; [|discriminate].
      pose proof (find_some_in _ _ _ Ef) as [Hin _].
      destruct (arg_var dev_url s a p Hwf Ha (in_or_app _ _ _ (or_intror Hin))) as (v0 & _ & Hb & Hd & Hr & Ht).
      rewrite Hd in H1. apply andb_true_iff in H1 as [Hacc Hok].
      cbn [Model.render_outs]. rewrite find_arg_bind, Ef. cbn [option_map]. rewrite Hb.
      cbn [snd w_decl Init.vobj_of]. rewrite accepts_iff, Hacc.
      unfold render. cbn [w_row Init.vobj_of].
      unfold value_ok in Hok.
      destruct (C06.Values.wire_ok float_str float_of_str lower_ext (vrow_of v0) (vdecl_of v0) v Ht Hr Hok) as (w & Hw & _).
      rewrite coerce_same, Hr in Hw. rewrite Hw.
      destruct (IH H2) as [l Hl]. rewrite Hl. cbn [sbind]. now eexists.
    Qed.

    Definition handler_ok (h : hscript) : Prop :=
      match h with
      | HReturn outs => outs_valid s a outs = true
      | HActionError _ | HValueError => True
      | HCrash => False
      end.

    (* from the action on: the request is of one of the four classes, is refused and the handler method is
       not entered; or it is of none, the handler method is entered and no exception leaves *)
    Lemma call_char kids h :
      handler_ok h ->
      let bad := unknown_arg a kids || unparseable_arg s a kids || missing_arg a kids || invalid_arg s a kids in
      let r := match parse_args ins kids [] with
               | inl r => (None, r)
               | inr kw =>
                   if forallb (fun q : pystr * svobj => dhas str_eqb kw (fst q)) ins
                   then run_action float_str (aobj_of (sc_vars s) a) kw h
                   else (None, RBad 3)
               end in
      (bad = true /\ fst r = None /\ is_refusal (snd r) = true) \/
      (bad = false /\ (exists kw, fst r = Some kw) /\ not_escaped (snd r) = true).
    Proof.
      intros Hh bad r. subst bad r.
      pose proof (parse_args_spec ins kids []) as HP.
      destruct (parse_args ins kids []) as [rr|kw].
      { destruct HP as [-> Hb]. rewrite kids_bad_spec in Hb. rewrite Hb. left. repeat split. }
      destruct HP as [Hb Hn]. rewrite kids_bad_spec in Hb. rewrite Hb. cbn [orb].
      assert (Hhas : forall n, dhas str_eqb kw n = existsb (fun x => str_eqb (elem_tag x) n) kids).
      { intros n. destruct (Hn n) as [_ H2]. rewrite H2. apply orb_false_r. }
      assert (Hget : forall n, dget str_eqb kw n =
                               match find (fun x => str_eqb (elem_tag x) n) (rev kids) with
                               | Some x => kid_val ins x
                               | None => None
                               end).
      { intros n. now destruct (Hn n) as [H1 _]. }
      pose proof (forallb_dhas kw kids Hhas) as Hall.
      destruct (forallb (fun q : pystr * svobj => dhas str_eqb kw (fst q)) ins) eqn:Eall.
      2:{ symmetry in Hall. apply negb_false_iff in Hall. rewrite Hall. left. repeat split. }
      symmetry in Hall. apply negb_true_iff in Hall. rewrite Hall. cbn [orb].
      unfold run_action. cbn [ab_ins ab_outs Init.aobj_of]. fold ins.
      pose proof (validate_ins_spec kw kids (ac_ins a) (kw_facts kw kids Hget Eall)) as HV.
      fold ins in HV. rewrite HV. fold (invalid_arg s a kids).
      destruct (invalid_arg s a kids).
      { left. repeat split. }
      right. split; [reflexivity|]. split; [now exists kw|]. cbn [snd].
      destruct h as [outs| | |]; try reflexivity; [|destruct Hh].
      cbn [handler_ok] in Hh. unfold Spec.outs_valid in Hh. apply andb_true_iff in Hh as [_ Hh].
      destruct (render_outs_ok outs Hh) as [l Hl]. now rewrite Hl.
    Qed.
  End Action.

  (* ---------------------------------------------------------------- the whole of [handle] *)
  Lemma find_action s name :
    find (fun o => str_eqb (ab_name o) name) (sb_acts (sobj_of s)) =
    option_map (aobj_of (sc_vars s)) (act_named s name).
  Proof. unfold Init.sobj_of. cbn [sb_acts]. now rewrite find_map. Qed.

  Lemma handle_char dev_url s hdr body h :
    wf_ssvc dev_url s = true -> script_ok s hdr h = true ->
    (must_refuse s hdr body = true /\ fst (handle (sobj_of s) hdr body h) = None /\
     is_refusal (snd (handle (sobj_of s) hdr body h)) = true) \/
    (must_refuse s hdr body = false /\ (exists kw, fst (handle (sobj_of s) hdr body h) = Some kw) /\
     not_escaped (snd (handle (sobj_of s) hdr body h)) = true).
  Proof.
    intros Hwf Hs. unfold Model.handle, parse_action_body, Spec.must_refuse, soap_ok.
    destruct (soap_action_name hdr) as [name|] eqn:En; [|left; repeat split].
    destruct body as [t|]; [|left; repeat split].
    destruct (rpc_of t) as [rpc|]; [|left; repeat split].
    rewrite find_action.
    destruct (act_named s name) as [a|] eqn:Ea; cbn [option_map]; [|left; repeat split].
    pose proof (find_some_in _ _ _ Ea) as [Hin _].
    assert (Hh : handler_ok s a h).
    { unfold Spec.script_ok in Hs. destruct h; cbn [handler_ok]; try exact I; [|discriminate].
      now rewrite En, Ea in Hs. }
    pose proof (call_char dev_url s a Hwf Hin (xkids rpc) h Hh) as HC. cbv zeta in HC.
    cbn [ab_ins Init.aobj_of].
    destruct (parse_args (map (bind_of (sc_vars s)) (ac_ins a)) (xkids rpc) []) as [rr|kw]; [exact HC|].
    destruct (forallb (fun q : pystr * svobj => dhas str_eqb kw (fst q)) (map (bind_of (sc_vars s)) (ac_ins a)));
      exact HC.
  Qed.
End Bad.

(* ------------------------------------------------------------------ the theorems *)
Theorem bad_request_handled :
  forall (float_str : fl -> pystr) (float_of_str : pystr -> option fl) (lower_ext : N -> N)
         (urljoin : pystr -> pystr -> pystr) (dev_url : pystr) (s : ssvc)
         (hdr : option pystr) (body : option xtree) (h : hscript),
    wf_ssvc float_str float_of_str lower_ext urljoin dev_url s = true ->
    c_bad_request float_str float_of_str lower_ext s hdr body h
      (snd (handle float_str float_of_str lower_ext (sobj_of float_of_str lower_ext s) hdr body h)) = true.
Proof.
  intros float_str float_of_str lower_ext urljoin dev_url s hdr body h Hwf. unfold c_bad_request.
  destruct (script_ok float_str float_of_str lower_ext s hdr h) eqn:Hs; [|reflexivity].
  destruct (handle_char float_str float_of_str lower_ext urljoin dev_url s hdr body h Hwf Hs)
    as [(Hm & _ & Hr)|(Hm & _ & Hr)]; rewrite Hm; exact Hr.
Qed.

Theorem never_escapes :
  forall (float_str : fl -> pystr) (float_of_str : pystr -> option fl) (lower_ext : N -> N)
         (urljoin : pystr -> pystr -> pystr) (dev_url : pystr) (s : ssvc)
         (hdr : option pystr) (body : option xtree) (h : hscript),
    wf_ssvc float_str float_of_str lower_ext urljoin dev_url s = true ->
    script_ok float_str float_of_str lower_ext s hdr h = true ->
    not_escaped (snd (handle float_str float_of_str lower_ext (sobj_of float_of_str lower_ext s) hdr body h)) = true.
Proof.
  intros float_str float_of_str lower_ext urljoin dev_url s hdr body h Hwf Hs.
  destruct (handle_char float_str float_of_str lower_ext urljoin dev_url s hdr body h Hwf Hs)
    as [(_ & _ & Hr)|(_ & _ & Hr)]; [|exact Hr].
  destruct (snd (handle float_str float_of_str lower_ext (sobj_of float_of_str lower_ext s) hdr body h));
    try reflexivity; discriminate Hr.
Qed.

Theorem valid_request_reaches_handler :
  forall (float_str : fl -> pystr) (float_of_str : pystr -> option fl) (lower_ext : N -> N)
         (urljoin : pystr -> pystr -> pystr) (dev_url : pystr) (s : ssvc)
         (hdr : option pystr) (body : option xtree) (h : hscript),
    wf_ssvc float_str float_of_str lower_ext urljoin dev_url s = true ->
    script_ok float_str float_of_str lower_ext s hdr h = true ->
    must_refuse float_of_str lower_ext s hdr body = false ->
    exists kw, fst (handle float_str float_of_str lower_ext (sobj_of float_of_str lower_ext s) hdr body h) = Some kw.
Proof.
  intros float_str float_of_str lower_ext urljoin dev_url s hdr body h Hwf Hs Hm.
  destruct (handle_char float_str float_of_str lower_ext urljoin dev_url s hdr body h Hwf Hs)
    as [(Hm' & _ & _)|(_ & Hk & _)]; [congruence | exact Hk].
Qed.

Print Assumptions bad_request_handled.
Print Assumptions never_escapes.
Print Assumptions valid_request_reaches_handler.
