(* C14 — clauses 2 and 3: an action invoked through the client model with valid arguments reaches the
   handler with the same typed values and returns the handler's typed results to the caller; a handler-raised
   action error reaches the caller as an action error with the same code; and what the definition does not
   accept never leaves the client. *)
From Coq Require Import List Bool NArith ZArith Lia Permutation.
From AUC Require Import Prelude.PyStr Prelude.PyDict C08.TypesDef C08.Model C08.Spec C08.Codec Gen.Types Gen.DateMatchers
  C05.Xml C05.Names C05.Model C05.Def C05.Spec C05.Lemmas C05.Parse C06.XmlRead
  C14.Model C14.Spec C14.Base C14.Init C14.Ser C14.Bad C14.CallArgs C14.CallReq.
From AUC Require C06.Model C06.Spec C06.Values C06.Shape C06.BuildEnv C06.ReadEnv
  C07.Model C07.Spec C07.Proofs C07.Readings C07.Table.
Import ListNotations.
Local Open Scope N_scope.

Lemma find_none {A} (p : A -> bool) l : (forall x, In x l -> p x = false) -> find p l = None.
Proof.
  induction l as [|x l IH]; intros H; cbn; [reflexivity|].
  rewrite (H x (or_introl eq_refl)). apply IH. intros; apply H; now right.
Qed.

(* ------------------------------------------------------------------ the response tree, as C07 reads it *)
Section RespTree.
  Variable float_of_str : pystr -> option fl.
  Variable lower_ext : N -> N.
  Variable cfg : C07.Model.config.

  Definition resp_tree' (args : list (pystr * pystr)) : C07.Model.xml :=
    C07.Model.Elem tag_envelope None
      [C07.Model.Elem C07.Model.tag_body None
         [C07.Model.Elem (C07.Model.response_tag cfg) None (map out_elem args)]].

  Lemma flat_map_iter_outs args : flat_map C07.Model.iter (map out_elem args) = map out_elem args.
  Proof.
    induction args as [|x r IH]; cbn [map flat_map C07.Model.iter out_elem app]; [reflexivity|]. now rewrite IH.
  Qed.

  Lemma descend_resp args :
    C07.Model.descend (resp_tree' args) =
    C07.Model.Elem C07.Model.tag_body None [C07.Model.Elem (C07.Model.response_tag cfg) None (map out_elem args)] ::
    C07.Model.Elem (C07.Model.response_tag cfg) None (map out_elem args) :: map out_elem args.
  Proof.
    unfold resp_tree', C07.Model.descend. cbn [C07.Model.children_of flat_map C07.Model.iter app].
    now rewrite flat_map_iter_outs, !app_nil_r.
  Qed.

  Lemma outs_no_faults (pb pf : C07.Model.xml -> bool) args :
    flat_map (fun b => filter pf (C07.Model.children_of b)) (filter pb (map out_elem args)) = [].
  Proof.
    induction args as [|x r IH]; cbn [map filter flat_map]; [reflexivity|].
    destruct (pb (out_elem x)); cbn [flat_map C07.Model.children_of out_elem filter app]; exact IH.
  Qed.

  Lemma resp_no_fault args : C07.Spec.wf_config cfg = true -> C07.Spec.soap_fault (resp_tree' args) = None.
  Proof.
    intros Hwf. unfold C07.Spec.soap_fault, C07.Spec.faults. rewrite descend_resp.
    destruct (C07.Table.response_tag_not cfg C07.Model.tag_body Hwf C07.Table.tag_body_slash) as [Hb _].
    destruct (C07.Table.response_tag_not cfg C07.Model.tag_fault Hwf C07.Table.tag_fault_slash) as [Hf _].
    cbn [filter]. rewrite !C07.Table.has_tag_elem, str_eqb_refl, Hb.
    cbn [flat_map C07.Model.children_of filter]. rewrite C07.Table.has_tag_elem, Hf. cbn [app].
    now rewrite outs_no_faults.
  Qed.

  Lemma resp_response args :
    C07.Spec.wf_config cfg = true ->
    C07.Spec.response_element cfg (resp_tree' args) =
    Some (C07.Model.Elem (C07.Model.response_tag cfg) None (map out_elem args)).
  Proof.
    intros Hwf. unfold C07.Spec.response_element, C07.Spec.exact_responses. rewrite descend_resp.
    destruct (C07.Table.response_tag_not cfg C07.Model.tag_body Hwf C07.Table.tag_body_slash) as [_ Hb].
    cbn [filter]. now rewrite !C07.Table.has_tag_elem, Hb, str_eqb_refl.
  Qed.

  Lemma out_elem_text p : C07.Model.or_empty (C07.Model.text_of (out_elem p)) = snd p.
  Proof. unfold out_elem, otext. cbn [C07.Model.text_of]. now destruct (snd p). Qed.

  Lemma arg_pairs_outs args vals :
    Forall2 (fun (nt : pystr * pystr) (nv : pystr * pyval) =>
               fst nv = fst nt /\
               exists a, C07.Model.find_argument (C07.Model.c_args cfg) (fst nt) = Some a /\
                         C07.Model.coerce float_of_str lower_ext a (snd nt) = Ok (snd nv)) args vals ->
    C07.Spec.arg_pairs float_of_str lower_ext cfg (map out_elem args) = Some vals /\
    forall c, In c (map out_elem args) -> C07.Spec.declared cfg c = true.
  Proof.
    induction 1 as [|[n t] [n' v] args vals [Hn [a [Ha Hc]]] _ [IH1 IH2]]; cbn [map C07.Spec.arg_pairs].
    - split; [reflexivity | intros c []].
    - cbn [fst snd] in *. subst n'. rewrite out_elem_text.
      change (C07.Model.tag_of (out_elem (n, t))) with n. cbn [snd].
      rewrite Ha, Hc, IH1. split; [reflexivity|].
      intros c [<-|Hin]; [|now apply IH2]. unfold C07.Spec.declared.
      change (C07.Model.tag_of (out_elem (n, t))) with n. now rewrite Ha.
  Qed.
End RespTree.

(* ------------------------------------------------------------------ the mapping the caller gets *)
Lemma results_ok (outs vals : list (pystr * pyval)) (d : dict pystr pyval) :
  NoDup (map fst outs) ->
  Forall2 (fun kv nv : pystr * pyval => fst nv = fst kv /\ C06.Spec.same_value (snd kv) (snd nv) = true) outs vals ->
  NoDup (dkeys d) -> (forall k, dget str_eqb d k = dlast str_eqb vals k) ->
  results_return outs d = true.
Proof.
  intros Hnd H Hd Hget.
  assert (E : map fst vals = map fst outs).
  { apply (Forall2_map_fst _ _ _ H). intros x y Hxy. exact (proj1 Hxy). }
  assert (Hndv : NoDup (map fst vals)) by now rewrite E.
  assert (Hperm : Permutation (dkeys d) (map fst vals)).
  { apply NoDup_Permutation; try assumption. intros k. split; intros Hin.
    - apply (In_dkeys_dget str_eqb str_eqb_spec) in Hin. rewrite Hget in Hin.
      destruct (dlast str_eqb vals k) as [v|] eqn:El; [|congruence].
      apply (dlast_In str_eqb str_eqb_spec) in El. apply in_map_iff. now exists (k, v).
    - apply (In_dkeys_dget str_eqb str_eqb_spec). rewrite Hget. intros El.
      now apply (dlast_None str_eqb str_eqb_spec) in El. }
  unfold results_return. rewrite (NoDup_nodupb _ Hd). cbn [andb].
  assert (Hlen : length d = length outs).
  { apply Permutation_length in Hperm. unfold dkeys in Hperm. rewrite !map_length in Hperm. rewrite Hperm.
    rewrite <- (map_length fst vals), E. apply map_length. }
  rewrite Hlen, Nat.eqb_refl. cbn [andb]. apply forallb_forall. intros kv Hkv.
  destruct (Forall2_in_l _ _ _ _ H Hkv) as (nv & Hnv & Hk & Hs).
  rewrite Hget, (dlast_dget str_eqb str_eqb_spec) by assumption.
  rewrite (In_dget str_eqb str_eqb_spec vals (fst kv) (snd nv) Hndv); [exact Hs|].
  rewrite <- Hk. now destruct nv.
Qed.

Section Call.
  Variable float_str : fl -> pystr.
  Variable float_of_str : pystr -> option fl.
  Variable lower_ext : N -> N.
  Variable set_iter : list pyval -> list pyval.
  Variable urljoin : pystr -> pystr -> pystr.
  Hypothesis set_iter_same : forall l x, In x (set_iter l) <-> In x l.

  Notation wf_svar := (wf_svar float_str float_of_str lower_ext).
  Notation wf_ssvc := (wf_ssvc float_str float_of_str lower_ext urljoin).
  Notation vobj_of := (vobj_of float_of_str lower_ext).
  Notation vdecl_of := (vdecl_of float_of_str lower_ext).
  Notation bind_of := (bind_of float_of_str lower_ext).
  Notation aobj_of := (aobj_of float_of_str lower_ext).
  Notation sobj_of := (sobj_of float_of_str lower_ext).
  Notation arg_decl := (arg_decl float_of_str lower_ext).
  Notation apply_in := (apply_in float_of_str lower_ext).
  Notation args_valid := (args_valid float_of_str lower_ext).
  Notation args_in_domain := (args_in_domain float_str float_of_str lower_ext).
  Notation outs_valid := (outs_valid float_str float_of_str lower_ext).
  Notation served_argdef := (served_argdef float_str float_of_str lower_ext set_iter).
  Notation served_argdefs := (served_argdefs float_str float_of_str lower_ext set_iter).
  Notation cargs := (cargs float_str float_of_str lower_ext set_iter).
  Notation call_through := (call_through float_str float_of_str lower_ext set_iter urljoin).
  Notation c_call := (c_call float_str float_of_str lower_ext).
  Notation c_fault := (c_fault float_of_str lower_ext).

  Section Action.
    Variable dev_url : pystr.
    Variable s : ssvc.
    Variable a : sact.
    Hypothesis Hwf : wf_ssvc dev_url s = true.
    Hypothesis Ha : In a (sc_acts s).

    Let cfg := cfg_of (sc_type s) (ac_name a) (served_argdefs s a).

    Lemma out_var p : In p (ac_outs a) ->
      wf_svar (var_of s p) = true /\ bind_of (sc_vars s) p = (fst p, vobj_of (var_of s p)) /\
      arg_decl s p = Some (vdecl_of (var_of s p)).
    Proof.
      intros Hp. pose proof (in_or_app (ac_ins a) _ _ (or_intror Hp)) as Hp'.
      destruct (var_of_ok float_str float_of_str lower_ext urljoin dev_url s a p Hwf Ha Hp') as (_ & Hwv & _ & _).
      destruct (var_of_bind float_str float_of_str lower_ext urljoin dev_url s a p Hwf Ha Hp') as [Hb Hd].
      repeat split; assumption.
    Qed.

    (* -------------------------------------------------------------- what the server writes *)
    Definition RO (kv : pystr * pyval) (kt : pystr * pystr) : Prop :=
      fst kt = fst kv /\
      exists p, In p (ac_outs a) /\ fst p = fst kv /\
                exists v', apply_in (r_in (vrow_of (var_of s p))) (snd kt) = Ok v' /\
                           C06.Spec.same_value (snd kv) v' = true.

    Lemma render_outs_rel outs :
      forallb (fun kv : pystr * pyval =>
                 match find (fun p => str_eqb (fst p) (fst kv)) (ac_outs a) with
                 | Some p => match arg_decl s p with
                             | Some d => spec_accepts d (snd kv) && value_ok float_str float_of_str d (snd kv)
                             | None => false
                             end
                 | None => false
                 end) outs = true ->
      exists l, render_outs float_str (map (bind_of (sc_vars s)) (ac_outs a)) outs = SOk l /\ Forall2 RO outs l.
    Proof.
      induction outs as [|[k v] r IH]; intros H; [exists []; split; [reflexivity | constructor]|].
      cbn [forallb fst snd] in H. apply andb_true_iff in H as [H1 H2].
      destruct (find (fun p => str_eqb (fst p) k) (ac_outs a)) as [p|] eqn:Ef; [|discriminate].
      pose proof (find_some_in _ _ _ Ef) as [Hin Hk]. apply str_eqb_eq in Hk.
      destruct (out_var p Hin) as (Hwv & Hb & Hd).
      rewrite Hd in H1. apply andb_true_iff in H1 as [Hacc Hok].
      cbn [Model.render_outs]. rewrite find_arg_bind, Ef. cbn [option_map]. rewrite Hb.
      cbn [snd w_decl Init.vobj_of]. rewrite accepts_iff, Hacc.
      unfold render. cbn [w_row Init.vobj_of]. unfold value_ok in Hok.
      pose proof (decl_or_row float_str float_of_str lower_ext _ Hwv) as Hr.
      destruct (C06.Values.wire_ok float_str float_of_str lower_ext (vrow_of (var_of s p)) (vdecl_of (var_of s p)) v
                  (wf_svar_in_table float_str float_of_str lower_ext _ Hwv) Hr Hok) as (w & Hw & _ & v' & Hi & Hs).
      rewrite coerce_same, Hr in Hw. rewrite Hw.
      destruct (IH H2) as (l & Hl & Hrel). rewrite Hl. cbn [sbind].
      exists ((k, w) :: l). split; [reflexivity|]. constructor; [|exact Hrel].
      split; [reflexivity|]. exists p. cbn [fst snd]. repeat split; try assumption. now exists v'.
    Qed.

    (* -------------------------------------------------------------- what the client reads *)
    Lemma cfg_wf : C07.Spec.wf_config cfg = true.
    Proof.
      destruct (act_parts float_str float_of_str lower_ext urljoin dev_url s a Hwf Ha) as (Hn & _).
      destruct (wf_ssvc_parts _ _ _ _ _ _ Hwf) as (Hst & _).
      unfold C07.Spec.wf_config, cfg, cfg_of.
      cbn [C07.Model.c_service_type C07.Model.c_action C07.Model.c_args].
      rewrite Hst, (ncname_name_ok _ Hn). cbn [andb]. rewrite forallb_map'.
      apply forallb_forall. intros x Hx. cbn [C07.Model.a_type].
      assert (G : exists b p, In p (ac_ins a ++ ac_outs a) /\ x = served_argdef s b p).
      { unfold CallArgs.served_argdefs in Hx. apply in_app_or in Hx as [Hx|Hx]; apply in_map_iff in Hx as (p & <- & Hp).
        - exists true, p. split; [apply in_or_app; now left | reflexivity].
        - exists false, p. split; [apply in_or_app; now right | reflexivity]. }
      destruct G as (b & p & Hp & ->).
      destruct (var_of_ok float_str float_of_str lower_ext urljoin dev_url s a p Hwf Ha Hp) as (_ & Hwv & _ & _).
      change (C06.Model.a_type (served_argdef s b p)) with (vr_type (var_of s p)).
      now rewrite (wf_svar_row float_str float_of_str lower_ext _ Hwv).
    Qed.

    Lemma find_out_argument p :
      In p (ac_outs a) ->
      C07.Model.find_argument (C07.Model.c_args cfg) (fst p) =
      Some (C07.Model.mkArg (fst p) s_out (vr_type (var_of s p))).
    Proof.
      intros Hp. destruct (act_parts float_str float_of_str lower_ext urljoin dev_url s a Hwf Ha) as (_ & _ & _ & Hnd).
      unfold C07.Model.find_argument, cfg, cfg_of. cbn [C07.Model.c_args].
      unfold CallArgs.served_argdefs. rewrite map_app, find_app_or.
      rewrite find_none.
      2:{ intros x Hx. rewrite map_map in Hx. apply in_map_iff in Hx as (q & <- & _).
          cbn [C07.Model.a_dir]. change (C06.Model.a_in (served_argdef s true q)) with true.
          apply andb_false_r. }
      rewrite map_map, find_map.
      rewrite (find_ext _ (fun q : pystr * pystr => str_eqb (fst q) (fst p))).
      2:{ intros q. cbn [C07.Model.a_name C07.Model.a_dir].
          change (C06.Model.a_in (served_argdef s false q)) with false.
          change (C06.Model.a_name (served_argdef s false q)) with (fst q).
          change (str_eqb s_out C07.Model.s_out) with true. apply andb_true_r. }
      rewrite (find_nodup_self fst (ac_outs a) p Hnd Hp). reflexivity.
    Qed.

    Lemma client_vals outs l :
      Forall2 RO outs l ->
      exists vals : list (pystr * pyval),
        Forall2 (fun (nt : pystr * pystr) (nv : pystr * pyval) =>
                   fst nv = fst nt /\
                   exists x, C07.Model.find_argument (C07.Model.c_args cfg) (fst nt) = Some x /\
                             C07.Model.coerce float_of_str lower_ext x (snd nt) = Ok (snd nv)) l vals /\
        Forall2 (fun kv nv : pystr * pyval => fst nv = fst kv /\ C06.Spec.same_value (snd kv) (snd nv) = true) outs vals.
    Proof.
      induction 1 as [|kv kt outs l (Hk & p & Hp & Hpk & v' & Hi & Hs) _ (vals & IH1 & IH2)].
      - exists []. split; constructor.
      - exists ((fst kt, v') :: vals). split; constructor; try assumption.
        + split; [reflexivity|]. exists (C07.Model.mkArg (fst p) s_out (vr_type (var_of s p))).
          rewrite Hk, <- Hpk. split; [now apply find_out_argument|].
          destruct (out_var p Hp) as (Hwv & _). unfold C07.Model.coerce. cbn [C07.Model.a_type snd].
          now rewrite (wf_svar_row float_str float_of_str lower_ext _ Hwv).
        + split; [exact Hk | exact Hs].
    Qed.

    Lemma response_decoded outs l :
      NoDup (map fst outs) -> Forall2 RO outs l ->
      exists got,
        C07.Model.call (parse_of (sc_type s) (ac_name a) (ROk l)) float_of_str lower_ext cfg 200%Z (Some []) =
        C07.Model.Returned got /\ results_return outs got = true.
    Proof.
      intros Hnd Hrel. destruct (client_vals outs l Hrel) as (vals & Hv1 & Hv2).
      destruct (arg_pairs_outs float_of_str lower_ext cfg l vals Hv1) as [Hps Hdecl].
      destruct (C07.Readings.success_exact (parse_of (sc_type s) (ac_name a) (ROk l)) float_of_str lower_ext cfg []
                  (resp_tree' cfg l) _ vals eq_refl (resp_no_fault cfg l cfg_wf) (resp_response cfg l cfg_wf))
        as (d & Hd & Hnd' & Hget).
      - intros _ c Hin. cbn [C07.Model.children_of] in Hin. now apply Hdecl.
      - exact Hps.
      - exists d. split; [exact Hd|]. now apply (results_ok outs vals d).
    Qed.

    (* -------------------------------------------------------------- the whole call *)
    Section Through.
      Variable base : pystr.
      Variable kw : list (pystr * pyval).

      Let url := urljoin base (urljoin dev_url (sc_control s)).
      Let c := C06.Model.mkCall true (sc_type s) (ac_name a) (served_argdefs s a) url (C06.Spec.authority url) kw.

      (* the client builds its action and its declarations *)
      Lemma call_through_eq h :
        call_through base (dev_url, sobj_of s) (ac_name a) kw h =
        match C06.Model.async_call float_str c (cargs s a) with
        | (Some e, _) => CRefused e
        | (None, q :: _) =>
            let '(seen, r) := handle float_str float_of_str lower_ext (sobj_of s)
                                (C06.Spec.hdr_get (C06.Model.q_headers q) C06.Model.h_soapaction)
                                (xml_read (C06.Model.q_body q)) h in
            CDone seen r (C07.Model.call (parse_of (sc_type s) (ac_name a) r) float_of_str lower_ext cfg
                                         (status_of r) (Some []))
        | (None, []) => CCreateFailed
        end.
      Proof.
        unfold Model.call_through. cbn [fst snd].
        rewrite (ser_scpd_ok float_str float_of_str lower_ext set_iter urljoin set_iter_same dev_url s Hwf).
        rewrite parse_srv_scpd.
        rewrite (client_action_ok float_str float_of_str lower_ext set_iter urljoin dev_url s a Hwf Ha).
        rewrite (prepare_ok float_str float_of_str lower_ext set_iter urljoin set_iter_same dev_url s a Hwf Ha).
        reflexivity.
      Qed.

      Lemma roundtrip_outs outs :
        nodupb (map fst kw) = true -> args_valid s a kw = true -> args_in_domain s a kw = true ->
        outs_valid s a outs = true ->
        exists seen l got,
          call_through base (dev_url, sobj_of s) (ac_name a) kw (HReturn outs) =
            CDone (Some seen) (ROk l) (C07.Model.Returned got) /\
          kwargs_reach a kw seen = true /\ results_return outs got = true.
      Proof.
        intros Hkw Hval Hdom Houts. unfold Spec.outs_valid in Houts. apply andb_true_iff in Houts as [Hnd Houts].
        apply nodupb_NoDup in Hnd.
        destruct (request_reaches float_str float_of_str lower_ext set_iter urljoin set_iter_same
                    dev_url s a url kw (HReturn outs) Hwf Ha Hkw Hval Hdom) as (q & seen & Hcall & Hh & Hreach).
        destruct (render_outs_rel outs Houts) as (l & Hl & Hrel).
        destruct (response_decoded outs l Hnd Hrel) as (got & Hgot & Hres).
        exists seen, l, got. split; [|split; assumption].
        rewrite call_through_eq. fold c in Hcall. rewrite Hcall, Hh.
        unfold answer. cbn [ab_outs Init.aobj_of]. rewrite Hl. cbn [status_of]. now rewrite Hgot.
      Qed.

      Lemma roundtrip_fault code :
        nodupb (map fst kw) = true -> args_valid s a kw = true -> args_in_domain s a kw = true ->
        exists seen,
          call_through base (dev_url, sobj_of s) (ac_name a) kw (HActionError code) =
            CDone (Some seen) (RFault (fault_code_of code))
                  (C07.Model.Raised (C07.Model.EActionResponse (Some (fault_code_of code)) (Some s_Action_Failed) 500%Z)) /\
          kwargs_reach a kw seen = true.
      Proof.
        intros Hkw Hval Hdom.
        destruct (request_reaches float_str float_of_str lower_ext set_iter urljoin set_iter_same
                    dev_url s a url kw (HActionError code) Hwf Ha Hkw Hval Hdom) as (q & seen & Hcall & Hh & Hreach).
        exists seen. split; [|assumption].
        rewrite call_through_eq. fold c in Hcall. rewrite Hcall, Hh. unfold answer. cbn [status_of]. f_equal.
        apply (C07.Table.table_fault (parse_of (sc_type s) (ac_name a) (RFault (fault_code_of code))) float_of_str lower_ext
                 cfg 500%Z [] tag_envelope None None None None None (Some s_s_Client) (Some s_UPnPError)
                 (fault_code_of code) (Some s_Action_Failed)).
        reflexivity.
      Qed.

      Lemma refused h :
        args_valid s a kw = false ->
        exists e, call_through base (dev_url, sobj_of s) (ac_name a) kw h = CRefused e /\
                  (e = C06.Model.EUpnpError \/ e = C06.Model.EUpnpValueError).
      Proof.
        intros Hval. rewrite call_through_eq.
        destruct (C06.Shape.refusal float_str c (cargs s a)) as (e & He & Hor).
        { unfold c. cbn [C06.Model.c_kwargs].
          now rewrite (accepted_valid float_str float_of_str lower_ext set_iter urljoin set_iter_same dev_url s a kw Hwf Ha). }
        exists e. rewrite He. split; [reflexivity | exact Hor].
      Qed.

      Lemma clause_call_holds h :
        nodupb (map fst kw) = true -> (args_valid s a kw = true -> args_in_domain s a kw = true) ->
        c_call s (ac_name a) kw h (call_through base (dev_url, sobj_of s) (ac_name a) kw h) = true.
      Proof.
        intros Hkw Himp. unfold Spec.c_call.
        rewrite (act_named_self float_str float_of_str lower_ext urljoin dev_url s a Hwf Ha).
        destruct h as [outs|code| |]; try reflexivity.
        destruct (args_valid s a kw) eqn:Hval; [|reflexivity].
        destruct (outs_valid s a outs) eqn:Hout; [|reflexivity]. cbn [andb].
        destruct (roundtrip_outs outs Hkw Hval (Himp eq_refl) Hout) as (seen & l & got & -> & H1 & H2).
        now rewrite H1, H2.
      Qed.

      Lemma clause_fault_holds h :
        nodupb (map fst kw) = true -> (args_valid s a kw = true -> args_in_domain s a kw = true) ->
        c_fault s (ac_name a) kw h (call_through base (dev_url, sobj_of s) (ac_name a) kw h) = true.
      Proof.
        intros Hkw Himp. unfold Spec.c_fault.
        rewrite (act_named_self float_str float_of_str lower_ext urljoin dev_url s a Hwf Ha).
        destruct h as [outs|[code|]| |]; try reflexivity.
        destruct (args_valid s a kw) eqn:Hval; [|reflexivity].
        destruct (code =? 0)%Z eqn:Hc; [reflexivity|]. cbn [andb negb].
        destruct (roundtrip_fault (Some code) Hkw Hval (Himp eq_refl)) as (seen & -> & H1).
        rewrite H1. unfold fault_code_of. rewrite Hc. cbn [andb]. apply Z.eqb_refl.
      Qed.
    End Through.
  End Action.
End Call.

(* ------------------------------------------------------------------ the theorems, closed *)
Theorem call_roundtrip :
  forall (float_str : fl -> pystr) (float_of_str : pystr -> option fl) (lower_ext : N -> N)
         (set_iter : list pyval -> list pyval) (urljoin : pystr -> pystr -> pystr),
    (forall l x, In x (set_iter l) <-> In x l) ->
  forall (base dev_url : pystr) (s : ssvc) (a : sact) (kw : list (pystr * pyval)) (outs : list (pystr * pyval)),
    wf_ssvc float_str float_of_str lower_ext urljoin dev_url s = true -> In a (sc_acts s) ->
    nodupb (map fst kw) = true ->
    args_valid float_of_str lower_ext s a kw = true ->
    args_in_domain float_str float_of_str lower_ext s a kw = true ->
    outs_valid float_str float_of_str lower_ext s a outs = true ->
    exists seen l got,
      call_through float_str float_of_str lower_ext set_iter urljoin base
                   (dev_url, sobj_of float_of_str lower_ext s) (ac_name a) kw (HReturn outs)
        = CDone (Some seen) (ROk l) (C07.Model.Returned got) /\
      kwargs_reach a kw seen = true /\ results_return outs got = true.
Proof.
  intros float_str float_of_str lower_ext set_iter urljoin Hset base dev_url s a kw outs Hwf Ha.
  exact (roundtrip_outs float_str float_of_str lower_ext set_iter urljoin Hset dev_url s a Hwf Ha base kw outs).
Qed.

Theorem fault_roundtrip :
  forall (float_str : fl -> pystr) (float_of_str : pystr -> option fl) (lower_ext : N -> N)
         (set_iter : list pyval -> list pyval) (urljoin : pystr -> pystr -> pystr),
    (forall l x, In x (set_iter l) <-> In x l) ->
  forall (base dev_url : pystr) (s : ssvc) (a : sact) (kw : list (pystr * pyval)) (code : option Z),
    wf_ssvc float_str float_of_str lower_ext urljoin dev_url s = true -> In a (sc_acts s) ->
    nodupb (map fst kw) = true ->
    args_valid float_of_str lower_ext s a kw = true ->
    args_in_domain float_str float_of_str lower_ext s a kw = true ->
    exists seen,
      call_through float_str float_of_str lower_ext set_iter urljoin base
                   (dev_url, sobj_of float_of_str lower_ext s) (ac_name a) kw (HActionError code)
        = CDone (Some seen) (RFault (fault_code_of code))
                (C07.Model.Raised (C07.Model.EActionResponse (Some (fault_code_of code)) (Some s_Action_Failed) 500%Z)) /\
      kwargs_reach a kw seen = true.
Proof.
  intros float_str float_of_str lower_ext set_iter urljoin Hset base dev_url s a kw code Hwf Ha.
  exact (roundtrip_fault float_str float_of_str lower_ext set_iter urljoin Hset dev_url s a Hwf Ha base kw code).
Qed.

(* the client's own validation is the definition's: an assignment the definition does not accept never
   leaves the client *)
Theorem invalid_call_refused :
  forall (float_str : fl -> pystr) (float_of_str : pystr -> option fl) (lower_ext : N -> N)
         (set_iter : list pyval -> list pyval) (urljoin : pystr -> pystr -> pystr),
    (forall l x, In x (set_iter l) <-> In x l) ->
  forall (base dev_url : pystr) (s : ssvc) (a : sact) (kw : list (pystr * pyval)),
    wf_ssvc float_str float_of_str lower_ext urljoin dev_url s = true -> In a (sc_acts s) ->
    args_valid float_of_str lower_ext s a kw = false ->
    forall h, exists e,
      call_through float_str float_of_str lower_ext set_iter urljoin base
                   (dev_url, sobj_of float_of_str lower_ext s) (ac_name a) kw h = CRefused e /\
      (e = C06.Model.EUpnpError \/ e = C06.Model.EUpnpValueError).
Proof.
  intros float_str float_of_str lower_ext set_iter urljoin Hset base dev_url s a kw Hwf Ha Hval h.
  exact (refused float_str float_of_str lower_ext set_iter urljoin Hset dev_url s a Hwf Ha base kw h Hval).
Qed.

(* the clause booleans of Spec.v, as the correspondence check evaluates them *)
Theorem clause_call :
  forall (float_str : fl -> pystr) (float_of_str : pystr -> option fl) (lower_ext : N -> N)
         (set_iter : list pyval -> list pyval) (urljoin : pystr -> pystr -> pystr),
    (forall l x, In x (set_iter l) <-> In x l) ->
  forall (base dev_url : pystr) (s : ssvc) (a : sact) (kw : list (pystr * pyval)) (h : hscript),
    wf_ssvc float_str float_of_str lower_ext urljoin dev_url s = true -> In a (sc_acts s) ->
    nodupb (map fst kw) = true ->
    (args_valid float_of_str lower_ext s a kw = true -> args_in_domain float_str float_of_str lower_ext s a kw = true) ->
    c_call float_str float_of_str lower_ext s (ac_name a) kw h
      (call_through float_str float_of_str lower_ext set_iter urljoin base
                    (dev_url, sobj_of float_of_str lower_ext s) (ac_name a) kw h) = true.
Proof.
  intros float_str float_of_str lower_ext set_iter urljoin Hset base dev_url s a kw h Hwf Ha.
  exact (clause_call_holds float_str float_of_str lower_ext set_iter urljoin Hset dev_url s a Hwf Ha base kw h).
Qed.

Theorem clause_fault :
  forall (float_str : fl -> pystr) (float_of_str : pystr -> option fl) (lower_ext : N -> N)
         (set_iter : list pyval -> list pyval) (urljoin : pystr -> pystr -> pystr),
    (forall l x, In x (set_iter l) <-> In x l) ->
  forall (base dev_url : pystr) (s : ssvc) (a : sact) (kw : list (pystr * pyval)) (h : hscript),
    wf_ssvc float_str float_of_str lower_ext urljoin dev_url s = true -> In a (sc_acts s) ->
    nodupb (map fst kw) = true ->
    (args_valid float_of_str lower_ext s a kw = true -> args_in_domain float_str float_of_str lower_ext s a kw = true) ->
    c_fault float_of_str lower_ext s (ac_name a) kw h
      (call_through float_str float_of_str lower_ext set_iter urljoin base
                    (dev_url, sobj_of float_of_str lower_ext s) (ac_name a) kw h) = true.
Proof.
  intros float_str float_of_str lower_ext set_iter urljoin Hset base dev_url s a kw h Hwf Ha.
  exact (clause_fault_holds float_str float_of_str lower_ext set_iter urljoin Hset dev_url s a Hwf Ha base kw h).
Qed.

Check call_roundtrip.
Check fault_roundtrip.
Check invalid_call_refused.
Check clause_call.
Check clause_fault.
Print Assumptions call_roundtrip.
Print Assumptions fault_roundtrip.
Print Assumptions invalid_call_refused.
Print Assumptions clause_call.
Print Assumptions clause_fault.
