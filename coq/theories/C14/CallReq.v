(* C14 — the request of an accepted call, as the server reads it: the call is in C06's domain, the SOAPAction
   header names the action, the envelope's argument elements are parsed to the values the caller supplied
   (True == 1), every in-argument is there and valid: the handler method is entered with them. *)
From Coq Require Import List Bool NArith ZArith Lia ZifyBool ZifyN.
From AUC Require Import Prelude.PyStr Prelude.PyDict C08.TypesDef C08.Model C08.Spec C08.Codec Gen.Types Gen.DateMatchers
  C05.Xml C05.Names C05.Model C05.Def C05.Spec C05.Lemmas C05.Parse C06.XmlRead
  C14.Model C14.Spec C14.Base C14.Init C14.Ser C14.Bad C14.CallArgs.
From AUC Require C06.Model C06.Spec C06.Values C06.Shape C06.BuildEnv C06.ReadEnv C07.Spec C07.Readings.
Import ListNotations.
Local Open Scope N_scope.

(* ------------------------------------------------------------------ lists *)
Lemma NoDup_nodup_str l : NoDup l -> C06.Spec.nodup_str l = true.
Proof.
  induction 1 as [|x l Hn Hnd IH]; cbn; [reflexivity|]. rewrite IH, andb_true_r.
  apply negb_true_iff. apply not_true_is_false. intros H. apply existsb_str_In in H. contradiction.
Qed.
Lemma NoDup_nodupb l : NoDup l -> nodupb l = true.
Proof.
  induction 1 as [|x l Hn Hnd IH]; cbn; [reflexivity|]. rewrite IH, andb_true_r.
  apply negb_true_iff. apply not_true_is_false. intros H. apply existsb_str_In in H. contradiction.
Qed.

Lemma Forall2_map_left {A B C} (R : B -> C -> Prop) (f : A -> B) l m :
  Forall2 R (map f l) m -> Forall2 (fun x y => R (f x) y) l m.
Proof.
  revert m. induction l as [|x l IH]; intros m H; inversion H; subst; constructor; auto.
Qed.
Lemma Forall2_in_l {A B} (R : A -> B -> Prop) l m x :
  Forall2 R l m -> In x l -> exists y, In y m /\ R x y.
Proof.
  induction 1 as [|a b l m Hab _ IH]; intros Hin; [destruct Hin|].
  destruct Hin as [->|Hin]; [exists b; split; [now left | assumption]|].
  destruct (IH Hin) as (y & Hy & Hr). exists y. split; [now right | assumption].
Qed.
Lemma Forall2_map_fst {A B} (l : list (pystr * A)) (m : list (pystr * B)) (R : pystr * A -> pystr * B -> Prop) :
  Forall2 R l m -> (forall x y, R x y -> fst y = fst x) -> map fst m = map fst l.
Proof. induction 1 as [|a b l m Hab _ IH]; intros H; cbn; [reflexivity|]. now rewrite (H a b Hab), IH. Qed.

(* ------------------------------------------------------------------ characters *)
Definition nq (c : N) : bool := negb (c =? 34) && negb (c =? 35).

Lemma name_char_nq c : C07.Spec.name_char c = true -> nq c = true.
Proof. unfold C07.Spec.name_char, nq. lia. Qed.
Lemma xname_char_nq c : name_char c = true -> nq c = true.
Proof. unfold name_char, name_start, is_alpha, is_dig, nq. lia. Qed.
Lemma xname_start_char c : name_start c = true -> name_char c = true.
Proof. unfold name_char. intros ->. reflexivity. Qed.

Lemma name_ok_nq st : C07.Spec.name_ok st = true -> st <> [] /\ forallb nq st = true.
Proof.
  unfold C07.Spec.name_ok. destruct st as [|c r]; [discriminate|]. intros H. split; [discriminate|].
  rewrite forallb_forall in *. intros x Hx. now apply name_char_nq, H.
Qed.
Lemma ncname_nq n : is_ncname n = true -> n <> [] /\ forallb nq n = true.
Proof.
  unfold is_ncname. destruct n as [|c r]; [discriminate|]. intros H. apply andb_true_iff in H as [H1 H2].
  split; [discriminate|]. cbn [forallb]. rewrite (xname_char_nq c (xname_start_char c H1)). cbn [andb].
  rewrite forallb_forall in *. intros x Hx. now apply xname_char_nq, H2.
Qed.

(* an NCName is a name in C07's sense *)
Lemma xname_char_name_char c : name_char c = true -> C07.Spec.name_char c = true.
Proof. unfold name_char, name_start, is_alpha, is_dig, C07.Spec.name_char. lia. Qed.
Lemma ncname_name_ok n : is_ncname n = true -> C07.Spec.name_ok n = true.
Proof.
  unfold is_ncname, C07.Spec.name_ok. destruct n as [|c r]; [discriminate|]. intros H.
  apply andb_true_iff in H as [H1 H2]. cbn [forallb].
  rewrite (xname_char_name_char c (xname_start_char c H1)). cbn [andb].
  rewrite forallb_forall in *. intros x Hx. now apply xname_char_name_char, H2.
Qed.

(* ------------------------------------------------------------------ the SOAPAction header *)
Lemma lstrip_q_quote s : lstrip_q (34 :: s) = lstrip_q s.
Proof. reflexivity. Qed.
Lemma lstrip_q_nq s t : s <> [] -> forallb nq s = true -> lstrip_q (s ++ t) = s ++ t.
Proof.
  destruct s as [|c r]; [congruence|]. intros _ H. cbn [forallb] in H. apply andb_true_iff in H as [H _].
  cbn [app lstrip_q]. unfold nq in H. unfold c_quote. destruct (c =? 34); [discriminate | reflexivity].
Qed.
Lemma split_hash_nq s t cur : forallb nq s = true -> split_hash (s ++ t) cur = split_hash t (rev s ++ cur).
Proof.
  revert cur. induction s as [|c r IH]; intros cur H; [reflexivity|].
  cbn [forallb] in H. apply andb_true_iff in H as [H1 H2]. cbn [app split_hash rev].
  unfold nq in H1. unfold c_hash. destruct (c =? 35); [rewrite andb_false_r in H1; discriminate|].
  rewrite (IH _ H2), <- app_assoc. reflexivity.
Qed.

Lemma soap_action_ok st n :
  st <> [] -> n <> [] -> forallb nq st = true -> forallb nq n = true ->
  soap_action_name (Some ([34] ++ st ++ [35] ++ n ++ [34])) = Some n.
Proof.
  intros Hst Hn Hqs Hqn. unfold soap_action_name, strip_q. cbn [or_empty app].
  rewrite lstrip_q_quote, (lstrip_q_nq st _ Hst Hqs).
  assert (E : rev (st ++ 35 :: n ++ [34]) = 34 :: (rev n ++ 35 :: rev st)).
  { rewrite rev_app_distr. cbn [rev]. rewrite rev_app_distr. cbn [rev app]. now rewrite <- !app_assoc. }
  rewrite E, lstrip_q_quote.
  assert (Hrn : rev n <> []).
  { intros H. apply (f_equal (@rev N)) in H. rewrite rev_involutive in H. now apply Hn. }
  rewrite (lstrip_q_nq (rev n) _ Hrn (C07.Readings.forallb_rev _ _ _ Hqn)).
  rewrite rev_app_distr. cbn [rev]. rewrite !rev_involutive, <- app_assoc. cbn [app].
  rewrite (split_hash_nq st _ [] Hqs). cbn [split_hash]. unfold c_hash at 1. cbn [N.eqb Pos.eqb].
  assert (E2 : split_hash n [] = [n]).
  { rewrite <- (app_nil_r n) at 1. rewrite (split_hash_nq n [] [] Hqn). cbn [split_hash].
    now rewrite app_nil_r, rev_involutive. }
  now rewrite E2.
Qed.

(* ------------------------------------------------------------------ validation does not tell True from 1 *)
Lemma py_cmp_bool b x : py_cmp (VBool b) x = py_cmp (VInt (if b then 1 else 0)%Z) x.
Proof. destruct b, x; reflexivity. Qed.

Lemma existsb_ext' {A} (f g : A -> bool) l : (forall x, f x = g x) -> existsb f l = existsb g l.
Proof. intros H. induction l as [|x l IH]; cbn; [reflexivity|]. now rewrite H, IH. Qed.

Lemma validate_norm d v : validate d (C06.Model.norm_bool d v) = validate d v.
Proof.
  unfold C06.Model.norm_bool. destruct (r_type (d_row d)) eqn:Et; try reflexivity.
  destruct v as [z|b|f|s0|d0|t0|d0 t0|]; try reflexivity.
  unfold validate, type_ok, tz_ok, allowed_ok, range_ok. rewrite Et.
  cbn [isinstance has_tz negb].
  assert (E1 : forall l, existsb (py_eq (VInt (if b then 1 else 0)%Z)) l = existsb (py_eq (VBool b)) l).
  { intros l. apply existsb_ext'. intros x. unfold py_eq. now rewrite py_cmp_bool. }
  assert (E2 : forall x, py_ge (VInt (if b then 1 else 0)%Z) x = py_ge (VBool b) x).
  { intros x. unfold py_ge. now rewrite py_cmp_bool. }
  assert (E3 : forall x, py_le (VInt (if b then 1 else 0)%Z) x = py_le (VBool b) x).
  { intros x. unfold py_le. now rewrite py_cmp_bool. }
  destruct (d_allowed d) as [|y l]; destruct (d_min d), (d_max d); rewrite ?E1, ?E2, ?E3; reflexivity.
Qed.

Section CallReq.
  Variable float_str : fl -> pystr.
  Variable float_of_str : pystr -> option fl.
  Variable lower_ext : N -> N.
  Variable set_iter : list pyval -> list pyval.
  Variable urljoin : pystr -> pystr -> pystr.
  Hypothesis set_iter_same : forall l x, In x (set_iter l) <-> In x l.

  Notation wf_svar := (wf_svar float_str float_of_str lower_ext).
  Notation wf_ssvc := (wf_ssvc float_str float_of_str lower_ext urljoin).
  Notation vobj_of := (vobj_of float_of_str lower_ext).
  Notation vdecl_of := (vdecl_of float_of_str lower_ext).
  Notation bind_of := (bind_of float_of_str lower_ext).
  Notation aobj_of := (aobj_of float_of_str lower_ext).
  Notation sobj_of := (sobj_of float_of_str lower_ext).
  Notation arg_decl := (arg_decl float_of_str lower_ext).
  Notation apply_in := (apply_in float_of_str lower_ext).
  Notation parse_args := (parse_args float_of_str lower_ext).
  Notation handle := (handle float_str float_of_str lower_ext).
  Notation args_valid := (args_valid float_of_str lower_ext).
  Notation args_in_domain := (args_in_domain float_str float_of_str lower_ext).
  Notation served_argdef := (served_argdef float_str float_of_str lower_ext set_iter).
  Notation served_argdefs := (served_argdefs float_str float_of_str lower_ext set_iter).
  Notation cdecl := (cdecl float_str float_of_str lower_ext set_iter).
  Notation cin := (cin float_str float_of_str lower_ext set_iter).
  Notation cargs := (cargs float_str float_of_str lower_ext set_iter).

  (* ---------------------------------------------------------------- the wire text decodes to the normalised value *)
  Lemma wire_exact row d v w :
    In row type_table -> d_row d = row -> C06.Spec.value_ok float_str float_of_str d v = true ->
    C06.Model.coerce_upnp float_str d v = Ok w ->
    apply_in (r_in row) w = Ok (C06.Model.norm_bool d v).
  Proof.
    intros Hin Hrow Hok Hw. unfold C06.Spec.value_ok in Hok. cbv zeta in Hok.
    apply andb_true_iff in Hok as [Hdom Hv]. rewrite Hrow in Hdom.
    assert (Hfl : float_rt float_str float_of_str (C06.Model.norm_bool d v) = true).
    { destruct (C06.Model.norm_bool d v); try reflexivity. apply andb_true_iff in Hv as [Hv _]. exact Hv. }
    destruct (rt_value float_str float_of_str lower_ext row _ Hin Hdom Hfl) as (w0 & Ho & Hi).
    assert (E : coerce_upnp float_str row (C06.Model.norm_bool d v) = C06.Model.coerce_upnp float_str d v).
    { unfold C06.Model.coerce_upnp, coerce_upnp, C06.Model.norm_bool. rewrite Hrow.
      destruct (r_type row), v; reflexivity. }
    rewrite E, Hw in Ho. injection Ho as <-. exact Hi.
  Qed.

  Section Action.
    Variable dev_url : pystr.
    Variable s : ssvc.
    Variable a : sact.
    Hypothesis Hwf : wf_ssvc dev_url s = true.
    Hypothesis Ha : In a (sc_acts s).

    Let ins := map (bind_of (sc_vars s)) (ac_ins a).

    Lemma act_parts :
      is_ncname (ac_name a) = true /\ (forall p, In p (ac_ins a ++ ac_outs a) -> is_ncname (fst p) = true) /\
      NoDup (map fst (ac_ins a)) /\ NoDup (map fst (ac_outs a)).
    Proof.
      destruct (wf_ssvc_parts _ _ _ _ _ _ Hwf) as (_ & _ & _ & _ & _ & _ & Hacts & _).
      destruct (wf_sact_parts _ _ (Hacts a Ha)) as (H1 & H2 & H3 & H4).
      repeat split; try assumption. intros p Hp. now destruct (H2 p Hp).
    Qed.

    Lemma act_named_self : act_named s (ac_name a) = Some a.
    Proof.
      destruct (wf_ssvc_parts _ _ _ _ _ _ Hwf) as (_ & _ & _ & _ & _ & _ & _ & Hnd & _).
      unfold act_named. now apply (find_nodup_self ac_name).
    Qed.

    (* -------------------------------------------------------------- C06's domain *)
    Lemma call_in_domain url kw :
      nodupb (map fst kw) = true ->
      (args_valid s a kw = true -> args_in_domain s a kw = true) ->
      C06.Spec.in_domain float_str float_of_str lower_ext
        (C06.Model.mkCall true (sc_type s) (ac_name a) (served_argdefs s a) url (C06.Spec.authority url) kw) = true.
    Proof.
      intros Hkw Hdom. destruct act_parts as (Hn & Hargs & Hnd & _).
      destruct (wf_ssvc_parts _ _ _ _ _ _ Hwf) as (Hst & _ & _ & _ & _ & _ & _ & _ & Hsafe).
      unfold C06.Spec.in_domain.
      cbn [C06.Model.c_strict C06.Model.c_args C06.Model.c_action C06.Model.c_kwargs C06.Model.c_st
           C06.Model.c_netloc C06.Model.c_url andb].
      rewrite (prepare_ok float_str float_of_str lower_ext set_iter urljoin set_iter_same dev_url s a Hwf Ha).
      cbv zeta.
      rewrite (accepted_valid float_str float_of_str lower_ext set_iter urljoin set_iter_same dev_url s a kw Hwf Ha).
      rewrite (values_in_domain float_str float_of_str lower_ext set_iter urljoin dev_url s a kw Hwf Ha).
      rewrite in_arguments_cargs.
      repeat (apply andb_true_iff; split).
      - exact Hn.
      - rewrite forallb_map'. apply forallb_forall. intros p Hp. cbn [CallArgs.cin fst].
        apply Hargs. apply in_or_app. now left.
      - rewrite map_map. apply NoDup_nodup_str.
        erewrite map_ext; [exact Hnd|]. intros p. reflexivity.
      - apply NoDup_nodup_str. now apply nodupb_NoDup.
      - destruct (sc_type s); [discriminate Hst | reflexivity].
      - exact Hsafe.
      - apply str_eqb_refl.
      - destruct (args_valid s a kw); [now apply Hdom | reflexivity].
    Qed.

    (* -------------------------------------------------------------- the argument elements *)
    Lemma find_in_arg p :
      In p (ac_ins a) -> find_arg ins (fst p) = Some (vobj_of (var_of s p)).
    Proof.
      intros Hp. destruct act_parts as (_ & _ & Hnd & _). unfold ins.
      rewrite find_arg_bind, (find_nodup_self fst (ac_ins a) p Hnd Hp). cbn [option_map].
      destruct (var_of_bind float_str float_of_str lower_ext urljoin dev_url s a p Hwf Ha
                            (in_or_app _ _ _ (or_introl Hp))) as [-> _]. reflexivity.
    Qed.

    Variable kw : list (pystr * pyval).
    Hypothesis Hdom : args_in_domain s a kw = true.

    (* what C06's request_shape says of one argument and its wire text *)
    Definition RQ (p : pystr * pystr) (x : pystr * pystr) : Prop :=
      fst x = fst p /\
      exists v v', C06.Model.kw_get kw (fst p) = Some v /\
                   C06.Model.coerce_upnp float_str (cdecl (var_of s p)) v = Ok (snd x) /\
                   apply_in (r_in (vrow_of (var_of s p))) (snd x) = Ok v' /\
                   C06.Spec.same_value v v' = true.
    (* what the handler sees of it *)
    Definition RS (p : pystr * pystr) (kv : pystr * pyval) : Prop :=
      fst kv = fst p /\
      exists v, C06.Model.kw_get kw (fst p) = Some v /\ C06.Spec.same_value v (snd kv) = true /\
                snd kv = C06.Model.norm_bool (vdecl_of (var_of s p)) v.

    Lemma in_value_ok p v :
      In p (ac_ins a) -> C06.Model.kw_get kw (fst p) = Some v ->
      wf_svar (var_of s p) = true /\
      C06.Spec.value_ok float_str float_of_str (vdecl_of (var_of s p)) v = true.
    Proof.
      intros Hp Hk. pose proof (in_or_app _ (ac_outs a) _ (or_introl Hp)) as Hp'.
      destruct (var_of_ok float_str float_of_str lower_ext urljoin dev_url s a p Hwf Ha Hp') as (_ & Hwv & _ & _).
      destruct (var_of_bind float_str float_of_str lower_ext urljoin dev_url s a p Hwf Ha Hp') as [_ Hd].
      split; [assumption|]. unfold Spec.args_in_domain in Hdom. rewrite forallb_forall in Hdom.
      specialize (Hdom p Hp). now rewrite Hd, Hk in Hdom.
    Qed.

    Lemma parse_args_kids l ws :
      Forall2 RQ l ws -> incl l (ac_ins a) -> NoDup (map fst l) ->
      forall acc, (forall p, In p l -> dget str_eqb acc (fst p) = None) ->
      exists seen, parse_args ins (map C06.BuildEnv.kid ws) acc = inr (acc ++ seen) /\ Forall2 RS l seen.
    Proof.
      induction 1 as [|p x l ws Hpx _ IH]; intros Hincl Hnd acc Hacc.
      - exists []. cbn [map Model.parse_args]. rewrite app_nil_r. split; [reflexivity | constructor].
      - destruct Hpx as (Hn & v & v' & Hk & Hc & Hi & Hs).
        assert (Hp : In p (ac_ins a)) by (apply Hincl; now left).
        destruct (in_value_ok p v Hp Hk) as [Hwv Hok].
        inversion Hnd as [|? ? Hnp Hnd']; subst.
        cbn [map]. unfold C06.BuildEnv.kid at 1. cbn [Model.parse_args etag]. rewrite Hn, (find_in_arg p Hp).
        cbn [w_row Init.vobj_of]. rewrite Hi.
        rewrite (dset_absent str_eqb) by (apply Hacc; now left).
        destruct (IH (fun q Hq => Hincl q (or_intror Hq)) Hnd' (acc ++ [(fst p, v')])) as (seen & Hparse & Hseen).
        { intros q Hq. rewrite dget_app, (Hacc q (or_intror Hq)). cbn [dget].
          destruct (str_eqb_spec (fst p) (fst q)) as [E|_]; [|reflexivity].
          exfalso. apply Hnp. rewrite E. now apply in_map. }
        exists ((fst p, v') :: seen). split.
        + rewrite Hparse, <- app_assoc. reflexivity.
        + constructor; [|exact Hseen]. split; [reflexivity|]. exists v. cbn [snd]. repeat split; try assumption.
          pose proof (wire_exact (vrow_of (var_of s p)) (cdecl (var_of s p)) v (snd x)
                                 (wf_svar_in_table float_str float_of_str lower_ext _ Hwv) eq_refl) as Hex.
          rewrite (value_ok_row float_str float_of_str _ (vdecl_of (var_of s p))) in Hex
            by (now apply cdecl_row).
          specialize (Hex Hok Hc). rewrite Hi in Hex. injection Hex as ->.
          unfold C06.Model.norm_bool.
          now rewrite (cdecl_row float_str float_of_str lower_ext set_iter urljoin (var_of s p) Hwv).
    Qed.

    (* -------------------------------------------------------------- validation on the server *)
    Hypothesis Hval : args_valid s a kw = true.

    Lemma seen_valid p kv :
      In p (ac_ins a) -> RS p kv -> validate (vdecl_of (var_of s p)) (snd kv) = true.
    Proof.
      intros Hp (_ & v & Hk & _ & ->). rewrite validate_norm, accepts_iff.
      pose proof (in_or_app _ (ac_outs a) _ (or_introl Hp)) as Hp'.
      destruct (var_of_bind float_str float_of_str lower_ext urljoin dev_url s a p Hwf Ha Hp') as [_ Hd].
      unfold Spec.args_valid in Hval. rewrite forallb_forall in Hval.
      specialize (Hval p Hp). now rewrite Hd, Hk in Hval.
    Qed.

    Lemma seen_facts seen :
      Forall2 RS (ac_ins a) seen ->
      NoDup (dkeys seen) /\ length seen = length (ac_ins a) /\
      forall p, In p (ac_ins a) -> exists kv, RS p kv /\ dget str_eqb seen (fst p) = Some (snd kv).
    Proof.
      intros H. destruct act_parts as (_ & _ & Hnd & _).
      assert (E : map fst seen = map fst (ac_ins a)).
      { apply (Forall2_map_fst _ _ _ H). intros x y Hxy. exact (proj1 Hxy). }
      assert (Hnd' : NoDup (dkeys seen)) by (unfold dkeys; now rewrite E).
      split; [exact Hnd'|]. split.
      - rewrite <- (map_length fst seen), E. apply map_length.
      - intros p Hp. destruct (Forall2_in_l _ _ _ _ H Hp) as (kv & Hkv & Hr). exists kv. split; [exact Hr|].
        apply (In_dget str_eqb str_eqb_spec); [exact Hnd'|]. destruct Hr as [<- _]. now destruct kv.
    Qed.

    Lemma validate_ins_ok seen :
      Forall2 RS (ac_ins a) seen ->
      forallb (fun q : pystr * svobj => dhas str_eqb seen (fst q)) ins = true /\ validate_ins ins seen = VOk.
    Proof.
      intros H. destruct (seen_facts seen H) as (_ & _ & Hget). unfold ins.
      assert (G : forall l, incl l (ac_ins a) ->
                  forallb (fun q : pystr * svobj => dhas str_eqb seen (fst q)) (map (bind_of (sc_vars s)) l) = true /\
                  validate_ins (map (bind_of (sc_vars s)) l) seen = VOk).
      { induction l as [|p l IH]; intros Hincl; [split; reflexivity|].
        assert (Hp : In p (ac_ins a)) by (apply Hincl; now left).
        destruct (IH (fun q Hq => Hincl q (or_intror Hq))) as [IH1 IH2].
        destruct (Hget p Hp) as (kv & Hr & Hg).
        destruct (var_of_bind float_str float_of_str lower_ext urljoin dev_url s a p Hwf Ha
                              (in_or_app _ _ _ (or_introl Hp))) as [Hb _].
        cbn [map forallb validate_ins]. rewrite Hb. cbn [fst]. unfold dhas at 1. rewrite Hg, IH1.
        cbn [w_decl Init.vobj_of]. rewrite (seen_valid p kv Hp Hr). split; [reflexivity | exact IH2]. }
      apply G. apply incl_refl.
    Qed.

    Lemma kwargs_reach_ok seen : Forall2 RS (ac_ins a) seen -> kwargs_reach a kw seen = true.
    Proof.
      intros H. destruct (seen_facts seen H) as (Hnd & Hlen & Hget). unfold kwargs_reach.
      rewrite (NoDup_nodupb _ Hnd), Hlen, Nat.eqb_refl. cbn [andb].
      apply forallb_forall. intros p Hp. destruct (Hget p Hp) as (kv & (_ & v & Hk & Hs & _) & Hg).
      rewrite Hk, Hg. exact Hs.
    Qed.
  End Action.

  (* ---------------------------------------------------------------- the envelope, on the server *)
  Lemma rpc_of_envelope st name ws :
    rpc_of (C06.BuildEnv.envelope_tree st name ws) = Some (XE st name [] [] (map C06.BuildEnv.kid ws)).
  Proof.
    unfold rpc_of, C06.BuildEnv.envelope_tree. cbn [xkids find is_soap_body]. now rewrite !str_eqb_refl.
  Qed.

  Definition answer (a : aobj) (h : hscript) : sresp :=
    match h with
    | HReturn outs => match render_outs float_str (ab_outs a) outs with SOk l => ROk l | SRaise e => REsc e end
    | HActionError code => RFault (fault_code_of code)
    | HValueError => RFault 402%Z
    | HCrash => REsc EOther
    end.

  (* an accepted call: one request; the handler method is entered with the caller's values *)
  Theorem request_reaches dev_url s a url kw h :
    wf_ssvc dev_url s = true -> In a (sc_acts s) ->
    nodupb (map fst kw) = true ->
    args_valid s a kw = true -> args_in_domain s a kw = true ->
    exists q seen,
      C06.Model.async_call float_str
        (C06.Model.mkCall true (sc_type s) (ac_name a) (served_argdefs s a) url (C06.Spec.authority url) kw)
        (cargs s a) = (None, [q]) /\
      handle (sobj_of s) (C06.Spec.hdr_get (C06.Model.q_headers q) C06.Model.h_soapaction)
             (xml_read (C06.Model.q_body q)) h = (Some seen, answer (aobj_of (sc_vars s) a) h) /\
      kwargs_reach a kw seen = true.
  Proof.
    intros Hwf Ha Hkw Hval Hdom.
    set (c := C06.Model.mkCall true (sc_type s) (ac_name a) (served_argdefs s a) url (C06.Spec.authority url) kw).
    pose proof (call_in_domain dev_url s a Hwf Ha url kw Hkw (fun _ => Hdom)) as Hin. fold c in Hin.
    pose proof (prepare_ok float_str float_of_str lower_ext set_iter urljoin set_iter_same dev_url s a Hwf Ha) as Hprep.
    pose proof (accepted_valid float_str float_of_str lower_ext set_iter urljoin set_iter_same dev_url s a kw Hwf Ha) as Hacc.
    rewrite Hval in Hacc.
    destruct (C06.Shape.request_shape float_str float_of_str lower_ext c (cargs s a) Hin Hprep Hacc)
      as (ws & Hcall & Hread & Hws).
    cbv zeta in Hcall, Hread.
    cbn [C06.Model.c_st C06.Model.c_action C06.Model.c_url C06.Model.c_kwargs c] in Hcall, Hread, Hws.
    rewrite in_arguments_cargs in Hws. apply Forall2_map_left in Hws.
    destruct (act_parts dev_url s a Hwf Ha) as (Hn & _ & Hnd & _).
    destruct (wf_ssvc_parts _ _ _ _ _ _ Hwf) as (Hst & _).
    destruct (parse_args_kids dev_url s a Hwf Ha kw Hdom (ac_ins a) ws) with (acc := @nil (pystr * pyval))
      as (seen & Hparse & Hseen).
    { clear -Hws. induction Hws as [|p x l m Hpx _ IH]; constructor; [|exact IH].
      destruct Hpx as (Hx & v & v' & H1 & H2 & H3 & H4). split; [exact Hx|]. exists v, v'. repeat split; assumption. }
    { apply incl_refl. }
    { exact Hnd. }
    { intros; reflexivity. }
    cbn [app] in Hparse.
    destruct (validate_ins_ok dev_url s a Hwf Ha kw Hval seen Hseen) as [Hhas Hvi].
    eexists. exists seen. split; [exact Hcall|]. split; [|now apply (kwargs_reach_ok dev_url s a Hwf Ha kw)].
    cbn [C06.Model.q_headers C06.Model.q_body]. rewrite Hread.
    destruct (C06.Shape.headers_ok (sc_type s) (ac_name a) (C06.Spec.authority url)) as (-> & _ & _).
    unfold Model.handle, parse_action_body.
    destruct (name_ok_nq _ Hst) as [Hst1 Hst2]. destruct (ncname_nq _ Hn) as [Hn1 Hn2].
    rewrite (soap_action_ok _ _ Hst1 Hn1 Hst2 Hn2), rpc_of_envelope, find_action, (act_named_self dev_url s a Hwf Ha).
    cbn [option_map xkids ab_ins Init.aobj_of]. rewrite Hparse, Hhas.
    unfold run_action. cbn [ab_ins Init.aobj_of]. rewrite Hvi. reflexivity.
  Qed.
End CallReq.
