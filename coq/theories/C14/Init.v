(* C14 — a well-formed definition can be instantiated: the objects UpnpServerDevice.__init__ builds,
   in closed form (vobj_of / aobj_of / sobj_of / dobj_of), and what well-formedness says piece by piece. *)
From Coq Require Import List Bool NArith ZArith Lia.
From AUC Require Import Prelude.PyStr Prelude.PyDict C08.TypesDef C08.Model C08.Spec C08.Codec Gen.Types Gen.DateMatchers
  C05.Xml C05.Names C05.Model C05.Def C05.Spec C05.Lemmas C06.XmlRead C14.Model C14.Spec C14.Base.
From AUC Require C06.Model C06.Spec C06.Values C06.Shape C07.Spec.
Import ListNotations.
Local Open Scope N_scope.

(* an induction principle that reaches the embedded devices *)
Fixpoint sdev_ind' (P : sdev -> Prop)
         (H : forall h url i s subs, Forall P subs -> P (SDev h url i s subs)) (d : sdev) : P d :=
  match d with
  | SDev h url i s subs =>
      H h url i s subs ((fix go (l : list sdev) : Forall P l :=
                           match l with
                           | [] => Forall_nil P
                           | x :: r => Forall_cons x (sdev_ind' P H x) (go r)
                           end) subs)
  end.

Section Init.
  Variable float_str : fl -> pystr.
  Variable float_of_str : pystr -> option fl.
  Variable lower_ext : N -> N.
  Variable urljoin : pystr -> pystr -> pystr.

  Notation wf_svar := (wf_svar float_str float_of_str lower_ext).
  Notation wf_ssvc := (wf_ssvc float_str float_of_str lower_ext urljoin).
  Notation wf_stree := (wf_stree float_str float_of_str lower_ext urljoin).
  Notation decl_of := (decl_of float_of_str lower_ext).
  Notation init_var := (init_var float_of_str lower_ext).
  Notation init_action := (init_action).
  Notation init_service := (init_service float_of_str lower_ext).
  Notation init_device := (init_device float_of_str lower_ext).

  (* ---------------------------------------------------------------- closed forms *)
  Definition vdefault_row : type_row := mkRow [] TStr InStr OutStr false.
  Definition vrow_of (v : svar) : type_row :=
    match find_row (vr_type v) type_table with Some r => r | None => vdefault_row end.
  Definition vdecl_of (v : svar) : decl :=
    match decl_of v with
    | Some d => d
    | None => {| d_row := vrow_of v; d_strict := true; d_allowed := []; d_min := None; d_max := None |}
    end.
  Definition vobj_of (v : svar) : svobj := mkVObj v (vrow_of v) (vdecl_of v).
  Definition no_var : svar := mkVar [] [] false None None None.
  Definition bind_of (vars : list svar) (p : pystr * pystr) : pystr * svobj :=
    (fst p, vobj_of (match find (fun v => str_eqb (vr_name v) (snd p)) vars with Some v => v | None => no_var end)).
  Definition aobj_of (vars : list svar) (a : sact) : aobj :=
    mkAObj (ac_name a) (map (bind_of vars) (ac_ins a)) (map (bind_of vars) (ac_outs a)).
  Definition sobj_of (s : ssvc) : svcobj :=
    mkSObj s (map vobj_of (sc_vars s)) (map (aobj_of (sc_vars s)) (sc_acts s)).
  Fixpoint dobj_of (d : sdev) : dobj :=
    match d with SDev h url icons svcs subs => DObj h url icons (map sobj_of svcs) (map dobj_of subs) end.

  (* ---------------------------------------------------------------- state variables *)
  Lemma wf_svar_row v : wf_svar v = true -> find_row (vr_type v) type_table = Some (vrow_of v).
  Proof.
    unfold Spec.wf_svar, vrow_of. destruct (find_row (vr_type v) type_table); [reflexivity | discriminate].
  Qed.
  Lemma wf_svar_in_table v : wf_svar v = true -> In (vrow_of v) type_table.
  Proof. intros H. apply wf_svar_row in H. now apply C06.Shape.find_row_in in H. Qed.

  Lemma init_var_ok v : wf_svar v = true -> init_var v = SOk (vobj_of v) /\ decl_of v = Some (vdecl_of v).
  Proof.
    intros Hwf. pose proof (wf_svar_row v Hwf) as Hrow.
    unfold Spec.wf_svar in Hwf. rewrite Hrow in Hwf.
    repeat (apply andb_true_iff in Hwf as [Hwf ?]).
    destruct (Model.init_var float_of_str lower_ext v) as [w|] eqn:E; [|discriminate].
    unfold vobj_of, vdecl_of, Spec.decl_of. unfold Model.init_var in E. rewrite Hrow in *.
    destruct (mk_decl float_of_str lower_ext (vrow_of v) true (vr_allowed_list v) (vr_has_range v) (vr_min v) (vr_max v))
      as [d|] eqn:M; [|discriminate].
    split; [|reflexivity].
    destruct (vr_default v) as [[|c t]|].
    - destruct (apply_in float_of_str lower_ext (r_in (vrow_of v)) []) as [x|[]]; try discriminate;
        try (destruct (validate d x); [|discriminate]); now inversion E.
    - destruct (apply_in float_of_str lower_ext (r_in (vrow_of v)) (c :: t)) as [x|]; [|discriminate].
      destruct (validate d x); [|discriminate]. now inversion E.
    - now inversion E.
  Qed.

  Lemma decl_or_row v : wf_svar v = true -> d_row (vdecl_of v) = vrow_of v.
  Proof.
    intros Hwf. destruct (init_var_ok v Hwf) as [_ Hd]. pose proof (wf_svar_row v Hwf) as Hrow.
    unfold Spec.decl_of in Hd. rewrite Hrow in Hd.
    destruct (mk_decl float_of_str lower_ext (vrow_of v) true (vr_allowed_list v) (vr_has_range v) (vr_min v) (vr_max v))
      as [d|] eqn:M; [|discriminate].
    inversion Hd as [Hd']. rewrite <- Hd'. now apply (C06.Shape.mk_decl_row float_of_str lower_ext) in M.
  Qed.

  (* ---------------------------------------------------------------- actions *)
  Lemma lookup_var_map vars n :
    lookup_var (map vobj_of vars) n = option_map vobj_of (find (fun v => str_eqb (vr_name v) n) vars).
  Proof. unfold lookup_var. now rewrite find_map. Qed.

  Lemma bind_arg_ok vars p :
    existsb (str_eqb (snd p)) (map vr_name vars) = true ->
    bind_arg (map vobj_of vars) p = SOk (bind_of vars p).
  Proof.
    intros H. unfold bind_arg, bind_of. rewrite lookup_var_map.
    apply existsb_str_In in H. destruct (find_name_in vr_name vars (snd p) H) as (v & Hf & _).
    now rewrite Hf.
  Qed.

  Lemma wf_sact_parts vars a :
    wf_sact vars a = true ->
    is_ncname (ac_name a) = true /\
    (forall p, In p (ac_ins a ++ ac_outs a) -> is_ncname (fst p) = true /\ existsb (str_eqb (snd p)) vars = true) /\
    NoDup (map fst (ac_ins a)) /\ NoDup (map fst (ac_outs a)).
  Proof.
    unfold Spec.wf_sact. intros H.
    apply andb_true_iff in H as [H H4]. apply andb_true_iff in H as [H H3]. apply andb_true_iff in H as [H1 H2].
    split; [assumption|]. split; [|split; now apply nodupb_NoDup].
    intros p Hp. rewrite forallb_forall in H2. specialize (H2 p Hp). now apply andb_true_iff in H2.
  Qed.

  Lemma init_action_ok vars a :
    wf_sact (map vr_name vars) a = true -> init_action (map vobj_of vars) a = SOk (aobj_of vars a).
  Proof.
    intros Hwf. destruct (wf_sact_parts _ _ Hwf) as (_ & Hargs & _ & _).
    unfold Model.init_action, aobj_of.
    rewrite (smapM_ok _ (bind_of vars)).
    2:{ intros p Hp. apply bind_arg_ok. apply Hargs. apply in_or_app. now left. }
    cbn [sbind]. rewrite (smapM_ok _ (bind_of vars)).
    2:{ intros p Hp. apply bind_arg_ok. apply Hargs. apply in_or_app. now right. }
    reflexivity.
  Qed.

  (* ---------------------------------------------------------------- services *)
  Lemma wf_ssvc_parts dev_url s :
    wf_ssvc dev_url s = true ->
    C07.Spec.name_ok (sc_type s) = true /\
    urljoin dev_url (sc_scpd s) = sc_scpd s /\ urljoin dev_url (sc_control s) = sc_control s /\
    urljoin dev_url (sc_event s) = sc_event s /\
    (forall v, In v (sc_vars s) -> wf_svar v = true) /\ NoDup (map vr_name (sc_vars s)) /\
    (forall a, In a (sc_acts s) -> wf_sact (map vr_name (sc_vars s)) a = true) /\ NoDup (map ac_name (sc_acts s)) /\
    forallb C06.Spec.attr_safe_char (sc_type s) = true.
  Proof.
    unfold Spec.wf_ssvc. intros H. apply andb_true_iff in H as [H H9].
    apply andb_true_iff in H as [H H8]. apply andb_true_iff in H as [H H7]. apply andb_true_iff in H as [H H6].
    apply andb_true_iff in H as [H H5]. apply andb_true_iff in H as [H H4]. apply andb_true_iff in H as [H H3].
    apply andb_true_iff in H as [H1 H2].
    repeat split; try (now apply str_eqb_eq); try (now apply nodupb_NoDup); try assumption;
      now apply forallb_forall.
  Qed.

  Lemma init_service_ok dev_url s : wf_ssvc dev_url s = true -> init_service s = SOk (sobj_of s).
  Proof.
    intros Hwf. destruct (wf_ssvc_parts _ _ Hwf) as (_ & _ & _ & _ & Hv & _ & Ha & Hnd & _).
    unfold Model.init_service, sobj_of.
    rewrite (smapM_ok _ vobj_of) by (intros v Hin; now apply init_var_ok, Hv). cbn [sbind].
    rewrite (smapM_ok _ (aobj_of (sc_vars s))) by (intros a Hin; now apply init_action_ok, Ha). cbn [sbind].
    rewrite map_snd_dict_of; [reflexivity|]. now rewrite map_map.
  Qed.

  (* ---------------------------------------------------------------- devices *)
  Lemma wf_stree_node h url i svcs subs :
    wf_stree (SDev h url i svcs subs) = true ->
    (forall s, In s svcs -> wf_ssvc url s = true) /\ (forall x, In x subs -> wf_stree x = true).
  Proof.
    cbn [Spec.wf_stree]. intros H. apply andb_true_iff in H as [H1 H2]. split; now apply forallb_forall.
  Qed.

  Lemma kf_service_node' h i svcs subs :
    kf_dup_service_types (DeviceDef h i svcs subs) = false ->
    NoDup (map s_type svcs) /\ forall x, In x subs -> kf_dup_service_types x = false.
  Proof.
    cbn [kf_dup_service_types]. intros H. apply orb_false_iff in H as [H1 H2].
    apply negb_false_iff in H1. split; [now apply nodupb_NoDup|].
    intros x Hx. destruct (kf_dup_service_types x) eqn:E; [|reflexivity].
    assert (existsb kf_dup_service_types subs = true) by (apply existsb_exists; now exists x). congruence.
  Qed.
  Lemma kf_device_node' h i svcs subs :
    kf_dup_device_types (DeviceDef h i svcs subs) = false ->
    NoDup (map (fun s => h_type (dd_hdr s)) subs) /\ forall x, In x subs -> kf_dup_device_types x = false.
  Proof.
    cbn [kf_dup_device_types]. intros H. apply orb_false_iff in H as [H1 H2].
    apply negb_false_iff in H1. split; [now apply nodupb_NoDup|].
    intros x Hx. destruct (kf_dup_device_types x) eqn:E; [|reflexivity].
    assert (existsb kf_dup_device_types subs = true) by (apply existsb_exists; now exists x). congruence.
  Qed.

  Lemma dobj_type d : (match dobj_of d with DObj h' _ _ _ _ => h_type h' end) = h_type (dd_hdr (def_of d)).
  Proof. destruct d; reflexivity. Qed.

  Lemma init_device_ok d :
    wf_stree d = true -> kf_dup_service_types (def_of d) = false -> kf_dup_device_types (def_of d) = false ->
    init_device d = SOk (dobj_of d).
  Proof.
    induction d as [h url i svcs subs IH] using sdev_ind'. intros Hwf K1 K2.
    destruct (wf_stree_node _ _ _ _ _ Hwf) as [Hs Hsub].
    cbn [def_of] in K1, K2.
    destruct (kf_service_node' _ _ _ _ K1) as [ND1 K1'].
    destruct (kf_device_node' _ _ _ _ K2) as [ND2 K2'].
    cbn [Model.init_device dobj_of].
    rewrite (smapM_ok _ sobj_of) by (intros s Hin; now apply (init_service_ok url), Hs). cbn [sbind].
    rewrite (smapM_ok _ dobj_of).
    2:{ intros x Hin. rewrite Forall_forall in IH. apply IH; [assumption | now apply Hsub | |].
        - apply K1'. now apply in_map.
        - apply K2'. now apply in_map. }
    cbn [sbind]. rewrite !map_snd_dict_of; [reflexivity | |].
    - rewrite map_map. rewrite map_map in ND2. erewrite map_ext; [exact ND2|]. intros x. apply dobj_type.
    - rewrite map_map. rewrite map_map in ND1. exact ND1.
  Qed.
End Init.
