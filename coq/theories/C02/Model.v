(* C02 — the SSDP receive path end to end: SsdpProtocol.datagram_received (gate, decode under the
   except clause, C01) feeding the four endpoints: advertisement listener, search listener, the
   combined listener with device tracking (C03), the server's search responder.  Exceptions are
   explicit: every function that can raise returns [outcome]; library calls that can raise (int(),
   randrange) are modelled with their raise conditions.  Definitions only. *)
From Coq Require Import List Bool NArith ZArith.
From AUC Require Import Prelude.PyStr Prelude.PyDict Prelude.Utf8 C16.Model C08.Model C03.Model C01.Model
  Gen.Ssdp Gen.SsdpRecv.
Import ListNotations.
Local Open Scope N_scope.

Inductive pyexn := XInvalidHeader | XLineTooLong | XUnicodeDecode | XValueError | XOther.

(* what handing one datagram to an endpoint did *)
Record effect := { e_callbacks : N; e_sent : N; e_scheduled : N }.
Definition quiet : effect := {| e_callbacks := 0; e_sent := 0; e_scheduled := 0 |}.
Inductive outcome :=
| Dropped                       (* not a well-formed SSDP message: nothing happened *)
| Dispatched (e : effect)
| Raised (x : pyexn).

Inductive endpoint := EAdv | ESearch | EListenerAdv | EListenerSrch | EServer.

(* is the class raised by decode caught by datagram_received's except clause (generated) *)
Definition decode_caught (e : C01.Model.exn) : bool :=
  match e with
  | EInvalidHeader => caught_invalid_header
  | ELineTooLong => caught_line_too_long
  | EUnicodeDecode => caught_unicode_decode
  end.
Definition to_pyexn (e : C01.Model.exn) : pyexn :=
  match e with EInvalidHeader => XInvalidHeader | ELineTooLong => XLineTooLong | EUnicodeDecode => XUnicodeDecode end.

(* ------------------------------------------------------------------ the server's device (fixed by the harness) *)
Record server_dev := {
  sd_udn : pystr;                 (* already lower case *)
  sd_device_type : pystr;         (* lower case, "...:N" *)
  sd_service_types : list pystr   (* lower case *)
}.

(* base ":" ver for ver in 0..max: SsdpSearchResponder._match_type_versions *)
Fixpoint rsplit_colon_rev (rs acc : pystr) : option (pystr * pystr) :=
  match rs with
  | [] => None
  | c :: r => if c =? 58 then Some (rev r, acc) else rsplit_colon_rev r (c :: acc)
  end.
Definition rsplit_colon (s : pystr) : option (pystr * pystr) := rsplit_colon_rev (rev s) [].

Definition match_type_versions (type_ver st : pystr) : bool :=
  match rsplit_colon type_ver with
  | Some (base, ver) =>
      match C08.Model.int_of_str ver with
      | C08.Model.Ok max_ver =>
          existsb (fun v => str_eqb (base ++ [58] ++ C08.Model.str_of_int (Z.of_nat v)) st)
                  (seq 0 (Z.to_nat (max_ver + 1)))
      | C08.Model.Raise _ => str_eqb type_ver st
      end
  | None => str_eqb type_ver st
  end.

Definition s_ssdp_all : pystr := [115;115;100;112;58;97;108;108].
Definition s_rootdevice : pystr := [117;112;110;112;58;114;111;111;116;100;101;118;105;99;101].

(* how many responses _build_responses produces for a device without embedded devices *)
Definition responses_count (d : server_dev) (st_header : pystr) : N :=
  let st := lower st_header in
  if str_eqb st s_ssdp_all then 1 + 2 + N.of_nat (length (sd_service_types d))
  else if str_eqb st s_rootdevice then 1
  else if str_eqb (sd_udn d) st then 1
  else if match_type_versions (sd_device_type d) st then 1
  else N.of_nat (length (filter (fun ty => match_type_versions ty st) (sd_service_types d))).

Definition s_msearch : pystr := [77;45;83;69;65;82;67;72;32;42;32;72;84;84;80;47;49;46;49].
Definition k_mx : pystr := [109;120].

(* int(mx_header): CPython refuses more than 4300 digits *)
Definition py_int (s : pystr) : option Z :=
  if 4300 <? N.of_nat (length s) then None
  else match C08.Model.int_of_str s with C08.Model.Ok z => Some z | C08.Model.Raise _ => None end.

(* random.randrange(a, b) raises ValueError on an empty range *)
Definition randrange_ok (a b : Z) : bool := (a <? b)%Z.

(* SsdpSearchResponder._on_data *)
Definition server_on_data (d : server_dev) (rl : pystr) (h : hdrs) : outcome :=
  if negb (str_eqb rl s_msearch) || negb (is_discover h) then Dispatched quiet else
  let delay := match hget h k_mx with
               | Some (HStr s) => match py_int s with
                                  | Some z => Z.max mx_lo (Z.min mx_hi z)
                                  | None => 0%Z                    (* except ValueError: pass *)
                                  end
               | _ => 0%Z
               end in
  let n := responses_count d (match hstr h k_st with Some s => s | None => [] end) in
  if n =? 0 then Dispatched quiet else
  if (delay =? 0)%Z then Dispatched {| e_callbacks := 0; e_sent := n; e_scheduled := 0 |}
  else if randrange_ok rr_lo (delay * rr_mul - rr_sub)%Z
       then Dispatched {| e_callbacks := 0; e_sent := 0; e_scheduled := n |}
       else Raised XValueError.

(* ------------------------------------------------------------------ the two plain listeners *)
Definition adv_on_data (h : hdrs) : effect :=
  if is_discover h then quiet else
  match hget h k_nts with
  | Some (HStr s) =>
      if str_eqb s nts_alive || str_eqb s nts_byebye || str_eqb s nts_update
      then {| e_callbacks := 1; e_sent := 0; e_scheduled := 0 |} else quiet
  | _ => quiet
  end.
Definition search_on_data (h : hdrs) : effect :=
  if is_discover h then quiet else
  if htruthy h k_nts then quiet else {| e_callbacks := 1; e_sent := 0; e_scheduled := 0 |}.

(* ------------------------------------------------------------------ datagram_received *)
Section Receive.
  Variable url_of : pystr -> url_info.
  Variable ipver : pystr -> option N.
  Variable dev : server_dev.

  Definition note_effect (n : option notification) : effect :=
    match n with Some _ => {| e_callbacks := 1; e_sent := 0; e_scheduled := 0 |} | None => quiet end.

  Definition datagram_received (ep : endpoint) (t : tracker) (data : list N) (local_tok : N)
             (a : addr) (remote_tok : N) (now : Z) : tracker * outcome :=
    if negb (is_valid_packet data) then (t, Dropped) else
    match decode url_of data local_tok a remote_tok now with
    | C01.Model.Raise e => (t, if decode_caught e then Dropped else Raised (to_pyexn e))
    | C01.Model.Ok (rl, h) =>
        match ep with
        | EAdv => (t, Dispatched (adv_on_data h))
        | ESearch => (t, Dispatched (search_on_data h))
        | EListenerAdv => let '(t', n, _) := on_adv ipver t h in (t', Dispatched (note_effect n))
        | EListenerSrch => let '(t', n, _) := on_srch ipver [] t h in (t', Dispatched (note_effect n))
        | EServer => (t, server_on_data dev rl h)
        end
    end.
End Receive.
