(* C02 — a message handed to the combined listener that is neither a valid sighting nor a valid byebye
   (C03.Spec) is dropped by the tracker: no notification, the known devices unchanged.  This is the tracker-level
   half of "anything else is dropped ... leaves the set of known devices unchanged". *)
From Coq Require Import List Bool NArith ZArith Lia Permutation.
From AUC Require Import Prelude.PyStr Prelude.PyDict Prelude.Utf8 C16.Model C16.Spec C16.Proofs
  C03.Model C03.Spec C03.Inv C03.Bridge C03.StepChar C04.Spec C04.Proofs C04.History
  C01.Model C02.Model Gen.Ssdp.
Import ListNotations.

Local Notation KS := str_eqb_spec.
Local Notation HInv := (C16.Proofs.Inv str_eqb lower).

(* ------------------------------------------------------------------ the decoded map as a list of items *)
Lemma lower_idem s : lower (lower s) = lower s.
Proof.
  unfold lower, lower_with. rewrite map_map. apply map_ext. intros c. unfold lower_char, lower_ext.
  destruct ((65 <=? c)%N && (c <=? 90)%N) eqn:E1.
  - destruct ((65 <=? c + 32)%N && (c + 32 <=? 90)%N) eqn:E3; [lia|]. destruct (c + 32 <? 128)%N; reflexivity.
  - destruct (c <? 128)%N eqn:E2; rewrite ?E1, ?E2; reflexivity.
Qed.

Definition items_of (h : hdrs) : list (pystr * hval) := b_as_lower str_eqb lower h.

Lemma items_of_keys_lower h k : In k (dkeys (items_of h)) -> lower k = k.
Proof.
  unfold items_of, b_as_lower, lower_items. intros H. apply (In_dkeys_dmerge str_eqb KS) in H. destruct H as [[]|H].
  rewrite map_map in H. cbn [fst] in H. apply in_map_iff in H as [kv [<- _]]. apply lower_idem.
Qed.

Lemma items_of_lowered h : map (fun kv : pystr * hval => (lower (fst kv), snd kv)) (items_of h) = items_of h.
Proof.
  rewrite <- (map_id (items_of h)) at 2. apply map_ext_in. intros [k v] Hin. cbn [fst snd]. f_equal.
  apply (items_of_keys_lower h). unfold dkeys. apply in_map_iff. now exists (k, v).
Qed.

Lemma items_of_ok h : items_ok (items_of h).
Proof.
  unfold items_ok. apply (NoDup_nodupb str_eqb KS).
  replace (map (fun kv : pystr * hval => lower (fst kv)) (items_of h))
    with (map fst (map (fun kv : pystr * hval => (lower (fst kv), snd kv)) (items_of h)))
    by (rewrite map_map; reflexivity).
  rewrite items_of_lowered. apply (lower_items_nodup str_eqb KS).
Qed.

Lemma items_of_get h lk : HInv h -> hget h lk = item_get (items_of h) lk.
Proof.
  intros Hi. unfold item_get. rewrite items_of_lowered.
  rewrite (dlast_dget str_eqb KS) by apply (lower_items_nodup str_eqb KS).
  unfold items_of, b_as_lower. rewrite (lower_items_get str_eqb KS lower), (LW_self KS lk Hi). now rewrite hget_blookup.
Qed.

Lemma items_stored h src : HInv h -> stored_ok src (with_source h src) (items_of h).
Proof.
  intros Hi. split; [apply (with_source_get _ src k_source Hi)|]. split; [apply items_of_ok|].
  intros lk. destruct (with_source_get _ src lk Hi) as [_ E]. rewrite E, (items_of_get h lk Hi). reflexivity.
Qed.

(* ------------------------------------------------------------------ decoding yields a well-formed header map *)
Section Decoded.
  Variable url_of : pystr -> url_info.

  Lemma decode_inv data local_tok a remote_tok now rl h :
    decode url_of data local_tok a remote_tok now = Ok (rl, h) -> HInv h.
  Proof.
    unfold decode, cached_decode. destruct (header_parse data) as [[hs rline]|e]; [|discriminate].
    match goal with |- context [b_init str_eqb lower ?its] => set (items0 := its) end.
    assert (Hdict : is_dict str_eqb items0 = true).
    { apply (NoDup_nodupb str_eqb KS). unfold items0. apply (NoDup_dmerge str_eqb KS).
      unfold md_items. apply (NoDup_dmerge str_eqb KS). constructor. }
    pose proof (H_init_body str_eqb KS lower items0 Hdict) as R0.
    destruct (b_init str_eqb lower items0) as [b0|]; [|contradiction]. unfold Sim.opt_rel in R0. cbv beta iota in R0.
    match goal with |- context [b_combine_lower str_eqb b0 ?m] => set (meta4 := m) end.
    assert (Hm4d : is_dict str_eqb meta4 = true) by reflexivity.
    assert (Hm4l : all_lower str_eqb lower meta4 = true) by reflexivity.
    pose proof (H_combine_lower_body KS meta4 R0 Hm4d Hm4l) as R1.
    destruct (b_combine_lower str_eqb b0 meta4) as [h'|]; [|contradiction]. unfold Sim.opt_rel in R1. cbv beta iota in R1.
    intros H. inversion H; subst. apply R1.
  Qed.
End Decoded.

(* ------------------------------------------------------------------ the tracker ignores what is neither *)
Section Inert.
  Variable ipver : pystr -> option N.

  Lemma unsee_invalid items h src t :
    msg_dom items -> stored_ok src h items -> nonempty (item_str items k_nts) = true ->
    match usn_udn items, item_str items k_nt with Some _, Some (_ :: _) => False | _, _ => True end ->
    unsee_advertisement t h = (t, None).
  Proof.
    intros D SO Hnts Hno. pose proof (stored_reads _ _ _ SO) as R. unfold unsee_advertisement, valid_byebye_headers.
    rewrite (truthy_udn items h D R), (truthy_plain items h D R k_nt eq_refl eq_refl),
      (truthy_plain items h D R k_nts eq_refl eq_refl), Hnts.
    destruct (usn_udn items) as [u|]; [|reflexivity].
    destruct (item_str items k_nt) as [[|c r]|]; try reflexivity. contradiction.
  Qed.

  Lemma adv_inert t h :
    HInv h -> op_in_domain (Adv (items_of h)) = true ->
    sighting (Adv (items_of h)) = None -> byebye_of (Adv (items_of h)) = None ->
    on_adv ipver t h = (t, None, None).
  Proof.
    intros Hi Hd Hs Hb. set (items := items_of h) in *.
    pose proof (op_dom_adv _ Hd) as D.
    pose proof (items_stored h src_advertisement Hi) as SO. fold items in SO.
    pose proof (items_of_get h) as Hg. fold items in Hg.
    unfold on_adv. unfold is_discover, hstr. rewrite !(Hg _ Hi).
    unfold sighting, byebye_of, op_type, msg_kind, op_items in Hs, Hb. unfold item_str in Hs, Hb.
    destruct (match item_get items k_man with Some (HStr s) => Some s | _ => None end) as [m|] eqn:Em;
      [destruct (str_eqb m ssdp_discover); [reflexivity|]|].
    all: destruct (item_get items k_nts) as [[s| |]|] eqn:En; try reflexivity.
    all: assert (Hnts : nonempty (item_str items k_nts) = true -> True) by auto.
    all: destruct (str_eqb s nts_alive) eqn:E1.
    all: try (apply str_eqb_true in E1; subst s;
              rewrite (see_adv_invalid ipver items _ D t _ false SO); [reflexivity|];
              unfold item_str; exact Hs).
    all: destruct (str_eqb s nts_byebye) eqn:E2.
    all: try (apply str_eqb_true in E2; subst s;
              rewrite (unsee_invalid items _ src_advertisement t D SO);
              [ reflexivity
              | unfold item_str; rewrite En; reflexivity
              | unfold item_str; destruct (usn_udn items) as [u|]; [|exact I];
                destruct (match item_get items k_nt with Some (HStr s0) => Some s0 | _ => None end) as [[|c r]|];
                try exact I; discriminate Hb ]).
    all: destruct (str_eqb s nts_update) eqn:E3; [|reflexivity].
    all: apply str_eqb_true in E3; subst s;
         rewrite (see_adv_invalid ipver items _ D t _ true SO); [reflexivity|]; unfold item_str; exact Hs.
  Qed.

  Lemma srch_inert t h :
    HInv h -> op_in_domain (Srch (items_of h)) = true ->
    sighting (Srch (items_of h)) = None ->
    on_srch ipver [] t h = (t, None, None).
  Proof.
    intros Hi Hd Hs. set (items := items_of h) in *.
    pose proof (op_dom_srch _ Hd) as D.
    pose proof (items_stored h src_search Hi) as SO. fold items in SO.
    pose proof (items_of_get h) as Hg. fold items in Hg.
    assert (Ht : htruthy h k_nts = nonempty (item_str items k_nts)).
    { unfold htruthy, nonempty, item_str. rewrite (Hg _ Hi).
      destruct (item_get items k_nts) as [v|] eqn:E; [|reflexivity].
      destruct (md_str _ D _ _ E eq_refl) as [s ->]. destruct s; reflexivity. }
    unfold on_srch. rewrite Ht. unfold is_discover, hstr. rewrite (Hg _ Hi).
    unfold sighting, op_type, msg_kind, op_items in Hs. unfold item_str in Hs |- *.
    destruct (match item_get items k_man with Some (HStr s) => Some s | _ => None end) as [m|] eqn:Em;
      [destruct (str_eqb m ssdp_discover); [reflexivity|]|].
    all: destruct (nonempty (match item_get items k_nts with Some (HStr s) => Some s | _ => None end)); [reflexivity|].
    all: cbn [negb]; rewrite (see_search_invalid ipver items _ D t _ SO); [reflexivity | unfold item_str; exact Hs].
  Qed.
End Inert.
