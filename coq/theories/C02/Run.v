(* C02 — instantiation used by the correspondence check, and the two clauses. *)
From Coq Require Import List Bool NArith ZArith.
From AUC Require Export Prelude.PyStr Prelude.PyDict Prelude.Utf8 C16.Model C16.Spec C03.Model C03.Spec C01.Model C02.Model.
Import ListNotations.
Local Open Scope N_scope.

Definition TS (n : Z) : Z := (63713476800000000 + n * 1000000)%Z.

Record dstep := { s_ep : endpoint; s_data : list N; s_local : N; s_addr : addr; s_remote : N; s_now : Z }.
Definition input := (list (pystr * url_info) * list (pystr * option N) * server_dev * list dstep)%type.

(* observed after each datagram: escaped exception (if any), user callbacks run, datagrams sent at once,
   sends scheduled, names of the known devices of the combined listener *)
Record sobs := { ob_raised : option pyexn; ob_callbacks : N; ob_sent : N; ob_scheduled : N; ob_devs : list pystr }.
Definition observation := list sobs.

Definition no_url : url_info :=
  {| u_split_ok := false; u_scheme := []; u_path := []; u_query := []; u_fragment := [];
     u_hostname := None; u_port := PortNone; u_link_local := None |}.
Definition url_of_tab (tab : list (pystr * url_info)) (u : pystr) : url_info :=
  match find (fun p => str_eqb (fst p) u) tab with Some p => snd p | None => no_url end.
Definition ipver_of (tab : list (pystr * option N)) (loc : pystr) : option N :=
  match find (fun p => str_eqb (fst p) loc) tab with Some p => snd p | None => None end.

Definition obs_of (t : tracker) (o : outcome) : sobs :=
  let devs := dkeys (devices t) in
  match o with
  | Dropped => {| ob_raised := None; ob_callbacks := 0; ob_sent := 0; ob_scheduled := 0; ob_devs := devs |}
  | Dispatched e => {| ob_raised := None; ob_callbacks := e_callbacks e; ob_sent := e_sent e;
                       ob_scheduled := e_scheduled e; ob_devs := devs |}
  | Raised x => {| ob_raised := Some x; ob_callbacks := 0; ob_sent := 0; ob_scheduled := 0; ob_devs := devs |}
  end.

Section Run.
  Variable url_of : pystr -> url_info.
  Variable ipver : pystr -> option N.
  Variable dev : server_dev.

  Definition do_step (t : tracker) (s : dstep) : tracker * outcome :=
    datagram_received url_of ipver dev (s_ep s) t (s_data s) (s_local s) (s_addr s) (s_remote s) (s_now s).

  Fixpoint run_from (t : tracker) (steps : list dstep) : observation :=
    match steps with
    | [] => []
    | s :: r => let '(t', o) := do_step t s in obs_of t' o :: run_from t' r
    end.

  (* is the datagram a well-formed SSDP message (accepted by the gate and decodable)? *)
  Definition well_formed (s : dstep) : bool :=
    is_valid_packet (s_data s) &&
    match decode url_of (s_data s) (s_local s) (s_addr s) (s_remote s) (s_now s) with
    | C01.Model.Ok _ => true | C01.Model.Raise _ => false end.

  (* clause 1: nothing escapes; clause 2: a datagram that is not well formed is dropped silently *)
  Definition c_never_raises (ob : sobs) : bool := match ob_raised ob with None => true | Some _ => false end.
  Definition c_dropped_silent (s : dstep) (prev_devs : list pystr) (ob : sobs) : bool :=
    if well_formed s then true
    else (ob_callbacks ob =? 0) && (ob_sent ob =? 0) && (ob_scheduled ob =? 0) &&
         perm_eqb str_eqb (ob_devs ob) prev_devs.

  (* clause 3, the tracker-level half of "anything else is dropped": what the combined listener is handed, in the
     vocabulary of the tracker specification (C03.Spec); a message of its domain that is neither a valid sighting
     nor a valid byebye triggers no callback and leaves the known devices unchanged *)
  Definition listener_op (s : dstep) : option op :=
    if is_valid_packet (s_data s) then
      match decode url_of (s_data s) (s_local s) (s_addr s) (s_remote s) (s_now s) with
      | C01.Model.Ok (_, h) =>
          let items := b_as_lower str_eqb lower h in
          match s_ep s with
          | EListenerAdv => Some (Adv items)
          | EListenerSrch => Some (Srch items)
          | _ => None
          end
      | C01.Model.Raise _ => None
      end
    else None.
  Definition neither (o : op) : bool :=
    op_in_domain o && match sighting o with None => true | Some _ => false end &&
    match byebye_of o with None => true | Some _ => false end.
  Definition c_listener_inert (s : dstep) (prev_devs : list pystr) (ob : sobs) : bool :=
    match listener_op s with
    | Some o => if neither o then (ob_callbacks ob =? 0) && perm_eqb str_eqb (ob_devs ob) prev_devs else true
    | None => true
    end.

  Fixpoint clauses_from (n : N) (prev_devs : list pystr) (steps : list dstep) (obs_l : observation) : list (N * N) :=
    match steps, obs_l with
    | s :: steps', ob :: obs' =>
        (if c_never_raises ob then [] else [(1, n)]) ++
        (if c_dropped_silent s prev_devs ob then [] else [(2, n)]) ++
        (if c_listener_inert s prev_devs ob then [] else [(3, n)]) ++
        clauses_from (N.succ n) (ob_devs ob) steps' obs'
    | [], [] => []
    | _, _ => [(1, n)]
    end.
End Run.

Definition model_run (i : input) : observation :=
  let '(utab, itab, dev, steps) := i in run_from (url_of_tab utab) (ipver_of itab) dev tracker0 steps.
Definition spec_failures (i : input) (obs_l : observation) : list (N * N) :=
  let '(utab, itab, dev, steps) := i in clauses_from (url_of_tab utab) 0 [] steps obs_l.

Definition pyexn_eqb (a b : pyexn) : bool :=
  match a, b with
  | XInvalidHeader, XInvalidHeader | XLineTooLong, XLineTooLong | XUnicodeDecode, XUnicodeDecode
  | XValueError, XValueError | XOther, XOther => true
  | _, _ => false
  end.
Definition sobs_eqb (a b : sobs) : bool :=
  match ob_raised a, ob_raised b with
  | Some x, Some y => pyexn_eqb x y
  | None, None => true
  | _, _ => false
  end && (ob_callbacks a =? ob_callbacks b) && (ob_sent a =? ob_sent b) && (ob_scheduled a =? ob_scheduled b) &&
  perm_eqb str_eqb (ob_devs a) (ob_devs b).
Fixpoint first_diff (n : N) (a b : observation) : option N :=
  match a, b with
  | [], [] => None
  | x :: a', y :: b' => if sobs_eqb x y then first_diff (N.succ n) a' b' else Some n
  | _, _ => Some n
  end.

Fixpoint report (base : N) (cases : list (input * observation)) : list (N * N * N) :=
  match cases with
  | [] => []
  | (i, o) :: r =>
      (match first_diff 0 (model_run i) o with Some p => [(base, 0, p)] | None => [] end) ++
      map (fun e => (base, fst e, snd e)) (spec_failures i o) ++
      report (N.succ base) r
  end.
Definition replay (c : input * observation) := (model_run (fst c), spec_failures (fst c) (snd c)).
