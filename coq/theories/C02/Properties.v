(* C02 — No datagram can make the SSDP receive path raise.  Property theorems only. *)
From Coq Require Import List Bool NArith ZArith.
From AUC Require Import Prelude.PyStr Prelude.PyDict C16.Model C03.Model C03.Inv C01.Model C01.Spec Gen.Ssdp
  C02.Model C02.Run C02.Proofs.
Import ListNotations.
Local Open Scope N_scope.

(* For every byte string, every sender, every clock reading, every endpoint (advertisement listener,
   search listener, either socket of the combined listener, the server's search responder), every
   tracker state and whatever urlsplit / ip_address / ip_version_from_location answer: handing the
   datagram to datagram_received returns normally.  The classes the decoder raises (InvalidHeader,
   LineTooLong, UnicodeDecodeError) are checked against the except clause generated from the current
   source; the responder's randrange never sees an empty range. *)
Theorem C02_never_raises :
  forall url_of ipver dev ep t data local_tok a remote_tok now,
    match snd (datagram_received url_of ipver dev ep t data local_tok a remote_tok now) with
    | Raised _ => False
    | _ => True
    end.
Proof. exact never_raises. Qed.
Print Assumptions C02_never_raises.

(* A dropped datagram leaves the set of known devices (the whole tracker) unchanged; by the shape of
   [outcome] it also runs no callback and sends nothing. *)
Theorem C02_dropped_is_silent :
  forall url_of ipver dev ep t data local_tok a remote_tok now,
    snd (datagram_received url_of ipver dev ep t data local_tok a remote_tok now) = Dropped ->
    fst (datagram_received url_of ipver dev ep t data local_tok a remote_tok now) = t.
Proof. exact dropped_is_silent. Qed.
Print Assumptions C02_dropped_is_silent.

(* The three clauses the correspondence check evaluates (never raises; an ill-formed datagram is dropped silently;
   a message of the tracker specification's domain that is neither a valid sighting nor a valid byebye triggers no
   callback and leaves the known devices unchanged) hold of every run of the model, for every sequence of
   datagrams against the long-lived endpoints. *)
Theorem C02_spec_holds : forall i : input, spec_failures i (model_run i) = [].
Proof. exact spec_holds. Qed.
Print Assumptions C02_spec_holds.

(* Tracker-level half of "anything else is dropped": for every datagram handed to the combined listener that
   decodes to a message which C03.Spec classifies as neither a valid sighting nor a valid byebye (within that
   specification's domain), no user callback runs and the set of known devices is unchanged - for every tracker
   state, every oracle. *)
Theorem C02_listener_inert :
  forall url_of ipver dev (s : dstep) (t : tracker),
    c_listener_inert url_of s (dkeys (devices t))
      (obs_of (fst (do_step url_of ipver dev t s)) (snd (do_step url_of ipver dev t s))) = true.
Proof. exact listener_inert. Qed.
Print Assumptions C02_listener_inert.

(* "a well-formed message is dispatched": everything the library itself builds is. *)
Theorem C02_built_is_dispatched :
  forall url_of ipver dev ep t start hs local_tok a remote_tok now,
    In start start_lines -> headers_ok hs = true -> kf_nul hs = false ->
    snd (datagram_received url_of ipver dev ep t (build_packet start hs) local_tok a remote_tok now) <> Dropped.
Proof. exact built_is_dispatched. Qed.
Print Assumptions C02_built_is_dispatched.

(* Whatever arrives, the device tracker's bookkeeping invariant (C03) survives. *)
Theorem C02_tracker_invariant :
  forall url_of ipver dev ep t data local_tok a remote_tok now,
    Inv t -> Inv (fst (datagram_received url_of ipver dev ep t data local_tok a remote_tok now)).
Proof. exact tracker_invariant. Qed.
Print Assumptions C02_tracker_invariant.

(* Non-vacuity: a non-UTF-8 start line is dropped, a negative MX is answered at once. *)
Example C02_examples :
  let dev := {| sd_udn := [117]; sd_device_type := [100;58;49]; sd_service_types := [] |} in
  let a := {| a_host := [49]; a_port := 1; a_v6 := None |} in
  snd (datagram_received (fun _ => no_url) (fun _ => None) dev EAdv tracker0
         [78;79;84;73;70;89;32;42;32;72;84;84;80;47;49;46;49;255;13;10;65;58;98;13;10;13;10] 0 a 0 0%Z) = Dropped /\
  snd (datagram_received (fun _ => no_url) (fun _ => None) dev EServer tracker0
         (build_packet s_msearch [([77;65;78], Gen.Ssdp.ssdp_discover); ([77;88], [45;49]); ([83;84], s_rootdevice)]) 0 a 0 0%Z)
  = Dispatched {| e_callbacks := 0; e_sent := 1; e_scheduled := 0 |}.
Proof. vm_compute. split; reflexivity. Qed.
