(* C02 — nothing escapes datagram_received; what is not a well-formed SSDP message is dropped silently. *)
From Coq Require Import List Bool NArith ZArith Lia.
From AUC Require Import Prelude.PyStr Prelude.PyDict Prelude.Utf8 C16.Model C16.Spec C03.Model C03.Inv
  C01.Model C01.Spec C01.Roundtrip C02.Model C02.Run C02.Inert Gen.Ssdp Gen.SsdpRecv.
Import ListNotations.
Local Open Scope N_scope.

Local Notation KS := str_eqb_spec.

(* every class the decoder can raise is caught by the except clause of datagram_received, as
   generated from the current source and the installed aiohttp class hierarchy *)
Lemma decode_always_caught e : decode_caught e = true.
Proof. destruct e; reflexivity. Qed.

(* the responder's randrange call never sees an empty range *)
Lemma server_never_raises d rl h : match server_on_data d rl h with Raised _ => False | _ => True end.
Proof.
  unfold server_on_data. destruct (negb (str_eqb rl s_msearch) || negb (is_discover h)); [exact I|].
  set (delay := match hget h k_mx with
                | Some (HStr s) => match py_int s with Some z => Z.max mx_lo (Z.min mx_hi z) | None => 0%Z end
                | _ => 0%Z end).
  assert (Hd : (0 <= delay <= 5)%Z).
  { unfold delay, mx_lo, mx_hi. destruct (hget h k_mx) as [[s| |]|]; try lia. destruct (py_int s); lia. }
  destruct (responses_count d _ =? 0); [exact I|].
  destruct (delay =? 0)%Z eqn:E0; [exact I|].
  unfold randrange_ok, rr_lo, rr_mul, rr_sub. apply Z.eqb_neq in E0.
  replace (100 <? delay * 1000 - 250)%Z with true by lia. exact I.
Qed.

Section Recv.
  Variable url_of : pystr -> url_info.
  Variable ipver : pystr -> option N.
  Variable dev : server_dev.

  Theorem never_raises ep t data local_tok a remote_tok now :
    match snd (datagram_received url_of ipver dev ep t data local_tok a remote_tok now) with
    | Raised _ => False
    | _ => True
    end.
  Proof.
    unfold datagram_received. destruct (negb (is_valid_packet data)); [exact I|].
    destruct (decode url_of data local_tok a remote_tok now) as [[rl h]|e].
    - destruct ep; cbn [snd]; try exact I.
      + destruct (on_adv ipver t h) as [[t' n] d]. exact I.
      + destruct (on_srch ipver [] t h) as [[t' n] d]. exact I.
      + apply server_never_raises.
    - cbn [snd]. now rewrite decode_always_caught.
  Qed.

  Theorem dropped_is_silent ep t data local_tok a remote_tok now :
    snd (datagram_received url_of ipver dev ep t data local_tok a remote_tok now) = Dropped ->
    fst (datagram_received url_of ipver dev ep t data local_tok a remote_tok now) = t.
  Proof.
    unfold datagram_received. destruct (negb (is_valid_packet data)); [reflexivity|].
    destruct (decode url_of data local_tok a remote_tok now) as [[rl h]|e]; [|reflexivity].
    destruct ep; cbn [fst snd]; try reflexivity.
    - destruct (on_adv ipver t h) as [[t' n] d]. discriminate.
    - destruct (on_srch ipver [] t h) as [[t' n] d]. discriminate.
  Qed.

  (* a datagram that is not well formed is Dropped *)
  Lemma ill_formed_dropped s t : well_formed url_of s = false -> do_step url_of ipver dev t s = (t, Dropped).
  Proof.
    unfold well_formed, do_step, datagram_received. destruct (is_valid_packet (s_data s)); [|reflexivity].
    cbn [negb andb]. destruct (decode url_of (s_data s) (s_local s) (s_addr s) (s_remote s) (s_now s)) as [[rl h]|e]; [discriminate|].
    intros _. now rewrite decode_always_caught.
  Qed.

  (* whatever arrives, the tracker's bookkeeping invariant survives *)
  Theorem tracker_invariant ep t data local_tok a remote_tok now :
    Inv t -> Inv (fst (datagram_received url_of ipver dev ep t data local_tok a remote_tok now)).
  Proof.
    intros Hi. unfold datagram_received. destruct (negb (is_valid_packet data)); [exact Hi|].
    destruct (decode url_of data local_tok a remote_tok now) as [[rl h]|e]; [|exact Hi].
    destruct ep; cbn [fst]; try exact Hi.
    - pose proof (on_adv_Inv ipver t h Hi) as H. destruct (on_adv ipver t h) as [[t' n] d]. exact H.
    - pose proof (on_srch_Inv ipver [] t h Hi) as H. destruct (on_srch ipver [] t h) as [[t' n] d]. exact H.
  Qed.

  Lemma perm_eqb_refl_str l : perm_eqb str_eqb l l = true.
  Proof.
    induction l as [|x r IH]; cbn; [reflexivity|]. destruct (KS x x); [exact IH | congruence].
  Qed.

  (* clause 3 on the model: a message the tracker specification calls neither a sighting nor a byebye is inert *)
  Theorem listener_inert s t :
    c_listener_inert url_of s (dkeys (devices t))
      (obs_of (fst (do_step url_of ipver dev t s)) (snd (do_step url_of ipver dev t s))) = true.
  Proof.
    unfold c_listener_inert, listener_op, do_step, datagram_received.
    destruct (is_valid_packet (s_data s)); [|reflexivity]. cbn [negb].
    destruct (decode url_of (s_data s) (s_local s) (s_addr s) (s_remote s) (s_now s)) as [[rl h]|e] eqn:E; [|reflexivity].
    pose proof (decode_inv url_of _ _ _ _ _ _ _ E) as Hi.
    destruct (s_ep s); try reflexivity.
    - destruct (neither (Adv (b_as_lower str_eqb lower h))) eqn:En; [|reflexivity].
      unfold neither in En. apply andb_true_iff in En as [En Hb]. apply andb_true_iff in En as [Hd Hs].
      rewrite (adv_inert ipver t h Hi Hd).
      + cbn [fst snd obs_of note_effect quiet ob_callbacks ob_devs e_callbacks]. now rewrite perm_eqb_refl_str.
      + unfold items_of. destruct (sighting _); [discriminate | reflexivity].
      + unfold items_of. destruct (byebye_of _); [discriminate | reflexivity].
    - destruct (neither (Srch (b_as_lower str_eqb lower h))) eqn:En; [|reflexivity].
      unfold neither in En. apply andb_true_iff in En as [En Hb]. apply andb_true_iff in En as [Hd Hs].
      rewrite (srch_inert ipver t h Hi Hd).
      + cbn [fst snd obs_of note_effect quiet ob_callbacks ob_devs e_callbacks]. now rewrite perm_eqb_refl_str.
      + unfold items_of. destruct (sighting _); [discriminate | reflexivity].
  Qed.

  Theorem clauses_hold steps : forall t n,
    clauses_from url_of n (dkeys (devices t)) steps (run_from url_of ipver dev t steps) = [].
  Proof.
    induction steps as [|s r IH]; intros t n; [reflexivity|]. cbn [run_from].
    pose proof (never_raises (s_ep s) t (s_data s) (s_local s) (s_addr s) (s_remote s) (s_now s)) as NR.
    fold (do_step url_of ipver dev t s) in NR.
    destruct (well_formed url_of s) eqn:W.
    - destruct (do_step url_of ipver dev t s) as [t' o] eqn:E. cbn [clauses_from].
      unfold c_dropped_silent. rewrite W.
      assert (G : c_never_raises (obs_of t' o) = true) by (destruct o; cbn in *; auto; contradiction).
      rewrite G. pose proof (listener_inert s t) as LI. rewrite E in LI. cbn [fst snd] in LI. rewrite LI. cbn [app].
      replace (ob_devs (obs_of t' o)) with (dkeys (devices t')) by (destruct o; reflexivity).
      apply IH.
    - pose proof (listener_inert s t) as LI. rewrite (ill_formed_dropped s t W) in LI |- *. cbn [fst snd] in LI.
      cbn [clauses_from]. rewrite LI. unfold c_dropped_silent. rewrite W.
      cbn [obs_of c_never_raises ob_raised ob_callbacks ob_sent ob_scheduled ob_devs].
      rewrite perm_eqb_refl_str. cbn [N.eqb andb app]. apply IH.
  Qed.
End Recv.

Theorem spec_holds (i : input) : spec_failures i (model_run i) = [].
Proof.
  destruct i as [[[utab itab] dev] steps]. unfold spec_failures, model_run.
  apply (clauses_hold (url_of_tab utab) (ipver_of itab) dev steps tracker0 0).
Qed.

(* "a well-formed message is dispatched": whatever the library itself builds (C01's domain) is not dropped *)
Theorem built_is_dispatched url_of ipver dev ep t start hs local_tok a remote_tok now :
  In start start_lines -> headers_ok hs = true -> kf_nul hs = false ->
  snd (datagram_received url_of ipver dev ep t (build_packet start hs) local_tok a remote_tok now) <> Dropped.
Proof.
  intros Hs Hh Hk. unfold datagram_received.
  rewrite (C01.Wire.is_valid_built start hs Hs). cbn [negb].
  destruct (decode_built url_of start hs local_tok a remote_tok now Hs (headers_ok_dom hs Hh Hk)) as [h [E _]].
  rewrite E. destruct ep; cbn [snd]; try discriminate.
  - destruct (on_adv ipver t h) as [[t' n] d]. discriminate.
  - destruct (on_srch ipver [] t h) as [[t' n] d]. discriminate.
  - pose proof (server_never_raises dev start h) as NR. unfold server_on_data in *.
    repeat match goal with |- context [if ?c then _ else _] => destruct c end; discriminate.
Qed.
