(* C08 — executable model of the UPnP data-type codec and validation:
   const.py:STATE_VARIABLE_TYPE_MAPPING (via Gen/Types.v), utils.py:parse_date_time (via
   Gen/DateMatchers.v), client_factory.py:_state_variable_create_schema (voluptuous
   All(type, [require_tzinfo], [In], [Range])), client.py:UpnpStateVariable setters.
   Definitions only. *)
From Coq Require Import List Bool NArith ZArith Decimal DecimalZ.
From AUC Require Import Prelude.PyStr C08.TypesDef Gen.Types Gen.DateMatchers.
Import ListNotations.
Local Open Scope N_scope.

(* ------------------------------------------------------------------ Python values *)
Inductive fl := FFin (m e : Z) | FInf (neg : bool) | FNan.     (* finite float = m * 2^e, m odd or 0 *)
Record pdate := { dy : N; dm : N; dd : N }.
Record ptime := { th : N; tmi : N; ts : N; ttz : option Z }.   (* tz offset in minutes east *)
Inductive pyval :=
| VInt (z : Z) | VBool (b : bool) | VFloat (f : fl) | VStr (s : pystr)
| VDate (d : pdate) | VTime (t : ptime) | VDateTime (d : pdate) (t : ptime) | VNone.

Inductive exn := ValueError | TypeError | AttributeError | UpnpValueError | IndexError | OtherError.
Inductive res (A : Type) := Ok (a : A) | Raise (e : exn).
Arguments Ok {A}. Arguments Raise {A}.

(* ------------------------------------------------------------------ integers: str(int) / int(str) *)
Fixpoint render_uint (u : Decimal.uint) : pystr :=
  match u with
  | Nil => []
  | D0 u => 48 :: render_uint u | D1 u => 49 :: render_uint u | D2 u => 50 :: render_uint u
  | D3 u => 51 :: render_uint u | D4 u => 52 :: render_uint u | D5 u => 53 :: render_uint u
  | D6 u => 54 :: render_uint u | D7 u => 55 :: render_uint u | D8 u => 56 :: render_uint u
  | D9 u => 57 :: render_uint u
  end.
Definition render_int (i : Decimal.int) : pystr :=
  match i with Pos u => render_uint u | Neg u => 45 :: render_uint u end.
Definition str_of_int (z : Z) : pystr := render_int (Z.to_int z).

Fixpoint parse_uint (s : pystr) : option Decimal.uint :=
  match s with
  | [] => Some Nil
  | c :: r =>
      match parse_uint r with
      | Some u =>
          match c with
          | 48 => Some (D0 u) | 49 => Some (D1 u) | 50 => Some (D2 u) | 51 => Some (D3 u)
          | 52 => Some (D4 u) | 53 => Some (D5 u) | 54 => Some (D6 u) | 55 => Some (D7 u)
          | 56 => Some (D8 u) | 57 => Some (D9 u) | _ => None
          end
      | None => None
      end
  end.

(* str.strip() / int() whitespace *)
Definition is_space (c : N) : bool :=
  ((9 <=? c) && (c <=? 13)) || ((28 <=? c) && (c <=? 32)) || (c =? 133) || (c =? 160) ||
  (c =? 5760) || ((8192 <=? c) && (c <=? 8202)) || (c =? 8232) || (c =? 8233) || (c =? 8239) ||
  (c =? 8287) || (c =? 12288).
Fixpoint lstrip (s : pystr) : pystr :=
  match s with c :: r => if is_space c then lstrip r else s | [] => [] end.
Definition strip (s : pystr) : pystr := List.rev (lstrip (List.rev (lstrip s))).

Definition is_digit (c : N) : bool := (48 <=? c) && (c <=? 57).
(* PEP 515: single underscores between digits *)
Fixpoint drop_underscores (prev_digit : bool) (s : pystr) : option pystr :=
  match s with
  | [] => if prev_digit then Some [] else None
  | c :: r =>
      if c =? 95 then
        if prev_digit then
          match r with
          | d :: _ => if is_digit d then drop_underscores false r else None
          | [] => None
          end
        else None
      else match drop_underscores (is_digit c) r with Some t => Some (c :: t) | None => None end
  end.

Definition split_sign (s : pystr) : bool * pystr :=
  match s with
  | 45 :: r => (true, r)
  | 43 :: r => (false, r)
  | _ => (false, s)
  end.

Definition int_of_str (s : pystr) : res Z :=
  let '(neg, body) := split_sign (strip s) in
  match body with
  | [] => Raise ValueError
  | c :: _ =>
      if negb (is_digit c) then Raise ValueError else
      match drop_underscores false body with
      | Some ds =>
          match parse_uint ds with
          | Some u => Ok (Z.of_int (if neg then Neg u else Pos u))
          | None => Raise ValueError
          end
      | None => Raise ValueError
      end
  end.

(* ------------------------------------------------------------------ date / time rendering *)
Definition pad2 (n : N) : pystr := [48 + n / 10; 48 + n mod 10].
Definition pad4 (n : N) : pystr :=
  [48 + n / 1000; 48 + (n / 100) mod 10; 48 + (n / 10) mod 10; 48 + n mod 10].
Definition iso_date (d : pdate) : pystr := pad4 (dy d) ++ [45] ++ pad2 (dm d) ++ [45] ++ pad2 (dd d).
Definition iso_offset (tz : option Z) : pystr :=
  match tz with
  | None => []
  | Some off =>
      let a := Z.to_N (Z.abs off) in
      (if (off <? 0)%Z then 45 else 43) :: pad2 (a / 60) ++ [58] ++ pad2 (a mod 60)
  end.

Inductive timespec := TsAuto | TsHours | TsMinutes | TsSeconds | TsMilli | TsMicro.
Definition timespec_of (s : pystr) : option timespec :=
  if str_eqb s [97;117;116;111] then Some TsAuto
  else if str_eqb s [104;111;117;114;115] then Some TsHours
  else if str_eqb s [109;105;110;117;116;101;115] then Some TsMinutes
  else if str_eqb s [115;101;99;111;110;100;115] then Some TsSeconds
  else if str_eqb s [109;105;108;108;105;115;101;99;111;110;100;115] then Some TsMilli
  else if str_eqb s [109;105;99;114;111;115;101;99;111;110;100;115] then Some TsMicro
  else None.
(* microsecond is always 0 in this model (whole seconds) *)
Definition iso_time_spec (sp : timespec) (t : ptime) : pystr :=
  match sp with
  | TsHours => pad2 (th t)
  | TsMinutes => pad2 (th t) ++ [58] ++ pad2 (tmi t)
  | TsAuto | TsSeconds => pad2 (th t) ++ [58] ++ pad2 (tmi t) ++ [58] ++ pad2 (ts t)
  | TsMilli => pad2 (th t) ++ [58] ++ pad2 (tmi t) ++ [58] ++ pad2 (ts t) ++ [46;48;48;48]
  | TsMicro => pad2 (th t) ++ [58] ++ pad2 (tmi t) ++ [58] ++ pad2 (ts t) ++ [46;48;48;48;48;48;48]
  end ++ iso_offset (ttz t).

(* x.isoformat(args...) for the three classes; wrong arity is TypeError, bad timespec ValueError *)
Definition isoformat (v : pyval) (args : list pystr) : res pystr :=
  match v with
  | VDate d => match args with [] => Ok (iso_date d) | _ => Raise TypeError end
  | VTime t =>
      match args with
      | [] => Ok (iso_time_spec TsAuto t)
      | [sp] => match timespec_of sp with Some k => Ok (iso_time_spec k t) | None => Raise ValueError end
      | _ => Raise TypeError
      end
  | VDateTime d t =>
      match args with
      | [] => Ok (iso_date d ++ [84] ++ iso_time_spec TsAuto t)
      | [sep] => match sep with
                 | [c] => Ok (iso_date d ++ [c] ++ iso_time_spec TsAuto t)
                 | _ => Raise TypeError
                 end
      | [sep; sp] =>
          match sep with
          | [c] => match timespec_of sp with
                   | Some k => Ok (iso_date d ++ [c] ++ iso_time_spec k t)
                   | None => Raise ValueError
                   end
          | _ => Raise TypeError
          end
      | _ => Raise TypeError
      end
  | _ => Raise AttributeError
  end.

(* ------------------------------------------------------------------ parse_date_time *)
Inductive tok := TDig (d : N) | TCh (c : N).
Definition tokenize (s : pystr) : list tok :=
  map (fun c => if is_digit c then TDig (c - 48) else TCh c) s.

Definition tok_is (c : N) (t : tok) : bool :=
  match t with TDig d => is_digit c && (48 + d =? c) | TCh x => x =? c end.

(* the time-zone colon fix-up (utils.py:parse_date_time), on tokens; constants are generated *)
Definition fixup (ts : list tok) : list tok :=
  let n := length ts in
  let at_from_end k := if Nat.leb k n then nth_error ts (n - k) else None in
  let sign_ok := match at_from_end fixup_sign_pos with
                 | Some t => existsb (fun c => tok_is c t) fixup_signs
                 | None => false
                 end in
  let colon_ok := match at_from_end fixup_colon_pos with
                  | Some t => tok_is fixup_colon t
                  | None => false
                  end in
  if sign_ok && colon_ok
  then firstn (n - fixup_colon_pos) ts ++ skipn (n - (fixup_colon_pos - 1)) ts
  else ts.

Fixpoint take_digits (n : nat) (ts : list tok) : option (list N * list tok) :=
  match n with
  | O => Some ([], ts)
  | S n' =>
      match ts with
      | TDig d :: r =>
          match take_digits n' r with Some (ds, rest) => Some (d :: ds, rest) | None => None end
      | _ => None
      end
  end.

(* a captured group: the digits of a \d{n}, or the character matched by a class *)
Inductive group := GDigits (ds : list N) | GChar (c : N).

(* pattern.match(value) for an anchored sequence; `$` also matches before a final newline, which
   is kept as an extra group so that the strptime step (which wants the whole string) fails *)
Fixpoint re_match (re : list re_item) (ts : list tok) (acc : list group) : option (list group) :=
  match re with
  | [] => match ts with
          | [] => Some (List.rev acc)
          | [TCh 10] => Some (List.rev (GChar 10 :: acc))   (* strptime then sees unconverted data *)
          | _ => None
          end
  | RDigits n :: re' =>
      match take_digits n ts with
      | Some (ds, rest) => re_match re' rest (GDigits ds :: acc)
      | None => None
      end
  | RLit c :: re' =>
      match ts with
      | t :: rest => if tok_is c t then re_match re' rest acc else None
      | [] => None
      end
  | RClass cs :: re' =>
      match ts with
      | t :: rest =>
          match find (fun c => tok_is c t) cs with
          | Some c => re_match re' rest (GChar c :: acc)
          | None => None
          end
      | [] => None
      end
  end.

Definition digits_val (ds : list N) : N := fold_left (fun a d => 10 * a + d) ds 0.

(* f_tz: sign is '-', hours, minutes of a parsed %z *)
Record fields := { f_y : N; f_mo : N; f_d : N; f_h : N; f_mi : N; f_s : N; f_tz : option (bool * N * N) }.
Definition fields0 : fields :=
  {| f_y := 1900; f_mo := 1; f_d := 1; f_h := 0; f_mi := 0; f_s := 0; f_tz := None |}.

(* strptime on a string the regular expression already accepted: interpret the captured groups by
   the format's directives (their own range alternatives become the checks in [fields_valid]) *)
Fixpoint interpret (fmt : list fmt_item) (gs : list group) (f : fields) : option fields :=
  match fmt with
  | [] => match gs with [] => Some f | _ => None end
  | FLit _ :: fmt' => interpret fmt' gs f
  | FTz :: fmt' =>
      match gs with
      | GChar sg :: GDigits [a; b; c; d] :: gs' =>
          interpret fmt' gs' {| f_y := f_y f; f_mo := f_mo f; f_d := f_d f; f_h := f_h f;
                                f_mi := f_mi f; f_s := f_s f;
                                f_tz := Some (sg =? 45, digits_val [a; b], digits_val [c; d]) |}
      | _ => None
      end
  | d :: fmt' =>
      match gs with
      | GDigits ds :: gs' =>
          let v := digits_val ds in
          let f' := match d with
                    | FYear => {| f_y := v; f_mo := f_mo f; f_d := f_d f; f_h := f_h f; f_mi := f_mi f; f_s := f_s f; f_tz := f_tz f |}
                    | FMonth => {| f_y := f_y f; f_mo := v; f_d := f_d f; f_h := f_h f; f_mi := f_mi f; f_s := f_s f; f_tz := f_tz f |}
                    | FDay => {| f_y := f_y f; f_mo := f_mo f; f_d := v; f_h := f_h f; f_mi := f_mi f; f_s := f_s f; f_tz := f_tz f |}
                    | FHour => {| f_y := f_y f; f_mo := f_mo f; f_d := f_d f; f_h := v; f_mi := f_mi f; f_s := f_s f; f_tz := f_tz f |}
                    | FMinute => {| f_y := f_y f; f_mo := f_mo f; f_d := f_d f; f_h := f_h f; f_mi := v; f_s := f_s f; f_tz := f_tz f |}
                    | _ => {| f_y := f_y f; f_mo := f_mo f; f_d := f_d f; f_h := f_h f; f_mi := f_mi f; f_s := v; f_tz := f_tz f |}
                    end in
          interpret fmt' gs' f'
      | _ => None
      end
  end.

Definition is_leap (y : N) : bool :=
  ((y mod 4 =? 0) && negb (y mod 100 =? 0)) || (y mod 400 =? 0).
Definition days_in_month (y m : N) : N :=
  match m with
  | 2 => if is_leap y then 29 else 28
  | 4 | 6 | 9 | 11 => 30
  | _ => 31
  end.
Definition date_valid (y m d : N) : bool :=
  (1 <=? y) && (y <=? 9999) && (1 <=? m) && (m <=? 12) && (1 <=? d) && (d <=? days_in_month y m).
Definition tz_valid (tz : option Z) : bool :=
  match tz with None => true | Some off => (-1440 <? off)%Z && (off <? 1440)%Z end.
(* %z is [+-]\d\d:?[0-5]\d and timezone() wants an offset strictly inside one day *)
Definition ftz_valid (tz : option (bool * N * N)) : bool :=
  match tz with None => true | Some (_, hh, mm) => (mm <=? 59) && (60 * hh + mm <? 1440) end.
Definition ftz_offset (tz : option (bool * N * N)) : option Z :=
  match tz with
  | None => None
  | Some (neg, hh, mm) => let off := Z.of_N (60 * hh + mm) in Some (if neg then (- off)%Z else off)
  end.
Definition fields_valid (f : fields) : bool :=
  date_valid (f_y f) (f_mo f) (f_d f) && (f_h f <=? 23) && (f_mi f <=? 59) && (f_s f <=? 59) &&
  ftz_valid (f_tz f).

Definition apply_post (p : post) (f : fields) : pyval :=
  let d := {| dy := f_y f; dm := f_mo f; dd := f_d f |} in
  let t tz := {| th := f_h f; tmi := f_mi f; ts := f_s f; ttz := tz |} in
  match p with
  | PostNone => VDateTime d (t (ftz_offset (f_tz f)))
  | PostDate => VDate d
  | PostTime => VTime (t None)
  | PostTimetz => VTime (t (ftz_offset (f_tz f)))
  | PostReplaceUTC => VDateTime d (t (Some 0%Z))
  end.

(* first matching pattern decides; every failure after that is ValueError *)
Fixpoint try_matchers (ms : list matcher) (ts : list tok) : res pyval :=
  match ms with
  | [] => Raise ValueError
  | m :: ms' =>
      match re_match (m_re m) ts [] with
      | Some gs =>
          match interpret (m_fmt m) gs fields0 with
          | Some f => if fields_valid f then Ok (apply_post (m_post m) f) else Raise ValueError
          | None => Raise ValueError
          end
      | None => try_matchers ms' ts
      end
  end.

Definition parse_date_time (s : pystr) : res pyval := try_matchers matchers (fixup (tokenize s)).

(* ------------------------------------------------------------------ the coercers of a table row *)
Section Coercers.
  (* third-party / builtin behaviour that is not modelled: float repr and parsing, and
     str.lower() outside ASCII.  No law is assumed here. *)
  Variable float_str : fl -> pystr.
  Variable float_of_str : pystr -> option fl.
  Variable lower_ext : N -> N.

  Definition py_str (v : pyval) : pystr :=
    match v with
    | VInt z => str_of_int z
    | VBool true => [84;114;117;101]
    | VBool false => [70;97;108;115;101]
    | VFloat f => float_str f
    | VStr s => s
    | VDate d => iso_date d
    | VTime t => iso_time_spec TsAuto t
    | VDateTime d t => iso_date d ++ [32] ++ iso_time_spec TsAuto t
    | VNone => [78;111;110;101]
    end.

  Definition truthy (v : pyval) : bool :=
    match v with
    | VInt z => negb (z =? 0)%Z
    | VBool b => b
    | VFloat (FFin m _) => negb (m =? 0)%Z
    | VFloat _ => true
    | VStr s => match s with [] => false | _ => true end
    | VNone => false
    | _ => true
    end.

  Definition apply_out (o : out_coercer) (v : pyval) : res pystr :=
    match o with
    | OutStr => Ok (py_str v)
    | OutBool t f => Ok (if truthy v then t else f)
    | OutIso args => isoformat v args
    end.

  (* UpnpStateVariable.coerce_upnp: a bool offered for an integer type is sent as its number *)
  Definition coerce_upnp (row : type_row) (v : pyval) : res pystr :=
    match r_type row, v with
    | TInt, VBool b => apply_out (r_out row) (VInt (if b then 1 else 0)%Z)
    | _, _ => apply_out (r_out row) v
    end.

  Definition apply_in (i : in_coercer) (s : pystr) : res pyval :=
    match i with
    | InInt => match int_of_str s with Ok z => Ok (VInt z) | Raise e => Raise e end
    | InFloat => match float_of_str s with Some f => Ok (VFloat f) | None => Raise ValueError end
    | InStr => Ok (VStr s)
    | InDateTime => parse_date_time s
    | InBoolLowerIn lits => Ok (VBool (existsb (str_eqb (lower_with lower_ext s)) lits))
    end.

  (* -------------------------------------------------------------- validation (voluptuous) *)
  (* isinstance(v, T): bool is an int, datetime is a date *)
  Definition isinstance (t : pytype) (v : pyval) : bool :=
    match t, v with
    | TInt, VInt _ | TInt, VBool _ | TFloat, VFloat _ | TStr, VStr _ | TBool, VBool _
    | TDate, VDate _ | TDate, VDateTime _ _ | TDateTime, VDateTime _ _ | TTime, VTime _ => true
    | _, _ => false
    end.

  Definition has_tz (v : pyval) : bool :=
    match v with
    | VTime t | VDateTime _ t => match ttz t with Some _ => true | None => false end
    | _ => false
    end.

  (* exact comparison of two finite floats m1*2^e1 ? m2*2^e2 *)
  Definition fl_cmp_fin (m1 e1 m2 e2 : Z) : comparison :=
    let e := Z.min e1 e2 in
    Z.compare (m1 * 2 ^ (e1 - e))%Z (m2 * 2 ^ (e2 - e))%Z.
  Definition num_of (v : pyval) : option fl :=
    match v with
    | VInt z => Some (FFin z 0)
    | VBool b => Some (FFin (if b then 1 else 0) 0)
    | VFloat f => Some f
    | _ => None
    end.
  Definition fl_cmp (a b : fl) : option comparison :=     (* None = unordered (nan) *)
    match a, b with
    | FNan, _ | _, FNan => None
    | FInf n1, FInf n2 => Some (if Bool.eqb n1 n2 then Eq else if n1 then Lt else Gt)
    | FInf n, _ => Some (if n then Lt else Gt)
    | _, FInf n => Some (if n then Gt else Lt)
    | FFin m1 e1, FFin m2 e2 => Some (fl_cmp_fin m1 e1 m2 e2)
    end.

  Fixpoint str_cmp (a b : pystr) : comparison :=
    match a, b with
    | [], [] => Eq
    | [], _ => Lt
    | _, [] => Gt
    | x :: a', y :: b' => match N.compare x y with Eq => str_cmp a' b' | c => c end
    end.
  Definition lex (c1 c2 : comparison) := match c1 with Eq => c2 | c => c end.
  Definition date_cmp (a b : pdate) : comparison :=
    lex (N.compare (dy a) (dy b)) (lex (N.compare (dm a) (dm b)) (N.compare (dd a) (dd b))).
  Definition time_cmp (a b : ptime) : comparison :=
    lex (N.compare (th a) (th b)) (lex (N.compare (tmi a) (tmi b)) (N.compare (ts a) (ts b))).

  (* Python ordering where it is modelled: numbers, strings, naive dates/times.  None = the
     comparison raises TypeError or is unordered; aware date-times are outside this model. *)
  Definition py_cmp (a b : pyval) : option comparison :=
    match num_of a, num_of b with
    | Some x, Some y => fl_cmp x y
    | _, _ =>
        match a, b with
        | VStr x, VStr y => Some (str_cmp x y)
        | VDate x, VDate y => Some (date_cmp x y)
        | VTime x, VTime y =>
            match ttz x, ttz y with None, None => Some (time_cmp x y) | _, _ => None end
        | VDateTime d1 t1, VDateTime d2 t2 =>
            match ttz t1, ttz t2 with
            | None, None => Some (lex (date_cmp d1 d2) (time_cmp t1 t2))
            | _, _ => None
            end
        | _, _ => None
        end
    end.
  Definition py_eq (a b : pyval) : bool :=
    match py_cmp a b with Some Eq => true | _ => false end.
  Definition py_ge (a b : pyval) : bool :=
    match py_cmp a b with Some Eq | Some Gt => true | _ => false end.
  Definition py_le (a b : pyval) : bool :=
    match py_cmp a b with Some Eq | Some Lt => true | _ => false end.

  (* the declaration a schema is built from *)
  Record decl := {
    d_row : type_row;
    d_strict : bool;
    d_allowed : list pyval;            (* coerced allowed values; [] = no In validator *)
    d_min : option pyval;
    d_max : option pyval
  }.

  Fixpoint coerce_all (i : in_coercer) (l : list pystr) : res (list pyval) :=
    match l with
    | [] => Ok []
    | s :: r =>
        match apply_in i s, coerce_all i r with
        | Ok v, Ok vs => Ok (v :: vs)
        | Raise e, _ => Raise e
        | _, Raise e => Raise e
        end
    end.

  (* _state_variable_create_schema: allowed values and range bounds go through the in-coercer in
     strict mode only; an empty / missing bound is no bound *)
  Definition mk_decl (row : type_row) (strict : bool) (allowed : list pystr)
             (has_range : bool) (mn mx : option pystr) : res decl :=
    if negb strict then Ok {| d_row := row; d_strict := false; d_allowed := []; d_min := None; d_max := None |}
    else
      match coerce_all (r_in row) allowed with
      | Raise e => Raise e
      | Ok al =>
          let bound (b : option pystr) : res (option pyval) :=
            match b with
            | Some (c :: r) => match apply_in (r_in row) (c :: r) with Ok v => Ok (Some v) | Raise e => Raise e end
            | _ => Ok None
            end in
          if has_range then
            match bound mn with
            | Raise e => Raise e
            | Ok lo => match bound mx with
                       | Raise e => Raise e
                       | Ok hi => Ok {| d_row := row; d_strict := true; d_allowed := al; d_min := lo; d_max := hi |}
                       end
            end
          else Ok {| d_row := row; d_strict := true; d_allowed := al; d_min := None; d_max := None |}
      end.

  (* the four conjuncts of the statement *)
  Definition type_ok (d : decl) (v : pyval) : bool := isinstance (r_type (d_row d)) v.
  Definition tz_ok (d : decl) (v : pyval) : bool := if r_tz (d_row d) then has_tz v else true.
  Definition allowed_ok (d : decl) (v : pyval) : bool :=
    match d_allowed d with [] => true | l => existsb (py_eq v) l end.
  Definition range_ok (d : decl) (v : pyval) : bool :=
    match d_min d with Some lo => py_ge v lo | None => true end &&
    match d_max d with Some hi => py_le v hi | None => true end.

  (* schema(value): All(...) stops at the first failing validator; any failure is Invalid *)
  Definition validate (d : decl) (v : pyval) : bool :=
    if negb (type_ok d v) then false
    else if negb (tz_ok d v) then false
    else if negb (allowed_ok d v) then false
    else range_ok d v.

  (* -------------------------------------------------------------- the state variable's value *)
  Inductive stored := SNone | SVal (v : pyval) | SError.      (* None / T / UPNP_VALUE_ERROR *)
  Definition read_value (s : stored) : pyval :=
    match s with SVal v => v | _ => VNone end.

  (* value.setter *)
  Definition set_value (d : decl) (s : stored) (v : pyval) : stored * res unit :=
    if validate d v then (SVal v, Ok tt) else (s, Raise UpnpValueError).
  (* upnp_value.setter: ValueError from the coercer becomes the sentinel; other errors escape *)
  Definition set_upnp_value (d : decl) (s : stored) (w : pystr) : stored * res unit :=
    match apply_in (r_in (d_row d)) w with
    | Ok v => set_value d s v
    | Raise ValueError => (SError, Ok tt)
    | Raise e => (s, Raise e)
    end.
End Coercers.

Fixpoint find_row (name : pystr) (t : list type_row) : option type_row :=
  match t with
  | [] => None
  | r :: t' => if str_eqb (r_name r) name then Some r else find_row name t'
  end.
