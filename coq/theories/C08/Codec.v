(* C08 — the generated type table has a lossless codec on every row; validation is exact. *)
From Coq Require Import List Bool NArith ZArith Lia.
From AUC Require Import Prelude.PyStr C08.TypesDef C08.Model C08.Spec C08.CodecInt C08.CodecDate
  Gen.Types Gen.DateMatchers.
Import ListNotations.
Local Open Scope N_scope.

Definition s_seconds : pystr := [115;101;99;111;110;100;115].

(* what the round-trip proof needs from a row of const.py's table (checked by computation on the
   table generated from the current source) *)
Definition row_codec_ok (r : type_row) : bool :=
  match r_type r, r_in r, r_out r with
  | TInt, InInt, OutStr => true
  | TFloat, InFloat, OutStr => true
  | TStr, InStr, OutStr => true
  | TBool, InBoolLowerIn lits, OutBool t f =>
      str_eqb t [49] && str_eqb f [48] && existsb (str_eqb [49]) lits && negb (existsb (str_eqb [48]) lits)
  | TDate, InDateTime, OutIso [] => true
  | TDateTime, InDateTime, OutIso [sep; sp] => str_eqb sep [84] && str_eqb sp s_seconds
  | TTime, InDateTime, OutIso [sp] => str_eqb sp s_seconds
  | _, _, _ => false
  end.

Lemma table_codec_ok : forallb row_codec_ok type_table = true.
Proof. vm_compute. reflexivity. Qed.

Lemma str_eqb_eq a b : str_eqb a b = true -> a = b.
Proof. destruct (str_eqb_spec a b); congruence. Qed.

Section RoundTrip.
  Variable float_str : fl -> pystr.
  Variable float_of_str : pystr -> option fl.
  Variable lower_ext : N -> N.
  (* premise about CPython's float repr/parse, visible in the final statement *)
  Hypothesis float_rt : forall f, f <> FNan -> float_of_str (float_str f) = Some f.

  Theorem roundtrip row v :
    In row type_table -> value_in_domain (r_type row) v = true ->
    exists w, apply_out float_str (r_out row) v = Ok w /\
              apply_in float_of_str lower_ext (r_in row) w = Ok v /\
              (forall w', wire_spec v = Some w' -> w = w').
  Proof.
    intros Hin Hdom. pose proof table_codec_ok as H. rewrite forallb_forall in H.
    specialize (H row Hin). unfold row_codec_ok in H.
    destruct (r_type row) eqn:Et, (r_in row) eqn:Ei; try discriminate;
      destruct (r_out row) as [|t f|args] eqn:Eo; try discriminate;
      destruct v; try discriminate Hdom; cbn [value_in_domain] in Hdom.
    - (* int *) exists (str_of_int z). cbn. rewrite int_roundtrip.
      repeat split. intros w' E; now inversion E.
    - (* float *) exists (float_str f). cbn.
      rewrite float_rt by (intros ->; discriminate Hdom).
      repeat split. intros w' E; discriminate E.
    - (* str *) exists s. cbn. repeat split. intros w' E; now inversion E.
    - (* bool *)
      apply andb_true_iff in H as [H Hn0]. apply andb_true_iff in H as [H H1].
      apply andb_true_iff in H as [Ht Hf]. apply str_eqb_eq in Ht, Hf. subst t f.
      apply negb_true_iff in Hn0.
      destruct b; cbn.
      + exists [49]. repeat split; [|intros w' E; now inversion E].
        change (lower_with lower_ext [49]) with [49]. now rewrite H1.
      + exists [48]. repeat split; [|intros w' E; now inversion E].
        change (lower_with lower_ext [48]) with [48]. now rewrite Hn0.
    - (* date *) destruct args; [|discriminate]. exists (iso_date d). cbn [apply_out apply_in isoformat wire_spec].
      rewrite roundtrip_date by exact Hdom. repeat split. intros w' E; now inversion E.
    - (* datetime *)
      destruct args as [|sep [|sp [|? ?]]]; try discriminate.
      apply andb_true_iff in H as [Hs Hp]. apply str_eqb_eq in Hs, Hp. subst sep sp.
      apply andb_true_iff in Hdom as [Hd Ht].
      exists (iso_date d ++ [84] ++ iso_time_spec TsSeconds t). split; [reflexivity|].
      cbn [apply_in]. rewrite roundtrip_datetime by assumption.
      repeat split. intros w' E; now inversion E.
    - (* time *)
      destruct args as [|sp [|? ?]]; try discriminate. apply str_eqb_eq in H. subst sp.
      exists (iso_time_spec TsSeconds t). split; [reflexivity|].
      cbn [apply_in]. rewrite roundtrip_time by assumption.
      repeat split. intros w' E; now inversion E.
  Qed.
End RoundTrip.

(* ------------------------------------------------------------------ conversion failures *)
Lemma try_matchers_errors ms ts e : try_matchers ms ts = Raise e -> e = ValueError.
Proof.
  induction ms as [|m ms IH]; cbn; [congruence|].
  destruct (re_match (m_re m) ts []); [|exact IH].
  destruct (interpret (m_fmt m) l fields0); [|congruence].
  destruct (fields_valid f); congruence.
Qed.

Lemma int_of_str_errors s e : int_of_str s = Raise e -> e = ValueError.
Proof.
  unfold int_of_str. destruct (split_sign (strip s)) as [neg body].
  destruct body as [|c r]; [congruence|]. destruct (negb (is_digit c)); [congruence|].
  destruct (drop_underscores false (c :: r)); [|congruence].
  destruct (parse_uint p); congruence.
Qed.

Theorem coercion_errors float_of_str lower_ext i s e :
  apply_in float_of_str lower_ext i s = Raise e -> e = ValueError.
Proof.
  destruct i; cbn [apply_in].
  - destruct (int_of_str s) eqn:E; [discriminate|]. intros H; inversion H; subst.
    now apply int_of_str_errors in E.
  - destruct (float_of_str s); congruence.
  - discriminate.
  - unfold parse_date_time. apply try_matchers_errors.
  - discriminate.
Qed.

(* ------------------------------------------------------------------ validation and the setters *)
Theorem accepts_iff d v : validate d v = spec_accepts d v.
Proof.
  unfold validate, spec_accepts.
  destruct (type_ok d v), (tz_ok d v), (allowed_ok d v), (range_ok d v); reflexivity.
Qed.

Theorem rejected_not_stored d s v :
  spec_accepts d v = false -> set_value d s v = (s, Raise UpnpValueError).
Proof. intros H. unfold set_value. now rewrite accepts_iff, H. Qed.

Theorem accepted_stored d s v :
  spec_accepts d v = true -> set_value d s v = (SVal v, Ok tt).
Proof. intros H. unfold set_value. now rewrite accepts_iff, H. Qed.

Theorem wire_setter float_of_str lower_ext d s w :
  match apply_in float_of_str lower_ext (r_in (d_row d)) w with
  | Ok v => if spec_accepts d v
            then set_upnp_value float_of_str lower_ext d s w = (SVal v, Ok tt)
            else set_upnp_value float_of_str lower_ext d s w = (s, Raise UpnpValueError)
  | Raise _ =>
      (* a value that cannot be converted reads back as absent; nothing is raised *)
      exists s', set_upnp_value float_of_str lower_ext d s w = (s', Ok tt) /\ read_value s' = VNone
  end.
Proof.
  unfold set_upnp_value. destruct (apply_in float_of_str lower_ext (r_in (d_row d)) w) eqn:E.
  - destruct (spec_accepts d a) eqn:A.
    + now apply accepted_stored.
    + now apply rejected_not_stored.
  - apply coercion_errors in E. subst. exists SError. split; reflexivity.
Qed.
