(* C08 — instantiation used by the correspondence check.
   report: kind 0 = model differs from the implementation (detail 5: the harness' "clause 5 judged this
   case" flag differs from the specification's); kinds 1-4 = round trip / accepts-iff / rejected-not-stored /
   wire-setter (inside in_domain); kind 5 = iso_spellings (c_iso_in, on every from-wire case). *)
From Coq Require Import List Bool NArith ZArith.
From AUC Require Export Prelude.PyStr C08.TypesDef C08.Model C08.Spec Gen.Types Gen.DateMatchers.
Import ListNotations.
Local Open Scope N_scope.

Inductive vop := VSet (v : pyval) | VSetWire (s : pystr).
Inductive input :=
| IOut (ty : pystr) (v : pyval)
| IIn (ty : pystr) (s : pystr) (judged : bool)   (* judged: the harness' count of "clause 5 applies" (cross-checked) *)
| IRound (ty : pystr) (v : pyval)
| IVar (ty : pystr) (strict : bool) (allowed : list pystr) (has_range : bool)
       (mn mx : option pystr) (ops : list vop).

(* answers of float.__repr__ / float() recorded by the harness while it ran the implementation *)
Record oracle := { o_fstr : list (fl * pystr); o_fparse : list (pystr * option fl) }.

Inductive observation :=
| OOut (r : res pystr)
| OIn (r : res pyval)
| ORound (w : res pystr) (back : option (res pyval))
| OVar (created : res unit) (steps : list (res unit * pyval * bool)).   (* result, value, sentinel? *)

(* ---- decidable equality on observations ---- *)
Definition fl_eqb (a b : fl) : bool :=
  match a, b with
  | FFin m1 e1, FFin m2 e2 => (m1 =? m2)%Z && (e1 =? e2)%Z
  | FInf x, FInf y => Bool.eqb x y
  | FNan, FNan => true
  | _, _ => false
  end.
Definition otz_eqb (a b : option Z) : bool :=
  match a, b with Some x, Some y => (x =? y)%Z | None, None => true | _, _ => false end.
Definition date_eqb (a b : pdate) := (dy a =? dy b) && (dm a =? dm b) && (dd a =? dd b).
Definition time_eqb (a b : ptime) :=
  (th a =? th b) && (tmi a =? tmi b) && (ts a =? ts b) && otz_eqb (ttz a) (ttz b).
Definition val_eqb (a b : pyval) : bool :=
  match a, b with
  | VInt x, VInt y => (x =? y)%Z
  | VBool x, VBool y => Bool.eqb x y
  | VFloat x, VFloat y => fl_eqb x y
  | VStr x, VStr y => str_eqb x y
  | VDate x, VDate y => date_eqb x y
  | VTime x, VTime y => time_eqb x y
  | VDateTime d1 t1, VDateTime d2 t2 => date_eqb d1 d2 && time_eqb t1 t2
  | VNone, VNone => true
  | _, _ => false
  end.
Definition exn_eqb (a b : exn) : bool :=
  match a, b with
  | ValueError, ValueError | TypeError, TypeError | AttributeError, AttributeError
  | UpnpValueError, UpnpValueError | IndexError, IndexError | OtherError, OtherError => true
  | _, _ => false
  end.
Definition res_eqb {A} (eqb : A -> A -> bool) (a b : res A) : bool :=
  match a, b with
  | Ok x, Ok y => eqb x y
  | Raise x, Raise y => exn_eqb x y
  | _, _ => false
  end.
Definition unit_eqb (_ _ : unit) := true.
Fixpoint list_eqb {A} (eqb : A -> A -> bool) (a b : list A) : bool :=
  match a, b with
  | [], [] => true
  | x :: a', y :: b' => eqb x y && list_eqb eqb a' b'
  | _, _ => false
  end.
Definition step_eqb (a b : res unit * pyval * bool) : bool :=
  let '(r1, v1, s1) := a in let '(r2, v2, s2) := b in
  res_eqb unit_eqb r1 r2 && val_eqb v1 v2 && Bool.eqb s1 s2.
Definition obs_eqb (a b : observation) : bool :=
  match a, b with
  | OOut x, OOut y => res_eqb str_eqb x y
  | OIn x, OIn y => res_eqb val_eqb x y
  | ORound w1 b1, ORound w2 b2 =>
      res_eqb str_eqb w1 w2 &&
      match b1, b2 with
      | Some x, Some y => res_eqb val_eqb x y
      | None, None => true
      | _, _ => false
      end
  | OVar c1 s1, OVar c2 s2 => res_eqb unit_eqb c1 c2 && list_eqb step_eqb s1 s2
  | _, _ => false
  end.

(* ---- the model, run with the recorded oracle ---- *)
Section WithOracle.
  Variable o : oracle.
  Definition fstr (f : fl) : pystr :=
    match find (fun p => fl_eqb (fst p) f) (o_fstr o) with Some p => snd p | None => [] end.
  Definition fparse (s : pystr) : option fl :=
    match find (fun p => str_eqb (fst p) s) (o_fparse o) with Some p => snd p | None => None end.
  Definition lext (c : N) : N := c.

  Definition m_out (row : type_row) v := coerce_upnp fstr row v.
  Definition m_in (row : type_row) s := apply_in fparse lext (r_in row) s.

  Fixpoint run_ops (d : decl) (st : stored) (ops : list vop) : list (res unit * pyval * bool) :=
    match ops with
    | [] => []
    | op :: r =>
        let '(st', rr) := match op with
                          | VSet v => set_value d st v
                          | VSetWire w => set_upnp_value fparse lext d st w
                          end in
        (rr, read_value st', match st' with SError => true | _ => false end) :: run_ops d st' r
    end.

  Definition model_run (i : input) : observation :=
    match i with
    | IOut ty v => match find_row ty type_table with
                   | Some row => OOut (m_out row v)
                   | None => OOut (Raise OtherError)
                   end
    | IIn ty s _ => match find_row ty type_table with
                  | Some row => OIn (m_in row s)
                  | None => OIn (Raise OtherError)
                  end
    | IRound ty v =>
        match find_row ty type_table with
        | Some row => match m_out row v with
                      | Ok w => ORound (Ok w) (Some (m_in row w))
                      | Raise e => ORound (Raise e) None
                      end
        | None => ORound (Raise OtherError) None
        end
    | IVar ty strict allowed hr mn mx ops =>
        match find_row ty type_table with
        | Some row =>
            match mk_decl fparse lext row strict allowed hr mn mx with
            | Ok d => OVar (Ok tt) (run_ops d SNone ops)
            | Raise e => OVar (Raise e) []
            end
        | None => OVar (Raise OtherError) []
        end
    end.

  (* ---- spec clauses evaluated on an observation (the implementation's, in the check) ---- *)
  Definition in_domain (i : input) : bool :=
    match i with
    | IRound ty v => match find_row ty type_table with
                     | Some row => value_in_domain (r_type row) v
                     | None => false
                     end
    | IVar ty strict _ _ _ _ _ => match find_row ty type_table with Some _ => true | None => false end
    | _ => false
    end.

  (* clause 1: lossless round trip in the normative wire format *)
  Definition c_roundtrip (i : input) (ob : observation) : bool :=
    match i, ob with
    | IRound ty v, ORound (Ok w) (Some (Ok v')) =>
        val_eqb v v' && match wire_spec v with Some w' => str_eqb w w' | None => true end
    | IRound _ _, _ => false
    | _, _ => true
    end.

  (* clauses 2-4 walk the steps of a variable history *)
  Fixpoint c_steps (d : decl) (prev : pyval * bool) (ops : list vop)
           (steps : list (res unit * pyval * bool)) : bool * bool * bool :=
    match ops, steps with
    | op :: ops', (rr, v', s') :: steps' =>
        let ok := match rr with Ok _ => true | Raise _ => false end in
        let '(a, b, c) := c_steps d (v', s') ops' steps' in
        match op with
        | VSet v =>
            ( (* 2: accepted iff *) Bool.eqb ok (if d_strict d then spec_accepts d v else type_ok d v && tz_ok d v) && a,
              (* 3: a rejected value is not stored, an accepted one is *)
              (if ok then val_eqb v' v && negb s' else val_eqb v' (fst prev) && Bool.eqb s' (snd prev)) && b,
              c)
        | VSetWire w =>
            ( a,
              (if ok then true else val_eqb v' (fst prev) && Bool.eqb s' (snd prev)) && b,
              (* 4: convertible+valid stored; unconvertible reads back absent; invalid keeps old *)
              match apply_in fparse lext (r_in (d_row d)) w with
              | Ok v => if validate d v then ok && val_eqb v' v && negb s'
                        else negb ok && val_eqb v' (fst prev)
              | Raise ValueError => ok && val_eqb v' VNone && s'
              | Raise _ => negb ok && val_eqb v' (fst prev)
              end && c)
        end
    | [], [] => (true, true, true)
    | _, _ => (false, false, false)
    end.

  Definition c_var (i : input) (ob : observation) : bool * bool * bool :=
    match i, ob with
    | IVar ty strict allowed hr mn mx ops, OVar (Ok _) steps =>
        match find_row ty type_table with
        | Some row => match mk_decl fparse lext row strict allowed hr mn mx with
                      | Ok d => c_steps d (VNone, false) ops steps
                      | Raise _ => (true, true, true)
                      end
        | None => (true, true, true)
        end
    | _, _ => (true, true, true)
    end.
End WithOracle.

(* clause 5: a canonical ISO 8601 spelling (Spec.spec_iso_in, a grammar and denotation that do not
   look at the generated matcher table nor at the model's parse_date_time) must be read as exactly the
   value it denotes: not an exception, not another instant, offset or type.  Its own domain is
   "spec_iso_in says Some"; it is evaluated on every from-wire case, whatever in_domain says. *)
Definition c_iso_in (i : input) (ob : observation) : bool :=
  match i with
  | IIn ty s _ =>
      match spec_iso_in ty s with
      | Some v => match ob with OIn (Ok v') => val_eqb v v' | _ => false end
      | None => true
      end
  | _ => true
  end.
(* the harness reports how many cases clause 5 judged; its count must be the specification's *)
Definition iso_judged_ok (i : input) : bool :=
  match i with
  | IIn ty s judged => Bool.eqb judged (match spec_iso_in ty s with Some _ => true | None => false end)
  | _ => true
  end.

Definition flag (b : bool) (base k : N) : list (N * N * N) := if b then [] else [(base, k, 0)].
Definition flagd (b : bool) (base k d : N) : list (N * N * N) := if b then [] else [(base, k, d)].

Fixpoint report (base : N) (cases : list (oracle * input * observation)) : list (N * N * N) :=
  match cases with
  | [] => []
  | (o, i, ob) :: r =>
      flag (obs_eqb (model_run o i) ob) base 0 ++
      flagd (iso_judged_ok i) base 0 5 ++
      flag (c_iso_in i ob) base 5 ++
      (if in_domain i then
         flag (c_roundtrip i ob) base 1 ++
         (let '(a, b, c) := c_var o i ob in flag a base 2 ++ flag b base 3 ++ flag c base 4)
       else []) ++
      report (N.succ base) r
  end.

Definition replay (c : oracle * input * observation) :=
  let '(o, i, ob) := c in
  (model_run o i, in_domain i, c_roundtrip i ob, c_var o i ob,
   match i with IIn ty s _ => spec_iso_in ty s | _ => None end, c_iso_in i ob).
