(* C08 — specification: what a lossless, exactly-validated data-type codec is.  The clauses are
   executable booleans over (input, observation) so the same definitions judge the model (in the
   theorems) and the implementation's observations (in the correspondence check). *)
From Coq Require Import List Bool NArith ZArith.
From AUC Require Import Prelude.PyStr C08.TypesDef C08.Model Gen.Types.
Import ListNotations.
Local Open Scope N_scope.

(* ------------------------------------------------------------------ domains of the round trip *)
Definition date_in_domain (d : pdate) : bool := date_valid (dy d) (dm d) (dd d).
Definition time_in_domain (t : ptime) : bool :=
  (th t <=? 23) && (tmi t <=? 59) && (ts t <=? 59) && tz_valid (ttz t).

(* "every value of the corresponding Python type (whole seconds for times)" *)
Definition value_in_domain (t : pytype) (v : pyval) : bool :=
  match t, v with
  | TInt, VInt _ => true
  | TBool, VBool _ => true
  | TStr, VStr _ => true
  | TFloat, VFloat FNan => false              (* nan is not equal to itself *)
  | TFloat, VFloat _ => true
  | TDate, VDate d => date_in_domain d
  | TTime, VTime t => time_in_domain t
  | TDateTime, VDateTime d t => date_in_domain d && time_in_domain t
  | _, _ => false
  end.

(* ------------------------------------------------------------------ normative wire formats *)
(* booleans 1/0, integers in decimal, dates/times in ISO 8601 (extended format, whole seconds,
   offset +hh:mm); strings verbatim; floats are whatever text parses back (premise, see theorem) *)
Definition wire_spec (v : pyval) : option pystr :=
  match v with
  | VBool true => Some [49]
  | VBool false => Some [48]
  | VInt z => Some (str_of_int z)
  | VStr s => Some s
  | VDate d => Some (iso_date d)
  | VTime t => Some (iso_time_spec TsSeconds t)
  | VDateTime d t => Some (iso_date d ++ [84] ++ iso_time_spec TsSeconds t)
  | _ => None
  end.

(* ------------------------------------------------------------------ acceptance (strict mode) *)
Section Accept.
  Variable float_str : fl -> pystr.
  Variable float_of_str : pystr -> option fl.
  Variable lower_ext : N -> N.

  (* "accepted iff it has the declared Python type [isinstance reading: bool is an int, datetime a
     date], lies within the declared minimum/maximum, belongs to the declared allowed list, and
     carries a timezone where the type demands one" *)
  Definition spec_accepts (d : decl) (v : pyval) : bool :=
    type_ok d v && tz_ok d v && allowed_ok d v && range_ok d v.
End Accept.
