(* C08 — specification: what a lossless, exactly-validated data-type codec is.  The clauses are
   executable booleans over (input, observation) so the same definitions judge the model (in the
   theorems) and the implementation's observations (in the correspondence check). *)
From Coq Require Import List Bool NArith ZArith.
From AUC Require Import Prelude.PyStr C08.TypesDef C08.Model Gen.Types.
Import ListNotations.
Local Open Scope N_scope.

(* ------------------------------------------------------------------ domains of the round trip *)
Definition date_in_domain (d : pdate) : bool := date_valid (dy d) (dm d) (dd d).
Definition time_in_domain (t : ptime) : bool :=
  (th t <=? 23) && (tmi t <=? 59) && (ts t <=? 59) && tz_valid (ttz t).

(* "every value of the corresponding Python type (whole seconds for times)" *)
Definition value_in_domain (t : pytype) (v : pyval) : bool :=
  match t, v with
  | TInt, VInt _ => true
  | TBool, VBool _ => true
  | TStr, VStr _ => true
  | TFloat, VFloat FNan => false              (* nan is not equal to itself *)
  | TFloat, VFloat _ => true
  | TDate, VDate d => date_in_domain d
  | TTime, VTime t => time_in_domain t
  | TDateTime, VDateTime d t => date_in_domain d && time_in_domain t
  | _, _ => false
  end.

(* ------------------------------------------------------------------ normative wire formats *)
(* booleans 1/0, integers in decimal, dates/times in ISO 8601 (extended format, whole seconds,
   offset +hh:mm); strings verbatim; floats are whatever text parses back (premise, see theorem) *)
Definition wire_spec (v : pyval) : option pystr :=
  match v with
  | VBool true => Some [49]
  | VBool false => Some [48]
  | VInt z => Some (str_of_int z)
  | VStr s => Some s
  | VDate d => Some (iso_date d)
  | VTime t => Some (iso_time_spec TsSeconds t)
  | VDateTime d t => Some (iso_date d ++ [84] ++ iso_time_spec TsSeconds t)
  | _ => None
  end.

(* ------------------------------------------------------------------ acceptance (strict mode) *)
Section Accept.
  Variable float_str : fl -> pystr.
  Variable float_of_str : pystr -> option fl.
  Variable lower_ext : N -> N.

  (* "accepted iff it has the declared Python type [isinstance reading: bool is an int, datetime a
     date], lies within the declared minimum/maximum, belongs to the declared allowed list, and
     carries a timezone where the type demands one" *)
  Definition spec_accepts (d : decl) (v : pyval) : bool :=
    type_ok d v && tz_ok d v && allowed_ok d v && range_ok d v.
End Accept.

(* ------------------------------------------------------------------ ISO 8601 input spellings *)
(* An independent reading of the texts a date/time data type must accept on input ("all accepted
   spellings of ISO timestamps on input", "all dates 0001..9999").  Nothing here refers to the
   generated matcher table (Gen/DateMatchers.v), to the model's tokens / regular-expression /
   strptime interpreter, or to the model's calendar ([date_valid], [days_in_month]): only the value
   type [pyval] is shared.  [spec_iso_in ty text = Some v] reads "for the data type named [ty] the
   text [text] is a canonical ISO 8601 spelling and denotes [v]"; [None] = this clause says
   nothing about the text (not: the text must be refused).

   Grammar (ASCII digits only; every field has a fixed width):
     DATE   = YYYY "-" MM "-" DD      year 0001..9999, month 01..12, day 01..last day of that month
                                      (February has 29 days exactly in the Gregorian leap years)
     CLOCK  = hh ":" mm ":" ss        hh 00..23, mm 00..59, ss 00..59
     OFFSET = ("+" | "-") hh [":"] mm hh 00..23, mm 00..59, but not "-00:00" / "-0000" (ISO 8601
                                      forbids a negative zero offset; left outside)
     date                  ::= DATE
     time, time.tz         ::= CLOCK | CLOCK OFFSET
     dateTime, dateTime.tz ::= DATE "T" CLOCK | DATE " " CLOCK
                             | DATE "T" CLOCK ("Z" | "z") | DATE "T" CLOCK OFFSET
   Denotation: the fields as written (no conversion to another zone, no normalisation); no zone
   designator = a naive value; "Z"/"z" = UTC offset 0; OFFSET = that many minutes east (+) or west
   (-) of UTC.  The data type selects only the shape: the zone is never dropped for the naive types
   nor invented for the .tz types (that a .tz variable then refuses a naive value is the job of the
   validation clauses 2-4).  Deliberately outside (the library accepts some of them today; they are
   judged by the model comparison only): a blank before OFFSET, "Z" on a time of day, a zone after the
   blank-separated form, a clock-only text for `date`, fractions of a second, non-ASCII digits. *)
Definition iso_digit (c : N) : option N :=
  if (48 <=? c) && (c <=? 57) then Some (c - 48) else None.
Definition iso_n2 (a b : N) : option N :=
  match iso_digit a, iso_digit b with
  | Some x, Some y => Some (10 * x + y)
  | _, _ => None
  end.
Definition iso_n4 (a b c d : N) : option N :=
  match iso_n2 a b, iso_n2 c d with
  | Some x, Some y => Some (100 * x + y)
  | _, _ => None
  end.

Definition iso_leap (y : N) : bool :=
  if y mod 400 =? 0 then true else if y mod 100 =? 0 then false else y mod 4 =? 0.
Definition iso_month_days (y m : N) : N :=
  nth (N.to_nat m) [0; 31; if iso_leap y then 29 else 28; 31; 30; 31; 30; 31; 31; 30; 31; 30; 31] 0.
Definition iso_date_ok (y m d : N) : bool :=
  (1 <=? y) && (y <=? 9999) && (1 <=? m) && (m <=? 12) && (1 <=? d) && (d <=? iso_month_days y m).

(* DATE at the head of a text; what follows it is returned *)
Definition iso_read_date (s : pystr) : option (pdate * pystr) :=
  match s with
  | y3 :: y2 :: y1 :: y0 :: h1 :: m1 :: m0 :: h2 :: d1 :: d0 :: rest =>
      match iso_n4 y3 y2 y1 y0, iso_n2 m1 m0, iso_n2 d1 d0 with
      | Some y, Some m, Some d =>
          if (h1 =? 45) && (h2 =? 45) && iso_date_ok y m d
          then Some ({| dy := y; dm := m; dd := d |}, rest) else None
      | _, _, _ => None
      end
  | _ => None
  end.

(* CLOCK at the head of a text; what follows it is returned *)
Definition iso_read_clock (s : pystr) : option (N * N * N * pystr) :=
  match s with
  | h1 :: h0 :: c1 :: m1 :: m0 :: c2 :: s1 :: s0 :: rest =>
      match iso_n2 h1 h0, iso_n2 m1 m0, iso_n2 s1 s0 with
      | Some h, Some m, Some sec =>
          if (c1 =? 58) && (c2 =? 58) && (h <=? 23) && (m <=? 59) && (sec <=? 59)
          then Some (h, m, sec, rest) else None
      | _, _, _ => None
      end
  | _ => None
  end.

(* OFFSET, the whole text: minutes east of UTC *)
Definition iso_read_offset (s : pystr) : option Z :=
  match s with
  | sg :: rest =>
      match match rest with
            | [h1; h0; c; m1; m0] => if c =? 58 then Some (iso_n2 h1 h0, iso_n2 m1 m0) else None
            | [h1; h0; m1; m0] => Some (iso_n2 h1 h0, iso_n2 m1 m0)
            | _ => None
            end with
      | Some (Some h, Some m) =>
          if (h <=? 23) && (m <=? 59) then
            if sg =? 43 then Some (Z.of_N (60 * h + m))
            else if (sg =? 45) && negb (60 * h + m =? 0) then Some (- Z.of_N (60 * h + m))%Z
            else None
          else None
      | _ => None
      end
  | [] => None
  end.

(* the data types of the statement that take ISO 8601 texts, by their UPnP names (literals of the
   specification, not read from the generated table) *)
Inductive iso_kind := KDate | KTime | KDateTime.
Definition iso_kind_of (ty : pystr) : option iso_kind :=
  if str_eqb ty [100;97;116;101] then Some KDate                                       (* date *)
  else if str_eqb ty [116;105;109;101] then Some KTime                                 (* time *)
  else if str_eqb ty [116;105;109;101;46;116;122] then Some KTime                      (* time.tz *)
  else if str_eqb ty [100;97;116;101;84;105;109;101] then Some KDateTime               (* dateTime *)
  else if str_eqb ty [100;97;116;101;84;105;109;101;46;116;122] then Some KDateTime    (* dateTime.tz *)
  else None.

Definition iso_clock_val (h m sec : N) (tz : option Z) : ptime :=
  {| th := h; tmi := m; ts := sec; ttz := tz |}.

Definition spec_iso_in (ty text : pystr) : option pyval :=
  match iso_kind_of ty with
  | Some KDate =>
      match iso_read_date text with
      | Some (d, []) => Some (VDate d)
      | _ => None
      end
  | Some KTime =>
      match iso_read_clock text with
      | Some (h, m, sec, []) => Some (VTime (iso_clock_val h m sec None))
      | Some (h, m, sec, z) =>
          match iso_read_offset z with
          | Some off => Some (VTime (iso_clock_val h m sec (Some off)))
          | None => None
          end
      | None => None
      end
  | Some KDateTime =>
      match iso_read_date text with
      | Some (d, sep :: r) =>
          match iso_read_clock r with
          | Some (h, m, sec, z) =>
              if sep =? 84 then                                             (* "T" *)
                match z with
                | [] => Some (VDateTime d (iso_clock_val h m sec None))
                | [c] => if (c =? 90) || (c =? 122)                          (* "Z" / "z" *)
                         then Some (VDateTime d (iso_clock_val h m sec (Some 0%Z))) else None
                | _ => match iso_read_offset z with
                       | Some off => Some (VDateTime d (iso_clock_val h m sec (Some off)))
                       | None => None
                       end
                end
              else if sep =? 32 then                                        (* one blank *)
                match z with
                | [] => Some (VDateTime d (iso_clock_val h m sec None))
                | _ => None
                end
              else None
          | None => None
          end
      | _ => None
      end
  | None => None
  end.
