(* C08 — every canonical ISO 8601 input spelling (Spec.spec_iso_in) is read by the model, over the
   matcher table generated from the current utils.py, as the value the specification says. *)
From Coq Require Import List Bool NArith ZArith Lia ZifyBool ZifyN.
From AUC Require Import Prelude.PyStr C08.TypesDef C08.Model C08.Spec C08.CodecDate C08.Codec
  C08.Run Gen.Types Gen.DateMatchers.
Import ListNotations.
Local Open Scope N_scope.

(* ------------------------------------------------------------------ inversion of the grammar *)
Lemma iso_digit_inv c k : iso_digit c = Some k -> c = 48 + k /\ k < 10.
Proof.
  unfold iso_digit. destruct ((48 <=? c) && (c <=? 57)) eqn:E; [|discriminate].
  intros [= <-]. lia.
Qed.

Lemma iso_n2_inv a b n :
  iso_n2 a b = Some n -> exists x y, a = 48 + x /\ b = 48 + y /\ x < 10 /\ y < 10 /\ n = 10 * x + y.
Proof.
  unfold iso_n2. destruct (iso_digit a) as [x|] eqn:Ea; [|discriminate].
  destruct (iso_digit b) as [y|] eqn:Eb; [|discriminate]. intros [= <-].
  apply iso_digit_inv in Ea as [-> Hx], Eb as [-> Hy]. now exists x, y.
Qed.

Lemma iso_n4_inv a b c d n :
  iso_n4 a b c d = Some n ->
  exists x3 x2 x1 x0, a = 48 + x3 /\ b = 48 + x2 /\ c = 48 + x1 /\ d = 48 + x0 /\
    x3 < 10 /\ x2 < 10 /\ x1 < 10 /\ x0 < 10 /\ n = 100 * (10 * x3 + x2) + (10 * x1 + x0).
Proof.
  unfold iso_n4. destruct (iso_n2 a b) as [p|] eqn:E1; [|discriminate].
  destruct (iso_n2 c d) as [q|] eqn:E2; [|discriminate]. intros [= <-].
  apply iso_n2_inv in E1 as (x3 & x2 & -> & -> & ? & ? & ->).
  apply iso_n2_inv in E2 as (x1 & x0 & -> & -> & ? & ? & ->).
  exists x3, x2, x1, x0. repeat split; assumption.
Qed.

(* the specification's calendar agrees with the model's (both are independent texts) *)
Lemma iso_leap_is_leap y : iso_leap y = is_leap y.
Proof.
  unfold iso_leap, is_leap.
  destruct (y mod 4 =? 0), (y mod 100 =? 0), (y mod 400 =? 0); reflexivity.
Qed.

Lemma iso_date_ok_valid y m d : iso_date_ok y m d = true -> date_valid y m d = true.
Proof.
  unfold iso_date_ok, date_valid. intros H.
  assert (Hm : 1 <= m <= 12) by lia.
  assert (E : iso_month_days y m = days_in_month y m).
  { unfold iso_month_days. rewrite iso_leap_is_leap.
    assert (C : m = 1 \/ m = 2 \/ m = 3 \/ m = 4 \/ m = 5 \/ m = 6 \/ m = 7 \/ m = 8 \/ m = 9 \/
                m = 10 \/ m = 11 \/ m = 12) by lia.
    repeat (destruct C as [-> | C]; [reflexivity|]). subst m. reflexivity. }
  rewrite <- E. exact H.
Qed.

(* the characters of a text in the grammar, by their digits *)
Definition txt_date (y3 y2 y1 y0 m1 m0 d1 d0 : N) : pystr :=
  [48 + y3; 48 + y2; 48 + y1; 48 + y0; 45; 48 + m1; 48 + m0; 45; 48 + d1; 48 + d0].
Definition txt_clock (h1 h0 m1 m0 s1 s0 : N) : pystr :=
  [48 + h1; 48 + h0; 58; 48 + m1; 48 + m0; 58; 48 + s1; 48 + s0].
Definition num4 (x3 x2 x1 x0 : N) : N := 100 * (10 * x3 + x2) + (10 * x1 + x0).
Definition num2 (x1 x0 : N) : N := 10 * x1 + x0.

Lemma iso_read_date_inv s d r :
  iso_read_date s = Some (d, r) ->
  exists y3 y2 y1 y0 m1 m0 d1 d0,
    (y3 < 10 /\ y2 < 10 /\ y1 < 10 /\ y0 < 10) /\ (m1 < 10 /\ m0 < 10 /\ d1 < 10 /\ d0 < 10) /\
    s = txt_date y3 y2 y1 y0 m1 m0 d1 d0 ++ r /\
    d = {| dy := num4 y3 y2 y1 y0; dm := num2 m1 m0; dd := num2 d1 d0 |} /\
    date_valid (num4 y3 y2 y1 y0) (num2 m1 m0) (num2 d1 d0) = true.
Proof.
  unfold iso_read_date.
  do 10 (destruct s as [|? s]; [discriminate|]).
  destruct (iso_n4 n n0 n1 n2) as [y|] eqn:Ey; [|discriminate].
  destruct (iso_n2 n4 n5) as [m|] eqn:Em; [|discriminate].
  destruct (iso_n2 n7 n8) as [dd|] eqn:Ed; [|discriminate].
  destruct ((n3 =? 45) && (n6 =? 45) && iso_date_ok y m dd) eqn:E; [|discriminate].
  intros [= <- <-].
  apply iso_n4_inv in Ey as (y3 & y2 & y1 & y0 & -> & -> & -> & -> & ? & ? & ? & ? & ->).
  apply iso_n2_inv in Em as (m1 & m0 & -> & -> & ? & ? & ->).
  apply iso_n2_inv in Ed as (d1 & d0 & -> & -> & ? & ? & ->).
  apply andb_true_iff in E as [E Hok]. apply andb_true_iff in E as [E1 E2].
  apply N.eqb_eq in E1, E2. subst.
  exists y3, y2, y1, y0, m1, m0, d1, d0. repeat split; try assumption.
  now apply iso_date_ok_valid.
Qed.

Lemma iso_read_clock_inv s h m sec r :
  iso_read_clock s = Some (h, m, sec, r) ->
  exists h1 h0 m1 m0 s1 s0,
    (h1 < 10 /\ h0 < 10 /\ m1 < 10) /\ (m0 < 10 /\ s1 < 10 /\ s0 < 10) /\
    s = txt_clock h1 h0 m1 m0 s1 s0 ++ r /\
    h = num2 h1 h0 /\ m = num2 m1 m0 /\ sec = num2 s1 s0 /\
    num2 h1 h0 <= 23 /\ num2 m1 m0 <= 59 /\ num2 s1 s0 <= 59.
Proof.
  unfold iso_read_clock.
  do 8 (destruct s as [|? s]; [discriminate|]).
  destruct (iso_n2 n n0) as [hh|] eqn:Eh; [|discriminate].
  destruct (iso_n2 n2 n3) as [mm|] eqn:Em; [|discriminate].
  destruct (iso_n2 n5 n6) as [ss|] eqn:Es; [|discriminate].
  destruct ((n1 =? 58) && (n4 =? 58) && (hh <=? 23) && (mm <=? 59) && (ss <=? 59)) eqn:E; [|discriminate].
  intros [= <- <- <- <-].
  apply iso_n2_inv in Eh as (h1 & h0 & -> & -> & ? & ? & ->).
  apply iso_n2_inv in Em as (m1 & m0 & -> & -> & ? & ? & ->).
  apply iso_n2_inv in Es as (s1 & s0 & -> & -> & ? & ? & ->).
  assert (n1 = 58 /\ n4 = 58) as [-> ->] by lia.
  exists h1, h0, m1, m0, s1, s0. unfold num2. repeat split; try assumption; lia.
Qed.

(* OFFSET: sign character, digits, with or without the colon *)
Lemma iso_read_offset_inv s off :
  iso_read_offset s = Some off ->
  exists sg h1 h0 m1 m0,
    (h1 < 10 /\ h0 < 10 /\ m1 < 10 /\ m0 < 10) /\
    (s = [sg; 48 + h1; 48 + h0; 58; 48 + m1; 48 + m0] \/ s = [sg; 48 + h1; 48 + h0; 48 + m1; 48 + m0]) /\
    num2 h1 h0 <= 23 /\ num2 m1 m0 <= 59 /\
    ((sg = 43 /\ off = Z.of_N (60 * num2 h1 h0 + num2 m1 m0)) \/
     (sg = 45 /\ off = (- Z.of_N (60 * num2 h1 h0 + num2 m1 m0))%Z)).
Proof.
  unfold iso_read_offset. destruct s as [|sg rest]; [discriminate|].
  assert (G : forall a b c d,
             match (Some (iso_n2 a b, iso_n2 c d)) with
             | Some (Some h, Some m) =>
                 if (h <=? 23) && (m <=? 59) then
                   if sg =? 43 then Some (Z.of_N (60 * h + m))
                   else if (sg =? 45) && negb (60 * h + m =? 0) then Some (- Z.of_N (60 * h + m))%Z
                   else None
                 else None
             | _ => None
             end = Some off ->
             exists h1 h0 m1 m0,
               (h1 < 10 /\ h0 < 10 /\ m1 < 10 /\ m0 < 10) /\
               (a = 48 + h1 /\ b = 48 + h0 /\ c = 48 + m1 /\ d = 48 + m0) /\
               num2 h1 h0 <= 23 /\ num2 m1 m0 <= 59 /\
               ((sg = 43 /\ off = Z.of_N (60 * num2 h1 h0 + num2 m1 m0)) \/
                (sg = 45 /\ off = (- Z.of_N (60 * num2 h1 h0 + num2 m1 m0))%Z))).
  { intros a b c d.
    destruct (iso_n2 a b) as [h|] eqn:Eh; [|discriminate].
    destruct (iso_n2 c d) as [m|] eqn:Em; [|discriminate].
    apply iso_n2_inv in Eh as (h1 & h0 & -> & -> & ? & ? & ->).
    apply iso_n2_inv in Em as (m1 & m0 & -> & -> & ? & ? & ->).
    fold (num2 h1 h0) (num2 m1 m0).
    destruct ((num2 h1 h0 <=? 23) && (num2 m1 m0 <=? 59)) eqn:Eb; [|discriminate].
    intros Hres. exists h1, h0, m1, m0. repeat split; try assumption; try lia.
    destruct (sg =? 43) eqn:E43.
    - left. inversion Hres. split; [lia|reflexivity].
    - destruct ((sg =? 45) && negb (60 * num2 h1 h0 + num2 m1 m0 =? 0)) eqn:E45; [|discriminate].
      right. inversion Hres. split; [lia|reflexivity]. }
  destruct rest as [|a [|b [|c [|d [|e [|f rest]]]]]]; try discriminate.
  - (* four digits *)
    intros H. apply G in H as (h1 & h0 & m1 & m0 & Hb & (-> & -> & -> & ->) & H23 & H59 & Hs).
    exists sg, h1, h0, m1, m0. repeat split; try apply Hb; try assumption. now right.
  - (* colon form *)
    destruct (c =? 58) eqn:Ec; [|discriminate]. apply N.eqb_eq in Ec. subst c.
    intros H. apply G in H as (h1 & h0 & m1 & m0 & Hb & (-> & -> & -> & ->) & H23 & H59 & Hs).
    exists sg, h1, h0, m1, m0. repeat split; try apply Hb; try assumption. now left.
Qed.

(* ------------------------------------------------------------------ the model on these texts *)
Lemma dv2 a b : digits_val [a; b] = num2 a b.
Proof. unfold digits_val, num2. cbn [fold_left]. lia. Qed.
Lemma dv4 a b c d : digits_val [a; b; c; d] = num4 a b c d.
Proof. unfold digits_val, num4. cbn [fold_left]. lia. Qed.

(* the first matcher of the generated table that matches is found by trying every index in order:
   [hit k] fails unless rows 0..k-1 reject the tokens and row k accepts them *)
Ltac hit_first :=
  first [ hit 0%nat | hit 1%nat | hit 2%nat | hit 3%nat | hit 4%nat | hit 5%nat | hit 6%nat | hit 7%nat
        | hit 8%nat | hit 9%nat | hit 10%nat | hit 11%nat | hit 12%nat | hit 13%nat | hit 14%nat
        | hit 15%nat ].

Ltac tokens :=
  unfold parse_date_time, txt_date, txt_clock; cbn [app]; unfold tokenize; cbn [map];
  rewrite !tok_digit by assumption;
  rewrite ?(tok_lit 58), ?(tok_lit 45), ?(tok_lit 43), ?(tok_lit 84), ?(tok_lit 32), ?(tok_lit 90),
    ?(tok_lit 122) by reflexivity.

Ltac fields :=
  unfold fields_valid;
  cbn [apply_post m_post f_y f_mo f_d f_h f_mi f_s f_tz fields0 ftz_valid ftz_offset];
  rewrite ?dv4, ?dv2;
  try change (date_valid 1900 1 1) with true; cbn [andb].

Section Shapes.
  Variables y3 y2 y1 y0 mo1 mo0 d1 d0 : N.
  Variables h1 h0 m1 m0 s1 s0 : N.
  Variables zh1 zh0 zm1 zm0 : N.
  Hypothesis Hy3 : y3 < 10. Hypothesis Hy2 : y2 < 10. Hypothesis Hy1 : y1 < 10. Hypothesis Hy0 : y0 < 10.
  Hypothesis Hmo1 : mo1 < 10. Hypothesis Hmo0 : mo0 < 10. Hypothesis Hd1 : d1 < 10. Hypothesis Hd0 : d0 < 10.
  Hypothesis Hh1 : h1 < 10. Hypothesis Hh0 : h0 < 10. Hypothesis Hm1 : m1 < 10. Hypothesis Hm0 : m0 < 10.
  Hypothesis Hs1 : s1 < 10. Hypothesis Hs0 : s0 < 10.
  Hypothesis Hzh1 : zh1 < 10. Hypothesis Hzh0 : zh0 < 10. Hypothesis Hzm1 : zm1 < 10. Hypothesis Hzm0 : zm0 < 10.

  Let D := {| dy := num4 y3 y2 y1 y0; dm := num2 mo1 mo0; dd := num2 d1 d0 |}.
  Let T (tz : option Z) := {| th := num2 h1 h0; tmi := num2 m1 m0; ts := num2 s1 s0; ttz := tz |}.
  Let DATE := txt_date y3 y2 y1 y0 mo1 mo0 d1 d0.
  Let CLOCK := txt_clock h1 h0 m1 m0 s1 s0.
  Let OFF := Z.of_N (60 * num2 zh1 zh0 + num2 zm1 zm0).

  Hypothesis Hdate : date_valid (num4 y3 y2 y1 y0) (num2 mo1 mo0) (num2 d1 d0) = true.
  Hypothesis Hh : num2 h1 h0 <= 23.
  Hypothesis Hm : num2 m1 m0 <= 59.
  Hypothesis Hs : num2 s1 s0 <= 59.
  Hypothesis Hzh : num2 zh1 zh0 <= 23.
  Hypothesis Hzm : num2 zm1 zm0 <= 59.

  Lemma shape_date : parse_date_time DATE = Ok (VDate D).
  Proof.
    clear - Hy3 Hy2 Hy1 Hy0 Hmo1 Hmo0 Hd1 Hd0 Hdate.
    subst DATE D. tokens. run_fixup. hit_first.
    - fields. reflexivity.
    - fields. rewrite Hdate. reflexivity.
  Qed.

  Lemma shape_clock : parse_date_time CLOCK = Ok (VTime (T None)).
  Proof.
    clear - Hh1 Hh0 Hm1 Hm0 Hs1 Hs0 Hh Hm Hs.
    subst CLOCK T. tokens. run_fixup. hit_first.
    - fields. reflexivity.
    - fields. lia.
  Qed.

  Lemma shape_clock_plus_colon :
    parse_date_time (CLOCK ++ [43; 48 + zh1; 48 + zh0; 58; 48 + zm1; 48 + zm0]) = Ok (VTime (T (Some OFF))).
  Proof.
    clear - Hh1 Hh0 Hm1 Hm0 Hs1 Hs0 Hh Hm Hs Hzh1 Hzh0 Hzm1 Hzm0 Hzh Hzm.
    subst CLOCK T OFF. tokens. run_fixup. hit_first.
    - fields. reflexivity.
    - fields. lia.
  Qed.

  Lemma shape_clock_plus :
    parse_date_time (CLOCK ++ [43; 48 + zh1; 48 + zh0; 48 + zm1; 48 + zm0]) = Ok (VTime (T (Some OFF))).
  Proof.
    clear - Hh1 Hh0 Hm1 Hm0 Hs1 Hs0 Hh Hm Hs Hzh1 Hzh0 Hzm1 Hzm0 Hzh Hzm.
    subst CLOCK T OFF. tokens. run_fixup. hit_first.
    - fields. reflexivity.
    - fields. lia.
  Qed.

  Lemma shape_clock_minus_colon :
    parse_date_time (CLOCK ++ [45; 48 + zh1; 48 + zh0; 58; 48 + zm1; 48 + zm0]) = Ok (VTime (T (Some (- OFF)%Z))).
  Proof.
    clear - Hh1 Hh0 Hm1 Hm0 Hs1 Hs0 Hh Hm Hs Hzh1 Hzh0 Hzm1 Hzm0 Hzh Hzm.
    subst CLOCK T OFF. tokens. run_fixup. hit_first.
    - fields. reflexivity.
    - fields. lia.
  Qed.

  Lemma shape_clock_minus :
    parse_date_time (CLOCK ++ [45; 48 + zh1; 48 + zh0; 48 + zm1; 48 + zm0]) = Ok (VTime (T (Some (- OFF)%Z))).
  Proof.
    clear - Hh1 Hh0 Hm1 Hm0 Hs1 Hs0 Hh Hm Hs Hzh1 Hzh0 Hzm1 Hzm0 Hzh Hzm.
    subst CLOCK T OFF. tokens. run_fixup. hit_first.
    - fields. reflexivity.
    - fields. lia.
  Qed.

  Lemma shape_dt_T : parse_date_time (DATE ++ [84] ++ CLOCK) = Ok (VDateTime D (T None)).
  Proof.
    clear - Hy3 Hy2 Hy1 Hy0 Hmo1 Hmo0 Hd1 Hd0 Hdate Hh1 Hh0 Hm1 Hm0 Hs1 Hs0 Hh Hm Hs.
    subst DATE CLOCK D T. tokens. run_fixup. hit_first.
    - fields. reflexivity.
    - fields. rewrite Hdate. lia.
  Qed.

  Lemma shape_dt_blank : parse_date_time (DATE ++ [32] ++ CLOCK) = Ok (VDateTime D (T None)).
  Proof.
    clear - Hy3 Hy2 Hy1 Hy0 Hmo1 Hmo0 Hd1 Hd0 Hdate Hh1 Hh0 Hm1 Hm0 Hs1 Hs0 Hh Hm Hs.
    subst DATE CLOCK D T. tokens. run_fixup. hit_first.
    - fields. reflexivity.
    - fields. rewrite Hdate. lia.
  Qed.

  Lemma shape_dt_Z : parse_date_time (DATE ++ [84] ++ CLOCK ++ [90]) = Ok (VDateTime D (T (Some 0%Z))).
  Proof.
    clear - Hy3 Hy2 Hy1 Hy0 Hmo1 Hmo0 Hd1 Hd0 Hdate Hh1 Hh0 Hm1 Hm0 Hs1 Hs0 Hh Hm Hs.
    subst DATE CLOCK D T. tokens. run_fixup. hit_first.
    - fields. reflexivity.
    - fields. rewrite Hdate. lia.
  Qed.

  Lemma shape_dt_z : parse_date_time (DATE ++ [84] ++ CLOCK ++ [122]) = Ok (VDateTime D (T (Some 0%Z))).
  Proof.
    clear - Hy3 Hy2 Hy1 Hy0 Hmo1 Hmo0 Hd1 Hd0 Hdate Hh1 Hh0 Hm1 Hm0 Hs1 Hs0 Hh Hm Hs.
    subst DATE CLOCK D T. tokens. run_fixup. hit_first.
    - fields. reflexivity.
    - fields. rewrite Hdate. lia.
  Qed.

  Lemma shape_dt_plus_colon :
    parse_date_time (DATE ++ [84] ++ CLOCK ++ [43; 48 + zh1; 48 + zh0; 58; 48 + zm1; 48 + zm0])
    = Ok (VDateTime D (T (Some OFF))).
  Proof.
    clear - Hy3 Hy2 Hy1 Hy0 Hmo1 Hmo0 Hd1 Hd0 Hdate Hh1 Hh0 Hm1 Hm0 Hs1 Hs0 Hh Hm Hs Hzh1 Hzh0 Hzm1 Hzm0 Hzh Hzm.
    subst DATE CLOCK D T OFF. tokens. run_fixup. hit_first.
    - fields. reflexivity.
    - fields. rewrite Hdate. lia.
  Qed.

  Lemma shape_dt_plus :
    parse_date_time (DATE ++ [84] ++ CLOCK ++ [43; 48 + zh1; 48 + zh0; 48 + zm1; 48 + zm0])
    = Ok (VDateTime D (T (Some OFF))).
  Proof.
    clear - Hy3 Hy2 Hy1 Hy0 Hmo1 Hmo0 Hd1 Hd0 Hdate Hh1 Hh0 Hm1 Hm0 Hs1 Hs0 Hh Hm Hs Hzh1 Hzh0 Hzm1 Hzm0 Hzh Hzm.
    subst DATE CLOCK D T OFF. tokens. run_fixup. hit_first.
    - fields. reflexivity.
    - fields. rewrite Hdate. lia.
  Qed.

  Lemma shape_dt_minus_colon :
    parse_date_time (DATE ++ [84] ++ CLOCK ++ [45; 48 + zh1; 48 + zh0; 58; 48 + zm1; 48 + zm0])
    = Ok (VDateTime D (T (Some (- OFF)%Z))).
  Proof.
    clear - Hy3 Hy2 Hy1 Hy0 Hmo1 Hmo0 Hd1 Hd0 Hdate Hh1 Hh0 Hm1 Hm0 Hs1 Hs0 Hh Hm Hs Hzh1 Hzh0 Hzm1 Hzm0 Hzh Hzm.
    subst DATE CLOCK D T OFF. tokens. run_fixup. hit_first.
    - fields. reflexivity.
    - fields. rewrite Hdate. lia.
  Qed.

  Lemma shape_dt_minus :
    parse_date_time (DATE ++ [84] ++ CLOCK ++ [45; 48 + zh1; 48 + zh0; 48 + zm1; 48 + zm0])
    = Ok (VDateTime D (T (Some (- OFF)%Z))).
  Proof.
    clear - Hy3 Hy2 Hy1 Hy0 Hmo1 Hmo0 Hd1 Hd0 Hdate Hh1 Hh0 Hm1 Hm0 Hs1 Hs0 Hh Hm Hs Hzh1 Hzh0 Hzm1 Hzm0 Hzh Hzm.
    subst DATE CLOCK D T OFF. tokens. run_fixup. hit_first.
    - fields. reflexivity.
    - fields. rewrite Hdate. lia.
  Qed.
End Shapes.

(* ------------------------------------------------------------------ the theorem *)
(* every text of the grammar, for every data type name of the specification: the model's
   parse_date_time (over the generated matcher table) returns the denoted value *)
Theorem iso_in_parse ty text v : spec_iso_in ty text = Some v -> parse_date_time text = Ok v.
Proof.
  unfold spec_iso_in, iso_clock_val. destruct (iso_kind_of ty) as [[| |]|]; [| | |discriminate].
  - (* date *)
    destruct (iso_read_date text) as [[d r]|] eqn:E; [|discriminate].
    destruct r; [|discriminate]. intros [= <-].
    apply iso_read_date_inv in E
      as (y3 & y2 & y1 & y0 & mo1 & mo0 & d1 & d0 & (? & ? & ? & ?) & (? & ? & ? & ?) & -> & -> & Hv).
    rewrite app_nil_r. now apply shape_date.
  - (* time, time.tz *)
    destruct (iso_read_clock text) as [[[[h m] sec] z]|] eqn:E; [|discriminate].
    apply iso_read_clock_inv in E
      as (h1 & h0 & m1 & m0 & s1 & s0 & (? & ? & ?) & (? & ? & ?) & -> & -> & -> & -> & ? & ? & ?).
    destruct z as [|c z].
    + intros [= <-]. rewrite app_nil_r. now apply shape_clock.
    + destruct (iso_read_offset (c :: z)) as [off|] eqn:Eo; [|discriminate]. intros [= <-].
      apply iso_read_offset_inv in Eo
        as (sg & zh1 & zh0 & zm1 & zm0 & (? & ? & ? & ?) & Hz & ? & ? & Hsg).
      destruct Hz as [Hz|Hz]; rewrite Hz; destruct Hsg as [[-> ->]|[-> ->]].
      * now apply shape_clock_plus_colon.
      * now apply shape_clock_minus_colon.
      * now apply shape_clock_plus.
      * now apply shape_clock_minus.
  - (* dateTime, dateTime.tz *)
    destruct (iso_read_date text) as [[d r]|] eqn:E; [|discriminate].
    destruct r as [|sep r]; [discriminate|].
    destruct (iso_read_clock r) as [[[[h m] sec] z]|] eqn:Ec; [|discriminate].
    apply iso_read_date_inv in E
      as (y3 & y2 & y1 & y0 & mo1 & mo0 & d1 & d0 & (? & ? & ? & ?) & (? & ? & ? & ?) & -> & -> & Hv).
    apply iso_read_clock_inv in Ec
      as (h1 & h0 & m1 & m0 & s1 & s0 & (? & ? & ?) & (? & ? & ?) & -> & -> & -> & -> & ? & ? & ?).
    destruct (sep =? 84) eqn:E84.
    + apply N.eqb_eq in E84. subst sep. destruct z as [|c [|c2 z]].
      * intros [= <-]. rewrite app_nil_r. now apply shape_dt_T.
      * destruct ((c =? 90) || (c =? 122)) eqn:Ez; [|discriminate]. intros [= <-].
        apply orb_true_iff in Ez as [Ez|Ez]; apply N.eqb_eq in Ez; subst c.
        -- now apply shape_dt_Z.
        -- now apply shape_dt_z.
      * destruct (iso_read_offset (c :: c2 :: z)) as [off|] eqn:Eo; [|discriminate]. intros [= <-].
        apply iso_read_offset_inv in Eo
          as (sg & zh1 & zh0 & zm1 & zm0 & (? & ? & ? & ?) & Hz & ? & ? & Hsg).
        destruct Hz as [Hz|Hz]; rewrite Hz; destruct Hsg as [[-> ->]|[-> ->]].
        -- now apply shape_dt_plus_colon.
        -- now apply shape_dt_minus_colon.
        -- now apply shape_dt_plus.
        -- now apply shape_dt_minus.
    + destruct (sep =? 32) eqn:E32; [|discriminate]. apply N.eqb_eq in E32. subst sep.
      destruct z; [|discriminate]. intros [= <-]. rewrite app_nil_r. now apply shape_dt_blank.
Qed.

(* the rows of the generated type table that carry one of the specification's five names convert
   their input with parse_date_time (checked on the table generated from the current const.py) *)
Definition row_iso_ok (r : type_row) : bool :=
  match iso_kind_of (r_name r) with
  | Some _ => match r_in r with InDateTime => true | _ => false end
  | None => true
  end.
Lemma table_iso_ok : forallb row_iso_ok type_table = true.
Proof. vm_compute. reflexivity. Qed.

Theorem iso_spellings (float_of_str : pystr -> option fl) (lower_ext : N -> N) row text v :
  In row type_table -> spec_iso_in (r_name row) text = Some v ->
  apply_in float_of_str lower_ext (r_in row) text = Ok v.
Proof.
  intros Hin Hs. pose proof table_iso_ok as H. rewrite forallb_forall in H.
  specialize (H row Hin). unfold row_iso_ok in H.
  assert (Hk : iso_kind_of (r_name row) <> None).
  { intros E. unfold spec_iso_in in Hs. rewrite E in Hs. discriminate. }
  destruct (iso_kind_of (r_name row)); [|congruence].
  destruct (r_in row); try discriminate. cbn [apply_in]. now apply iso_in_parse with (ty := r_name row).
Qed.

(* all five names are rows of the generated table *)
Lemma iso_kind_row ty k :
  iso_kind_of ty = Some k -> exists row, find_row ty type_table = Some row /\ r_in row = InDateTime.
Proof.
  unfold iso_kind_of.
  repeat match goal with
         | |- context [str_eqb ty ?l] =>
             destruct (str_eqb_spec ty l) as [->|_]; [intros _; vm_compute; eexists; split; reflexivity|]
         end.
  discriminate.
Qed.

(* ------------------------------------------------------------------ clause 5 holds of the model *)
Lemma val_eqb_refl v : val_eqb v v = true.
Proof.
  assert (Hd : forall d, date_eqb d d = true).
  { intros d. unfold date_eqb. now rewrite !N.eqb_refl. }
  assert (Ht : forall t, time_eqb t t = true).
  { intros t. unfold time_eqb, otz_eqb. rewrite !N.eqb_refl. destruct (ttz t); [now rewrite Z.eqb_refl|reflexivity]. }
  destruct v; cbn [val_eqb].
  - apply Z.eqb_refl.
  - apply Bool.eqb_reflx.
  - destruct f; cbn [fl_eqb]; rewrite ?Z.eqb_refl; try reflexivity. apply Bool.eqb_reflx.
  - destruct (str_eqb_spec s s); congruence.
  - apply Hd.
  - apply Ht.
  - now rewrite Hd, Ht.
  - reflexivity.
Qed.

(* Run.c_iso_in (the clause the correspondence check evaluates on the implementation's observation)
   holds of the model's own observation, for every oracle and every input *)
Theorem iso_clause_holds o i : c_iso_in i (model_run o i) = true.
Proof.
  destruct i as [ty v|ty s j|ty v|ty st al hr mn mx ops]; try reflexivity.
  cbn [c_iso_in model_run]. destruct (spec_iso_in ty s) as [v|] eqn:E; [|reflexivity].
  assert (Hk : exists k, iso_kind_of ty = Some k).
  { unfold spec_iso_in in E. destruct (iso_kind_of ty) as [k|]; [now exists k|discriminate]. }
  destruct Hk as [k Hk]. apply iso_kind_row in Hk as (row & -> & Hin).
  unfold m_in. rewrite Hin. cbn [apply_in]. rewrite (iso_in_parse ty s v E). apply val_eqb_refl.
Qed.
