(* C08 — dates and times: parse_date_time (isoformat v) = v over the generated matcher table. *)
From Coq Require Import List Bool NArith ZArith Lia ZifyBool ZifyN.
From AUC Require Import Prelude.PyStr C08.TypesDef C08.Model C08.Spec Gen.Types Gen.DateMatchers.
Import ListNotations.
Local Open Scope N_scope.
Ltac Zify.zify_post_hook ::= Z.to_euclidean_division_equations.

Lemma is_digit_small k : k < 10 -> is_digit (48 + k) = true.
Proof. unfold is_digit. lia. Qed.

Lemma tokenize_app a b : tokenize (a ++ b) = tokenize a ++ tokenize b.
Proof. apply map_app. Qed.

Lemma tok_digit k : k < 10 -> (if is_digit (48 + k) then TDig (48 + k - 48) else TCh (48 + k)) = TDig k.
Proof. intros H. rewrite is_digit_small by exact H. f_equal. lia. Qed.

Lemma tokenize_pad2 n : n < 100 -> tokenize (pad2 n) = [TDig (n / 10); TDig (n mod 10)].
Proof. intros H. unfold tokenize, pad2. cbn [map]. rewrite !tok_digit by lia. reflexivity. Qed.

Lemma tokenize_pad4 y : y < 10000 ->
  tokenize (pad4 y) = [TDig (y / 1000); TDig ((y / 100) mod 10); TDig ((y / 10) mod 10); TDig (y mod 10)].
Proof. intros H. unfold tokenize, pad4. cbn [map]. rewrite !tok_digit by lia. reflexivity. Qed.

Lemma digits_val2 n : n < 100 -> digits_val [n / 10; n mod 10] = n.
Proof. intros H. unfold digits_val. cbn [fold_left]. lia. Qed.

Lemma digits_val4 y : y < 10000 ->
  digits_val [y / 1000; (y / 100) mod 10; (y / 10) mod 10; y mod 10] = y.
Proof. intros H. unfold digits_val. cbn [fold_left]. lia. Qed.

Lemma days_in_month_le y m : days_in_month y m <= 31.
Proof.
  unfold days_in_month. destruct (is_leap y);
  repeat (match goal with |- context [match ?x with _ => _ end] => destruct x end); lia.
Qed.

Definition no_match (ts : list tok) (m : matcher) : bool :=
  match re_match (m_re m) ts [] with None => true | Some _ => false end.

Lemma try_matchers_hit pre m post ts gs f :
  forallb (no_match ts) pre = true ->
  re_match (m_re m) ts [] = Some gs ->
  interpret (m_fmt m) gs fields0 = Some f ->
  fields_valid f = true ->
  try_matchers (pre ++ m :: post) ts = Ok (apply_post (m_post m) f).
Proof.
  intros Hpre Hm Hi Hv. induction pre as [|m0 pre IH]; cbn [app try_matchers].
  - now rewrite Hm, Hi, Hv.
  - cbn in Hpre. apply andb_true_iff in Hpre as [H0 Hr]. unfold no_match in H0.
    destruct (re_match (m_re m0) ts []); [discriminate|]. now apply IH.
Qed.

Definition dflt_matcher := mkMatcher [] [] PostNone.

(* select row k of the generated table; groups and fields are computed, premises checked by computation *)
Ltac hit k :=
  let pre := eval vm_compute in (firstn k matchers) in
  let post := eval vm_compute in (skipn (S k) matchers) in
  let m := eval vm_compute in (nth k matchers dflt_matcher) in
  replace matchers with (pre ++ m :: post) by (vm_compute; reflexivity);
  match goal with
  | |- try_matchers _ ?ts = _ =>
      let r := eval vm_compute in (re_match (m_re m) ts []) in
      match r with
      | Some ?gs =>
          let fo := eval cbv [interpret fields0 f_y f_mo f_d f_h f_mi f_s f_tz m_fmt] in
                      (interpret (m_fmt m) gs fields0) in
          match fo with
          | Some ?f =>
              rewrite (try_matchers_hit pre m post ts gs f);
              [ | vm_compute; reflexivity | vm_compute; reflexivity | reflexivity | ]
          end
      end
  end.

Ltac bounds :=
  repeat match goal with
         | H : _ && _ = true |- _ => apply andb_true_iff in H; destruct H
         | H : (_ <=? _) = true |- _ => apply N.leb_le in H
         | H : (_ <? _) = true |- _ => apply N.ltb_lt in H
         | H : (_ <? _)%Z = true |- _ => apply Z.ltb_lt in H
         end.

Theorem roundtrip_date d :
  date_in_domain d = true -> parse_date_time (iso_date d) = Ok (VDate d).
Proof.
  destruct d as [y m dd]. unfold date_in_domain. cbn [dy dm Model.dd]. intros Hd.
  assert (Hd' := Hd). unfold date_valid in Hd'. bounds.
  pose proof (days_in_month_le y m) as Hdim.
  unfold parse_date_time, iso_date. cbn [dy dm Model.dd].
  rewrite !tokenize_app, tokenize_pad4, !tokenize_pad2 by lia.
  change (tokenize [45]) with [TCh 45]. cbn [app].
  remember (y / 1000) as y3. remember ((y / 100) mod 10) as y2. remember ((y / 10) mod 10) as y1.
  remember (y mod 10) as y0. remember (m / 10) as m1. remember (m mod 10) as m0.
  remember (dd / 10) as d1. remember (dd mod 10) as d0.
  change (fixup [TDig y3; TDig y2; TDig y1; TDig y0; TCh 45; TDig m1; TDig m0; TCh 45; TDig d1; TDig d0])
    with [TDig y3; TDig y2; TDig y1; TDig y0; TCh 45; TDig m1; TDig m0; TCh 45; TDig d1; TDig d0].
  hit 0%nat.
  - cbn [apply_post m_post f_y f_mo f_d]. subst.
    rewrite digits_val4, !digits_val2 by lia. reflexivity.
  - unfold fields_valid. cbn [f_y f_mo f_d f_h f_mi f_s f_tz fields0 ftz_valid]. subst.
    rewrite digits_val4, !digits_val2 by lia. rewrite Hd. reflexivity.
Qed.

(* ------------------------------------------------------------------ generic tactics *)
Lemma tok_lit c : is_digit c = false -> (if is_digit c then TDig (c - 48) else TCh c) = TCh c.
Proof. intros ->. reflexivity. Qed.

Ltac tokenise :=
  unfold tokenize, pad2, pad4; rewrite ?map_app; cbn [map app];
  rewrite !tok_digit by lia;
  rewrite ?(tok_lit 58), ?(tok_lit 45), ?(tok_lit 43), ?(tok_lit 84) by reflexivity.

Ltac absdig :=
  repeat match goal with
         | |- context [TDig ?e] =>
             lazymatch e with
             | (_ / _) => idtac
             | (_ mod _) => idtac
             end;
             let x := fresh "dg" in remember e as x
         end.

Ltac run_fixup :=
  match goal with
  | |- context [fixup ?L] => let x := eval lazy in (fixup L) in change (fixup L) with x
  end.

Ltac close_fields :=
  unfold fields_valid;
  cbn [apply_post m_post f_y f_mo f_d f_h f_mi f_s f_tz fields0 ftz_valid ftz_offset];
  subst;
  rewrite ?digits_val4, ?digits_val2 by lia;
  try change (date_valid 1900 1 1) with true; cbn [andb].

Theorem roundtrip_time t :
  time_in_domain t = true -> parse_date_time (iso_time_spec TsSeconds t) = Ok (VTime t).
Proof.
  destruct t as [h mi s tz]. unfold time_in_domain. cbn [th tmi ts ttz]. intros Hd.
  assert (Hd' := Hd). bounds.
  unfold parse_date_time, iso_time_spec. cbn [th tmi ts ttz].
  destruct tz as [off|]; cbn [iso_offset].
  - unfold tz_valid in *. bounds.
    remember (Z.to_N (Z.abs off)) as a. assert (Ha : a < 1440) by lia.
    destruct (off <? 0)%Z eqn:Es.
    + tokenise. absdig. run_fixup. hit 4%nat.
          * close_fields. change (45 =? 45) with true. cbv iota.
        repeat f_equal. lia.
      * close_fields. lia.
    + tokenise. absdig. run_fixup. hit 4%nat.
          * close_fields. change (43 =? 45) with false. cbv iota.
        repeat f_equal. lia.
      * close_fields. lia.
  - rewrite app_nil_r. tokenise. absdig. run_fixup. hit 1%nat.
      + close_fields. reflexivity.
    + close_fields. lia.
Qed.

Theorem roundtrip_datetime d t :
  date_in_domain d = true -> time_in_domain t = true ->
  parse_date_time (iso_date d ++ [84] ++ iso_time_spec TsSeconds t) = Ok (VDateTime d t).
Proof.
  destruct d as [y m dd]. destruct t as [h mi s tz].
  unfold date_in_domain, time_in_domain. cbn [dy dm Model.dd th tmi ts ttz]. intros Hd Ht.
  assert (Hd' := Hd). assert (Ht' := Ht). unfold date_valid in Hd'. bounds.
  pose proof (days_in_month_le y m) as Hdim.
  unfold parse_date_time, iso_date, iso_time_spec. cbn [dy dm Model.dd th tmi ts ttz].
  destruct tz as [off|]; cbn [iso_offset].
  - unfold tz_valid in *. bounds.
    remember (Z.to_N (Z.abs off)) as a. assert (Ha : a < 1440) by lia.
    destruct (off <? 0)%Z eqn:Es.
    + tokenise. absdig. run_fixup. hit 8%nat.
          * close_fields. change (45 =? 45) with true. cbv iota.
        repeat f_equal. lia.
      * close_fields. rewrite Hd. lia.
    + tokenise. absdig. run_fixup. hit 8%nat.
          * close_fields. change (43 =? 45) with false. cbv iota.
        repeat f_equal. lia.
      * close_fields. rewrite Hd. lia.
  - rewrite app_nil_r. tokenise. absdig. run_fixup. hit 2%nat.
      + close_fields. reflexivity.
    + close_fields. rewrite Hd. lia.
Qed.
