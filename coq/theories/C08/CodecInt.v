(* C08 — integers: int(str(z)) = z for every z. *)
From Coq Require Import List Bool NArith ZArith Lia ZifyBool ZifyN Decimal DecimalZ DecimalPos.
From AUC Require Import Prelude.PyStr C08.TypesDef C08.Model.
Import ListNotations.
Local Open Scope N_scope.

Definition all_digits (s : pystr) : Prop := Forall (fun c => is_digit c = true) s.

Lemma render_uint_digits u : all_digits (render_uint u).
Proof. induction u; cbn; constructor; auto. Qed.

Lemma parse_render_uint u : parse_uint (render_uint u) = Some u.
Proof. induction u; cbn; rewrite ?IHu; reflexivity. Qed.

Lemma digit_not_space c : is_digit c = true -> is_space c = false.
Proof. unfold is_digit, is_space. lia. Qed.

Lemma lstrip_id s : Forall (fun c => is_space c = false) s -> lstrip s = s.
Proof. intros H. destruct H as [|c r Hc Hr]; cbn; [reflexivity | now rewrite Hc]. Qed.

Lemma strip_id s : Forall (fun c => is_space c = false) s -> strip s = s.
Proof.
  intros H. unfold strip. rewrite (lstrip_id s H).
  rewrite lstrip_id; [apply rev_involutive|]. apply Forall_rev. exact H.
Qed.

Lemma drop_underscores_digits s : all_digits s -> s <> [] ->
  forall b, drop_underscores b s = Some s.
Proof.
  induction 1 as [|c r Hc Hr IH]; intros Hne b; [congruence|]. cbn.
  assert (E : (c =? 95) = false).
  { unfold is_digit in Hc. apply andb_true_iff in Hc as [H1 H2]. apply N.leb_le in H1, H2.
    apply N.eqb_neq. lia. }
  rewrite E, Hc. destruct r as [|c' r'].
  - reflexivity.
  - rewrite IH by congruence. reflexivity.
Qed.

Lemma render_uint_nonnil u : u <> Nil -> render_uint u <> [].
Proof. destruct u; cbn; congruence. Qed.

Lemma split_sign_digit c r : is_digit c = true -> split_sign (c :: r) = (false, c :: r).
Proof.
  intros Hc. unfold is_digit in Hc. apply andb_true_iff in Hc as [H1 H2]. apply N.leb_le in H1, H2.
  assert (H : c = 48 \/ c = 49 \/ c = 50 \/ c = 51 \/ c = 52 \/ c = 53 \/ c = 54 \/ c = 55 \/
              c = 56 \/ c = 57) by lia.
  repeat (destruct H as [->|H]; [reflexivity|]). subst. reflexivity.
Qed.

Lemma int_of_str_render_pos u : u <> Nil -> int_of_str (render_uint u) = Ok (Z.of_int (Pos u)).
Proof.
  intros Hu. unfold int_of_str.
  pose proof (render_uint_digits u) as Hd. pose proof (render_uint_nonnil u Hu) as Hne.
  rewrite strip_id by (eapply Forall_impl; [|exact Hd]; intros; now apply digit_not_space).
  destruct (render_uint u) as [|c r] eqn:E; [congruence|].
  inversion Hd as [|? ? Hc Hr]; subst.
  rewrite (split_sign_digit c r Hc), Hc. cbn [negb].
  rewrite (drop_underscores_digits (c :: r)) by (try congruence; exact Hd).
  rewrite <- E, parse_render_uint. reflexivity.
Qed.

Lemma int_of_str_render_neg u : u <> Nil -> int_of_str (45 :: render_uint u) = Ok (Z.of_int (Neg u)).
Proof.
  intros Hu. unfold int_of_str.
  pose proof (render_uint_digits u) as Hd. pose proof (render_uint_nonnil u Hu) as Hne.
  rewrite strip_id.
  2:{ constructor; [reflexivity|]. eapply Forall_impl; [|exact Hd]. intros; now apply digit_not_space. }
  cbn [split_sign].
  destruct (render_uint u) as [|c r] eqn:E; [congruence|].
  inversion Hd as [|? ? Hc Hr]; subst. rewrite Hc. cbn [negb].
  rewrite (drop_underscores_digits (c :: r)) by (try congruence; exact Hd).
  rewrite <- E, parse_render_uint. reflexivity.
Qed.

Theorem int_roundtrip z : int_of_str (str_of_int z) = Ok z.
Proof.
  unfold str_of_int. rewrite <- (DecimalZ.of_to z) at 2.
  destruct z as [|p|p]; cbn [Z.to_int render_int].
  - reflexivity.
  - apply int_of_str_render_pos. apply Unsigned.to_uint_nonnil.
  - apply int_of_str_render_neg. apply Unsigned.to_uint_nonnil.
Qed.
