(* C08 — vocabulary of the tables generated from const.py / utils.py (Gen/Types.v, Gen/DateMatchers.v). *)
From Coq Require Import List NArith.
From AUC Require Import Prelude.PyStr.
Import ListNotations.

Inductive pytype := TInt | TFloat | TStr | TBool | TDate | TDateTime | TTime.

Inductive in_coercer :=
| InInt | InFloat | InStr | InDateTime
| InBoolLowerIn (lits : list pystr).        (* lambda s: s.lower() in [lits] *)

Inductive out_coercer :=
| OutStr
| OutBool (t f : pystr)                      (* lambda b: t if b else f *)
| OutIso (args : list pystr).                (* lambda x: x.isoformat(args...) *)

Record type_row := mkRow {
  r_name : pystr; r_type : pytype; r_in : in_coercer; r_out : out_coercer; r_tz : bool }.

(* the regular-expression fragment of utils.py:_UNCOMPILED_MATCHERS (always anchored by $) *)
Inductive re_item := RDigits (n : nat) | RLit (c : N) | RClass (cs : list N).
(* strptime format *)
Inductive fmt_item := FYear | FMonth | FDay | FHour | FMinute | FSecond | FTz | FLit (c : N).
Inductive post := PostNone | PostDate | PostTime | PostTimetz | PostReplaceUTC.
Record matcher := mkMatcher { m_re : list re_item; m_fmt : list fmt_item; m_post : post }.
