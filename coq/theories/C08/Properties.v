(* C08 — UPnP data types: lossless round trip and exact validation.  Property theorems only. *)
From Coq Require Import List Bool NArith ZArith.
From AUC Require Import Prelude.PyStr C08.TypesDef C08.Model C08.Spec C08.CodecInt C08.CodecDate
  C08.Codec C08.Run C08.IsoIn Gen.Types Gen.DateMatchers.
Import ListNotations.
Local Open Scope N_scope.

(* For every row of STATE_VARIABLE_TYPE_MAPPING as generated from the current const.py (26 type
   names), and every value of the row's Python type (all integers; both booleans; all strings; all
   floats but nan, under the stated premise on CPython's float repr/parse; all dates 0001..9999;
   all times / date-times at whole seconds, naive or with an offset of whole minutes inside one
   day): the out-coercer produces a wire string, the in-coercer (incl. utils.parse_date_time over
   the generated matcher table) maps it back to the same value, and the wire string is the
   normative one: "1"/"0", decimal, ISO 8601. *)
Theorem C08_roundtrip :
  forall (float_str : fl -> pystr) (float_of_str : pystr -> option fl) (lower_ext : N -> N),
    (forall f, f <> FNan -> float_of_str (float_str f) = Some f) ->
    forall row v,
      In row type_table -> value_in_domain (r_type row) v = true ->
      exists w, apply_out float_str (r_out row) v = Ok w /\
                apply_in float_of_str lower_ext (r_in row) w = Ok v /\
                (forall w', wire_spec v = Some w' -> w = w').
Proof. exact roundtrip. Qed.
Print Assumptions C08_roundtrip.

(* Decimal integers: int(str(z)) = z for every integer, of any size. *)
Theorem C08_int_roundtrip : forall z : Z, int_of_str (str_of_int z) = Ok z.
Proof. exact int_roundtrip. Qed.
Print Assumptions C08_int_roundtrip.

(* A text that cannot be converted only ever raises ValueError (never IndexError etc.), for every
   in-coercer and every text. *)
Theorem C08_coercion_errors :
  forall float_of_str lower_ext i s e,
    apply_in float_of_str lower_ext i s = Raise e -> e = ValueError.
Proof. exact coercion_errors. Qed.
Print Assumptions C08_coercion_errors.

(* Strict mode: the schema accepts exactly the values that have the declared Python type, carry a
   timezone where demanded, belong to the allowed list and lie within the range. *)
Theorem C08_accepts_iff : forall d v, validate d v = spec_accepts d v.
Proof. exact accepts_iff. Qed.
Print Assumptions C08_accepts_iff.

(* A rejected value never becomes the variable's value (the old one stays) ... *)
Theorem C08_rejected_not_stored :
  forall d s v, spec_accepts d v = false -> set_value d s v = (s, Raise UpnpValueError).
Proof. exact rejected_not_stored. Qed.
Print Assumptions C08_rejected_not_stored.

(* ... an accepted one does ... *)
Theorem C08_accepted_stored :
  forall d s v, spec_accepts d v = true -> set_value d s v = (SVal v, Ok tt).
Proof. exact accepted_stored. Qed.
Print Assumptions C08_accepted_stored.

(* ... and through the wire setter: convertible+valid is stored, convertible+invalid is refused and
   leaves the old value, unconvertible reads back as absent without raising. *)
Theorem C08_wire_setter :
  forall float_of_str lower_ext d s w,
    match apply_in float_of_str lower_ext (r_in (d_row d)) w with
    | Ok v => if spec_accepts d v
              then set_upnp_value float_of_str lower_ext d s w = (SVal v, Ok tt)
              else set_upnp_value float_of_str lower_ext d s w = (s, Raise UpnpValueError)
    | Raise _ =>
        exists s', set_upnp_value float_of_str lower_ext d s w = (s', Ok tt) /\ read_value s' = VNone
    end.
Proof. exact wire_setter. Qed.
Print Assumptions C08_wire_setter.

(* Input spellings.  For every row of the generated type table and EVERY text: if the specification's
   own ISO 8601 grammar (Spec.spec_iso_in: written without the generated matcher table and without the
   model's parse_date_time; YYYY-MM-DD for all dates 0001-01-01..9999-12-31 incl. leap days, hh:mm:ss,
   "T" or one blank, no zone / Z / z / +hh:mm / -hh:mm / +hhmm / -hhmm up to 23:59) reads the text for
   that row's type name as the value v, then the row's in-coercer (parse_date_time over the matcher
   table generated from the current utils.py, including the colon fix-up) returns exactly v. *)
Theorem C08_iso_spellings :
  forall (float_of_str : pystr -> option fl) (lower_ext : N -> N) row text v,
    In row type_table -> spec_iso_in (r_name row) text = Some v ->
    apply_in float_of_str lower_ext (r_in row) text = Ok v.
Proof. exact iso_spellings. Qed.
Print Assumptions C08_iso_spellings.

(* Clause 5 of the correspondence check (Run.c_iso_in, evaluated there on the implementation's
   observation) holds of the model's observation, for every oracle and every input whatsoever. *)
Theorem C08_iso_clause_holds : forall o i, c_iso_in i (model_run o i) = true.
Proof. exact iso_clause_holds. Qed.
Print Assumptions C08_iso_clause_holds.

(* Non-vacuity: the table has 26 rows; the domains are inhabited at their boundaries. *)
Example C08_table_size : length type_table = 26%nat.
Proof. reflexivity. Qed.
Example C08_domain_inhabited :
  value_in_domain TDateTime
    (VDateTime {| dy := 2024; dm := 2; dd := 29 |} {| th := 23; tmi := 59; ts := 59; ttz := Some (-1439)%Z |}) = true
  /\ value_in_domain TDate (VDate {| dy := 1; dm := 1; dd := 1 |}) = true
  /\ value_in_domain TDate (VDate {| dy := 9999; dm := 12; dd := 31 |}) = true
  /\ value_in_domain TDate (VDate {| dy := 2023; dm := 2; dd := 29 |}) = false
  /\ parse_date_time [50;48;50;52;45;48;50;45;50;57;84;50;51;58;53;57;58;53;57;45;50;51;58;53;57]
     = Ok (VDateTime {| dy := 2024; dm := 2; dd := 29 |} {| th := 23; tmi := 59; ts := 59; ttz := Some (-1439)%Z |}).
Proof. vm_compute. repeat split; reflexivity. Qed.

(* the ISO 8601 grammar is inhabited at its boundaries (first/last day, leap days, every zone
   notation, the largest offsets), says nothing just outside them, and its five type names are rows
   of the generated table *)
Example C08_iso_grammar_inhabited :
  spec_iso_in [100;97;116;101;84;105;109;101;46;116;122] [48;48;48;49;45;48;49;45;48;49;84;48;48;58;48;48;58;48;48;90]
    = Some (VDateTime {| dy := 1; dm := 1; dd := 1 |} {| th := 0; tmi := 0; ts := 0; ttz := Some 0%Z |})
  /\ spec_iso_in [100;97;116;101;84;105;109;101;46;116;122] [57;57;57;57;45;49;50;45;51;49;84;50;51;58;53;57;58;53;57;43;50;51;58;53;57]
    = Some (VDateTime {| dy := 9999; dm := 12; dd := 31 |} {| th := 23; tmi := 59; ts := 59; ttz := Some 1439%Z |})
  /\ spec_iso_in [100;97;116;101;84;105;109;101] [57;57;57;57;45;49;50;45;51;49;84;50;51;58;53;57;58;53;57;45;50;51;53;57]
    = Some (VDateTime {| dy := 9999; dm := 12; dd := 31 |} {| th := 23; tmi := 59; ts := 59; ttz := Some (-1439)%Z |})
  /\ spec_iso_in [100;97;116;101;84;105;109;101] [48;48;48;49;45;48;49;45;48;49;32;48;48;58;48;48;58;48;48]
    = Some (VDateTime {| dy := 1; dm := 1; dd := 1 |} {| th := 0; tmi := 0; ts := 0; ttz := None |})
  /\ spec_iso_in [100;97;116;101;84;105;109;101;46;116;122] [50;48;48;48;45;48;50;45;50;57;84;49;50;58;48;48;58;48;48;122]
    = Some (VDateTime {| dy := 2000; dm := 2; dd := 29 |} {| th := 12; tmi := 0; ts := 0; ttz := Some 0%Z |})
  /\ spec_iso_in [116;105;109;101;46;116;122] [50;51;58;53;57;58;53;57;45;48;48;58;48;49]
    = Some (VTime {| th := 23; tmi := 59; ts := 59; ttz := Some (-1)%Z |})
  /\ spec_iso_in [116;105;109;101] [48;48;58;48;48;58;48;48] = Some (VTime {| th := 0; tmi := 0; ts := 0; ttz := None |})
  /\ spec_iso_in [100;97;116;101] [50;48;50;52;45;48;50;45;50;57] = Some (VDate {| dy := 2024; dm := 2; dd := 29 |})
  /\ spec_iso_in [100;97;116;101] [49;57;48;48;45;48;50;45;50;57] = None
  /\ spec_iso_in [100;97;116;101] [48;48;48;48;45;48;49;45;48;49] = None
  /\ spec_iso_in [100;97;116;101;84;105;109;101;46;116;122] [57;57;57;57;45;49;50;45;51;49;84;50;51;58;53;57;58;53;57;43;50;52;58;48;48] = None
  /\ spec_iso_in [100;97;116;101;84;105;109;101;46;116;122] [50;48;50;48;45;48;49;45;48;50;84;48;51;58;48;52;58;48;53;45;48;48;58;48;48] = None
  /\ spec_iso_in [100;97;116;101;84;105;109;101;46;116;122] [50;48;50;48;45;48;49;45;48;50;84;50;52;58;48;48;58;48;48;90] = None
  /\ forallb (fun n => match find_row n type_table with Some _ => true | None => false end)
       [[100;97;116;101]; [116;105;109;101]; [116;105;109;101;46;116;122]; [100;97;116;101;84;105;109;101]; [100;97;116;101;84;105;109;101;46;116;122]] = true.
Proof. vm_compute. repeat split; reflexivity. Qed.
