(* C03 — reading a header map built from a decoded item list: the model's lookups (through the C16
   body) agree with the specification's case-insensitive reading of the items. *)
From Coq Require Import List Bool NArith ZArith Lia.
From AUC Require Import Prelude.PyStr Prelude.PyDict C16.Model C16.Spec C16.Proofs C03.Model C03.Spec Gen.Ssdp.
Import ListNotations.

Local Notation KS := str_eqb_spec.

Definition items_ok (items : list (pystr * hval)) : Prop :=
  nodupb str_eqb (map (fun kv => lower (fst kv)) items) = true.

Lemma items_ok_dict items : items_ok items -> is_dict str_eqb items = true.
Proof.
  unfold items_ok, is_dict. intros H. apply (nodupb_NoDup str_eqb KS) in H.
  apply (NoDup_nodupb str_eqb KS). rewrite <- map_map in H. now apply NoDup_map_inv in H.
Qed.

Lemma mk_hdrs_ok items : items_ok items ->
  Inv str_eqb lower (mk_hdrs items) /\ forall lk, hget (mk_hdrs items) lk = item_get items lk.
Proof.
  intros H. destruct (init_ok str_eqb KS lower items (items_ok_dict _ H)) as [b [Eb [Hi Hl]]].
  unfold mk_hdrs. rewrite Eb. split; [exact Hi|]. intros lk.
  unfold hget, b_get_lower, item_get. specialize (Hl lk). unfold blookup, plookup in Hl.
  rewrite (dlast_map_val str_eqb (fun kv : pystr * hval => lower (fst kv)) (@snd pystr hval)).
  unfold LW in Hl. rewrite <- Hl.
  destruct (dget str_eqb (bcmap b) lk) as [k|]; [|reflexivity].
  destruct (dget str_eqb (bdata b) k); reflexivity.
Qed.

Lemma lower_k_source : lower k_source = k_source.
Proof. reflexivity. Qed.

Lemma with_source_get h src lk : Inv str_eqb lower h ->
  Inv str_eqb lower (with_source h src) /\
  hget (with_source h src) lk = if str_eqb k_source lk then Some (HStr src) else hget h lk.
Proof.
  intros Hi. destruct (set_ok KS k_source (HStr src) Hi) as [b' [Eb [Hi' Hl]]].
  unfold with_source. rewrite Eb. split; [exact Hi'|].
  unfold hget, b_get_lower. specialize (Hl lk). rewrite lower_k_source in Hl.
  unfold blookup, plookup in Hl.
  destruct (str_eqb k_source lk).
  - destruct (dget str_eqb (bcmap b') lk) as [k|]; [|discriminate].
    destruct (dget str_eqb (bdata b') k); [|discriminate]. now inversion Hl.
  - destruct (dget str_eqb (bcmap b') lk) as [k|], (dget str_eqb (bcmap h) lk) as [k0|];
      repeat match goal with
             | H : context [match dget str_eqb ?d ?k with _ => _ end] |- _ => destruct (dget str_eqb d k)
             end; try congruence; try reflexivity; inversion Hl; reflexivity.
Qed.

(* the keys the tracker reads from a message: the sent (non-underscore) headers plus _udn and _timestamp.
   The decoder's other bookkeeping keys (_host, _port, _remote_addr, _local_addr, _location_original, _source)
   are never consulted by the device tracker's decisions. *)
Definition tracker_reads (lk : pystr) : bool :=
  negb (is_meta lk) || str_eqb lk k_udn || str_eqb lk k_timestamp.

Lemma tracker_reads_not_source lk : tracker_reads lk = true -> str_eqb k_source lk = false.
Proof.
  intros H. destruct (str_eqb_spec k_source lk) as [<-|]; [|reflexivity]. vm_compute in H. discriminate.
Qed.

(* the message as the tracker sees it: every key it reads is as in the items *)
Definition reads_as (h : hdrs) (items : list (pystr * hval)) : Prop :=
  forall lk, tracker_reads lk = true -> hget h lk = item_get items lk.

Lemma sourced_reads items src : items_ok items ->
  Inv str_eqb lower (with_source (mk_hdrs items) src) /\ reads_as (with_source (mk_hdrs items) src) items.
Proof.
  intros H. destruct (mk_hdrs_ok _ H) as [Hi Hg].
  split; [apply (with_source_get _ src k_source Hi)|].
  intros lk Hne. apply tracker_reads_not_source in Hne.
  destruct (with_source_get _ src lk Hi) as [_ E]. rewrite E, Hne. apply Hg.
Qed.

Lemma reads_hstr h items lk : reads_as h items -> tracker_reads lk = true ->
  hstr h lk = item_str items lk.
Proof. intros R Hne. unfold hstr, item_str. now rewrite (R lk Hne). Qed.

Lemma udn_nonempty usn u : udn_from_usn usn = Some u -> u <> [].
Proof.
  unfold udn_from_usn. destruct (starts_with s_uuid _) eqn:E; [|discriminate].
  intros H; inversion H; subst. destruct usn as [|c r]; [discriminate E|].
  cbn [before_sep]. destruct (starts_with [58; 58]%N (c :: r)) eqn:E2; [|discriminate].
  exfalso. cbn [starts_with] in E2. apply andb_true_iff in E2 as [E2 _]. apply N.eqb_eq in E2. subst c.
  unfold s_uuid, lower_with in E. cbn [firstn map starts_with] in E.
  apply andb_true_iff in E as [E _]. vm_compute in E. discriminate.
Qed.
