(* C03 — Known devices live exactly as long as max-age and byebye allow.  Property theorems only. *)
From Coq Require Import List Bool NArith ZArith.
From AUC Require Import Prelude.PyStr Prelude.PyDict C16.Model C03.Model C03.Spec C03.Inv C03.StepChar
  C03.Clauses C03.Run Gen.Ssdp.
Import ListNotations.
Local Open Scope N_scope.

(* For every history of search responses, advertisements (alive / update / byebye / anything else),
   M-SEARCH echoes and explicit purges, with arbitrary (not necessarily monotone) time stamps, any
   number of devices, types, locations and CACHE-CONTROL texts, and whatever ip_version_from_location
   answers: after every operation (1) every device whose latest valid sighting is still within its
   max-age (900 s by default) and that has not said byebye since is present with a location,
   (2) after a valid sighting or a purge at time t no device whose validity ended before t remains,
   (3) a byebye removes the named device and only it, at once, (4) a message that is not a valid
   sighting (no uuid USN, no type, no good location) never creates or refreshes a device, and
   (5) a sighted device is valid until timestamp + max-age. *)
Theorem C03_spec_holds : forall i : input, dom i = true -> spec_failures i (model_run i) = [].
Proof. exact spec_holds. Qed.
Print Assumptions C03_spec_holds.

(* What the correspondence check evaluates: the same clauses on the longest in-domain prefix of ANY history (a message
   outside the reading switches the clauses off only from that message on); no hypothesis on the input. *)
Theorem C03_spec_holds_prefix : forall i : input, spec_failures_prefix i (model_run i) = [].
Proof. exact spec_holds_prefix. Qed.
Print Assumptions C03_spec_holds_prefix.

(* The tracker's bookkeeping invariant (distinct device names; the purge watermark is a lower bound
   of every validity; every device keeps the location of its latest sighting) holds in every
   reachable state. *)
Theorem C03_invariant :
  forall (ipver : pystr -> option N) (th : pystr) (t : tracker) (o : op),
    Inv t -> Inv (fst (fst (step ipver th t o))).
Proof. exact step_Inv. Qed.
Print Assumptions C03_invariant.

(* What one operation does to the device map, in the vocabulary of the statement. *)
Theorem C03_step_effect :
  forall (ipver : pystr -> option N) (t : tracker) (o : op),
    Inv t -> op_in_domain o = true -> step_effect t (fst (fst (step ipver [] t o))) o.
Proof. exact step_char. Qed.
Print Assumptions C03_step_effect.

(* Non-vacuity: a history inside the domain in which a device is created, a second one expires
   (max-age=1, purged by the next sighting three seconds later) and the first says byebye. *)
Definition ex_items (udn : pystr) (nts : option pystr) (cc : option pystr) (t : Z) : list (pystr * hval) :=
  [([85;83;78], HStr (udn ++ [58;58;120])); ([76;79;67;65;84;73;79;78], HStr [104;116;116;112;58;47;47;49;46;50;46;51;46;52;47;100]);
   (k_udn, HStr udn); (k_timestamp, HTime t)]%N ++
  match nts with Some s => [([78;84], HStr [120]); ([78;84;83], HStr s)] | None => [([83;84], HStr [120])] end ++
  match cc with Some c => [([67;65;67;72;69;45;67;79;78;84;82;79;76], HStr c)] | None => [] end.
Definition ex_u1 : pystr := [117;117;105;100;58;97]%N.
Definition ex_u2 : pystr := [117;117;105;100;58;98]%N.
Definition ex_history : list op :=
  [Srch (ex_items ex_u1 None None (TS 0));
   Srch (ex_items ex_u2 None (Some [109;97;120;45;97;103;101;61;49]%N) (TS 1));
   Adv (ex_items ex_u1 (Some nts_alive) None (TS 4));
   Adv (ex_items ex_u1 (Some nts_byebye) None (TS 5))].
Example C03_domain_inhabited :
  dom ([], [], ex_history) = true /\
  map (fun ob => map (fun d => fst (fst d)) (o_devs ob)) (model_run ([], [], ex_history)) =
    [[ex_u1]; [ex_u1; ex_u2]; [ex_u1]; []].
Proof. vm_compute. split; reflexivity. Qed.
