(* C03 — instantiation used by the correspondence check (shared with C04). *)
From Coq Require Import List Bool NArith ZArith.
From AUC Require Export Prelude.PyStr Prelude.PyDict C16.Model C16.Spec C03.Model C03.Spec Gen.Ssdp.
Import ListNotations.
Local Open Scope N_scope.

(* (target host of the search listener, recorded answers of ip_version_from_location, history) *)
Definition input := (pystr * list (pystr * option N) * list op)%type.
Definition observation := list obs.

(* whole-second time stamps relative to the harness clock's base 2020-01-01T12:00:00 *)
Definition TS (n : Z) : Z := (63713476800000000 + n * 1000000)%Z.

Definition ipver_of (tab : list (pystr * option N)) (loc : pystr) : option N :=
  match find (fun p => str_eqb (fst p) loc) tab with Some p => snd p | None => None end.

Definition source_code (s : source) : N :=
  match s with SearchChanged => 0 | SearchAlive => 1 | AdvAlive => 2 | AdvByebye => 3 | AdvUpdate => 4 end.

Definition lower_items_of (h : hdrs) : list (pystr * hval) :=
  filter (fun kv => negb (str_eqb (fst kv) k_source)) (b_as_lower str_eqb lower h).

Definition obs_of (t : tracker) (n : option notification) (d : option device) : obs :=
  {| o_note := match n with Some (u, ty, s) => Some (u, ty, source_code s) | None => None end;
     o_combined := match n, d with
                   | Some (_, ty, _), Some dev =>
                       match combined_headers dev ty with Some h => lower_items_of h | None => [] end
                   | _, _ => []
                   end;
     o_devs := map (fun e => (fst e, d_valid_to (snd e), d_locs (snd e))) (devices t);
     o_next := next_valid_to t |}.

Fixpoint run_from (th : pystr) (ipv : pystr -> option N) (t : tracker) (ops : list op) : observation :=
  match ops with
  | [] => []
  | o :: r => let '(t', n, d) := step ipv th t o in obs_of t' n d :: run_from th ipv t' r
  end.
Definition model_run (i : input) : observation :=
  let '(th, tab, ops) := i in run_from th (ipver_of tab) tracker0 ops.

(* ---- comparison (orders of the device map and of header maps are not observable) ---- *)
Definition kv_eqb (a b : pystr * hval) : bool := str_eqb (fst a) (fst b) && hval_eqb (snd a) (snd b).
Definition oz_eqb (a b : option Z) : bool :=
  match a, b with Some x, Some y => (x =? y)%Z | None, None => true | _, _ => false end.
Definition note_eqb (a b : option (pystr * pystr * N)) : bool :=
  match a, b with
  | Some (u1, t1, s1), Some (u2, t2, s2) => str_eqb u1 u2 && str_eqb t1 t2 && (s1 =? s2)
  | None, None => true
  | _, _ => false
  end.
Definition obs_eqb (a b : obs) : bool :=
  note_eqb (o_note a) (o_note b) && perm_eqb kv_eqb (o_combined a) (o_combined b) &&
  perm_eqb dev_eqb (o_devs a) (o_devs b) && oz_eqb (o_next a) (o_next b).

Fixpoint first_diff (n : N) (a b : observation) : option N :=
  match a, b with
  | [], [] => None
  | x :: a', y :: b' => if obs_eqb x y then first_diff (N.succ n) a' b' else Some n
  | _, _ => Some n
  end.

(* ---- the C03 clauses over a whole history; returns (clause, step) of the first failure of each ---- *)
Definition obs0 : obs := {| o_note := None; o_combined := []; o_devs := []; o_next := None |}.

Fixpoint clauses_from (n : N) (due : list (pystr * Z)) (prev : obs) (ops : list op) (obs_l : observation)
  : list (N * N) :=
  match ops, obs_l with
  | o :: ops', ob :: obs' =>
      let due' := step_due due o in
      (if c_presence due' ob then [] else [(1, n)]) ++
      (if c_purged o ob then [] else [(2, n)]) ++
      (if c_byebye o prev ob then [] else [(3, n)]) ++
      (if c_inert o prev ob then [] else [(4, n)]) ++
      (if c_valid_to o ob then [] else [(5, n)]) ++
      clauses_from (N.succ n) due' ob ops' obs'
  | [], [] => []
  | _, _ => [(1, n)]
  end.
Definition spec_failures (i : input) (obs_l : observation) : list (N * N) :=
  let '(_, _, ops) := i in clauses_from 0 [] obs0 ops obs_l.
Definition dom (i : input) : bool :=
  let '(th, _, ops) := i in match th with [] => in_domain ops | _ => false end.

(* The clauses are evaluated on the longest prefix of the history that lies inside the domain (one message outside
   the reading must not switch the clauses off for the messages before it). *)
Fixpoint dom_prefix (ops : list op) : list op :=
  match ops with
  | [] => []
  | o :: r => if op_in_domain o then o :: dom_prefix r else []
  end.
Definition spec_failures_prefix (i : input) (obs_l : observation) : list (N * N) :=
  let '(th, _, ops) := i in
  match th with
  | [] => let p := dom_prefix ops in clauses_from 0 [] obs0 p (firstn (length p) obs_l)
  | _ => []
  end.

Fixpoint report (base : N) (cases : list (input * observation)) : list (N * N * N) :=
  match cases with
  | [] => []
  | (i, o) :: r =>
      (match first_diff 0 (model_run i) o with Some p => [(base, 0, p)] | None => [] end) ++
      map (fun e => (base, fst e, snd e)) (spec_failures_prefix i o) ++
      report (N.succ base) r
  end.

Definition replay (c : input * observation) :=
  (model_run (fst c), dom (fst c), spec_failures_prefix (fst c) (snd c)).
